//! C11 – `vectortiles_update_properties` changes nothing but the property sets of the named layer;
//! PBF primitives and `VectorTile::from_blob/to_blob` round trips.
//!
//! streams (first token of the case line):
//!  * `C11p <op> <arg>`  varint / svarint / pbf key / utf-8 primitives on the real reader / writer
//!  * `C11d <tilehex>`   real `from_blob` → `to_blob`; answer `ok <hex> <sem dump by the independent decoder>`
//!  * `C11u <flags> <layer> <idTiles> <idData> <header> <rows> <fmt> <tilehex>` the real operation built from
//!    VPL through `PipelineFactory` over an in-memory source and a CSV file written under `args.out`
//! The direct oracle compares the independent decoder's reading of the output with the expectation
//! computed from the generated structures (never from the model, never with /repo's decoder).
use crate::common::*;
use crate::indep_mvt::*;
use anyhow::Result;
use async_trait::async_trait;
use futures::future::BoxFuture;
use serde_json::json;
use std::collections::{BTreeMap, HashMap};
use std::path::Path;
use std::sync::{Arc, Mutex};
use versatiles_core::io::{ValueReader, ValueReaderSlice, ValueWriter, ValueWriterBlob};
use versatiles_core::tilejson::TileJSON;
use versatiles_core::types::*;
use versatiles_geometry::vector_tile::VectorTile;
use versatiles_pipeline::{OperationTrait, PipelineFactory};

// ------------------------------------------------------------------ in-memory tile source

#[derive(Clone, Debug)]
pub struct SourceSpec {
	/// tiles by (z, x, y), already compressed with `compression`
	pub tiles: HashMap<(u8, u32, u32), Vec<u8>>,
	pub compression: TileCompression,
	/// how often the stream future of this source returns `Pending` (`tokio::task::yield_now`) before it
	/// delivers its tiles – lets an earlier source finish later than a later one
	pub yields: u32,
	/// coordinates whose lookup fails (an IO error after the source was opened); the source's own stream leaves
	/// them out, as the default `get_bbox_tile_stream` of a reader does
	pub fail: Vec<(u8, u32, u32)>,
	/// declared tile format (PBF unless a case wants a non-vector source)
	pub format: TileFormat,
	/// declared coverage (`None` = everything up to zoom 31)
	pub pyramid: Option<TileBBoxPyramid>,
}

#[derive(Debug)]
pub struct MemSource {
	spec: SourceSpec,
	parameters: TilesReaderParameters,
	tilejson: TileJSON,
}

#[async_trait]
impl TilesReaderTrait for MemSource {
	fn get_source_name(&self) -> &str {
		"mem"
	}
	fn get_container_name(&self) -> &str {
		"mem"
	}
	fn get_parameters(&self) -> &TilesReaderParameters {
		&self.parameters
	}
	fn override_compression(&mut self, _c: TileCompression) {}
	fn get_tilejson(&self) -> &TileJSON {
		&self.tilejson
	}
	async fn get_tile_data(&self, coord: &TileCoord3) -> Result<Option<Blob>> {
		if self.spec.fail.contains(&(coord.z, coord.x, coord.y)) {
			anyhow::bail!("injected read error")
		}
		Ok(self.spec.tiles.get(&(coord.z, coord.x, coord.y)).map(|v| Blob::from(v.clone())))
	}
	async fn get_bbox_tile_stream(&self, bbox: TileBBox) -> TileStream {
		// suspend a seeded number of times (like a source doing async IO), then deliver the tiles of the box
		for _ in 0..self.spec.yields {
			tokio::task::yield_now().await;
		}
		let mut v = vec![];
		for coord in bbox.iter_coords() {
			if self.spec.fail.contains(&(coord.z, coord.x, coord.y)) {
				continue;
			}
			if let Some(b) = self.spec.tiles.get(&(coord.z, coord.x, coord.y)) {
				v.push((coord, Blob::from(b.clone())));
			}
		}
		TileStream::from_vec(v)
	}
}

pub type Sources = Arc<Mutex<HashMap<String, SourceSpec>>>;

/// a factory whose `from_container filename=<name>` opens the in-memory source `<name>`
pub fn make_factory(dir: &Path, sources: Sources) -> PipelineFactory {
	PipelineFactory::default(
		dir,
		Box::new(move |filename: String| -> BoxFuture<'static, Result<Box<dyn TilesReaderTrait>>> {
			let sources = sources.clone();
			Box::pin(async move {
				let name = Path::new(&filename).file_name().unwrap().to_string_lossy().to_string();
				let spec = sources.lock().unwrap().get(&name).cloned().ok_or_else(|| anyhow::anyhow!("no source {name}"))?;
				Ok(Box::new(MemSource {
					spec: spec.clone(),
					parameters: TilesReaderParameters::new(spec.format, spec.compression, spec.pyramid.clone().unwrap_or_else(|| TileBBoxPyramid::new_full(31))),
					tilejson: TileJSON::default(),
				}) as Box<dyn TilesReaderTrait>)
			})
		}),
	)
}

pub fn runtime() -> tokio::runtime::Runtime {
	tokio::runtime::Builder::new_multi_thread().worker_threads(2).enable_all().build().unwrap()
}

// ------------------------------------------------------------------ C11p primitives

fn prim_impl(op: &str, arg: &str) -> String {
	let r = catch(|| -> String {
		match op {
			"wv" => {
				let mut w = ValueWriterBlob::new_le();
				w.write_varint(arg.parse::<u64>().unwrap()).unwrap();
				hex(w.into_blob().as_slice())
			}
			"ws" => {
				let mut w = ValueWriterBlob::new_le();
				w.write_svarint(arg.parse::<i64>().unwrap()).unwrap();
				hex(w.into_blob().as_slice())
			}
			"rv" => {
				let b = unhex(arg);
				let mut r = ValueReaderSlice::new_le(&b);
				match r.read_varint() {
					Ok(v) => format!("{v} {}", r.position()),
					Err(_) => "err".into(),
				}
			}
			"rs" => {
				let b = unhex(arg);
				let mut r = ValueReaderSlice::new_le(&b);
				match r.read_svarint() {
					Ok(v) => format!("{v} {}", r.position()),
					Err(_) => "err".into(),
				}
			}
			"rk" => {
				let b = unhex(arg);
				let mut r = ValueReaderSlice::new_le(&b);
				match r.read_pbf_key() {
					Ok((f, w)) => format!("{f} {w} {}", r.position()),
					Err(_) => "err".into(),
				}
			}
			"ru" => {
				let b = unhex(arg);
				let mut r = ValueReaderSlice::new_le(&b);
				match r.read_string(b.len() as u64) {
					Ok(_) => "1".into(),
					Err(_) => "0".into(),
				}
			}
			_ => "bad-op".into(),
		}
	});
	r.unwrap_or_else(|_| "panic".into())
}

fn emit_prim(out: &mut Out, op: &str, arg: &str) {
	let ans = prim_impl(op, arg);
	out.case(&format!("C11p {op} {arg}"), &ans, true);
	out.count(&format!("prim_{op}"));
	// direct oracle: the round-trip laws of the statement
	match op {
		"wv" => {
			let n: u64 = arg.parse().unwrap();
			let bytes = unhex(&ans);
			let mut pos = 0;
			let indep = get_varint(&bytes, &mut pos);
			let mut r = ValueReaderSlice::new_le(&bytes);
			let back = catch(|| r.read_varint().ok()).ok().flatten();
			let ok = indep == Some(n) && pos == bytes.len() && back == Some(n);
			out.oracle(ok, &format!("C11 varint: write_varint({n}) = {ans}, read back {back:?}, independent reader {indep:?}"), json!({"kind": "varint_roundtrip"}), json!({"case": format!("C11p wv {n}")}));
		}
		"ws" => {
			let i: i64 = arg.parse().unwrap();
			let bytes = unhex(&ans);
			let mut pos = 0;
			let indep = get_varint(&bytes, &mut pos).map(unzigzag);
			let mut r = ValueReaderSlice::new_le(&bytes);
			let back = catch(|| r.read_svarint().ok()).ok().flatten();
			let ok = indep == Some(i) && back == Some(i);
			let big = i.unsigned_abs() >= 1 << 62;
			out.oracle(
				ok,
				&format!("C11 svarint: write_svarint({i}) = {ans}, read_svarint gives {back:?} (zig-zag spec: {indep:?})"),
				json!({"kind": "svarint_roundtrip", "abs_ge_2_62": big, "writer_ok": indep == Some(i)}),
				json!({"case": format!("C11p ws {i}")}),
			);
		}
		"rv" | "rs" | "rk" => {
			// reading agrees with the independent protobuf reader whenever that one accepts (≤ 64 significant bits)
			let bytes = unhex(arg);
			let mut pos = 0;
			if let Some(v) = get_varint(&bytes, &mut pos) {
				let want = match op {
					"rv" => format!("{v} {pos}"),
					"rs" => format!("{} {pos}", unzigzag(v)),
					_ => format!("{} {} {pos}", (v >> 3) as u32, v & 7),
				};
				let big = op == "rs" && unzigzag(v).unsigned_abs() >= 1 << 62;
				out.oracle(ans == want, &format!("C11 {op}: real reader gives '{ans}', protobuf spec gives '{want}' for {arg}"), json!({"kind": format!("read_{op}"), "abs_ge_2_62": big}), json!({"case": format!("C11p {op} {arg}")}));
			} else {
				out.oracle(ans != "panic", &format!("C11 {op}: panic on {arg}"), json!({"kind": "read_panic"}), json!({"case": format!("C11p {op} {arg}")}));
			}
		}
		_ => {
			let b = unhex(arg);
			let want = if std::str::from_utf8(&b).is_ok() { "1" } else { "0" };
			out.oracle(ans == want, &format!("C11 utf8: {arg}"), json!({"kind": "utf8"}), json!({"case": format!("C11p ru {arg}")}));
		}
	}
}

// ------------------------------------------------------------------ C11d decode / encode

fn real_roundtrip(bytes: &[u8]) -> Result<Result<Vec<u8>, ()>, String> {
	catch(|| match VectorTile::from_blob(&Blob::from(bytes.to_vec())) {
		Ok(t) => match t.to_blob() {
			Ok(b) => Ok(b.into_vec()),
			Err(_) => Err(()),
		},
		Err(_) => Err(()),
	})
}

/// what differs between two semantic readings (used as failure signature)
pub fn diff_kind(want: &[SLayer], got: &[SLayer]) -> &'static str {
	if want.len() != got.len() {
		return "layer_count";
	}
	for (a, b) in want.iter().zip(got) {
		if a.name != b.name || a.extent != b.extent || a.version != b.version {
			return "layer_header";
		}
		if a.feats.len() != b.feats.len() {
			return "feature_count";
		}
		for (f, g) in a.feats.iter().zip(&b.feats) {
			if f.id != g.id || f.gtype != g.gtype || f.geom != g.geom {
				return "feature_frame";
			}
			if f.props != g.props {
				return "props";
			}
		}
	}
	"none"
}

fn table_class(t: &ITile) -> (bool, bool) {
	// (has duplicate table entries, has huge zig-zag values)
	let mut dup = false;
	let mut big = false;
	for l in &t.layers {
		for (i, k) in l.keys.iter().enumerate() {
			if l.keys[..i].contains(k) {
				dup = true;
			}
		}
		for (i, v) in l.values.iter().enumerate() {
			if l.values[..i].iter().any(|w| w.sem() == v.sem()) {
				dup = true;
			}
			if let IValue::SInt(x) = v {
				if x.unsigned_abs() >= 1 << 62 {
					big = true;
				}
			}
		}
	}
	(dup, big)
}

fn emit_decode(out: &mut Out, bytes: &[u8], tile: Option<&ITile>) {
	let r = real_roundtrip(bytes);
	let ans = match &r {
		Ok(Ok(o)) => format!("ok {} {}", hex(o), dump_bytes(o, false)),
		Ok(Err(())) => "err".into(),
		Err(_) => "panic".into(),
	};
	let case = format!("C11d {}", hex(bytes));
	// the expectation: from the generated structure if there is one, otherwise from the independent decoder
	let decoded = decode_tile(bytes);
	let want = tile.map(sem_tile).or_else(|| decoded.as_ref().map(sem_tile));
	let valid = want.as_ref().is_some_and(|w| w.iter().all(|l| l.feats.iter().all(|f| f.props.is_some() && !f.dup_key && f.gtype <= 3)));
	out.case(&case, &ans, valid);
	out.count(if valid { "decode_valid_tile" } else { "decode_other_bytes" });
	if let (Some(t), Some(d)) = (tile, &decoded) {
		// self-check of the independent codec (infrastructure, not a verdict on /repo)
		assert_eq!(sem_tile(t), sem_tile(d), "independent encoder/decoder disagree");
	}
	if !valid {
		// not a valid tile: the only claim is "no panic"
		out.oracle(r.is_ok(), "C11 decode panic on bytes that are not a valid tile", json!({"kind": "decode_panic"}), json!({"case": case}));
		return;
	}
	let want = want.unwrap();
	let t = tile.cloned().or(decoded).unwrap();
	let (dup, big) = table_class(&t);
	if dup {
		out.count("decode_tables_with_duplicates");
	}
	match &r {
		Ok(Ok(o)) => {
			let got = decode_tile(o).map(|t| sem_tile(&t));
			let kind = match &got {
				None => "output_undecodable",
				Some(g) => diff_kind(&want, g),
			};
			out.oracle(
				kind == "none",
				&format!("C11 roundtrip: from_blob/to_blob changed the content ({kind}): want {} got {}", trunc(&dump_layers(&want), 300), trunc(&dump_bytes(o, false), 300)),
				json!({"kind": "roundtrip", "diff": kind, "table_duplicates": dup, "zigzag_ge_2_62": big}),
				json!({"case": case}),
			);
		}
		Ok(Err(())) => out.oracle(false, "C11 roundtrip: a valid tile is rejected by from_blob", json!({"kind": "roundtrip", "diff": "rejected", "table_duplicates": dup, "zigzag_ge_2_62": big}), json!({"case": case})),
		Err(m) => out.oracle(false, &format!("C11 roundtrip: panic on a valid tile: {m}"), json!({"kind": "roundtrip", "diff": "panic", "table_duplicates": dup}), json!({"case": case})),
	}
}

// ------------------------------------------------------------------ C11u the operation

#[derive(Clone, Debug)]
pub struct Cell {
	pub text: Vec<u8>,
	pub value: SValue,
}

#[derive(Clone, Debug)]
pub struct UpdCase {
	pub replace: bool,
	pub remove: bool,
	pub include_id: bool,
	pub layer: Vec<u8>,
	pub id_tiles: Vec<u8>,
	pub id_data: Vec<u8>,
	pub header: Vec<Vec<u8>>,
	pub rows: Vec<Vec<Cell>>,
	pub tile: Vec<u8>,
	/// how the data file is written: bit 0 CRLF line ends, bit 1 every cell quoted, bit 2 blank lines between
	/// records, bit 3 no line end after the last record (never changes the table)
	pub csv_style: u8,
}

/// the value a CSV cell denotes (numbers, true/false, text) – the documented inference, written
/// independently of `GeoValue::parse_str`
fn cell_of(text: &str) -> Cell {
	let b = text.as_bytes();
	let digits = |s: &[u8]| !s.is_empty() && s.iter().all(|c| c.is_ascii_digit());
	let value = if text == "true" {
		SValue::Bool(true)
	} else if text == "false" {
		SValue::Bool(false)
	} else if digits(b) && text.parse::<u64>().is_ok() {
		SValue::UInt(text.parse().unwrap())
	} else if b.first() == Some(&b'-') && digits(&b[1..]) && text.parse::<i64>().is_ok() {
		SValue::Int(text.parse().unwrap())
	} else if {
		let s = b.strip_prefix(b"-").unwrap_or(b);
		match s.iter().position(|c| *c == b'.') {
			Some(p) => s[..p].iter().all(|c| c.is_ascii_digit()) && digits(&s[p + 1..]),
			None => false,
		}
	} {
		SValue::Double(text.parse::<f64>().unwrap().to_le_bytes())
	} else {
		SValue::Str(b.to_vec())
	};
	Cell { text: b.to_vec(), value }
}

fn csv_quote(s: &[u8]) -> Vec<u8> {
	if s.iter().any(|c| matches!(c, b',' | b'"' | b'\n' | b'\r')) {
		let mut o = vec![b'"'];
		for c in s {
			if *c == b'"' {
				o.push(b'"');
			}
			o.push(*c);
		}
		o.push(b'"');
		o
	} else {
		s.to_vec()
	}
}

fn csv_text(c: &UpdCase) -> Vec<u8> {
	let eol: &[u8] = if c.csv_style & 1 != 0 { b"\r\n" } else { b"\n" };
	let mut o = vec![];
	let mut records: Vec<Vec<&[u8]>> = vec![c.header.iter().map(|h| h.as_slice()).collect()];
	for r in &c.rows {
		records.push(r.iter().map(|c| c.text.as_slice()).collect());
	}
	let n = records.len();
	for (k, cells) in records.iter().enumerate() {
		for (i, cell) in cells.iter().enumerate() {
			if i > 0 {
				o.push(b',');
			}
			if c.csv_style & 2 != 0 {
				// quote everything (quoted numbers, quoted empty cells)
				o.push(b'"');
				for b in cell.iter() {
					if *b == b'"' {
						o.push(b'"');
					}
					o.push(*b);
				}
				o.push(b'"');
			} else {
				o.extend(csv_quote(cell));
			}
		}
		if k + 1 < n || c.csv_style & 8 == 0 {
			o.extend_from_slice(eol);
			if c.csv_style & 4 != 0 {
				o.extend_from_slice(eol);
			}
		}
	}
	o
}

/// a plain RFC-4180 reader, only used to rebuild a case from its replay line
fn parse_csv_plain(b: &[u8]) -> Vec<Vec<Vec<u8>>> {
	let mut rows = vec![];
	let mut row: Vec<Vec<u8>> = vec![];
	let mut cell: Vec<u8> = vec![];
	let mut i = 0;
	let mut quoted = false;
	let mut any = false;
	while i < b.len() {
		let c = b[i];
		if quoted {
			if c == b'"' && b.get(i + 1) == Some(&b'"') {
				cell.push(b'"');
				i += 1;
			} else if c == b'"' {
				quoted = false;
			} else {
				cell.push(c);
			}
		} else if c == b'"' && cell.is_empty() {
			quoted = true;
			any = true;
		} else if c == b',' {
			row.push(std::mem::take(&mut cell));
			any = true;
		} else if c == b'\n' {
			if any || !cell.is_empty() {
				row.push(std::mem::take(&mut cell));
				if !(row.len() == 1 && row[0].is_empty()) {
					rows.push(std::mem::take(&mut row));
				}
				row.clear();
			}
			any = false;
		} else if c != b'\r' {
			cell.push(c);
		}
		i += 1;
	}
	if any || !cell.is_empty() {
		row.push(cell);
		if !(row.len() == 1 && row[0].is_empty()) {
			rows.push(row);
		}
	}
	rows
}

fn case_line(c: &UpdCase) -> String {
	// what std's f64 parser / formatter make of the double-looking cells (external to the model)
	let mut dbl: Vec<String> = vec![];
	for r in &c.rows {
		for cell in r {
			if let SValue::Double(bits) = &cell.value {
				let e = format!("{}~{}~{}", hex(&cell.text), hex(bits), hex(&cell.value.display()));
				if !dbl.contains(&e) {
					dbl.push(e);
				}
			}
		}
	}
	// display strings of the float values of the tile (f32/f64 formatting is external to the model)
	let mut fmt: Vec<String> = vec![];
	if let Some(t) = decode_tile(&c.tile) {
		for l in &t.layers {
			for v in &l.values {
				let e = match v.sem() {
					SValue::Float(b) => format!("f{}={}", hex(&b), hex(&v.sem().display())),
					SValue::Double(b) => format!("d{}={}", hex(&b), hex(&v.sem().display())),
					_ => continue,
				};
				if !fmt.contains(&e) {
					fmt.push(e);
				}
			}
		}
	}
	format!(
		"C11u {}{}{} {} {} {} {} {} {} {}",
		c.replace as u8,
		c.remove as u8,
		c.include_id as u8,
		hex(&c.layer),
		hex(&c.id_tiles),
		hex(&c.id_data),
		hex(&csv_text(c)),
		if dbl.is_empty() { ".".to_string() } else { dbl.join(",") },
		if fmt.is_empty() { ".".to_string() } else { fmt.join(",") },
		hex(&c.tile)
	)
}

fn parse_case_line(line: &str) -> Option<UpdCase> {
	let t: Vec<&str> = line.split(' ').collect();
	if t.len() != 9 || t[0] != "C11u" {
		return None;
	}
	let fl: Vec<bool> = t[1].chars().map(|c| c == '1').collect();
	let table = parse_csv_plain(&unhex(t[5]));
	let cell = |b: &Vec<u8>| cell_of(std::str::from_utf8(b).unwrap_or("?"));
	Some(UpdCase {
		replace: fl[0],
		remove: fl[1],
		include_id: fl[2],
		layer: unhex(t[2]),
		id_tiles: unhex(t[3]),
		id_data: unhex(t[4]),
		header: table.first().cloned().unwrap_or_default(),
		rows: table.iter().skip(1).map(|r| r.iter().map(cell).collect()).collect(),
		tile: unhex(t[8]),
		csv_style: 0,
	})
}

pub enum OpResult {
	BuildErr,
	BuildPanic,
	Tile(Vec<u8>),
	None,
	Err,
	Panic(String),
}

struct Runner {
	rt: tokio::runtime::Runtime,
	dir: std::path::PathBuf,
	n: u64,
}

impl Runner {
	fn new(dir: &Path) -> Runner {
		let dir = dir.join("c11-data");
		std::fs::create_dir_all(&dir).unwrap();
		Runner { rt: runtime(), dir, n: 0 }
	}

	/// runs the real operation; returns (get_tile_data result, get_tile_stream result for the same tile)
	fn run(&mut self, c: &UpdCase, compression: TileCompression, with_stream: bool) -> (OpResult, Option<OpResult>) {
		self.n += 1;
		let csv = format!("data{}.csv", self.n % 8);
		std::fs::write(self.dir.join(&csv), csv_text(c)).unwrap();
		let stored = match compression {
			TileCompression::Gzip => {
				use std::io::Write;
				let mut e = flate2::write::GzEncoder::new(Vec::new(), flate2::Compression::fast());
				e.write_all(&c.tile).unwrap();
				e.finish().unwrap()
			}
			_ => c.tile.clone(),
		};
		let sources: Sources = Arc::new(Mutex::new(HashMap::from([("src".to_string(), SourceSpec { tiles: HashMap::from([((3u8, 1u32, 2u32), stored)]), compression, yields: (self.n % 3) as u32, fail: vec![], format: TileFormat::PBF, pyramid: None })])));
		let factory = make_factory(&self.dir, sources);
		let s = |b: &[u8]| String::from_utf8(b.to_vec()).unwrap();
		let vpl = format!(
			"from_container filename=src | vectortiles_update_properties data_source_path=\"{csv}\" layer_name=\"{}\" id_field_tiles=\"{}\" id_field_data=\"{}\" replace_properties={} remove_non_matching={} include_id={}",
			s(&c.layer),
			s(&c.id_tiles),
			s(&c.id_data),
			c.replace,
			c.remove,
			c.include_id
		);
		let rt = &self.rt;
		let op = match catch(|| rt.block_on(factory.operation_from_vpl(&vpl))) {
			Ok(Ok(op)) => op,
			Ok(Err(_)) => return (OpResult::BuildErr, None),
			Err(_) => return (OpResult::BuildPanic, None),
		};
		let coord = TileCoord3::new(1, 2, 3).unwrap();
		let data = match catch(|| rt.block_on(op.get_tile_data(&coord))) {
			Ok(Ok(Some(b))) => OpResult::Tile(b.into_vec()),
			Ok(Ok(None)) => OpResult::None,
			Ok(Err(_)) => OpResult::Err,
			Err(m) => OpResult::Panic(m),
		};
		let stream = if with_stream {
			Some(match catch(|| rt.block_on(async { op.get_tile_stream(TileBBox::new(3, 0, 0, 3, 3).unwrap()).await.collect().await })) {
				Ok(v) => match v.into_iter().find(|(c, _)| *c == coord) {
					Some((_, b)) => OpResult::Tile(b.into_vec()),
					None => OpResult::None,
				},
				Err(m) => OpResult::Panic(m),
			})
		} else {
			None
		};
		(data, stream)
	}
}

/// expectation computed from the inputs (statement of C11), on the independent semantic reading
fn expected_update(c: &UpdCase, input: &[SLayer]) -> Option<Vec<SLayer>> {
	// data table: id text → properties; a later row replaces an earlier one with the same id
	// (without data rows a missing id column cannot be noticed)
	let idcol = match c.header.iter().position(|h| *h == c.id_data) {
		Some(i) => i,
		None if c.rows.is_empty() => 0,
		None => return None,
	};
	let mut data: HashMap<Vec<u8>, BTreeMap<Vec<u8>, SValue>> = HashMap::new();
	for r in &c.rows {
		let mut p = BTreeMap::new();
		for (h, cell) in c.header.iter().zip(r) {
			p.insert(h.clone(), cell.value.clone());
		}
		let key = r[idcol].value.display();
		if !c.include_id {
			p.remove(&c.id_data);
		}
		data.insert(key, p);
	}
	Some(
		input
			.iter()
			.map(|l| {
				if l.name != c.layer {
					return l.clone();
				}
				let mut nl = l.clone();
				nl.feats = l
					.feats
					.iter()
					.filter_map(|f| {
						let props = f.props.clone().unwrap();
						let Some(id) = props.get(&c.id_tiles) else { return Some(f.clone()) };
						match data.get(&id.display()) {
							Some(np) => {
								let mut nf = f.clone();
								nf.props = Some(if c.replace {
									np.clone()
								} else {
									let mut m = props.clone();
									for (k, v) in np {
										m.insert(k.clone(), v.clone());
									}
									m
								});
								Some(nf)
							}
							None if c.remove => None,
							None => Some(f.clone()),
						}
					})
					.collect();
				nl
			})
			.collect(),
	)
}

fn emit_update(out: &mut Out, runner: &mut Runner, c: &UpdCase, compression: TileCompression, with_stream: bool) {
	let line = case_line(c);
	let (res, stream) = runner.run(c, compression, with_stream);
	let ans = match &res {
		OpResult::BuildErr => "builderr".to_string(),
		OpResult::BuildPanic => "buildpanic".into(),
		OpResult::Tile(b) => format!("ok {} {}", hex(b), dump_bytes(b, false)), // bytes: the rebuilt tables (from_iter order) are part of the comparison
		OpResult::None => "none".into(),
		OpResult::Err => "err".into(),
		OpResult::Panic(_) => "panic".into(),
	};
	let input = decode_tile(&c.tile).map(|t| sem_tile(&t));
	let valid = input.as_ref().is_some_and(|w| w.iter().all(|l| l.feats.iter().all(|f| f.props.is_some() && !f.dup_key && f.gtype <= 3)));
	let flags = format!("{}{}{}", c.replace as u8, c.remove as u8, c.include_id as u8);
	let want = input.as_ref().and_then(|i| if valid { expected_update(c, i) } else { None });
	// non-trivial: valid tile, the named layer is present and at least one feature is changed or removed
	let changed = match (&want, &input) {
		(Some(w), Some(i)) => w != i,
		_ => false,
	};
	out.case(&line, &ans, changed);
	out.count(&format!("upd_flags_{flags}"));
	out.count(if changed { "upd_changes_something" } else { "upd_identity" });
	if compression == TileCompression::Gzip {
		out.count("upd_gzip_source");
	}
	let sig = |kind: &str| json!({"kind": kind, "flags": flags});
	if !valid {
		// not a valid tile (truncated / dangling tag ids / repeated key): the claims are "no panic" and
		// "the stream agrees with the lookup" (an undecodable tile is an error for the lookup and is left out of the stream)
		out.count("upd_invalid_tile");
		out.oracle(!matches!(res, OpResult::Panic(_)), "C11 update: get_tile_data panics on bytes that are not a valid tile", sig("panic_invalid"), json!({"case": line}));
		if let Some(s) = &stream {
			out.eval(&format!("stream {line}"), false);
			let ok = match s {
				OpResult::Panic(_) => false,
				OpResult::Tile(sb) => matches!(&res, OpResult::Tile(b) if dump_bytes(b, false) == dump_bytes(sb, false)),
				_ => !matches!(res, OpResult::Tile(_)),
			};
			let what = if matches!(s, OpResult::Panic(_)) { "get_tile_stream panics on a tile that is not valid (the lookup returns an error)" } else { "get_tile_stream and get_tile_data disagree on a tile that is not valid" };
			out.oracle(ok, &format!("C11 update: {what}"), sig("stream_invalid"), json!({"case": line}));
		}
		return;
	}
	let input = input.unwrap();
	if !c.header.contains(&c.id_data) && !c.rows.is_empty() {
		out.count("upd_missing_id_column");
		out.oracle(matches!(res, OpResult::BuildErr), "C11 update: a data file without the id column must be refused", sig("build"), json!({"case": line}));
		return;
	}
	let want = want.unwrap();
	let (dup, _) = table_class(&decode_tile(&c.tile).unwrap());
	match &res {
		OpResult::Tile(b) => {
			let got = decode_tile(b).map(|t| sem_tile(&t));
			let kind = match &got {
				None => "output_undecodable",
				Some(g) => {
					// classify: untouched layers first
					let other_changed = g.len() == input.len() && input.iter().zip(g).any(|(a, b)| a.name != c.layer && a != b);
					if other_changed {
						"other_layer_changed"
					} else {
						diff_kind(&want, g)
					}
				}
			};
			for l in &want {
				if l.name == c.layer {
					out.count("upd_target_layer_present");
				}
			}
			// every layer whose name is not EXACTLY the selected one must come out byte for byte as plain
			// re-encoding writes it (near misses of the name included)
			if let (Ok(Ok(plain)), Some(out_fields), Some(t_in)) = (real_roundtrip(&c.tile), fields(b), decode_tile(&c.tile)) {
				if let Some(plain_fields) = fields(&plain) {
					let blobs = |f: &Vec<(u32, Wire)>| -> Vec<Vec<u8>> { f.iter().filter_map(|(_, w)| if let Wire::Len(s) = w { Some(s.to_vec()) } else { None }).collect() };
					let (ob, pb) = (blobs(&out_fields), blobs(&plain_fields));
					if ob.len() == pb.len() && pb.len() == t_in.layers.len() {
						let bad = t_in.layers.iter().enumerate().find(|(i, l)| l.name != c.layer && ob[*i] != pb[*i]);
						if t_in.layers.iter().any(|l| l.name != c.layer && l.name.eq_ignore_ascii_case(&c.layer)) {
							out.count("upd_case_variant_sibling");
						}
						out.oracle(
							bad.is_none(),
							&format!("C11 update: layer '{}' is not the selected layer '{}' but its bytes changed", bad.map_or(String::new(), |(_, l)| String::from_utf8_lossy(&l.name).to_string()), String::from_utf8_lossy(&c.layer)),
							json!({"kind": "other_layer_bytes", "flags": flags}),
							json!({"case": line}),
						);
					}
				}
			}
			out.oracle(
				kind == "none",
				&format!("C11 update ({kind}): want {} got {}", trunc(&dump_layers(&want), 300), trunc(&dump_bytes(b, false), 300)),
				json!({"kind": kind, "flags": flags, "table_duplicates": dup}),
				json!({"case": line}),
			);
			if let Some(s) = stream {
				let same = matches!(&s, OpResult::Tile(sb) if decode_tile(sb).map(|t| sem_tile(&t)) == got);
				out.eval(&format!("stream {line}"), changed);
				out.oracle(same, "C11 update: get_tile_stream delivers different content than get_tile_data", sig("stream_differs"), json!({"case": line}));
			}
		}
		OpResult::Panic(m) => out.oracle(false, &format!("C11 update: panic on a valid tile: {m}"), json!({"kind": "panic", "flags": flags, "table_duplicates": dup}), json!({"case": line})),
		_ => out.oracle(false, &format!("C11 update: valid tile and data refused ({ans})"), json!({"kind": "refused", "flags": flags, "table_duplicates": dup}), json!({"case": line})),
	}
}


// ------------------------------------------------------------------ faults, payload classes, reuse, path agreement

pub fn compress_as(b: &[u8], c: TileCompression) -> Vec<u8> {
	use std::io::Write;
	match c {
		TileCompression::Uncompressed => b.to_vec(),
		TileCompression::Gzip => {
			let mut e = flate2::write::GzEncoder::new(Vec::new(), flate2::Compression::fast());
			e.write_all(b).unwrap();
			e.finish().unwrap()
		}
		TileCompression::Brotli => {
			let mut o = vec![];
			{
				let mut w = brotli::CompressorWriter::new(&mut o, 4096, 3, 20);
				w.write_all(b).unwrap();
			}
			o
		}
	}
}

/// coordinates the vector operations are driven at: zoom 0, block / 32-sub-box borders, deep zooms
pub const COORDS: &[(u8, u32, u32)] = &[(0, 0, 0), (3, 1, 2), (6, 31, 32), (6, 32, 31), (6, 63, 63), (9, 255, 256), (14, 8191, 8192), (20, 1048575, 0), (30, 1073741823, 536870912), (31, 2147483647, 2147483647)];

/// a box of at most 3×3 tiles around the coordinate (crossing the 32-grid / 256-block border where the coordinate sits on one)
pub fn box_around(c: (u8, u32, u32)) -> TileBBox {
	let max = if c.0 == 0 { 0 } else { ((1u64 << c.0) - 1) as u32 };
	TileBBox::new(c.0, c.1.saturating_sub(1), c.2.saturating_sub(1), c.1.saturating_add(1).min(max), c.2.saturating_add(1).min(max)).unwrap()
}

#[derive(Clone, Copy, Debug, PartialEq)]
enum Fault {
	None,
	/// the source's lookup of the tile fails
	ReadError,
	/// the bytes are not what the declared compression says (plain in a gzip source, gzip in a brotli source, brotli in a plain source)
	WrongCodec,
}

/// One operation object, used repeatedly: lookup, whole-box stream, lookup again, lookups of the neighbours.
/// Judged: reuse gives the same bytes; every streamed tile equals its lookup and every successful lookup is streamed;
/// a fault is reported by the lookup (never a tile), leaves the tile out of the stream and never panics.
fn emit_paths(out: &mut Out, runner: &mut Runner, c: &UpdCase, rng: &mut Rng) {
	let coord = *rng.pick(COORDS);
	let fault = match rng.below(6) {
		0 => Fault::ReadError,
		1 => Fault::WrongCodec,
		_ => Fault::None,
	};
	let declared = *rng.pick(&[TileCompression::Uncompressed, TileCompression::Gzip, TileCompression::Brotli]);
	let actual = if fault == Fault::WrongCodec {
		match declared {
			TileCompression::Uncompressed => TileCompression::Brotli,
			TileCompression::Gzip => TileCompression::Uncompressed,
			TileCompression::Brotli => TileCompression::Gzip,
		}
	} else {
		declared
	};
	let bbox = box_around(coord);
	// neighbours: an empty tile (0 bytes), a one-byte payload that is no tile, a copy of the tile itself (identical duplicate)
	let mut tiles = HashMap::from([((coord.0, coord.1, coord.2), compress_as(&c.tile, actual))]);
	let others: Vec<TileCoord3> = bbox.iter_coords().filter(|k| (k.z, k.x, k.y) != coord).collect();
	let payloads: [Vec<u8>; 3] = [vec![], vec![0x1a], c.tile.clone()];
	for (k, p) in others.iter().zip(payloads.iter()) {
		tiles.insert((k.z, k.x, k.y), compress_as(p, declared));
	}
	runner.n += 1;
	let csv = format!("data{}.csv", runner.n % 8);
	std::fs::write(runner.dir.join(&csv), csv_text(c)).unwrap();
	let sources: Sources = Arc::new(Mutex::new(HashMap::from([(
		"src".to_string(),
		SourceSpec { tiles, compression: declared, yields: rng.below(3) as u32, fail: if fault == Fault::ReadError { vec![coord] } else { vec![] }, format: TileFormat::PBF, pyramid: None },
	)])));
	let factory = make_factory(&runner.dir, sources);
	let s = |b: &[u8]| String::from_utf8(b.to_vec()).unwrap();
	let vpl = format!(
		"from_container filename=src | vectortiles_update_properties data_source_path=\"{csv}\" layer_name=\"{}\" id_field_tiles=\"{}\" id_field_data=\"{}\" replace_properties={} remove_non_matching={} include_id={}",
		s(&c.layer),
		s(&c.id_tiles),
		s(&c.id_data),
		c.replace,
		c.remove,
		c.include_id
	);
	let key = format!("paths {coord:?} {fault:?} {declared:?} {}", case_line(c));
	let nontrivial = c.header.contains(&c.id_data) || c.rows.is_empty();
	out.eval(&key, nontrivial);
	out.count(&format!("paths_fault_{fault:?}"));
	out.count(&format!("paths_zoom_{}", coord.0));
	let rt = &runner.rt;
	let Ok(Ok(op)) = catch(|| rt.block_on(factory.operation_from_vpl(&vpl))) else { return };
	let look = |k: &TileCoord3| -> OpResult {
		match catch(|| rt.block_on(op.get_tile_data(k))) {
			Ok(Ok(Some(b))) => OpResult::Tile(b.into_vec()),
			Ok(Ok(None)) => OpResult::None,
			Ok(Err(_)) => OpResult::Err,
			Err(m) => OpResult::Panic(m),
		}
	};
	let main = TileCoord3::new(coord.1, coord.2, coord.0).unwrap();
	let first = look(&main);
	let streamed = catch(|| rt.block_on(async { op.get_tile_stream(bbox.clone()).await.collect().await }));
	let second = look(&main);
	let detail = json!({"case": case_line(c), "coord": format!("{coord:?}"), "fault": format!("{fault:?}"), "declared": format!("{declared:?}")});
	let sig = |kind: &str| json!({"kind": kind, "fault": format!("{fault:?}")});
	let bytes = |r: &OpResult| match r {
		OpResult::Tile(b) => Some(b.clone()),
		_ => None,
	};
	// reuse
	out.oracle(bytes(&first) == bytes(&second) && matches!(first, OpResult::Err) == matches!(second, OpResult::Err), "C11 paths: the second lookup on the same operation differs from the first", sig("reuse_differs"), detail.clone());
	// faults are loud
	if fault != Fault::None {
		out.oracle(matches!(first, OpResult::Err), &format!("C11 paths: a source fault ({fault:?}) is not reported by get_tile_data"), sig("fault_not_reported"), detail.clone());
	}
	out.oracle(!matches!(first, OpResult::Panic(_)), "C11 paths: get_tile_data panics", sig("lookup_panic"), detail.clone());
	// stream ↔ lookups, coordinate by coordinate
	match streamed {
		Err(m) => out.oracle(false, &format!("C11 paths: get_tile_stream panics: {}", trunc(&m, 120)), sig("stream_panic"), detail.clone()),
		Ok(v) => {
			let mut ok = true;
			let mut why = String::new();
			let mut seen: Vec<TileCoord3> = vec![];
			for (k, b) in &v {
				if seen.contains(k) {
					ok = false;
					why = format!("{k:?} streamed twice");
				}
				seen.push(k.clone());
				if bytes(&look(k)).as_deref() != Some(b.as_slice()) {
					ok = false;
					why = format!("streamed tile at {k:?} differs from its lookup");
				}
			}
			for k in bbox.iter_coords() {
				if matches!(look(&k), OpResult::Tile(_)) && !seen.contains(&k) {
					ok = false;
					why = format!("lookup has a tile at {k:?}, the stream has not");
				}
			}
			out.oracle(ok, &format!("C11 paths: stream and lookups disagree: {why}"), sig("stream_lookup_pair"), detail.clone());
		}
	}
	// a tile without the named layer must come out exactly as plain re-encoding writes it
	if fault == Fault::None {
		if let (OpResult::Tile(b), Some(t)) = (&first, decode_tile(&c.tile)) {
			if !t.layers.iter().any(|l| l.name == c.layer) {
				let plain = real_roundtrip(&c.tile);
				out.oracle(matches!(&plain, Ok(Ok(p)) if p == b), "C11 paths: tile without the named layer is not byte-identical to from_blob/to_blob", sig("untouched_bytes"), detail.clone());
			}
		}
	}
}

// ------------------------------------------------------------------ generators

const NAMES: &[&str] = &["roads", "water", "pois", "Straße", "l", "Roads", "ROADS", "roads ", " roads", "roads2", "road", "ro\u{430}ds", "", "Water", "STRASSE", "caf\u{e9}", "cafe\u{301}", "L"];
const KEYS: &[&str] = &["id", "name", "kind", "pop", "höhe", "x", "ID", "Id", "id ", " id", "id2", "i", "\u{131}d", "Name", "name ", "\u{212a}ind", "", "key"];
const ID_TEXTS: &[&str] = &["a1", "b2", "1", "12", "-3", "true", "1.5", "01", "1.0", "12 ", " 12", "012", "12.0", "+1", "-03", "TRUE", "1.50", "zz", "0.5", "1.50", "18446744073709551615", "v1"];
const DATA_TEXTS: &[&str] = &["", "x", "Berlin", "12", "-7", "3.25", "true", "false", "a,b", "q\"q", "日本", "007", "-0", ".5", "1e5", "v2", " 1", "99999999999999999999", "-9223372036854775808", "-9223372036854775809", "18446744073709551616"];

fn gen_opts(messy: bool, nan: bool) -> GenOpts {
	GenOpts {
		names: NAMES.iter().map(|s| s.as_bytes().to_vec()).collect(),
		keys: KEYS.iter().map(|s| s.as_bytes().to_vec()).collect(),
		id_values: vec![
			IValue::Str(b"a1".to_vec()),
			IValue::Str(b"b2".to_vec()),
			IValue::Str(b"12".to_vec()),
			IValue::UInt(1),
			IValue::UInt(12),
			IValue::Int(12),
			IValue::SInt(-3),
			IValue::Bool(true),
			IValue::Double(1.5f64.to_le_bytes()),
			IValue::Float(0.5f32.to_le_bytes()),
			IValue::UInt(u64::MAX),
			IValue::Str(b"nomatch".to_vec()),
			IValue::Str(b"01".to_vec()),
			IValue::Str(b"12 ".to_vec()),
			IValue::Str(b" 12".to_vec()),
			IValue::Double(1.0f64.to_le_bytes()),
			IValue::Float(12.0f32.to_le_bytes()),
			IValue::SInt(1),
		],
		max_layers: 5,
		max_features: 6,
		messy_tables: messy,
		nan,
	}
}

/// Seed-independent boundary tiles: explicit feature id 0 next to "no id" and 2^64-1; feature-less layers
/// beside the named layer; a named layer none of whose features matches (so it becomes empty under
/// remove_non_matching); run through re-encode and through the operation with all 8 flag combinations.
fn boundary_cases() -> (Vec<Vec<u8>>, Vec<UpdCase>) {
	let feat = |id: Option<u64>, tags: Vec<u32>| IFeature { id, tags, gtype: Some(1), geom: Some(vec![9, 2, 2]) };
	let roads = |feats: Vec<IFeature>| ILayer {
		name: b"roads".to_vec(),
		features: feats,
		keys: vec![b"id".to_vec(), b"name".to_vec()],
		values: vec![IValue::Str(b"a1".to_vec()), IValue::Str(b"nomatch".to_vec()), IValue::UInt(7)],
		extent: None,
		version: Some(2),
	};
	let empty = |name: &str, extent: Option<u32>| ILayer { name: name.as_bytes().to_vec(), features: vec![], keys: vec![b"k".to_vec()], values: vec![IValue::Bool(true)], extent, version: None };
	let pois = ILayer { name: b"pois".to_vec(), features: vec![feat(Some(0), vec![]), feat(None, vec![0, 0])], keys: vec![b"id".to_vec()], values: vec![IValue::Str(b"a1".to_vec())], extent: Some(512), version: None };
	let tiles = vec![
		// ids 0 / none / max, some matching
		ITile { layers: vec![empty("water", Some(256)), roads(vec![feat(Some(0), vec![0, 0]), feat(None, vec![0, 1]), feat(Some(u64::MAX), vec![1, 2]), feat(Some(0), vec![])]), pois.clone(), empty("labels", None)] },
		// named layer with no matching feature at all
		ITile { layers: vec![roads(vec![feat(Some(0), vec![0, 1]), feat(Some(5), vec![0, 1])]), empty("water", None)] },
		// named layer already empty, other layers with ids 0
		ITile { layers: vec![pois.clone(), roads(vec![])] },
		// only feature-less layers
		ITile { layers: vec![empty("water", None), empty("labels", Some(8192))] },
	];
	let bytes: Vec<Vec<u8>> = tiles.iter().map(|t| encode_tile(t, &PLAIN)).collect();
	let mut upd = vec![];
	for b in &bytes {
		for flags in 0..8u8 {
			upd.push(UpdCase {
				replace: flags & 4 != 0,
				remove: flags & 2 != 0,
				include_id: flags & 1 != 0,
				layer: b"roads".to_vec(),
				id_tiles: b"id".to_vec(),
				id_data: b"key".to_vec(),
				header: vec![b"key".to_vec(), b"new".to_vec()],
				rows: vec![vec![cell_of("a1"), cell_of("x")], vec![cell_of("zz"), cell_of("12")]],
				tile: b.clone(),
				csv_style: flags,
			});
		}
	}
	(bytes, upd)
}

fn gen_update_case(rng: &mut Rng, messy: bool) -> UpdCase {
	let o = gen_opts(messy, rng.chance(1, 3));
	let unique = rng.chance(9, 10);
	let mut tile = gen_tile(rng, &o, unique);
	let style = gen_style(rng);
	let layer = if !tile.layers.is_empty() && rng.chance(9, 10) { rng.pick(&tile.layers).name.clone() } else { b"roads".to_vec() };
	// the VPL text cannot carry every string (C18's subject): keep the three names plain ASCII words
	let layer = if !layer.is_empty() && layer.iter().all(|c| c.is_ascii_alphanumeric()) { layer } else { b"roads".to_vec() };
	// near misses of the selected name as siblings: other case, blanks, prefix / suffix, look-alike, the same name again
	if rng.chance(1, 2) {
		let l = String::from_utf8(layer.clone()).unwrap();
		let miss = match rng.below(9) {
			0 => l.to_ascii_uppercase(),
			1 => l.to_ascii_lowercase(),
			2 => {
				let mut c = l.chars();
				let f = c.next().unwrap();
				format!("{}{}", if f.is_ascii_uppercase() { f.to_ascii_lowercase() } else { f.to_ascii_uppercase() }, c.as_str())
			}
			3 => format!("{l} "),
			4 => format!(" {l}"),
			5 => format!("{l}2"),
			6 => l[..l.len() - 1].to_string(),
			7 => l.replace('a', "\u{430}").replace('o', "\u{43e}"),
			_ => l.clone(), // a second layer with exactly the selected name: both are processed
		};
		let extra = gen_layer(rng, &o, miss.into_bytes());
		let at = rng.below(tile.layers.len() as u64 + 1) as usize;
		tile.layers.insert(at, extra);
	}
	let id_tiles = if rng.chance(9, 10) { b"id".to_vec() } else { b"name".to_vec() };
	let id_data = if rng.chance(1, 2) { b"id".to_vec() } else { b"key".to_vec() };
	let mut header: Vec<Vec<u8>> = vec![id_data.clone()];
	for k in ["name", "kind", "new", "höhe", "pop"] {
		if rng.chance(1, 2) {
			header.push(k.as_bytes().to_vec());
		}
	}
	if header.len() == 1 {
		header.push(b"new".to_vec());
	}
	if rng.chance(1, 3) {
		// a near miss of the id column next to it: only the exact name may be used for the join
		let l = String::from_utf8(id_data.clone()).unwrap();
		let miss = match rng.below(5) {
			0 => l.to_ascii_uppercase(),
			1 => format!("{l} "),
			2 => format!("{l}2"),
			3 => l[..l.len() - 1].to_string(),
			_ => format!("K{}", &l[1..]),
		};
		header.push(miss.into_bytes());
	}
	if rng.chance(1, 40) {
		header[0] = b"other".to_vec(); // id column missing
	}
	let idpos = rng.below(header.len() as u64) as usize;
	header.swap(0, idpos);
	let mut rows = vec![];
	for _ in 0..rng.below(9) {
		let row: Vec<Cell> = (0..header.len()).map(|i| if i == idpos || (header[i] != header[idpos] && header[i].to_ascii_lowercase().starts_with(&header[idpos].to_ascii_lowercase()[..1]) && header[i].len() <= header[idpos].len() + 1 && header[i] != b"kind".to_vec()) { cell_of(if rng.chance(5, 6) { *rng.pick(&ID_TEXTS[..14]) } else { *rng.pick(ID_TEXTS) }) } else { cell_of(*rng.pick(DATA_TEXTS)) }).collect();
		rows.push(row);
	}
	UpdCase { replace: rng.chance(1, 2), remove: rng.chance(1, 2), include_id: rng.chance(1, 2), layer, id_tiles, id_data, header, rows, tile: encode_tile(&tile, &style), csv_style: rng.below(16) as u8 }
}

fn prim_cases(rng: &mut Rng, n: usize) -> Vec<(String, String)> {
	let mut v: Vec<(String, String)> = vec![];
	let mut edge_u: Vec<u64> = vec![0, 1, 127, 128, 255, 256, 300, 16383, 16384, u32::MAX as u64, 1 << 32, (1 << 35) - 1, 1 << 35, (1 << 56) - 1, 1 << 56, (1 << 63) - 1, 1 << 63, u64::MAX - 1, u64::MAX];
	for k in 0..64 {
		edge_u.push(1u64 << k);
		edge_u.push((1u64 << k) - 1);
	}
	let mut edge_i: Vec<i64> = vec![0, 1, -1, 2, -2, 63, 64, -64, -65, 75, -75, i64::MAX, i64::MIN, i64::MAX - 1, i64::MIN + 1];
	for k in 0..63 {
		edge_i.push(1i64 << k);
		edge_i.push(-(1i64 << k));
		edge_i.push((1i64 << k) - 1);
		edge_i.push(-(1i64 << k) - 1);
	}
	for u in &edge_u {
		v.push(("wv".into(), u.to_string()));
	}
	for i in &edge_i {
		v.push(("ws".into(), i.to_string()));
	}
	for _ in 0..n {
		let bits = rng.range(1, 64);
		let u = rng.next() >> (64 - bits);
		v.push(("wv".into(), u.to_string()));
		let i = (rng.next() >> (64 - bits)) as i64;
		v.push(("ws".into(), (if rng.chance(1, 2) { i } else { i.wrapping_neg() }).to_string()));
		// arbitrary byte strings through the readers
		let len = rng.range(0, 12) as usize;
		let mut b = rng.bytes(len);
		if rng.chance(1, 2) {
			// make a well-formed varint of random length
			let k = rng.range(1, 11) as usize;
			b = (0..k).map(|j| if j + 1 < k { (rng.next() as u8) | 0x80 } else { (rng.next() as u8) & 0x7f }).collect();
		}
		v.push(((*rng.pick(&["rv", "rs", "rk"])).to_string(), hex(&b)));
	}
	// zig-zag reads at the top of the range
	for u in [u64::MAX, u64::MAX - 1, 1 << 63, (1 << 63) - 1, (1 << 63) + 1, 1 << 62, (1 << 62) + 1] {
		let mut b = vec![];
		put_varint(&mut b, u);
		v.push(("rs".into(), hex(&b)));
		v.push(("rv".into(), hex(&b)));
	}
	for s in ["-", "61", "c3a4", "c3", "e697a5", "eda080", "f09f9982", "f4908080", "c0af", "e080af", "ff", "80", "f0808080", "efbfbf", "e0a080", "ed9fbf", "f48fbfbf", "c2", "61c3", "e6975a"] {
		v.push(("ru".into(), s.to_string()));
	}
	v
}

pub fn run(args: &Args) {
	quiet_panics();
	let mut out = Out::new(&args.out);
	out.rule = "C11p: varint/svarint/key/utf8 primitives on boundary values (all powers of two ±1, i64::MIN/MAX, 2^62 neighbourhood) and random bytes; \
C11d: tiles from the independent MVT encoder (field orders, explicit defaults, padded varints; tables with duplicates, int64/sint64 twins, unused entries; ids to 2^64-1; \
unknown geometry type; extents/versions; empty layers) through the real from_blob/to_blob, plus truncations (only 'no panic' judged); \
C11u: the real vectortiles_update_properties built from VPL over an in-memory source (plain or gzip) and a CSV file, all 8 flag combinations, ids of every value type, \
get_tile_data and (every 4th case) get_tile_stream. Oracle = independent decoder's reading of the output vs expectation computed from the generated structures \
(features without the id field are kept; a later CSV row replaces an earlier one with the same id). \
non-trivial: C11p every case; C11d valid tiles; C11u cases where the expected output differs from the input; distinct by case text"
		.into();
	out.notes.push("checklist: 1 thresholds = sweep_string_lengths / sweep_table_sizes (0,1,127..129,255..257,16383..16385 bytes / entries; packed tag list 126/128/130 bytes), extents/versions 0,1,4095..4097,u32::MAX, ids 0/2^63/2^64-1, all varint widths in C11p; 2 faults = emit_paths (read error, wrong codec) + truncated tiles; 3 payloads = 0-byte, 1-byte, duplicate neighbours, truncated; 4 options = all 8 flag combinations x id types x missing layer / id field / id column; 5 reuse = lookup, stream, lookup on one operation object; 6 order = multi-tile streams compared per coordinate, sources that suspend; 7 n.a. (no HTTP); 8 coordinates = zoom 0..31, 32/256 borders; 9 encoder freedoms = 3 layer field orders, reversed feature fields, explicit defaults, padded varints/keys/tag ids, table duplicates, unused entries, int64/sint64 twins (unknown/extension fields, unpacked or split packed tag lists are rejected or overwritten by the decoder by design: not generated); 10 paths = stream vs lookup per coordinate, tile without the named layer vs plain re-encode byte for byte; 1b counter confusion = byte length vs element count of the packed tag list differ under padded tag ids (long_keys), varints of 10 and 11 bytes vs values of 64 bits, table size vs number of used entries (unused / duplicate entries); 11 fallbacks = absent vs explicit default fields (extent 4096, version 1, type 0, id none vs 0), number-shaped cells that are no numbers fall back to text (overflow, '1e5', '+1'), feature without the id field / id without a data row / tile without the named layer are kept unchanged, quoted vs unquoted cell path of the CSV lexer; C11csv = exhaustive short inputs over separators/quotes/CR/LF/blank/tab/NBSP/invalid UTF-8/BOM, C11g = geometry command streams incl. malformed ones".into());
	let mut runner = Runner::new(&args.out);
	if let Some(p) = &args.replay {
		for line in std::fs::read_to_string(p).unwrap().lines() {
			let t: Vec<&str> = line.split(' ').collect();
			match t[0] {
				"C11p" if t.len() == 3 => emit_prim(&mut out, t[1], t[2]),
				"C11d" if t.len() == 2 => emit_decode(&mut out, &unhex(t[1]), None),
				"C11g" => crate::c11g::replay(&mut out, &t),
				"C11csv" if t.len() == 2 => {
					let a = crate::c11csv::real_table(&unhex(t[1]));
					out.case(line, &a, true);
					out.oracle(a != "panic", "C11 csv: the lexer panics", json!({"kind": "csv_panic"}), json!({"case": line}));
				}
				"C11u" => {
					if let Some(c) = parse_case_line(line) {
						emit_update(&mut out, &mut runner, &c, TileCompression::Uncompressed, true)
					}
				}
				_ => {}
			}
		}
		out.finish();
		return;
	}
	let mut rng = Rng::new(args.seed);
	for (op, arg) in prim_cases(&mut rng, args.n(400, 20000)) {
		emit_prim(&mut out, &op, &arg);
	}
	// geometry command streams
	crate::c11g::run_geom(&mut out, args, &mut rng);
	// the CSV lexer
	crate::c11csv::run_csv(&mut out, args, &mut rng);
	// seed-independent boundary tiles
	let (btiles, bupd) = boundary_cases();
	for b in &btiles {
		emit_decode(&mut out, b, None);
	}
	for c in &bupd {
		emit_update(&mut out, &mut runner, c, TileCompression::Uncompressed, true);
	}
	// threshold sweep: string / geometry lengths and table / feature counts at the varint-width borders
	let lens: &[usize] = if args.thorough() { &[0, 1, 2, 126, 127, 128, 129, 255, 256, 16382, 16383, 16384, 16385, 70000] } else { &[0, 1, 127, 128, 129, 16383, 16384] };
	for &len in lens {
		let t = ITile { layers: vec![sized_strings_layer(len), sized_tables_layer("roads", 2, 1)] };
		emit_decode(&mut out, &encode_tile(&t, &PLAIN), Some(&t));
		out.count("sweep_string_lengths");
	}
	let sizes: &[usize] = if args.thorough() { &[1, 2, 63, 64, 65, 127, 128, 129, 255, 256, 257, 1000, 16383, 16384, 16385] } else { &[1, 63, 64, 65, 127, 128, 129, 256, 300] };
	for &n in sizes {
		let t = ITile { layers: vec![sized_tables_layer("roads", n, 70), sized_tables_layer("water", 1, 1)] };
		let bytes = encode_tile(&t, &PLAIN);
		emit_decode(&mut out, &bytes, Some(&t));
		out.count("sweep_table_sizes");
		if n <= 1000 {
			// the operation on it: k0 is the id field, feature 0 (k0 = 0) matches the row "0"; a second row matches the last feature
			for flags in [0u8, 2, 4, 7] {
				let c = UpdCase {
					replace: flags & 4 != 0,
					remove: flags & 2 != 0,
					include_id: flags & 1 != 0,
					layer: b"roads".to_vec(),
					id_tiles: b"k0".to_vec(),
					id_data: b"key".to_vec(),
					header: vec![b"key".to_vec(), format!("k{}", n - 1).into_bytes(), b"brand_new".to_vec()],
					rows: vec![vec![cell_of("0"), cell_of("x"), cell_of("1")], vec![cell_of("zz"), cell_of("12"), cell_of("")]],
					tile: bytes.clone(),
					csv_style: flags,
				};
				emit_update(&mut out, &mut runner, &c, TileCompression::Uncompressed, true);
			}
		}
	}
	// faults after open, payload classes, reuse of the operation, stream ↔ lookup pairs, extreme coordinates
	let np = args.n(400, 6000);
	for i in 0..np {
		let c = gen_update_case(&mut rng, i % 3 != 0);
		emit_paths(&mut out, &mut runner, &c, &mut rng);
	}
	// decode / encode
	let nd = args.n(3000, 40000);
	for i in 0..nd {
		let o = gen_opts(i % 3 != 0, i % 7 == 0);
		let tile = gen_tile(&mut rng, &o, true);
		let style = gen_style(&mut rng);
		let bytes = encode_tile(&tile, &style);
		emit_decode(&mut out, &bytes, Some(&tile));
		if i % 5 == 0 && !bytes.is_empty() {
			// mutation: truncation – only "no panic" and model agreement are judged
			// (bit flips can announce terabyte lengths whose allocation aborts the process: C19's subject)
			let mut m = bytes.clone();
			m.truncate(rng.below(m.len() as u64) as usize);
			emit_decode(&mut out, &m, None);
		}
	}
	// the operation
	let nu = args.n(4000, 40000);
	for i in 0..nu {
		let mut c = gen_update_case(&mut rng, i % 3 != 0);
		let comp = if i % 6 == 5 { TileCompression::Gzip } else { TileCompression::Uncompressed };
		let mut with_stream = i % 4 == 0;
		if i % 16 == 7 && c.tile.len() > 1 {
			// a truncated tile in the source: lookup must fail cleanly, the stream must survive
			let keep = rng.range(1, c.tile.len() as u64 - 1) as usize;
			c.tile.truncate(keep);
			with_stream = true;
		}
		emit_update(&mut out, &mut runner, &c, comp, with_stream);
	}
	out.finish();
}
