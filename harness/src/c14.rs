//! C14 – parallel stream operators keep every tile paired with its own result.
//!
//! Real `TileStream::{map_blob_parallel, filter_map_blob_parallel, from_coord_iter_parallel}` on a
//! multi-thread tokio runtime. Every callback blocks on a gate (Mutex + Condvar); a controller
//! thread releases exactly one in-flight item at a time, choosing only among items whose callback
//! has actually started, and waits for the released item's result to pass a tap behind the
//! operator before it releases the next one. No sleeps: every wait is on a condition.
//! The window (`num_cpus::get()`, read when the operator is built) is varied through the CPU
//! affinity of the constructing thread.
//!
//! case line: `C14 <op> <n> <k|c> <items> <choices>`   (see lean/VtModel/Sched.lean)
//! impl line: `<sequence seen at the tap>;<chunks seen by for_each_buffered | * for collect>`
use crate::common::*;
use futures::StreamExt;
use serde_json::json;
use std::collections::HashMap;
use std::sync::{Arc, Condvar, Mutex};
use std::time::Duration;
use versatiles_core::types::{Blob, TileCoord3, TileStream};

/// number of stalled schedules so far: the first stall may take 20 s to be declared, later ones 2 s;
/// after 5 the remaining cases are skipped (the run is then a broken correspondence anyway)
/// set as soon as a released result is observed NOT to leave the operator (delivery is not in
/// completion order): from then on the controller no longer waits for the tap, the cases still run
/// to the end quickly and the multiset / pairing / consumer laws are judged; the differing output
/// sequence shows up as a model disagreement.
static ORDER_FREE: std::sync::atomic::AtomicBool = std::sync::atomic::AtomicBool::new(false);
use std::sync::atomic::Ordering::SeqCst;
/// set when a run had to be abandoned (its thread is detached and may still sit in `block_on`):
/// the process then leaves through `process::exit` so that nothing can block the exit
static ABANDONED: std::sync::atomic::AtomicBool = std::sync::atomic::AtomicBool::new(false);
static NO_PROGRESS: std::sync::atomic::AtomicUsize = std::sync::atomic::AtomicUsize::new(0);

enum Guard<T> {
	Done(T),
	Panicked(String),
	/// neither finished nor panicked within the limit
	NoProgress,
}

/// Runs `f` (a call into the code under test) on its own thread under catch_unwind and a watchdog.
/// On expiry the thread is detached; the caller reports `no_progress` and continues.

/// `from_coord_iter_parallel` takes any iterator: the harness hands the same coordinates over in iterators of every
/// size-hint shape (exact `vec::IntoIter`; `filter` = (0, Some(n)); `from_fn` = (0, None); `flat_map`; `chain` with an empty
/// head; `skip_while`), chosen from the coordinates themselves so that a case replays identically. An operator that trusts
/// `size_hint` (empty fast path, pre-sized buffers) loses or invents items only on the lazy shapes (seed C14-13).
pub static COORD_ITER_SHAPES: [std::sync::atomic::AtomicU64; 6] = [const { std::sync::atomic::AtomicU64::new(0) }; 6];
fn coord_iter_shaped(v: Vec<TileCoord3>) -> Box<dyn Iterator<Item = TileCoord3> + Send> {
	let shape = (v.len() + v.first().map(|c| (c.x as usize) + (c.y as usize)).unwrap_or(0)) % 6;
	COORD_ITER_SHAPES[shape].fetch_add(1, SeqCst);
	match shape {
		0 => Box::new(v.into_iter()),
		1 => Box::new(v.into_iter().filter(|_| true)),
		2 => {
			let mut it = v.into_iter();
			Box::new(std::iter::from_fn(move || it.next()))
		}
		3 => Box::new(v.into_iter().flat_map(|c| std::iter::once(c))),
		4 => Box::new(Vec::<TileCoord3>::new().into_iter().filter(|_| true).chain(v.into_iter().filter(|_| true))),
		_ => Box::new(v.into_iter().skip_while(|_| false)),
	}
}

fn guarded<T: Send + 'static>(limit: Duration, f: impl FnOnce() -> T + Send + 'static) -> Guard<T> {
	let (tx, rx) = std::sync::mpsc::channel();
	std::thread::spawn(move || {
		let _ = tx.send(catch(f));
	});
	let limit = if NO_PROGRESS.load(SeqCst) > 0 { limit.min(Duration::from_secs(4)) } else { limit };
	match rx.recv_timeout(limit) {
		Ok(Ok(v)) => Guard::Done(v),
		Ok(Err(m)) => Guard::Panicked(m),
		Err(_) => {
			ABANDONED.store(true, SeqCst);
			NO_PROGRESS.fetch_add(1, SeqCst);
			Guard::NoProgress
		}
	}
}
/// for the free-running (ungated) cases: panic and expiry both as `Err`
fn guarded_result<T: Send + 'static>(f: impl FnOnce() -> T + Send + 'static) -> Result<T, String> {
	match guarded(Duration::from_secs(30), f) {
		Guard::Done(v) => Ok(v),
		Guard::Panicked(m) => Err(format!("panic: {m}")),
		Guard::NoProgress => Err("no_progress: the stream neither delivered its items nor finished within the watchdog limit".into()),
	}
}

static STALLS: std::sync::atomic::AtomicUsize = std::sync::atomic::AtomicUsize::new(0);
fn wait_limit() -> Duration {
	if STALLS.load(std::sync::atomic::Ordering::SeqCst) == 0 { Duration::from_secs(20) } else { Duration::from_secs(2) }
}

#[derive(Clone, Copy, PartialEq, Debug)]
enum Op {
	Map,
	Fmap,
	Coord,
}
impl Op {
	fn name(self) -> &'static str {
		match self {
			Op::Map => "map",
			Op::Fmap => "fmap",
			Op::Coord => "coord",
		}
	}
	fn parse(s: &str) -> Op {
		match s {
			"map" => Op::Map,
			"fmap" => Op::Fmap,
			_ => Op::Coord,
		}
	}
	/// the callback family (same arithmetic as `fOf` in the model): per item `None` / `Some(empty)` /
	/// `Some(1 byte)` / `Some(transformed)` / `Some(large)`, as result codes
	fn f(self, a: u64) -> Option<u64> {
		let result = |kind: u64| match kind {
			0 => 0,
			1 => 1 + a % 256,
			2 => 1000 + (2 * a + 11),
			_ => 1_000_000_000_000 + a,
		};
		match self {
			Op::Map => Some(result(a % 4)),
			_ => if a % 5 == 0 { None } else { Some(result(a % 5 - 1)) },
		}
	}
}

/// coordinate id ↔ `TileCoord3` (fields are public: out-of-range x/y can be built directly):
/// x = bits 0..20, y = bits 20..40, z = 20 if bits 40.. are 0, else (bits 40..) - 1
fn coord_of(id: u64) -> TileCoord3 {
	let zc = id >> 40;
	TileCoord3 { x: (id & 0xFFFFF) as u32, y: ((id >> 20) & 0xFFFFF) as u32, z: if zc == 0 { 20 } else { (zc - 1) as u8 } }
}
fn id_of(c: &TileCoord3) -> u64 {
	let zc = if c.z == 20 { 0 } else { c.z as u64 + 1 };
	(zc << 40) | ((c.y as u64) << 20) | c.x as u64
}
/// argument id → input blob: 0 = empty blob, otherwise decimal text (padded to 3000 bytes if 11 | a)
fn blob_of(a: u64) -> Blob {
	if a == 0 {
		Blob::from(Vec::<u8>::new())
	} else if a % 11 == 0 {
		Blob::from(format!("{a:<3000}"))
	} else {
		Blob::from(a.to_string())
	}
}
fn val_of(b: &Blob) -> u64 {
	let s = b.as_str().trim_end();
	if s.is_empty() { 0 } else { s.parse().unwrap() }
}
/// result code → blob (`big` = size of the large class)
fn res_blob(r: u64, big: usize) -> Blob {
	if r == 0 {
		Blob::from(Vec::<u8>::new())
	} else if r <= 256 {
		Blob::from(vec![(r - 1) as u8])
	} else if r < 1_000_000_000_000 {
		Blob::from((r - 1000).to_string())
	} else {
		let a = r - 1_000_000_000_000;
		let mut v = format!("{a:016}").into_bytes();
		v.extend((16..big).map(|i| ((i as u64 * 31 + a) % 251) as u8));
		Blob::from(v)
	}
}
/// blob → result code (`u64::MAX` = not a blob of the family, e.g. a corrupted large one)
fn res_val(b: &Blob) -> u64 {
	let v = b.as_slice();
	match v.len() {
		0 => 0,
		1 => 1 + v[0] as u64,
		2..=40 => std::str::from_utf8(v).ok().and_then(|s| s.parse::<u64>().ok()).map_or(u64::MAX, |x| 1000 + x),
		_ => {
			let Some(a) = std::str::from_utf8(&v[..16]).ok().and_then(|s| s.parse::<u64>().ok()) else { return u64::MAX };
			if (16..v.len()).all(|i| v[i] == ((i as u64 * 31 + a) % 251) as u8) { 1_000_000_000_000 + a } else { u64::MAX }
		}
	}
}

/// how the controller picks the next item to complete among the in-flight ones (sorted by index)
#[derive(Clone, Debug)]
enum Strategy {
	Digits(Vec<usize>), // position in the in-flight list per step (exhaustive enumeration)
	Fixed(Vec<usize>),  // item indices (replay)
	First,
	Last,
	Rotate,
	Interleave,
	/// item 0 is held back until `m` later items have completed
	HoldFirst(usize),
	/// item `idx` is held back (once it has started) until `m` other items have completed
	Hold(usize, usize),
	/// up to `b` in-flight items (the newest ones) are released together – their mutual order is left to
	/// the runtime, so such a case is judged by the oracle only (no model line)
	Burst(usize),
	Random(u64),
}

struct GS {
	started: Vec<bool>,
	n_started: usize,
	released: Vec<bool>,
	tap: Vec<(u64, u64)>,
	abort: bool,
}
struct Gate {
	m: Mutex<GS>,
	cv: Condvar,        // the controller waits here (starts, tap)
	item: Vec<Condvar>, // callback i waits on item[i]
}

impl Gate {
	/// body of every callback: announce the start, then block until released
	fn enter(&self, idx: usize) {
		let mut g = self.m.lock().unwrap();
		g.started[idx] = true;
		g.n_started += 1;
		self.cv.notify_all();
		let (g, t) = self.item[idx].wait_timeout_while(g, wait_limit(), |s| !s.released[idx] && !s.abort).unwrap();
		if t.timed_out() {
			self.abort(g);
		}
	}
	fn abort(&self, mut g: std::sync::MutexGuard<GS>) {
		g.abort = true;
		drop(g);
		self.cv.notify_all();
		for c in &self.item {
			c.notify_all();
		}
	}
}

struct Outcome {
	choices: Vec<usize>,
	tap: Vec<(u64, u64)>,
	consumer: Vec<Vec<(u64, u64)>>, // one vector for collect, chunks for for_each_buffered
	stalled: Option<String>,
	bad_choice: bool,
	/// the operator / consumer under test panicked (message)
	panicked: Option<String>,
	/// the run neither finished nor made progress: it was abandoned by the watchdog
	no_progress: bool,
}

/// Runs one schedule on the real operator. `items` = (coord id, arg).
fn execute(rt: &Arc<tokio::runtime::Runtime>, op: Op, window: usize, k: Option<usize>, items: &[(u64, u64)], strat: Strategy) -> Outcome {
	let len = items.len();
	let gate = Arc::new(Gate {
		m: Mutex::new(GS { started: vec![false; len], n_started: 0, released: vec![false; len], tap: vec![], abort: false }),
		cv: Condvar::new(),
		item: (0..len).map(|_| Condvar::new()).collect(),
	});
	// the callback sees only the blob (or the coordinate): map its value back to the item index
	let idx_of: Arc<HashMap<u64, usize>> = Arc::new(items.iter().enumerate().map(|(i, (_, a))| (*a, i)).collect());
	let keeps: Vec<bool> = items.iter().map(|(_, a)| op.f(*a).is_some()).collect();

	// controller
	let ctl = {
		let gate = gate.clone();
		let keeps = keeps.clone();
		std::thread::spawn(move || -> (Vec<usize>, Option<String>, bool) {
			let mut choices = vec![];
			let mut kept = 0usize;
			let mut rng = Rng::new(if let Strategy::Random(s) = &strat { *s } else { 0 });
			let mut held = 0usize;
			let mut step = 0usize;
			while step < len {
				// 1. the window has been refilled: exactly min(len, step + window) callbacks have started
				let want = len.min(step + window);
				let g = gate.m.lock().unwrap();
				let (mut g, t) = gate.cv.wait_timeout_while(g, wait_limit(), |s| s.n_started < want && !s.abort).unwrap();
				if t.timed_out() || g.abort {
					let m = format!("step {step}: {} callbacks started, expected {want}", g.n_started);
					gate.abort(g);
					return (choices, Some(m), false);
				}
				if g.n_started > want {
					let m = format!("step {step}: {} callbacks started, more than the window allows ({want})", g.n_started);
					gate.abort(g);
					return (choices, Some(m), false);
				}
				// 2. choose among the items that have started and are not released
				let inflight: Vec<usize> = (0..len).filter(|i| g.started[*i] && !g.released[*i]).collect();
				if let Strategy::Burst(b) = &strat {
					let picks: Vec<usize> = inflight.iter().rev().take((*b).max(1)).cloned().collect();
					for c in &picks {
						g.released[*c] = true;
						choices.push(*c);
						gate.item[*c].notify_all();
						if keeps[*c] { kept += 1; }
					}
					step += picks.len();
					if !ORDER_FREE.load(SeqCst) {
						let refill = step + window;
						let can_refill = refill <= len;
						let (g, _) = gate
							.cv
							.wait_timeout_while(g, Duration::from_secs(5), |s| s.tap.len() < kept && !(can_refill && s.n_started >= refill) && !s.abort)
							.unwrap();
						if g.abort {
							gate.abort(g);
							return (choices, Some(format!("step {step}: aborted")), false);
						}
						if g.tap.len() < kept {
							ORDER_FREE.store(true, SeqCst);
						}
					}
					continue;
				}
				let c = match &strat {
					Strategy::Burst(_) => unreachable!(),
					Strategy::Hold(idx, m) => {
						if inflight.contains(idx) && held < *m && inflight.len() > 1 {
							held += 1;
							let others: Vec<usize> = inflight.iter().filter(|i| *i != idx).cloned().collect();
							others[step % others.len()]
						} else if inflight.contains(idx) {
							*idx
						} else {
							inflight[0]
						}
					}
					Strategy::Digits(d) => inflight[d[step] % inflight.len()],
					Strategy::Fixed(l) => {
						if step >= l.len() || !inflight.contains(&l[step]) {
							gate.abort(g);
							return (choices, None, true);
						}
						l[step]
					}
					Strategy::First => inflight[0],
					Strategy::Last => *inflight.last().unwrap(),
					Strategy::Rotate => inflight[step % inflight.len()],
					Strategy::Interleave => if step % 2 == 0 { *inflight.last().unwrap() } else { inflight[0] },
					Strategy::HoldFirst(m) => if step < *m && inflight.len() > 1 { inflight[1 + step % (inflight.len() - 1)] } else { inflight[0] },
					Strategy::Random(_) => inflight[rng.below(inflight.len() as u64) as usize],
				};
				g.released[c] = true;
				choices.push(c);
				gate.item[c].notify_all();
				// 3. a kept item must come out of the operator before the next release – unless the operator
				//    does not deliver in completion order at all (then only the laws are judged, see ORDER_FREE)
				if keeps[c] {
					kept += 1;
					if !ORDER_FREE.load(SeqCst) {
						// the tap precedes the refill: a further callback starting without the result at the
						// tap proves that the operator holds the result back (no timing involved)
						let refill = step + 1 + window;
						let can_refill = refill <= len;
						let (g, t) = gate
							.cv
							.wait_timeout_while(g, Duration::from_secs(5), |s| s.tap.len() < kept && !(can_refill && s.n_started >= refill) && !s.abort)
							.unwrap();
						if g.abort {
							gate.abort(g);
							return (choices, Some(format!("step {step}: aborted")), false);
						}
						if g.tap.len() < kept {
							let _ = t;
							ORDER_FREE.store(true, SeqCst);
						}
					}
				}
				step += 1;
			}
			(choices, None, false)
		})
	};

	let big: usize = if len <= 100 { 70_000 } else { 200 };
	// every call into the code under test runs under catch_unwind: a panic is an outcome, not the end of the harness
	let gate_p = gate.clone();
	let (tx, rx) = std::sync::mpsc::channel();
	{
		let rt = rt.clone();
		let gate = gate.clone();
		let idx_of = idx_of.clone();
		let items: Vec<(u64, u64)> = items.to_vec();
		std::thread::spawn(move || {
	let run = catch(|| rt.block_on(async {
		let g1 = gate.clone();
		let cb_idx = idx_of.clone();
		let stream = match op {
			Op::Map => TileStream::from_vec(items.iter().map(|(c, a)| (coord_of(*c), blob_of(*a))).collect()).map_blob_parallel(move |b| {
				let a = val_of(&b);
				g1.enter(cb_idx[&a]);
				res_blob(Op::Map.f(a).unwrap(), big)
			}),
			Op::Fmap => TileStream::from_vec(items.iter().map(|(c, a)| (coord_of(*c), blob_of(*a))).collect()).filter_map_blob_parallel(move |b| {
				let a = val_of(&b);
				g1.enter(cb_idx[&a]);
				Op::Fmap.f(a).map(|r| res_blob(r, big))
			}),
			Op::Coord => TileStream::from_coord_iter_parallel(coord_iter_shaped(items.iter().map(|(c, _)| coord_of(*c)).collect::<Vec<_>>()), move |c| {
				let a = id_of(&c);
				g1.enter(cb_idx[&a]);
				Op::Coord.f(a).map(|r| res_blob(r, big))
			}),
		};
		// tap behind the operator: the sequence in which results leave it
		let g2 = gate.clone();
		let tapped = TileStream::from_stream(
			stream
				.stream
				.inspect(move |(c, b)| {
					let mut g = g2.m.lock().unwrap();
					g.tap.push((id_of(c), res_val(b)));
					g2.cv.notify_all();
				})
				.boxed(),
		);
		let conv = |v: Vec<(TileCoord3, Blob)>| v.iter().map(|(c, b)| (id_of(c), res_val(b))).collect::<Vec<_>>();
		match k {
			None => vec![conv(tapped.collect().await)],
			Some(k) => {
				let mut chunks = vec![];
				tapped.for_each_buffered(k, |ch| chunks.push(conv(ch))).await;
				chunks
			}
		}
	}));
			let _ = tx.send(run);
		});
	}
	// watchdog: the run must make progress (a callback starts, an item is released or delivered) or finish;
	// the controller's own stall detection (20 s, then the gate is opened) comes first, so a run that is
	// still silent after the limit below is not going to end at all
	let snapshot = || {
		let g = gate_p.m.lock().unwrap_or_else(|e| e.into_inner());
		(g.n_started, g.tap.len(), g.released.iter().filter(|r| **r).count(), g.abort)
	};
	let mut last = snapshot();
	let mut idle = 0u64;
	let idle_limit = if NO_PROGRESS.load(SeqCst) > 0 { 4 } else { 30 };
	let run = loop {
		match rx.recv_timeout(Duration::from_secs(1)) {
			Ok(r) => break Some(r),
			Err(_) => {
				let now = snapshot();
				if now != last {
					last = now;
					idle = 0;
				} else {
					idle += 1;
					if idle >= idle_limit {
						break None;
					}
				}
			}
		}
	};
	let mut no_progress = false;
	let (consumer, panicked) = match run {
		Some(Ok(c)) => (c, None),
		Some(Err(m)) => {
			// open the gate so that the callbacks and the controller come to an end
			let g = gate_p.m.lock().unwrap_or_else(|e| e.into_inner());
			gate_p.abort(g);
			(vec![], Some(m))
		}
		None => {
			// abandoned: the consumer thread stays behind (detached)
			ABANDONED.store(true, SeqCst);
			NO_PROGRESS.fetch_add(1, SeqCst);
			no_progress = true;
			let g = gate_p.m.lock().unwrap_or_else(|e| e.into_inner());
			gate_p.abort(g);
			(vec![], None)
		}
	};
	let (choices, stalled, bad_choice) = ctl.join().unwrap();
	let tap = gate_p.m.lock().unwrap_or_else(|e| e.into_inner()).tap.clone();
	Outcome { choices, tap, consumer, stalled: if panicked.is_some() || no_progress { None } else { stalled }, bad_choice, panicked, no_progress }
}

fn show_seq(v: &[(u64, u64)]) -> String {
	if v.is_empty() {
		"-".into()
	} else {
		v.iter().map(|(c, r)| format!("{c}:{r}")).collect::<Vec<_>>().join(",")
	}
}
fn show_list(v: &[usize]) -> String {
	if v.is_empty() {
		"-".into()
	} else {
		v.iter().map(|x| x.to_string()).collect::<Vec<_>>().join(",")
	}
}

struct Affinity {
	all: Vec<usize>,
}
impl Affinity {
	fn new() -> Self {
		let mut set: libc::cpu_set_t = unsafe { std::mem::zeroed() };
		let mut all = vec![];
		if unsafe { libc::sched_getaffinity(0, std::mem::size_of::<libc::cpu_set_t>(), &mut set) } == 0 {
			for i in 0..libc::CPU_SETSIZE as usize {
				if unsafe { libc::CPU_ISSET(i, &set) } {
					all.push(i);
				}
			}
		}
		Affinity { all }
	}
	/// restrict the calling thread to `n` CPUs; returns the window `num_cpus::get()` then reports
	fn set(&self, n: usize) -> usize {
		let mut set: libc::cpu_set_t = unsafe { std::mem::zeroed() };
		for c in self.all.iter().take(n.max(1)) {
			unsafe { libc::CPU_SET(*c, &mut set) };
		}
		unsafe { libc::sched_setaffinity(0, std::mem::size_of::<libc::cpu_set_t>(), &set) };
		num_cpus::get()
	}
}

struct Ctx<'a> {
	out: &'a mut Out,
	rt: &'a Arc<tokio::runtime::Runtime>,
	aff: &'a Affinity,
}

fn run_case(cx: &mut Ctx, op: Op, want_window: usize, k: Option<usize>, items: &[(u64, u64)], strat: Strategy) {
	let oracle_only = matches!(strat, Strategy::Burst(_));
	if STALLS.load(std::sync::atomic::Ordering::SeqCst) >= 5 || NO_PROGRESS.load(SeqCst) >= 4 {
		return;
	}
	let window = cx.aff.set(want_window);
	let o = execute(cx.rt, op, window, k, items, strat);
	let its = if items.is_empty() { "-".to_string() } else { items.iter().map(|(c, a)| format!("{c}:{a}")).collect::<Vec<_>>().join(",") };
	let kk = k.map_or("c".to_string(), |k| k.to_string());
	let line = format!("C14 {} {} {} {} {}", op.name(), window, kk, its, show_list(&o.choices));
	let impl_line = if o.no_progress {
		"no-progress".to_string()
	} else if o.panicked.is_some() {
		"panicked".to_string()
	} else if o.bad_choice {
		"bad-choice".to_string()
	} else if let Some(m) = &o.stalled {
		STALLS.fetch_add(1, std::sync::atomic::Ordering::SeqCst);
		if cx.out.notes.len() < 6 {
			cx.out.notes.push(format!("stalled (remaining cases are skipped after 5 stalls): {m}"));
		}
		"stalled".to_string()
	} else {
		format!(
			"{};{}",
			show_seq(&o.tap),
			match k {
				None => "*".to_string(),
				Some(_) => if o.consumer.is_empty() { "-".to_string() } else { o.consumer.iter().map(|c| show_seq(c)).collect::<Vec<_>>().join("|") },
			}
		)
	};
	if ORDER_FREE.load(SeqCst) && !cx.out.notes.iter().any(|n| n.starts_with("order-free")) {
		cx.out.notes.push("order-free mode: a released result did not leave the operator before later ones (delivery is not in completion order); the controller stopped waiting for the tap, only the multiset/pairing/consumer laws are judged from here on".into());
	}
	let reordered = o.choices.windows(2).any(|w| w[0] > w[1]);
	if oracle_only {
		cx.out.eval(&line, reordered);
		cx.out.count("burst_schedules");
	} else {
		cx.out.case(&line, &impl_line, reordered);
	}
	cx.out.count(&format!("op_{}", op.name()));
	cx.out.count(&format!("window_{window}"));
	cx.out.count(&format!("consumer_{}", if k.is_some() { "buffered" } else { "collect" }));
	cx.out.count(match items.len() { 0 => "len_0", 1..=3 => "len_1-3", 4..=7 => "len_4-7", 8..=99 => "len_8-99", 100..=999 => "len_100-999", _ => "len_1000+" });
	cx.out.count_n("items", items.len() as u64);
	if reordered { cx.out.count("reordered_schedules"); }

	// ---- direct oracle (independent of the model)
	let detail = |msg: String| json!({"case": trunc(&line, 4000), "impl": trunc(&impl_line, 600), "message": msg});
	let sig = |kind: &str| json!({"kind": kind, "op": op.name(), "consumer": if k.is_some() { "buffered" } else { "collect" }});
	// A stall, a window overrun or an unexpected delivery order mean that the *model* (window,
	// unordered delivery) no longer describes the code: they show up as a differing impl line, not as
	// an oracle failure. After a stall the gate is opened and the stream drains, so the laws below
	// are still judged on the complete output.
	if o.no_progress {
		let msg = format!("the stream of {} items neither finished nor made progress (window {window}): {} callbacks started, {} results delivered", items.len(), o.choices.len(), o.tap.len());
		cx.out.oracle(false, &format!("C14 no_progress: {msg}"), json!({"kind": "no_progress", "op": op.name(), "window": window}), detail(msg.clone()));
		return;
	}
	if let Some(m) = &o.panicked {
		// total callbacks, valid parameters: the stream must not panic (for_each_buffered accepts every buffer size)
		let msg = format!("the stream / consumer panicked: {}", trunc(m, 200));
		cx.out.oracle(false, &format!("C14 panic: {msg}"), json!({"kind": "panic", "op": op.name(), "consumer": if k.is_some() { "buffered" } else { "collect" }, "k_zero": k == Some(0), "k_max": k == Some(usize::MAX)}), detail(msg.clone()));
		return;
	}
	if o.bad_choice {
		cx.out.oracle(true, "", json!(null), json!(null));
		return;
	}
	// (1) pairing law: the results that left the operator are exactly, as a multiset, the demanded pairs
	let mut want: Vec<(u64, u64)> = items.iter().filter_map(|(c, a)| op.f(*a).map(|r| (*c, r))).collect();
	let mut got = o.tap.clone();
	want.sort();
	got.sort();
	if want != got {
		let missing: Vec<_> = want.iter().filter(|p| !got.contains(p)).take(3).collect();
		let surplus: Vec<_> = got.iter().filter(|p| !want.contains(p)).take(3).collect();
		let m = format!("output multiset differs from the demanded pairs: {} expected, {} seen; missing {missing:?}, unexpected {surplus:?}", want.len(), got.len());
		cx.out.oracle(false, &format!("C14 pairing: {m}"), sig("pairing"), detail(m.clone()));
		return;
	}
	// (2) [correspondence, not the property] the observed order is the chosen completion order
	let order: Vec<(u64, u64)> = o.choices.iter().filter_map(|i| op.f(items[*i].1).map(|r| (items[*i].0, r))).collect();
	if o.stalled.is_none() && order != o.tap {
		cx.out.count("order_differs_from_release_order");
	}
	// (3) the consumer sees every item once, in stream order; chunk sizes
	let flat: Vec<(u64, u64)> = o.consumer.iter().flatten().cloned().collect();
	if flat != o.tap {
		let m = format!("the consumer saw {} items, the stream delivered {}", flat.len(), o.tap.len());
		cx.out.oracle(false, &format!("C14 buffered: {m}"), sig("consumer"), detail(m.clone()));
		return;
	}
	if let Some(k) = k {
		let n = o.consumer.len();
		for (i, ch) in o.consumer.iter().enumerate() {
			let full = k.max(1);
			let ok = if i + 1 < n { ch.len() == full } else { !ch.is_empty() && ch.len() <= full };
			if !ok {
				let m = format!("chunk {i} of {n} has {} items (buffer size {k})", ch.len());
				cx.out.oracle(false, &format!("C14 buffered: {m}"), sig("chunk-size"), detail(m.clone()));
				return;
			}
		}
	}
	cx.out.oracle(true, "", json!(null), json!(null));
}

/// z = 2 coordinates outside the 4×4 grid whose sort index collides with an in-range one:
/// (5,0) and (1,1) both give offset + 5; (9,1) and (1,3) both give offset + 13
const COLLIDING: [u64; 4] = [(3 << 40) | 5, (3 << 40) | (1 << 20) | 1, (3 << 40) | (1 << 20) | 9, (3 << 40) | (3 << 20) | 1];

fn gen_items(rng: &mut Rng, op: Op, len: usize) -> Vec<(u64, u64)> {
	// unique args (the callback is gated by its argument; arg 0 = the empty input blob)
	let base = if rng.chance(1, 2) { 0 } else { rng.below(50) };
	let mut args: Vec<u64> = (0..len as u64).map(|i| base + i).collect();
	if op == Op::Coord {
		// the argument is the coordinate itself: mix in the out-of-range / colliding ones
		for (i, c) in COLLIDING.iter().enumerate() {
			if i < args.len() && rng.chance(1, 2) { args[i] = *c; }
		}
	}
	// shuffle so that dropped / empty / large results are spread irregularly
	for i in (1..args.len()).rev() {
		let j = rng.below(i as u64 + 1) as usize;
		args.swap(i, j);
	}
	let mut items: Vec<(u64, u64)> = args
		.iter()
		.map(|a| match op {
			Op::Coord => (*a, *a),
			_ => (match rng.below(8) { 0 | 1 => rng.below(len as u64 / 2 + 1), 2 => *rng.pick(&COLLIDING), _ => 1000 + *a }, *a),
		})
		.collect();
	// the input stream contains the same coordinate twice
	if op != Op::Coord && len >= 2 && rng.chance(2, 3) {
		let i = rng.below(len as u64) as usize;
		let j = (i + 1 + rng.below(len as u64 - 1) as usize) % len;
		items[j].0 = items[i].0;
	}
	items
}

// ---------------------------------------------------------------- TileConverter::process_stream

fn comp_name(c: &versatiles_core::types::TileCompression) -> &'static str {
	use versatiles_core::types::TileCompression::*;
	match c { Uncompressed => "raw", Gzip => "gzip", Brotli => "brotli" }
}
fn comp_parse(s: &str) -> versatiles_core::types::TileCompression {
	use versatiles_core::types::TileCompression::*;
	match s { "gzip" => Gzip, "brotli" => Brotli, _ => Uncompressed }
}
/// independent codecs (flate2 / brotli crates directly)
fn enc(c: &versatiles_core::types::TileCompression, data: &[u8]) -> Vec<u8> {
	use std::io::Write;
	use versatiles_core::types::TileCompression::*;
	match c {
		Uncompressed => data.to_vec(),
		Gzip => { let mut e = flate2::write::GzEncoder::new(Vec::new(), flate2::Compression::default()); e.write_all(data).unwrap(); e.finish().unwrap() }
		Brotli => { let mut o = Vec::new(); { let mut w = brotli::CompressorWriter::new(&mut o, 4096, 4, 20); w.write_all(data).unwrap(); } o }
	}
}
fn dec(c: &versatiles_core::types::TileCompression, data: &[u8]) -> Option<Vec<u8>> {
	use std::io::Read;
	use versatiles_core::types::TileCompression::*;
	let mut o = Vec::new();
	match c {
		Uncompressed => Some(data.to_vec()),
		Gzip => flate2::read::GzDecoder::new(data).read_to_end(&mut o).ok().map(|_| o),
		Brotli => brotli::Decompressor::new(data, 4096).read_to_end(&mut o).ok().map(|_| o),
	}
}

/// The MAP operator as it is used by the converter: `TileConverter::new_tile_recompressor(src, dst, force)
/// .process_stream(..)` over streams with one corrupt / mismatched tile among valid ones. Either the
/// stream fails loudly (panic) or every input has exactly one output.
/// case: `C14conv <src> <dst> <force> <fault> <n> <j> <seed>`
fn converter_cases(cx: &mut Ctx, rng: &mut Rng, thorough: bool, replay: Option<&[&str]>) {
	use versatiles_container::tile_converter::TileConverter;
	use versatiles_core::types::TileCompression::*;
	let comps = [Uncompressed, Gzip, Brotli];
	// "memo": no corrupt tile, but one or two LARGE (slow) payloads among long runs of IDENTICAL small ones and
	// alternating A,B pairs – results must not travel between coordinates (shared state between worker tasks)
	let faults = ["none", "truncated", "garbage", "empty", "other-codec", "raw-in-compressed", "memo"];
	let mut plan: Vec<(versatiles_core::types::TileCompression, versatiles_core::types::TileCompression, bool, String, usize, usize, u64)> = vec![];
	if let Some(t) = replay {
		plan.push((comp_parse(t[1]), comp_parse(t[2]), t[3] == "1", t[4].to_string(), t[5].parse().unwrap(), t[6].parse().unwrap(), t[7].parse().unwrap()));
	} else {
		for src in comps {
			for dst in comps {
				for force in [false, true] {
					for fault in faults {
						for _ in 0..if thorough { 4 } else { 1 } {
							let n = if fault == "memo" { rng.range(3000, if thorough { 12000 } else { 5000 }) as usize } else { rng.range(2, if thorough { 300 } else { 60 }) as usize };
							plan.push((src, dst, force, fault.to_string(), n, rng.below(n as u64) as usize, rng.next() % 1_000_000));
						}
					}
				}
			}
		}
	}
	for (src, dst, force, fault, n, j, seed) in plan {
		let mut r = Rng::new(seed);
		let contents: Vec<Vec<u8>> = if fault == "memo" {
			let small = r.bytes(120);
			let (a, b) = (r.bytes(90), r.bytes(91));
			let big: Vec<usize> = vec![20_000 + r.below(60_000) as usize, 100_000 + r.below(300_000) as usize, 5_000 + r.below(20_000) as usize];
			(0..n)
				.map(|i| {
					if i == 0 { r.bytes(big[0]) } else if i == n / 3 { r.bytes(big[1]) } else if i == n / 2 + j % 50 { r.bytes(big[2]) }
					else if i < 2 * n / 3 { small.clone() } else if i % 2 == 0 { a.clone() } else { b.clone() }
				})
				.collect()
		} else {
			(0..n).map(|i| if i % 7 == 3 { vec![] } else { let l = r.below(300) as usize; r.bytes(l) }).collect()
		};
		let unique_coords = fault == "memo";
		let mut inputs: Vec<(TileCoord3, Blob)> = contents.iter().enumerate().map(|(i, c)| (coord_of(if unique_coords { i as u64 } else { i as u64 / 2 }), Blob::from(enc(&src, c)))).collect();
		let good = enc(&src, &contents[j]);
		let bad: Option<Vec<u8>> = match fault.as_str() {
			"none" | "memo" => None,
			"truncated" => Some(good[..good.len() / 2].to_vec()),
			"garbage" => Some(r.bytes(40)),
			"empty" => Some(vec![]),
			"other-codec" => Some(enc(if src == Gzip { &Brotli } else { &Gzip }, &contents[j])),
			_ => Some(b"plain text that was never compressed".to_vec()),
		};
		if let Some(b) = &bad {
			inputs[j].1 = Blob::from(b.clone());
		}
		let conv = TileConverter::new_tile_recompressor(&src, &dst, force).unwrap();
		let active = !conv.is_empty();
		let inp = inputs.clone();
		let rt = cx.rt.clone();
		let res = guarded_result(move || rt.block_on(async { conv.process_stream(TileStream::from_vec(inp)).collect().await }));
		let case = format!("C14conv {} {} {} {} {} {} {}", comp_name(&src), comp_name(&dst), force as u8, fault, n, j, seed);
		cx.out.eval(&case, bad.is_some() && active && src != Uncompressed);
		cx.out.count("converter_streams");
		let sig = |kind: &str| json!({"kind": kind, "src": comp_name(&src), "dst": comp_name(&dst), "fault": fault});
		let detail = |m: &str| json!({"case": case, "message": m});
		match res {
			Err(m) if m.starts_with("no_progress") => {
				cx.out.oracle(false, &format!("C14 no_progress: converter stream: {m}"), sig("no_progress"), detail(&m));
			}
			Err(_) => {
				cx.out.count("converter_stream_failed_loudly");
				if bad.is_none() || !active {
					cx.out.oracle(false, "C14 converter: the stream panicked although every tile was valid", sig("map_panic_on_valid"), detail("panic"));
				} else {
					cx.out.oracle(true, "", json!(null), json!(null));
				}
			}
			Ok(outv) => {
				cx.out.count("converter_stream_completed");
				let mut verdict: Option<(&str, String)> = None;
				if outv.len() < inputs.len() {
					verdict = Some(("map_lost_item", format!("process_stream finished normally with {} outputs for {} inputs", outv.len(), inputs.len())));
				} else if outv.len() > inputs.len() {
					verdict = Some(("map_extra_item", format!("process_stream finished with {} outputs for {} inputs", outv.len(), inputs.len())));
				} else {
					// one output per input, paired with its own coordinate and (for valid tiles) its own content
					let mut want: Vec<(u64, Option<Vec<u8>>)> = vec![];
					let mut got: Vec<(u64, Option<Vec<u8>>)> = vec![];
					let bad_out_ok = bad.is_some();
					for (i, (c, _)) in inputs.iter().enumerate() {
						if i == j && bad_out_ok { want.push((id_of(c), None)); } else { want.push((id_of(c), Some(contents[i].clone()))); }
					}
					for (c, b) in &outv {
						let plain = if active { dec(&dst, b.as_slice()) } else { dec(&src, b.as_slice()) };
						got.push((id_of(c), plain));
					}
					// the corrupt tile's output is unconstrained: remove one entry with its coordinate that is not a wanted content
					let mut w: Vec<(u64, Vec<u8>)> = want.iter().filter_map(|(c, p)| p.clone().map(|p| (*c, p))).collect();
					let mut g: Vec<(u64, Vec<u8>)> = got.iter().map(|(c, p)| (*c, p.clone().unwrap_or_else(|| b"<undecodable>".to_vec()))).collect();
					w.sort();
					g.sort();
					if unique_coords {
						// one output per coordinate: compare position by position
						if let Some((x, y)) = w.iter().zip(g.iter()).find(|(x, y)| x != y) {
							verdict = Some(("map_wrong_pair", if x.0 == y.0 { format!("the output for coordinate id {} does not decode to that coordinate's input ({} bytes expected, {} delivered)", x.0, x.1.len(), y.1.len()) } else { format!("coordinate id {} expected, {} delivered", x.0, y.0) }));
						}
						g.clear();
						if verdict.is_none() && w.len() != outv.len() { verdict = Some(("map_wrong_pair", "surplus outputs".into())); }
					}
					for x in w.iter().filter(|_| !unique_coords) {
						if let Some(pos) = g.iter().position(|y| y == x) { g.remove(pos); } else {
							verdict = Some(("map_wrong_pair", format!("no output carries coordinate id {} with its own content", x.0)));
							break;
						}
					}
					if verdict.is_none() && !unique_coords && g.len() != usize::from(bad_out_ok) {
						verdict = Some(("map_wrong_pair", "surplus outputs".into()));
					}
				}
				match verdict {
					None => cx.out.oracle(true, "", json!(null), json!(null)),
					Some((k, m)) => cx.out.oracle(false, &format!("C14 converter {k}: {m}"), sig(k), detail(&m)),
				}
			}
		}
	}
}

// ---------------------------------------------------------------- faults, reuse, composition (oracle only)

/// A callback that panics on one item (first / middle / last) – for every operator the stream must
/// fail loudly (the panic reaches the consumer); finishing normally means the item was lost silently.
/// case: `C14panic <op> <len> <at>`
fn panic_case(cx: &mut Ctx, op: Op, len: usize, at: usize) {
	let items: Vec<(u64, u64)> = (0..len as u64).map(|i| (if op == Op::Coord { i + 1 } else { 500 + i / 2 }, i + 1)).collect();
	let bad = items[at].1;
	let rt = cx.rt.clone();
	let its = items.clone();
	let res = guarded_result(move || {
		rt.block_on(async move {
			let big = 100;
			let stream = match op {
				Op::Map => TileStream::from_vec(its.iter().map(|(c, a)| (coord_of(*c), blob_of(*a))).collect()).map_blob_parallel(move |b| {
					let a = val_of(&b);
					if a == bad { panic!("callback failed"); }
					res_blob(Op::Map.f(a).unwrap(), big)
				}),
				Op::Fmap => TileStream::from_vec(its.iter().map(|(c, a)| (coord_of(*c), blob_of(*a))).collect()).filter_map_blob_parallel(move |b| {
					let a = val_of(&b);
					if a == bad { panic!("callback failed"); }
					Op::Fmap.f(a).map(|r| res_blob(r, big))
				}),
				Op::Coord => TileStream::from_coord_iter_parallel(coord_iter_shaped(its.iter().map(|(c, _)| coord_of(*c)).collect::<Vec<_>>()), move |c| {
					let a = id_of(&c);
					if a == bad { panic!("callback failed"); }
					Op::Coord.f(a).map(|r| res_blob(r, big))
				}),
			};
			stream.collect().await.len()
		})
	});
	let case = format!("C14panic {} {} {}", op.name(), len, at);
	cx.out.eval(&case, true);
	cx.out.count("panic_cases");
	match res {
		Err(m) if m.starts_with("no_progress") => {
			cx.out.oracle(false, &format!("C14 no_progress: {m}"), json!({"kind": "no_progress", "op": op.name()}), json!({"case": case, "message": m}));
		}
		Err(_) => {
			cx.out.count("panic_reached_consumer");
			cx.out.oracle(true, "", json!(null), json!(null));
		}
		Ok(n) => {
			let m = format!("the callback panicked on item {at} of {len}, yet the stream finished normally with {n} items: the tile was dropped silently");
			cx.out.oracle(false, &format!("C14 panic swallowed: {m}"), json!({"kind": "panic_swallowed", "op": op.name()}), json!({"case": case, "message": m}));
		}
	}
}

/// The sequential combinators (stream `C14s`, with model lines): from_vec/collect, next, for_each_sync,
/// for_each_async, map_coord, from_coord_vec_async, from_stream_iter, drain_and_count.
fn seq_cases(cx: &mut Ctx, rng: &mut Rng, replay: Option<&[&str]>) {
	let show_items = |v: &[(u64, u64)]| if v.is_empty() { "-".to_string() } else { v.iter().map(|(c, a)| format!("{c}:{a}")).collect::<Vec<_>>().join(",") };
	fn parse_items(s: &str) -> Vec<(u64, u64)> { if s == "-" { vec![] } else { s.split(',').map(|x| { let (c, a) = x.split_once(':').unwrap(); (c.parse().unwrap(), a.parse().unwrap()) }).collect() } }
	fn to_stream(v: &[(u64, u64)]) -> TileStream<'static> { TileStream::from_vec(v.iter().map(|(c, a)| (coord_of(*c), blob_of(*a))).collect()) }
	fn conv(v: Vec<(TileCoord3, Blob)>) -> Vec<(u64, u64)> { v.iter().map(|(c, b)| (id_of(c), val_of(b))).collect::<Vec<_>>() }
	let mut plan: Vec<(String, String)> = vec![];
	if let Some(t) = replay {
		if t.len() == 4 { plan.push((format!("{} {}", t[1], t[2]), t[3].to_string())); } else { plan.push((t[1].to_string(), t[2].to_string())); }
	} else {
		// for_each_buffered on a plain stream: every buffer size class (0, 1, len-1, len, len+1, usize::MAX)
		for len in [0usize, 1, 2, 7, 40] {
			for k in [0usize, 1, 2, len.saturating_sub(1), len, len + 1, usize::MAX] {
				let items: Vec<(u64, u64)> = (0..len).map(|_| (rng.below(30), 1 + rng.below(1000))).collect();
				plan.push((format!("buffered {k}"), show_items(&items)));
			}
		}
		for comb in ["collect", "next", "sync", "async", "mapcoord", "vecasync", "count", "flatten"] {
			for len in [0usize, 1, 2, 7, 40, 300] {
				let mk = |rng: &mut Rng, n: usize| -> Vec<(u64, u64)> { (0..n).map(|_| (rng.below(30), 1 + rng.below(1000))).collect() };
				if comb == "flatten" {
					let groups: Vec<String> = (0..rng.range(1, 5)).map(|_| { let n = rng.below(len as u64 + 1) as usize; show_items(&mk(rng, n)) }).collect();
					plan.push((comb.to_string(), groups.join("|")));
				} else {
					plan.push((comb.to_string(), show_items(&mk(rng, len))));
				}
			}
		}
	}
	for (comb, arg) in plan {
		let rt = cx.rt.clone();
		let (comb_c, arg_c) = (comb.clone(), arg.clone());
		let res: Result<String, String> = guarded_result(move || { let (comb, arg) = (comb_c, arg_c); match comb.as_str() {
			c if c.starts_with("buffered ") => {
				let k: usize = c[9..].parse().unwrap();
				let items = parse_items(&arg);
				rt.block_on(async {
					let mut chunks: Vec<String> = vec![];
					to_stream(&items).for_each_buffered(k, |ch| chunks.push(show_seq(&conv(ch)))).await;
					if chunks.is_empty() { "-".to_string() } else { chunks.join("|") }
				})
			}
			"flatten" => {
				let groups: Vec<Vec<(u64, u64)>> = arg.split('|').map(|g| parse_items(g)).collect();
				rt.block_on(async {
					let futs = groups.iter().map(|g| { let g = g.clone(); async move { TileStream::from_vec(g.iter().map(|(c, a)| (coord_of(*c), blob_of(*a))).collect()) } });
					show_seq(&conv(TileStream::from_stream_iter(futs).await.collect().await))
				})
			}
			_ => {
				let items = parse_items(&arg);
				rt.block_on(async {
					match comb.as_str() {
						"collect" => show_seq(&conv(to_stream(&items).collect().await)),
						"next" => {
							let mut s = to_stream(&items);
							let mut v = vec![];
							while let Some(x) = s.next().await { v.push(x); }
							show_seq(&conv(v))
						}
						"sync" => { let mut v = vec![]; to_stream(&items).for_each_sync(|x| v.push(x)).await; show_seq(&conv(v)) }
						"async" => {
							let v = Arc::new(Mutex::new(vec![]));
							let v2 = v.clone();
							to_stream(&items).for_each_async(move |x| { let v3 = v2.clone(); async move { v3.lock().unwrap().push(x); } }).await;
							let r = conv(v.lock().unwrap().clone());
							show_seq(&r)
						}
						"mapcoord" => show_seq(&conv(to_stream(&items).map_coord(|c| coord_of(id_of(&c) + 3)).collect().await)),
						"vecasync" => {
							let coords: Vec<TileCoord3> = items.iter().map(|(c, _)| coord_of(*c)).collect();
							show_seq(&conv(TileStream::from_coord_vec_async(coords, |c| async move {
								let id = id_of(&c);
								if id % 3 == 0 { None } else { Some((coord_of(id + 1), blob_of(2 * id))) }
							}).collect().await))
						}
						_ => to_stream(&items).drain_and_count().await.to_string(),
					}
				})
			}
		}});
		let case = format!("C14s {comb} {arg}");
		let line = match &res { Ok(r) => r.clone(), Err(m) if m.starts_with("no_progress") => "no-progress".to_string(), Err(_) => "panicked".to_string() };
		cx.out.case(&case, &line, arg != "-");
		cx.out.count(&format!("seq_{}", comb.split(' ').next().unwrap()));
		match res {
			Ok(_) => cx.out.oracle(true, "", json!(null), json!(null)),
			Err(m) => cx.out.oracle(false, &format!("C14 {}: sequential combinator `{comb}`: {}", if m.starts_with("no_progress") { "no_progress" } else { "panic" }, trunc(&m, 160)), json!({"kind": if m.starts_with("no_progress") { "no_progress" } else { "panic" }, "combinator": comb.split(' ').next().unwrap(), "k_max": comb.ends_with(&usize::MAX.to_string())}), json!({"case": case, "message": m})),
		}
	}
}

/// The property's progress clause as a direct oracle, free-running callbacks: at concurrency limits 1, 2
/// and the full window every stream of n items terminates after delivering its n (retained) items –
/// also behind a source that is Pending before the first item / between items / while no task is in
/// flight, and for parallel stages chained behind each other.
/// case: `C14progress <kind> <op> <window> <n>`
fn progress_cases(cx: &mut Ctx, rng: &mut Rng, full: usize) {
	for window in [1usize, 2, full] {
		let w = cx.aff.set(window);
		for op in [Op::Map, Op::Fmap, Op::Coord] {
			for n in [1usize, 5, 60] {
				for kind in ["plain", "pending-source", "chained"] {
					if kind == "pending-source" && op == Op::Coord {
						continue; // from_coord_iter_parallel takes an iterator, not a stream
					}
					if NO_PROGRESS.load(SeqCst) >= 8 {
						continue; // enough abandoned runs: keep the run time bounded
					}
					let items = gen_items(rng, op, n);
					let its = items.clone();
					let rt = cx.rt.clone();
					let delivered = Arc::new((Mutex::new(0usize), Condvar::new()));
					let del2 = delivered.clone();
					let res = guarded_result(move || {
						rt.block_on(async move {
							let big = 100;
							let input: Vec<(TileCoord3, Blob)> = its.iter().map(|(c, a)| (coord_of(*c), blob_of(*a))).collect();
							// the source: a plain vector, or a channel fed in three batches – the next batch is only sent
							// when everything retained of the previous one has been delivered (source Pending, no task in flight)
							let source: TileStream = if kind == "pending-source" {
								let (tx, rx) = futures::channel::mpsc::unbounded::<(TileCoord3, Blob)>();
								let keeps: Vec<bool> = its.iter().map(|(_, a)| op.f(*a).is_some()).collect();
								let del3 = del2.clone();
								std::thread::spawn(move || {
									let n = input.len();
									let cuts = [0, n / 3, n / 3, 2 * n / 3, n];
									let mut want = 0usize;
									for wdw in cuts.windows(2) {
										// before the first item, and between the batches: wait until the stream has drained
										let (m, cv) = &*del3;
										let g = m.lock().unwrap();
										let _ = cv.wait_timeout_while(g, Duration::from_secs(10), |d| *d < want).unwrap();
										for i in wdw[0]..wdw[1] {
											if keeps[i] { want += 1; }
											if tx.unbounded_send(input[i].clone()).is_err() { return; }
										}
									}
								});
								TileStream::from_stream(rx.boxed())
							} else {
								TileStream::from_vec(input)
							};
							let stage1 = match op {
								Op::Map => source.map_blob_parallel(move |b| res_blob(Op::Map.f(val_of(&b)).unwrap(), big)),
								Op::Fmap => source.filter_map_blob_parallel(move |b| Op::Fmap.f(val_of(&b)).map(|r| res_blob(r, big))),
								Op::Coord => TileStream::from_coord_iter_parallel(coord_iter_shaped(its.iter().map(|(c, _)| coord_of(*c)).collect::<Vec<_>>()), move |c| Op::Coord.f(id_of(&c)).map(|r| res_blob(r, big))),
							};
							// chained: two further parallel stages that keep the blob
							let stage = if kind == "chained" {
								stage1.map_blob_parallel(|b| b).filter_map_blob_parallel(Some).map_blob_parallel(|b| b)
							} else {
								stage1
							};
							let del4 = del2.clone();
							let tapped = TileStream::from_stream(stage.stream.inspect(move |_| { let (m, cv) = &*del4; *m.lock().unwrap() += 1; cv.notify_all(); }).boxed());
							tapped.collect().await.iter().map(|(c, b)| (id_of(c), res_val(b))).collect::<Vec<_>>()
						})
					});
					let case = format!("C14progress {kind} {} {w} {n}", op.name());
					cx.out.eval(&case, true);
					cx.out.count(&format!("progress_{kind}"));
					let mut want: Vec<(u64, u64)> = items.iter().filter_map(|(c, a)| op.f(*a).map(|r| (*c, r))).collect();
					want.sort();
					let verdict: Option<(&str, String)> = match res {
						Err(m) if m.starts_with("no_progress") => Some(("no_progress", m)),
						Err(m) => Some(("panic", m)),
						Ok(mut got) => {
							got.sort();
							if got == want { None } else { Some(("progress", format!("the stream ended after delivering {} of {} items", got.len(), want.len()))) }
						}
					};
					match verdict {
						None => cx.out.oracle(true, "", json!(null), json!(null)),
						Some((k, m)) => cx.out.oracle(false, &format!("C14 {k}: {} stream of {n} items at concurrency limit {w} ({kind}): {m}", op.name()), json!({"kind": k, "op": op.name(), "window": w, "source": kind}), json!({"case": case, "message": m})),
					}
				}
			}
		}
	}
	cx.aff.set(usize::MAX);
}

/// A stream consumed partially and then dropped, and a stream mapped twice (oracle only, free-running
/// callbacks): what was delivered must be correctly paired, never twice; nothing may hang or panic.
fn reuse_cases(cx: &mut Ctx, rng: &mut Rng) {
	for op in [Op::Map, Op::Fmap, Op::Coord] {
		for (len, take) in [(5usize, 0usize), (5, 2), (40, 1), (40, 17), (400, 100), (400, 399)] {
			let items = gen_items(rng, op, len);
			let its = items.clone();
			let rt = cx.rt.clone();
			let res = guarded_result(move || rt.block_on(async move {
				let big = 100;
				let mut stream = match op {
					Op::Map => TileStream::from_vec(its.iter().map(|(c, a)| (coord_of(*c), blob_of(*a))).collect()).map_blob_parallel(move |b| res_blob(Op::Map.f(val_of(&b)).unwrap(), big)),
					Op::Fmap => TileStream::from_vec(its.iter().map(|(c, a)| (coord_of(*c), blob_of(*a))).collect()).filter_map_blob_parallel(move |b| Op::Fmap.f(val_of(&b)).map(|r| res_blob(r, big))),
					Op::Coord => TileStream::from_coord_iter_parallel(coord_iter_shaped(its.iter().map(|(c, _)| coord_of(*c)).collect::<Vec<_>>()), move |c| Op::Coord.f(id_of(&c)).map(|r| res_blob(r, big))),
				};
				let mut got = vec![];
				while got.len() < take {
					match stream.next().await { Some((c, b)) => got.push((id_of(&c), res_val(&b))), None => break }
				}
				drop(stream);
				got
			}));
			let case = format!("C14partial {} {} {}", op.name(), len, take);
			cx.out.eval(&case, true);
			cx.out.count("partial_then_dropped");
			let want: Vec<(u64, u64)> = items.iter().filter_map(|(c, a)| op.f(*a).map(|r| (*c, r))).collect();
			let verdict = match res {
				Err(m) => Some(m),
				Ok(got) => {
					let mut rest = want.clone();
					let mut bad = None;
					for p in &got {
						if let Some(pos) = rest.iter().position(|q| q == p) { rest.remove(pos); } else { bad = Some(format!("delivered pair {p:?} is not (or no longer) owed by the input")); break; }
					}
					if bad.is_none() && got.len() < take.min(want.len()) { bad = Some(format!("stream ended after {} of {} items", got.len(), want.len())); }
					bad
				}
			};
			match verdict {
				None => cx.out.oracle(true, "", json!(null), json!(null)),
				Some(m) => cx.out.oracle(false, &format!("C14 partial: {m}"), json!({"kind": "partial", "op": op.name()}), json!({"case": case, "message": m})),
			}
		}
	}
	// mapped twice: map_blob_parallel(v+1) then filter_map_blob_parallel(drop multiples of 3, else 2v)
	for len in [0usize, 1, 16, 17, 300, 3000] {
		let items: Vec<(u64, u64)> = (0..len as u64).map(|i| (rng.below(len as u64 / 2 + 1), 1 + i)).collect();
		let its = items.clone();
		let rt = cx.rt.clone();
		let res = guarded_result(move || rt.block_on(async move {
			TileStream::from_vec(its.iter().map(|(c, a)| (coord_of(*c), blob_of(*a))).collect())
				.map_blob_parallel(|b| blob_of(val_of(&b) + 1))
				.filter_map_blob_parallel(|b| { let v = val_of(&b); if v % 3 == 0 { None } else { Some(blob_of(2 * v)) } })
				.collect()
				.await
				.iter()
				.map(|(c, b)| (id_of(c), val_of(b)))
				.collect::<Vec<_>>()
		}));
		let case = format!("C14double {len}");
		cx.out.eval(&case, len > 1);
		cx.out.count("mapped_twice");
		let mut want: Vec<(u64, u64)> = items.iter().filter_map(|(c, a)| if (a + 1) % 3 == 0 { None } else { Some((*c, 2 * (a + 1))) }).collect();
		want.sort();
		let verdict = match res {
			Err(m) => Some(m),
			Ok(mut got) => { got.sort(); if got == want { None } else { Some(format!("{} outputs, {} demanded by the composed callback", got.len(), want.len())) } }
		};
		match verdict {
			None => cx.out.oracle(true, "", json!(null), json!(null)),
			Some(m) => cx.out.oracle(false, &format!("C14 double: {m}"), json!({"kind": "double-map"}), json!({"case": case, "message": m})),
		}
	}
}

/// all digit vectors d with d[i] < min(window, len - i): every valid completion order
fn all_digit_vectors(len: usize, window: usize) -> Vec<Vec<usize>> {
	let radix: Vec<usize> = (0..len).map(|i| window.min(len - i)).collect();
	let mut out = vec![vec![]];
	for r in radix {
		let mut next = Vec::with_capacity(out.len() * r);
		for v in &out {
			for d in 0..r {
				let mut w = v.clone();
				w.push(d);
				next.push(w);
			}
		}
		out = next;
	}
	out
}

pub fn run(args: &Args) {
	quiet_panics();
	let mut out = Out::new(&args.out);
	for (i, name) in ["exact", "filter", "from_fn", "flat_map", "chain_empty_head", "skip_while"].iter().enumerate() {
		out.count_n(&format!("coord_iter_shape_{name}"), COORD_ITER_SHAPES[i].load(SeqCst));
	}
	out.rule = "real TileStream::{map_blob_parallel, filter_map_blob_parallel, from_coord_iter_parallel (coordinates handed over in iterators of every size-hint shape: exact, filter, from_fn, flat_map, chain, skip_while)} (+ collect / for_each_buffered k) on a 24-worker tokio runtime with gate-controlled callbacks: the controller releases one started item at a time and the released result must pass a tap before the next release; window = num_cpus::get() varied through thread CPU affinity; ALL completion orders (all digit vectors d[i] < min(window, len-i)) for len ≤ 6 (thorough ≤ 7) at the full window and for small windows, plus reverse/rotate/interleave/seeded-random orders for streams of 10^2..10^4 items, straggler schedules (first / middle / last item held back), stream lengths window-1..window+2 at concurrency limits 1, 2 and the full window, bursts (several releases at once, oracle only), chunk sizes len-1 / len / len+1, callbacks that panic on the first / middle / last item (must fail loudly), the progress clause at concurrency limits 1 / 2 / full (plain, behind a source that stays Pending until the stream has drained, and with chained parallel stages), every run under a watchdog (no_progress), streams dropped after partial consumption, a stream mapped twice, the sequential combinators (stream C14s), and TileConverter::new_tile_recompressor(src,dst,force).process_stream for all 18 configurations over streams with one truncated/garbage/empty/other-codec/uncompressed tile among valid ones (loud failure or exactly one output per input) and over streams of 3000-5000 tiles mixing large slow payloads with runs of identical small ones and alternating pairs (every coordinate must decode to its own input); non-trivial = the completion order differs from the submission order; distinct by case text".into();
	let aff = Affinity::new();
	// worker threads are created now, with the unrestricted affinity
	let rt = Arc::new(tokio::runtime::Builder::new_multi_thread().worker_threads(24).enable_all().build().unwrap());
	let full = aff.set(16); // at most 16 tasks in flight (24 workers)
	let mut cx = Ctx { out: &mut out, rt: &rt, aff: &aff };

	if let Some(p) = &args.replay {
		for line in std::fs::read_to_string(p).unwrap().lines() {
			let t: Vec<&str> = line.split(' ').collect();
			if t[0] == "C14progress" {
				// cheap: re-run the whole progress family (the case line names the failing member)
				progress_cases(&mut cx, &mut Rng::new(args.seed), full);
				continue;
			}
			if (t.len() == 3 || t.len() == 4) && t[0] == "C14s" {
				seq_cases(&mut cx, &mut Rng::new(0), Some(&t));
				continue;
			}
			if t.len() == 4 && t[0] == "C14panic" {
				panic_case(&mut cx, Op::parse(t[1]), t[2].parse().unwrap(), t[3].parse().unwrap());
				continue;
			}
			if t.len() == 8 && t[0] == "C14conv" {
				converter_cases(&mut cx, &mut Rng::new(0), false, Some(&t));
				continue;
			}
			if t.len() != 6 || t[0] != "C14" {
				continue;
			}
			let op = Op::parse(t[1]);
			let window: usize = t[2].parse().unwrap();
			let k = if t[3] == "c" { None } else { Some(t[3].parse().unwrap()) };
			let items: Vec<(u64, u64)> = if t[4] == "-" { vec![] } else { t[4].split(',').map(|x| { let (c, a) = x.split_once(':').unwrap(); (c.parse().unwrap(), a.parse().unwrap()) }).collect() };
			let choices: Vec<usize> = if t[5] == "-" { vec![] } else { t[5].split(',').map(|x| x.parse().unwrap()).collect() };
			run_case(&mut cx, op, window, k, &items, Strategy::Fixed(choices));
		}
		aff.set(usize::MAX);
		out.finish();
		if ABANDONED.load(SeqCst) { std::process::exit(0); }
		return;
	}

	let mut rng = Rng::new(args.seed);
	let ops = [Op::Map, Op::Fmap, Op::Coord];
	// --- exhaustive: every completion order of short streams
	let max_len = args.n(6, 7);
	for op in ops {
		for len in 0..=max_len {
			let items = gen_items(&mut rng, op, len);
			for (ci, d) in all_digit_vectors(len, full).into_iter().enumerate() {
				let k = match ci % 8 { 0 => None, 1 => Some(2), 2 => Some(0), 3 => Some(len.max(1)), 4 => Some(len + 1), 5 => Some(len.saturating_sub(1)), 6 => Some(usize::MAX), _ => Some(1) };
				run_case(&mut cx, op, full, k, &items, Strategy::Digits(d));
			}
		}
		for window in [1usize, 2, 3] {
			if window >= full { continue; }
			for len in [3usize, 5, 6, if args.thorough() { 8 } else { 7 }] {
				let items = gen_items(&mut rng, op, len);
				for (ci, d) in all_digit_vectors(len, window).into_iter().enumerate() {
					let k = match ci % 6 { 0 => None, 1 => Some(3), 2 => Some(1), 3 => Some(0), 4 => Some(usize::MAX), _ => Some(len + 1) };
					run_case(&mut cx, op, window, k, &items, Strategy::Digits(d));
				}
			}
		}
	}
	// --- adversarial and random orders on long streams
	let big: Vec<usize> = if args.thorough() { vec![100, 1000, 4000, 10000] } else { vec![100, 1000, 3000] };
	let mut seed = args.seed * 7919;
	for op in ops {
		for &len in &big {
			for window in [2usize, 5, full] {
				if window > full { continue; }
				let strategies: Vec<Strategy> = if len >= 3000 && !args.thorough() {
					vec![Strategy::Last, Strategy::Random({ seed += 1; seed })]
				} else {
					vec![Strategy::First, Strategy::Last, Strategy::Rotate, Strategy::Interleave, Strategy::Random({ seed += 1; seed })]
				};
				for st in strategies {
					let items = gen_items(&mut rng, op, len);
					let k = match rng.below(4) { 0 => None, 1 => Some(1 + rng.below(7) as usize), 2 => Some(64), _ => Some(len / 3 + 1) };
					run_case(&mut cx, op, window, k, &items, st);
				}
			}
		}
	}
	// one straggler: the first item is overtaken by 1500 (thorough: also 5000) later ones
	for op in ops {
		for (len, hold) in if args.thorough() { vec![(3000usize, 1500usize), (8000, 5000)] } else { vec![(3000, 1500)] } {
			let items = gen_items(&mut rng, op, len);
			let k = if op == Op::Map { None } else { Some(100) };
			run_case(&mut cx, op, full, k, &items, Strategy::HoldFirst(hold));
		}
	}
	// concurrency limit × schedule family: stream lengths window-1, window, window+1, window+2 and a longer
	// one, at the limits 1, 2 and the full window; stragglers at the first / middle / last position; bursts
	for op in ops {
		for window in [1usize, 2, full] {
			for len in [window.saturating_sub(1).max(1), window, window + 1, window + 2, 3 * window + 5] {
				let mid = len / 2;
				let fams: Vec<Strategy> = vec![
					Strategy::Last, Strategy::Rotate, Strategy::Interleave,
					Strategy::Hold(0, len), Strategy::Hold(mid, len), Strategy::Hold(len - 1, len),
					Strategy::Burst(2), Strategy::Burst(window.max(2)), Strategy::Burst(len),
				];
				for st in fams {
					let items = gen_items(&mut rng, op, len);
					let k = match rng.below(8) { 0 => None, 1 => Some(len), 2 => Some(len + 1), 3 => Some(len.saturating_sub(1)), 4 => Some(0), 5 => Some(1), 6 => Some(usize::MAX), _ => Some(3) };
					run_case(&mut cx, op, window, k, &items, st);
				}
			}
		}
		// stragglers in a long stream: middle and last item
		for (idx, len) in [(1500usize, 3000usize), (2999, 3000)] {
			let items = gen_items(&mut rng, op, len);
			run_case(&mut cx, op, full, Some(64), &items, Strategy::Hold(idx, 1200));
		}
		let items = gen_items(&mut rng, op, 2000);
		run_case(&mut cx, op, full, None, &items, Strategy::Burst(full));
	}
	progress_cases(&mut cx, &mut rng, full);
	seq_cases(&mut cx, &mut rng, None);
	reuse_cases(&mut cx, &mut rng);
	converter_cases(&mut cx, &mut rng, args.thorough(), None);
	for op in ops {
		for len in [1usize, 5, 40] {
			for at in [0, len / 2, len - 1] {
				panic_case(&mut cx, op, len, at);
			}
		}
	}
	// many medium random schedules
	for _ in 0..args.n(300, 3000) {
		let op = *rng.pick(&ops);
		let len = rng.range(8, 60) as usize;
		let window = *rng.pick(&[2usize, 3, 4, 8, full]);
		let items = gen_items(&mut rng, op, len);
		let k = if rng.chance(1, 3) { None } else { Some(rng.below(9) as usize) };
		seed += 1;
		let st = match rng.below(4) { 0 => Strategy::Last, 1 => Strategy::Interleave, _ => Strategy::Random(seed) };
		run_case(&mut cx, op, window.min(full), k, &items, st);
	}
	aff.set(usize::MAX);
	out.exhaustive = true;
	if NO_PROGRESS.load(SeqCst) > 0 {
		out.notes.push(format!("{} run(s) were abandoned by the watchdog (no progress)", NO_PROGRESS.load(SeqCst)));
	}
	out.notes.push(format!("full window on this machine: {full}; exhaustive part: all completion orders for 0..={max_len} items at window {full} and all valid orders at windows 1,2,3 for up to 7/8 items"));
	out.finish();
	if ABANDONED.load(SeqCst) {
		std::process::exit(0);
	}
}
