//! C11csv – the CSV lexer (`versatiles_core::utils::read_csv_iter`) against the Lean model `VtModel.Csv`:
//! case line `C11csv <hex of the file>`; answer `err` | `panic` | `<header>|<row>|…` (cells as hex joined by `,`).
//! Oracle (statement of the lexer): a canonically rendered table (quotes only where needed, LF or CRLF) is read
//! back cell for cell – nothing trimmed, nothing altered – and LF / CRLF renderings give the same rows.
use crate::common::*;
use serde_json::json;
use std::io::Cursor;
use versatiles_core::utils::read_csv_iter;

/// the real lexer, driven like `read_csv_file` drives it: any failing record fails the file, the first record
/// is the header, no record at all is an error
pub fn real_table(input: &[u8]) -> String {
	let r = catch(|| -> Option<Vec<Vec<String>>> {
		let iter = read_csv_iter(Cursor::new(input.to_vec()), b',').ok()?;
		let mut rows = vec![];
		let mut failed = false;
		for e in iter {
			match e {
				Ok((fields, _, _)) => rows.push(fields),
				Err(_) => failed = true,
			}
		}
		if failed || rows.is_empty() {
			None
		} else {
			Some(rows)
		}
	});
	match r {
		Ok(Some(rows)) => rows.iter().map(|r| r.iter().map(|c| hex(c.as_bytes())).collect::<Vec<_>>().join(",")).collect::<Vec<_>>().join("|"),
		Ok(None) => "err".into(),
		Err(_) => "panic".into(),
	}
}

fn needs_quote(c: &[u8]) -> bool {
	c.iter().any(|b| matches!(b, b',' | b'"' | b'\r' | b'\n'))
}
pub fn render(rows: &[Vec<Vec<u8>>], eol: &[u8]) -> Vec<u8> {
	let mut o = vec![];
	for r in rows {
		for (i, c) in r.iter().enumerate() {
			if i > 0 {
				o.push(b',');
			}
			if needs_quote(c) {
				o.push(b'"');
				for b in c {
					if *b == b'"' {
						o.push(b'"');
					}
					o.push(*b);
				}
				o.push(b'"');
			} else {
				o.extend_from_slice(c);
			}
		}
		o.extend_from_slice(eol);
	}
	o
}

fn emit(out: &mut Out, input: &[u8], nontrivial: bool) -> String {
	let ans = real_table(input);
	out.case(&format!("C11csv {}", hex(input)), &ans, nontrivial);
	out.oracle(ans != "panic", "C11 csv: the lexer panics", json!({"kind": "csv_panic"}), json!({"case": format!("C11csv {}", hex(input))}));
	ans
}

const CELLS: &[&str] = &["", "a", "0", "01", "0 ", " 0", "1.0", "x y", " lead", "trail ", "tab\t", "\u{a0}nbsp\u{a0}", "a,b", "q\"q", "\"", "\"\"", "line\nbreak", "cr\rlf", "crlf\r\nx", "日本", "🙂", "\u{feff}bom", "true", "-3", "'", ";"];

pub fn run_csv(out: &mut Out, args: &Args, rng: &mut Rng) {
	// 1. every special byte at every position of short inputs (exhaustive over a small alphabet)
	let alphabet: &[&[u8]] = &[b"a", b",", b"\"", b"\r", b"\n", b" ", b"\t", &[0xC2, 0xA0], &[0xFF], &[0xEF, 0xBB, 0xBF], b"1"];
	let maxlen = if args.thorough() { 5 } else { 4 };
	let mut total = 0u64;
	for len in 0..=maxlen {
		let n = alphabet.len().pow(len as u32);
		for idx in 0..n {
			// quick tier: all inputs up to length 3, every 3rd of length 4
			if !args.thorough() && len == 4 && idx % 3 != 0 {
				continue;
			}
			if args.thorough() && len == 5 && idx % 4 != 0 {
				continue;
			}
			let mut x = idx;
			let mut s = vec![];
			for _ in 0..len {
				s.extend_from_slice(alphabet[x % alphabet.len()]);
				x /= alphabet.len();
			}
			emit(out, &s, len >= 2);
			total += 1;
		}
	}
	out.count_n("csv_exhaustive_short_inputs", total);
	// 2. rendered tables: widths / heights 1..4 (0 rows = header only), all special cells, LF and CRLF, with and without final line end
	let n = args.n(600, 20000);
	for i in 0..n {
		let w = rng.range(1, 4) as usize;
		let h = rng.range(1, 4) as usize;
		let mut rows: Vec<Vec<Vec<u8>>> = (0..h).map(|_| (0..w).map(|_| rng.pick(CELLS).as_bytes().to_vec()).collect()).collect();
		// a record that is one empty cell is a blank line for the lexer: not representable, avoid it
		for r in rows.iter_mut() {
			if r.len() == 1 && r[0].is_empty() {
				r[0] = b"x".to_vec();
			}
		}
		let want = rows.iter().map(|r| r.iter().map(|c| hex(c)).collect::<Vec<_>>().join(",")).collect::<Vec<_>>().join("|");
		let lf = render(&rows, b"\n");
		let crlf = render(&rows, b"\r\n");
		let a = emit(out, &lf, true);
		let b = emit(out, &crlf, true);
		out.oracle(a == want, &format!("C11 csv: rendered table is not read back cell for cell: want {want} got {a}"), json!({"kind": "csv_roundtrip", "eol": "lf"}), json!({"case": format!("C11csv {}", hex(&lf))}));
		out.oracle(b == want, &format!("C11 csv: CRLF rendering reads differently: want {want} got {b}"), json!({"kind": "csv_roundtrip", "eol": "crlf"}), json!({"case": format!("C11csv {}", hex(&crlf))}));
		if i % 3 == 0 {
			// no line end after the last record; blank lines between records
			let mut t = lf.clone();
			t.pop();
			let c = emit(out, &t, true);
			let last_cell_quoted_or_nonempty = rows.last().unwrap().last().unwrap().len() > 0 || w > 1;
			if last_cell_quoted_or_nonempty {
				out.oracle(c == want, "C11 csv: a missing final line end changes the rows", json!({"kind": "csv_roundtrip", "eol": "none"}), json!({"case": format!("C11csv {}", hex(&t))}));
			}
			let mut blank = vec![];
			for r in &rows {
				blank.extend(render(&[r.clone()], b"\n"));
				blank.extend_from_slice(if i % 2 == 0 { b"\n" } else { b"\r\n" });
			}
			let d = emit(out, &blank, true);
			out.oracle(d == want, "C11 csv: blank lines between records change the rows", json!({"kind": "csv_roundtrip", "eol": "blank"}), json!({"case": format!("C11csv {}", hex(&blank))}));
		}
		out.count("csv_rendered_tables");
	}
	// 3. ragged tables, text after a closing quote, unterminated quotes, larger sizes
	for s in ["a,b\n1\n", "a,b\n1,2,3\n", "a\n\"x\"y\n", "a\n\"x\n", "a,b\n\"1\" ,2\n", "a,b\n 1,\"2\"\n", "\"a\"\"\n", "\u{feff}id,v\n1,2\n", "id,v\r1,2\r", "a,b\n1,2\n\n\n", "\n\na,b\n", "\"\"\n\"\"\n", ",\n,\n"] {
		emit(out, s.as_bytes(), true);
	}
	for cells in [0usize, 1, 255, 256, 5000] {
		let row: Vec<Vec<u8>> = (0..cells.max(1)).map(|i| format!("c{i}").into_bytes()).collect();
		let big = render(&[row.clone(), row], b"\n");
		emit(out, &big, true);
		let long = render(&[vec![vec![b'x'; cells * 13]], vec![vec![b'y'; cells * 13 + 1]]], b"\r\n");
		emit(out, &long, true);
	}
}
