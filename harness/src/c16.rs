//! C16 – readers accept every container that is valid by the published layouts.
//!
//! Containers are produced by the INDEPENDENT encoders of `indep_formats` (layout freedoms the own
//! writers never use), opened with the real readers, and judged by a direct oracle (exact tile map,
//! `None` elsewhere, declared format/compression, advertised coverage).  Every container is also emitted
//! as a `C16v/C16p/C16m/C16t/C16d` request (formats_protocol.txt) with the real reader's canonical answer;
//! codec streams VTH VBD VTI VBI PMH PMD PMF PMS HIL NAM exercise the real codec types directly.
//!
//! Protocol choices made here (smallest sensible ones, see final report):
//!  * `VTH enc` / `PMH enc` are only generated with valid enum codes (an invalid code cannot be put into the
//!    real struct; on replay such a line answers `err`).
//!  * `VBD enc`: inputs are generated with `tilesoff + tileslen ≤ u64::MAX` (the harness computes that sum itself;
//!    on replay an overflowing sum answers `panic`).
//!  * `PMS`: target ≥ 16 and tile ids < 2^40, otherwise the real `as_directory` loops forever.
//!  * `NAM`: the member payload is the single byte `x`; compressed metadata names (`tiles.json.gz`…) are not generated
//!    because their classification depends on the payload.
//!  * C16v/C16p `<tab>`: compressed → inflated for every piece the reader inflates (metadata, block index, tile
//!    indexes / metadata, root, leaves); pieces this harness cannot inflate are left out (= decompression fails).
//!  * PMTiles files declaring tile compression 0 (unknown) or 4 (zstd) are emitted as correspondence lines only (the
//!    reader refuses them by design: `Zstd not supported yet`); they are not judged by the oracle.
//!  * C16t lists the regular-file members only (directory members are omitted, a `prefix` field is already joined).
//!  * replay of C16v/C16p recovers the encoder's intent with the independent strict decoder: if it accepts the
//!    bytes the full oracle runs, otherwise only "no panic" is checked.
use crate::common::*;
use crate::indep_formats::*;
use serde_json::{json, Value};
use std::collections::{BTreeMap, BTreeSet};
use std::path::{Path, PathBuf};
use versatiles_container::verif_hooks::pmtiles::{tile_id_to_coord, EntriesV3, EntryV3, HeaderV3, TileId};
use versatiles_container::verif_hooks::versatiles::{BlockDefinition, BlockIndex, FileHeader, TileIndex};
use versatiles_container::{DirectoryTilesReader, MBTilesReader, PMTilesReader, TarTilesReader, VersaTilesReader};
use versatiles_core::io::{DataReader, DataReaderBlob};
use versatiles_core::types::*;

pub type Runtime = tokio::runtime::Runtime;
pub fn runtime() -> Runtime {
	tokio::runtime::Builder::new_multi_thread().worker_threads(2).enable_all().build().unwrap()
}

pub fn tf(f: Fmt) -> TileFormat {
	match f {
		Fmt::Avif => TileFormat::AVIF,
		Fmt::Bin => TileFormat::BIN,
		Fmt::Geojson => TileFormat::GEOJSON,
		Fmt::Jpg => TileFormat::JPG,
		Fmt::Json => TileFormat::JSON,
		Fmt::Pbf => TileFormat::PBF,
		Fmt::Png => TileFormat::PNG,
		Fmt::Svg => TileFormat::SVG,
		Fmt::Topojson => TileFormat::TOPOJSON,
		Fmt::Webp => TileFormat::WEBP,
	}
}
pub fn tc(c: Comp) -> TileCompression {
	match c {
		Comp::None => TileCompression::Uncompressed,
		Comp::Gzip => TileCompression::Gzip,
		Comp::Brotli => TileCompression::Brotli,
	}
}
pub fn fmt_name(f: TileFormat) -> String {
	f.extension().trim_start_matches('.').to_string()
}
pub fn comp_name(c: TileCompression) -> String {
	match c {
		TileCompression::Uncompressed => "none",
		TileCompression::Gzip => "gzip",
		TileCompression::Brotli => "brotli",
	}
	.to_string()
}

#[derive(Clone, Debug, PartialEq)]
pub enum Look {
	None,
	Some(Vec<u8>),
	Err,
	Panic,
}
pub type Box4 = (u32, u32, u32, u32);
#[derive(Clone, Debug)]
pub struct Opened {
	pub fmt: String,
	pub comp: String,
	pub cover: BTreeMap<u8, Box4>,
	pub looks: Vec<Look>,
	/// bulk reads through `get_bbox_tile_stream` (oracle only; not part of the protocol answer)
	pub streams: Vec<StreamRes>,
	/// a coordinate whose second lookup (same reader, after the streams) differs from the first one
	pub relook_mismatch: Option<Coord>,
}
#[derive(Clone, Debug)]
pub struct StreamRes {
	pub z: u8,
	pub bx: Box4,
	/// Ok: the streamed (coordinate, payload) pairs in arrival order; Err: panic message
	pub got: Result<Vec<(Coord, Vec<u8>)>, String>,
}

/// boxes to read in bulk, chosen without knowledge of the encoder's intent: per advertised level the full
/// level box and its two diagonal quarters (when small enough for readers that stream by single lookups), a strip
/// across the first 256-block border, a 3×3 box around up to 12 tiles that single lookups found, and — for the
/// index-based streams of versatiles / mbtiles — the whole 256-block of up to 6 found tiles (clipped to the level box).
pub fn stream_boxes(container: &str, cover: &BTreeMap<u8, Box4>, found: &[Coord]) -> Vec<(u8, Box4)> {
	let indexed = container == "versatiles" || container == "mbtiles";
	let cap: u64 = if indexed { 70_000 } else { 1_500 };
	let area = |b: &Box4| (b.2 - b.0 + 1) as u64 * (b.3 - b.1 + 1) as u64;
	// versatiles walks every 256-block of the box: bound the number of blocks as well
	let blocks = |b: &Box4| ((b.2 >> 8) - (b.0 >> 8) + 1) as u64 * ((b.3 >> 8) - (b.1 >> 8) + 1) as u64;
	let mut v: Vec<(u8, Box4)> = vec![];
	let mut push = |z: u8, b: Box4| {
		if b.0 <= b.2 && b.1 <= b.3 && area(&b) <= cap.max(9) && blocks(&b) <= 64 && !v.contains(&(z, b)) && v.len() < 60 {
			v.push((z, b));
		}
	};
	for (z, c) in cover {
		push(*z, *c);
		let (mx, my) = (c.0 + (c.2 - c.0) / 2, c.1 + (c.3 - c.1) / 2);
		push(*z, (c.0, c.1, mx, my));
		push(*z, (mx, my, c.2, c.3));
		if c.0 >> 8 != c.2 >> 8 {
			let b = ((c.0 >> 8) + 1) << 8;
			push(*z, (b - 1, c.1, b.min(c.2), c.3.min(c.1 + 600)));
		}
		if c.1 >> 8 != c.3 >> 8 {
			let b = ((c.1 >> 8) + 1) << 8;
			push(*z, (c.0, b - 1, c.2.min(c.0 + 600), b.min(c.3)));
		}
	}
	for (i, (z, x, y)) in found.iter().enumerate().take(12) {
		if let Some(c) = cover.get(z) {
			push(*z, (x.saturating_sub(1).max(c.0), y.saturating_sub(1).max(c.1), (x + 1).min(c.2), (y + 1).min(c.3)));
			if indexed && i < 6 {
				push(*z, (((x >> 8) << 8).max(c.0), ((y >> 8) << 8).max(c.1), (((x >> 8) << 8) + 255).min(c.2), (((y >> 8) << 8) + 255).min(c.3)));
			}
		}
	}
	v
}
#[derive(Clone, Debug)]
pub enum OpenRes {
	Err(String),
	Panic(String),
	Ok(Opened),
}

pub fn answer(r: &OpenRes) -> String {
	match r {
		OpenRes::Err(_) => "err".into(),
		OpenRes::Panic(_) => "panic".into(),
		OpenRes::Ok(o) => {
			let mut s = format!("ok {} {} cov {}", o.fmt, o.comp, o.cover.len());
			for (z, b) in &o.cover {
				s.push_str(&format!(" {z}:{},{},{},{}", b.0, b.1, b.2, b.3));
			}
			s.push_str(" q");
			for l in &o.looks {
				match l {
					Look::None => s.push_str(" none"),
					Look::Some(b) => {
						s.push_str(" =");
						s.push_str(&hexs(b));
					}
					Look::Err => s.push_str(" err"),
					Look::Panic => s.push_str(" panic"),
				}
			}
			s
		}
	}
}

pub fn cover_of(p: &TileBBoxPyramid) -> BTreeMap<u8, Box4> {
	p.iter_levels().map(|b| (b.level, (b.x_min, b.y_min, b.x_max, b.y_max))).collect()
}

/// parameters + single lookups on an opened reader (each lookup in its own `catch`)
pub fn interrogate(rt: &Runtime, reader: &dyn TilesReaderTrait, qs: &[Coord]) -> Opened {
	let p = reader.get_parameters();
	let looks = qs
		.iter()
		.map(|(z, x, y)| {
			let r = catch(|| match TileCoord3::new(*x, *y, *z) {
				Ok(c) => rt.block_on(reader.get_tile_data(&c)).map_err(|e| e.to_string()),
				Err(e) => Err(e.to_string()),
			});
			match r {
				Ok(Ok(None)) => Look::None,
				Ok(Ok(Some(b))) => Look::Some(b.into_vec()),
				Ok(Err(_)) => Look::Err,
				Err(_) => Look::Panic,
			}
		})
		.collect();
	let looks: Vec<Look> = looks;
	let cover = cover_of(&p.bbox_pyramid);
	let lookup_once = |q: &Coord| -> Look {
		let r = catch(|| match TileCoord3::new(q.1, q.2, q.0) {
			Ok(c) => rt.block_on(reader.get_tile_data(&c)).map_err(|e| e.to_string()),
			Err(e) => Err(e.to_string()),
		});
		match r {
			Ok(Ok(None)) => Look::None,
			Ok(Ok(Some(b))) => Look::Some(b.into_vec()),
			Ok(Err(_)) => Look::Err,
			Err(_) => Look::Panic,
		}
	};
	let found: Vec<Coord> = qs.iter().zip(&looks).filter(|(_, l)| matches!(l, Look::Some(_))).map(|(q, _)| *q).collect();
	let streams = stream_boxes(reader.get_container_name(), &cover, &found)
		.into_iter()
		.map(|(z, b)| {
			let got = catch(|| {
				let bbox = TileBBox::new(z, b.0, b.1, b.2, b.3).expect("stream box inside the level");
				rt.block_on(async { reader.get_bbox_tile_stream(bbox).await.collect().await })
			})
			.map(|v| v.into_iter().map(|(c, blob)| ((c.z, c.x, c.y), blob.into_vec())).collect());
			StreamRes { z, bx: b, got }
		})
		.collect();
	// the same reader object used again after the bulk reads (index / leaf caches are warm now): same answers
	let relook_mismatch = qs.iter().zip(&looks).rev().step_by(3).take(25).find(|(q, l)| &lookup_once(q) != *l).map(|(q, _)| *q);
	Opened { fmt: fmt_name(p.tile_format), comp: comp_name(p.tile_compression), cover, looks, streams, relook_mismatch }
}

fn with_reader<R: TilesReaderTrait>(rt: &Runtime, qs: &[Coord], open: impl FnOnce() -> anyhow::Result<R>) -> OpenRes {
	match catch(open) {
		Err(p) => OpenRes::Panic(p),
		Ok(Err(e)) => OpenRes::Err(format!("{e:#}")),
		Ok(Ok(r)) => match catch(|| interrogate(rt, &r, qs)) {
			Ok(o) => OpenRes::Ok(o),
			Err(p) => OpenRes::Panic(p),
		},
	}
}
pub fn run_v(rt: &Runtime, bytes: &[u8], qs: &[Coord]) -> OpenRes {
	with_reader(rt, qs, || rt.block_on(VersaTilesReader::open_reader(Box::new(DataReaderBlob::from(bytes.to_vec())))))
}
pub fn run_p(rt: &Runtime, bytes: &[u8], qs: &[Coord]) -> OpenRes {
	with_reader(rt, qs, || rt.block_on(PMTilesReader::open_reader(Box::new(DataReaderBlob::from(bytes.to_vec())))))
}
pub fn run_m(rt: &Runtime, path: &Path, qs: &[Coord]) -> OpenRes {
	with_reader(rt, qs, || MBTilesReader::open_path(path))
}
pub fn run_t(rt: &Runtime, path: &Path, qs: &[Coord]) -> OpenRes {
	with_reader(rt, qs, || TarTilesReader::open_path(path))
}
pub fn run_d(rt: &Runtime, path: &Path, qs: &[Coord]) -> OpenRes {
	with_reader(rt, qs, || DirectoryTilesReader::open_path(path))
}

pub fn tab_str(tab: &Tab) -> String {
	let mut seen = BTreeSet::new();
	let mut items = vec![];
	for (k, v) in tab {
		if seen.insert(k.clone()) {
			items.push(format!("{} {}", hexs(k), hexs(v)));
		}
	}
	if items.is_empty() {
		"0".to_string()
	} else {
		format!("{} {}", items.len(), items.join(" "))
	}
}
pub fn queries_str(qs: &[Coord]) -> String {
	let mut s = format!("{}", qs.len());
	for (z, x, y) in qs {
		s.push_str(&format!(" {z} {x} {y}"));
	}
	s
}

// ------------------------------------------------------------------------------------------ intent + oracle

/// what the container was meant to hold (from the generator, or recovered by the independent decoder on replay)
#[derive(Clone, Debug, Default)]
pub struct Intent {
	pub container: &'static str,
	pub fmt: Option<Fmt>,
	pub comp: Option<Comp>,
	/// encoded tiles; an empty payload = "stored empty / not expressible": reader may answer None or Some(empty)
	pub tiles: TileMap,
	/// coverage must contain these boxes …
	pub cover_min: BTreeMap<u8, Box4>,
	/// … and stay inside these (levels not listed must be empty)
	pub cover_max: BTreeMap<u8, Box4>,
	/// ONE discriminating layout flag for the failure signature
	pub flag: Option<(&'static str, Value)>,
	/// the container holds an entry that a reader may refuse loudly (open fails) instead of ignoring it
	pub refusal_ok: bool,
}

pub fn bbox_of<'a>(it: impl Iterator<Item = &'a Coord>) -> BTreeMap<u8, Box4> {
	let mut m: BTreeMap<u8, Box4> = BTreeMap::new();
	for (z, x, y) in it {
		let e = m.entry(*z).or_insert((*x, *y, *x, *y));
		*e = (e.0.min(*x), e.1.min(*y), e.2.max(*x), e.3.max(*y));
	}
	m
}
impl Intent {
	/// coverage = bounding boxes of the tiles (non-empty ones required, empty ones allowed)
	pub fn from_tiles(container: &'static str, fmt: Fmt, comp: Comp, tiles: &TileMap) -> Intent {
		Intent {
			container,
			fmt: Some(fmt),
			comp: Some(comp),
			tiles: tiles.clone(),
			cover_min: bbox_of(tiles.iter().filter(|(_, p)| !p.is_empty() || matches!(container, "tar" | "directory" | "mbtiles")).map(|(c, _)| c)),
			cover_max: bbox_of(tiles.keys()),
			flag: None,
			refusal_ok: false,
		}
	}
	/// formats in which a 0-byte member / file / row is a tile like any other: it must be delivered (empty blob) and covered
	pub fn empty_is_tile(&self) -> bool {
		matches!(self.container, "tar" | "directory" | "mbtiles")
	}
	pub fn zoom_gap(&self) -> bool {
		let zs: BTreeSet<u8> = self.tiles.keys().map(|c| c.0).collect();
		match (zs.iter().next(), zs.iter().next_back()) {
			(Some(a), Some(b)) => (*b - *a + 1) as usize != zs.len(),
			_ => false,
		}
	}
}

/// first failure of the direct oracle: (kind, message)
pub fn judge(intent: &Intent, qs: &[Coord], res: &OpenRes) -> Option<(&'static str, String)> {
	let o = match res {
		OpenRes::Err(_) if intent.refusal_ok => return None,
		OpenRes::Err(e) => return Some(("open-failed", format!("open returned Err: {}", trunc(e, 200)))),
		OpenRes::Panic(p) => return Some(("panic", format!("panic while opening: {}", trunc(p, 200)))),
		OpenRes::Ok(o) => o,
	};
	if let Some(f) = intent.fmt {
		if o.fmt != f.name() {
			return Some(("wrong-format", format!("declared format {} but encoded {}", o.fmt, f.name())));
		}
	}
	if let Some(c) = intent.comp {
		if o.comp != c.name() {
			return Some(("wrong-format", format!("declared compression {} but encoded {}", o.comp, c.name())));
		}
	}
	for (q, l) in qs.iter().zip(&o.looks) {
		let want = intent.tiles.get(q);
		match (want, l) {
			(_, Look::Panic) => return Some(("panic", format!("get_tile_data{q:?} panicked"))),
			(_, Look::Err) => return Some(("lookup-error", format!("get_tile_data{q:?} returned Err"))),
			(Some(p), Look::Some(b)) if p == b => {}
			// versatiles / pmtiles cannot express a stored empty tile (length 0 = absent); tar, directory and mbtiles can
			(Some(p), Look::None) if p.is_empty() && !intent.empty_is_tile() => {}
			(Some(p), got) => return Some(("wrong-payload", format!("tile {q:?}: expected {} bytes {}, got {}", p.len(), trunc(&hexs(p), 40), match got { Look::Some(b) => format!("{} bytes {}", b.len(), trunc(&hexs(b), 40)), _ => "None".into() }))),
			(None, Look::None) => {}
			(None, Look::Some(b)) => return Some(("extra-tile", format!("tile {q:?} was not encoded but the reader returns {} bytes", b.len()))),
		}
	}
	for (z, b) in &intent.cover_min {
		match o.cover.get(z) {
			Some(c) if c.0 <= b.0 && c.1 <= b.1 && c.2 >= b.2 && c.3 >= b.3 => {}
			c => return Some(("coverage", format!("level {z}: advertised {c:?} does not contain the encoded tiles {b:?}"))),
		}
	}
	for (z, c) in &o.cover {
		match intent.cover_max.get(z) {
			Some(b) if c.0 >= b.0 && c.1 >= b.1 && c.2 <= b.2 && c.3 <= b.3 => {}
			b => return Some(("coverage", format!("level {z}: advertised {c:?} exceeds the encoded/declared box {b:?}"))),
		}
	}
	if let Some(q) = o.relook_mismatch {
		return Some(("reuse-inconsistent", format!("get_tile_data{q:?} answers differently when the same reader is asked again after the bulk reads")));
	}
	judge_streams_with(&intent.tiles, &o.streams, intent.empty_is_tile())
}

/// bulk path: every box read through get_bbox_tile_stream gives exactly the encoded tiles of the box, each once
pub fn judge_streams(tiles: &TileMap, streams: &[StreamRes]) -> Option<(&'static str, String)> {
	judge_streams_with(tiles, streams, false)
}
/// `empty_is_tile`: a stored empty payload has to be streamed too (tar, directory, mbtiles)
pub fn judge_streams_with(tiles: &TileMap, streams: &[StreamRes], empty_is_tile: bool) -> Option<(&'static str, String)> {
	for s in streams {
		let inside = |c: &Coord| c.0 == s.z && s.bx.0 <= c.1 && c.1 <= s.bx.2 && s.bx.1 <= c.2 && c.2 <= s.bx.3;
		let got = match &s.got {
			Err(p) => return Some(("stream-panic", format!("get_bbox_tile_stream(level {}, box {:?}) panicked: {}", s.z, s.bx, trunc(p, 160)))),
			Ok(g) => g,
		};
		let mut seen: BTreeSet<Coord> = BTreeSet::new();
		for (c, b) in got {
			if !seen.insert(*c) {
				return Some(("stream-duplicate", format!("stream of level {} box {:?} yields tile {c:?} twice", s.z, s.bx)));
			}
			if !inside(c) {
				return Some(("stream-extra", format!("stream of level {} box {:?} yields tile {c:?} outside the box", s.z, s.bx)));
			}
			match tiles.get(c) {
				None => return Some(("stream-extra", format!("stream of level {} box {:?} yields tile {c:?} that was not encoded", s.z, s.bx))),
				Some(p) if p != b => return Some(("stream-wrong-payload", format!("stream of level {} box {:?}: tile {c:?} has {} bytes, encoded {} bytes", s.z, s.bx, b.len(), p.len()))),
				_ => {}
			}
		}
		if let Some((c, _)) = tiles.iter().find(|(c, p)| inside(c) && (empty_is_tile || !p.is_empty()) && !seen.contains(*c)) {
			return Some(("stream-missing", format!("stream of level {} box {:?} does not yield the encoded tile {c:?}", s.z, s.bx)));
		}
	}
	None
}

pub fn count_looks(out: &mut Out, res: &OpenRes) {
	match res {
		OpenRes::Err(_) => out.count("open_err"),
		OpenRes::Panic(_) => out.count("open_panic"),
		OpenRes::Ok(o) => {
			out.count("open_ok");
			for st in &o.streams {
				out.count("stream_boxes_read");
				match &st.got {
					Ok(g) => out.count_n("stream_tiles_received", g.len() as u64),
					Err(_) => out.count("stream_panics"),
				}
			}
			for l in &o.looks {
				out.count(match l {
					Look::None => "res_none",
					Look::Some(_) => "res_some",
					Look::Err => "res_err",
					Look::Panic => "res_panic",
				});
			}
		}
	}
}

pub fn sig_of(intent: &Intent, kind: &str) -> Value {
	let mut m = serde_json::Map::new();
	m.insert("kind".into(), json!(kind));
	m.insert("container".into(), json!(intent.container));
	if let Some((k, v)) = &intent.flag {
		m.insert(k.to_string(), v.clone());
	}
	Value::Object(m)
}

// ------------------------------------------------------------------------------------------ scratch paths

pub struct Scratch {
	root: PathBuf,
	n: u64,
}
impl Scratch {
	pub fn new(out: &Path, name: &str) -> Scratch {
		let root = if out.is_absolute() { out.join(name) } else { std::env::current_dir().unwrap().join(out).join(name) };
		let _ = std::fs::remove_dir_all(&root);
		std::fs::create_dir_all(&root).unwrap();
		Scratch { root, n: 0 }
	}
	pub fn fresh(&mut self, ext: &str) -> PathBuf {
		self.n += 1;
		self.root.join(format!("c{}{}", self.n, ext))
	}
	pub fn done(self) {
		let _ = std::fs::remove_dir_all(&self.root);
	}
}
pub fn rm(p: &Path) {
	if p.is_dir() {
		let _ = std::fs::remove_dir_all(p);
	} else {
		let _ = std::fs::remove_file(p);
	}
}

// ------------------------------------------------------------------------------------------ generators

pub fn gen_pool(rng: &mut Rng) -> Vec<Vec<u8>> {
	let n = rng.range(1, 5) as usize;
	let mut pool: Vec<Vec<u8>> = (0..n)
		.map(|_| {
			let len = if rng.chance(1, 8) { 0 } else { rng.range(1, 40) as usize };
			rng.bytes(len)
		})
		.collect();
	if pool.iter().all(|p| p.is_empty()) {
		pool.push(rng.bytes(7));
	}
	pool
}

fn anchor(rng: &mut Rng, z: u8) -> u32 {
	let max = ((1u64 << z) - 1) as u32;
	let v = match rng.below(12) {
		0 | 1 => 0,
		2 => 254,
		3 => 255,
		4 => 256,
		5 => 257,
		6 => 510,
		7 => 511,
		8 => 512,
		9 => max.saturating_sub(1),
		10 => max,
		_ => rng.below(max as u64 + 1) as u32,
	};
	v.min(max)
}

/// 1–40 tiles in a few clusters; `high` allows zoom levels 15–24
pub fn gen_tiles(rng: &mut Rng, high: bool) -> TileMap {
	let pool = gen_pool(rng);
	let mut tiles = TileMap::new();
	let budget = match rng.below(6) {
		0 => 1,
		1 => 2,
		2 => rng.range(3, 8),
		_ => rng.range(5, 40),
	} as usize;
	let clusters = rng.range(1, 4);
	for _ in 0..clusters {
		let z = if high && rng.chance(1, 6) { rng.range(15, 24) as u8 } else { rng.range(0, 14) as u8 };
		let max = ((1u64 << z) - 1) as u32;
		let (ax, ay) = (anchor(rng, z), anchor(rng, z));
		let n = rng.range(1, 12) as usize;
		if rng.chance(1, 4) {
			// consecutive Hilbert ids with one payload
			let p = rng.pick(&pool).clone();
			let id0 = tile_id(z, ax, ay).unwrap();
			for k in 0..n as u64 {
				if let Some(c) = tile_coord(id0 + k) {
					if c.0 == z && tiles.len() < budget {
						tiles.insert(c, p.clone());
					}
				}
			}
		} else {
			let spread = rng.range(1, 4) as u64;
			for _ in 0..n {
				if tiles.len() >= budget {
					break;
				}
				let x = (ax as u64 + rng.below(spread)).min(max as u64) as u32;
				let y = (ay as u64 + rng.below(spread)).min(max as u64) as u32;
				tiles.insert((z, x, y), rng.pick(&pool).clone());
			}
		}
	}
	if tiles.values().all(|p| p.is_empty()) {
		let k = *tiles.keys().next().unwrap();
		tiles.insert(k, rng.bytes(5));
	}
	tiles
}

/// coordinates that were NOT encoded: neighbours, other zoom levels, block neighbours, random ones (≤ 100)
pub fn gen_probes(rng: &mut Rng, tiles: &TileMap, zmax: u8) -> Vec<Coord> {
	let mut s: BTreeSet<Coord> = BTreeSet::new();
	for (z, x, y) in tiles.keys() {
		let n = 1i64 << z;
		for dx in -1i64..=1 {
			for dy in -1i64..=1 {
				let (a, b) = (*x as i64 + dx, *y as i64 + dy);
				if a >= 0 && b >= 0 && a < n && b < n {
					s.insert((*z, a as u32, b as u32));
				}
			}
		}
		for (dx, dy) in [(256i64, 0i64), (-256, 0), (0, 256), (0, -256)] {
			let (a, b) = (*x as i64 + dx, *y as i64 + dy);
			if a >= 0 && b >= 0 && a < n && b < n {
				s.insert((*z, a as u32, b as u32));
			}
		}
		for dz in [-2i32, -1, 1, 2] {
			let z2 = *z as i32 + dz;
			if z2 >= 0 && z2 <= zmax as i32 && (*x as u64) < (1u64 << z2) && (*y as u64) < (1u64 << z2) {
				s.insert((z2 as u8, *x, *y));
			}
		}
	}
	for _ in 0..6 {
		let z = rng.range(0, zmax as u64) as u8;
		s.insert((z, rng.below(1u64 << z) as u32, rng.below(1u64 << z) as u32));
	}
	let mut v: Vec<Coord> = s.into_iter().filter(|c| !tiles.contains_key(c)).collect();
	if v.len() > 100 {
		for i in (1..v.len()).rev() {
			let j = rng.below(i as u64 + 1) as usize;
			v.swap(i, j);
		}
		v.truncate(100);
		v.sort();
	}
	v
}

pub struct Built {
	pub line: String,
	pub res: OpenRes,
	pub intent: Intent,
	pub qs: Vec<Coord>,
	/// layout freedoms used (names), for the distribution and the non-triviality rule
	pub freedoms: Vec<&'static str>,
	/// encoder/decoder consistency of the independent implementation itself (None = fine)
	pub selfcheck: Option<String>,
}

fn selfcheck(d: Result<Decoded, String>, fmt: Option<Fmt>, comp: Option<Comp>, tiles: &TileMap) -> Option<String> {
	match d {
		Err(e) => Some(format!("independent decoder rejects the independent encoder's output: {e}")),
		Ok(d) => {
			if d.tiles != non_empty(tiles) {
				Some("independent decoder recovers a different tile map".into())
			} else if d.format != fmt || d.compression != comp {
				Some(format!("independent decoder recovers {:?}/{:?} instead of {fmt:?}/{comp:?}", d.format, d.compression))
			} else {
				None
			}
		}
	}
}
fn non_empty(tiles: &TileMap) -> TileMap {
	tiles.iter().filter(|(_, p)| !p.is_empty()).map(|(c, p)| (*c, p.clone())).collect()
}
fn queries(tiles: &TileMap, seed: u64, zmax: u8) -> Vec<Coord> {
	let mut r = Rng(seed ^ 0x51ab);
	let mut qs: Vec<Coord> = tiles.keys().copied().collect();
	qs.extend(gen_probes(&mut r, tiles, zmax));
	qs
}

// ---- versatiles

pub fn gen_vt_choices(rng: &mut Rng) -> VtChoices {
	let plain = rng.chance(1, 10);
	VtChoices {
		fmt: *rng.pick(&ALL_FMT),
		comp: *rng.pick(&ALL_COMP),
		meta: if rng.chance(1, 3) { None } else { Some(br#"{"name":"indep","description":"C16"}"#.to_vec()) },
		range_mode: if plain { 0 } else { rng.below(3) as u8 },
		empty_block: !plain && rng.chance(1, 5),
		shuffle_blocks: !plain && rng.chance(1, 2),
		shuffle_index: !plain && rng.chance(1, 2),
		blob_order: if plain { 0 } else { rng.below(4) as u8 },
		share: rng.chance(1, 2),
		max_gap: if !plain && rng.chance(1, 3) { rng.range(1, 9) as usize } else { 0 },
		exact_gap: 0,
		bbox: [-1800000000 + rng.below(1000) as i32, -850511287, 1800000000, 850511287 - rng.below(1000) as i32],
	}
}

pub fn vt_intent(bytes: &[u8], fmt: Fmt, comp: Comp, tiles: &TileMap, blocks: &[VtBlock], flag: Option<(&'static str, Value)>) -> Intent {
	let _ = bytes;
	let mut cov: BTreeMap<u8, Box4> = BTreeMap::new();
	for b in blocks {
		let g = b.global();
		let e = cov.entry(b.z).or_insert(g);
		*e = (e.0.min(g.0), e.1.min(g.1), e.2.max(g.2), e.3.max(g.3));
	}
	Intent { container: "versatiles", fmt: Some(fmt), comp: Some(comp), tiles: non_empty(tiles), cover_min: cov.clone(), cover_max: cov, flag, refusal_ok: false }
}

pub fn build_v(rt: &Runtime, tiles: &TileMap, ch: &VtChoices, seed: u64) -> Built {
	let mut r = Rng(seed);
	let enc = encode_versatiles(tiles, ch, &mut r);
	let qs = queries(tiles, seed, 31);
	let res = run_v(rt, &enc.bytes, &qs);
	let line = format!("C16v {} {} {}", hexs(&enc.bytes), tab_str(&enc.tab), queries_str(&qs));
	let mut fr = vec![];
	// sparse: some level whose bounding grid has more cells than declared blocks
	let mut per: BTreeMap<u8, Vec<&VtBlock>> = BTreeMap::new();
	for b in &enc.blocks {
		per.entry(b.z).or_default().push(b);
	}
	for bs in per.values() {
		let (x0, x1) = (bs.iter().map(|b| b.bx).min().unwrap(), bs.iter().map(|b| b.bx).max().unwrap());
		let (y0, y1) = (bs.iter().map(|b| b.by).min().unwrap(), bs.iter().map(|b| b.by).max().unwrap());
		if ((x1 - x0 + 1) as u64) * ((y1 - y0 + 1) as u64) > bs.len() as u64 {
			fr.push("sparse_block_index");
			break;
		}
	}
	if let (Some(a), Some(b)) = (per.keys().next(), per.keys().next_back()) {
		if (*b - *a) as usize + 1 > per.len() {
			fr.push("level_without_blocks");
		}
	}
	if ch.range_mode == 1 {
		fr.push("padded_ranges");
	}
	if ch.range_mode == 2 {
		fr.push("full_ranges");
	}
	
	if ch.empty_block {
		fr.push("empty_block");
	}
	if ch.shuffle_blocks || ch.shuffle_index {
		fr.push("shuffled_blocks");
	}
	match ch.blob_order {
		1 => fr.push("blobs_shuffled"),
		2 => fr.push("blobs_reverse"),
		3 => fr.push("blobs_column_major"),
		_ => {}
	}
	if ch.max_gap > 0 {
		fr.push("gaps");
	}
	if ch.meta.is_none() {
		fr.push("no_metadata");
	}
	if enc.shared_offsets > 0 {
		fr.push("shared_offsets");
	}
	fr.dedup();
	let sc = selfcheck(decode_versatiles(&enc.bytes), Some(ch.fmt), Some(ch.comp), tiles);
	let intent = vt_intent(&enc.bytes, ch.fmt, ch.comp, tiles, &enc.blocks, Some(("range_mode", json!(ch.range_mode))));
	Built { line, res, intent, qs, freedoms: fr, selfcheck: sc }
}

// ---- pmtiles

pub fn gen_pm_choices(rng: &mut Rng) -> PmChoices {
	let plain = rng.chance(1, 10);
	let mut order = [0u8, 2, 1];
	if !plain {
		for i in (1..3).rev() {
			let j = rng.below(i as u64 + 1) as usize;
			order.swap(i, j);
		}
	}
	PmChoices {
		ttype: rng.range(0, 5) as u8,
		tcomp: rng.range(1, 3) as u8,
		icomp: if plain { Comp::Gzip } else { *rng.pick(&ALL_COMP) },
		merge_runs: !plain && rng.chance(2, 3),
		share: !plain && rng.chance(1, 2),
		offset_zero: plain || rng.chance(2, 3),
		levels: if plain { 1 } else { rng.range(1, 3) as u8 },
		fan_leaf: rng.range(1, 5) as usize,
		fan_mid: rng.range(1, 4) as usize,
		mixed_root: rng.chance(1, 4),
		clustered: plain || rng.chance(1, 2),
		section_order: order,
		max_gap: if !plain && rng.chance(1, 3) { rng.range(1, 9) as usize } else { 0 },
		meta: if rng.chance(1, 3) { b"{}".to_vec() } else { br#"{"name":"indep","vector_layers":[]}"#.to_vec() },
		bounds: [-1800000000, -850511287, 1800000000, 850511287],
		center: (rng.below(5) as u8, rng.below(100) as i32, -(rng.below(100) as i32)),
		counts_zero: !plain && rng.chance(1, 6),
	}
}

pub fn build_p(rt: &Runtime, tiles: &TileMap, ch: &PmChoices, seed: u64) -> Built {
	let mut r = Rng(seed);
	let enc = encode_pmtiles(tiles, ch, &mut r);
	let qs = queries(tiles, seed, 31);
	let res = run_p(rt, &enc.bytes, &qs);
	let line = format!("C16p {} {} {}", hexs(&enc.bytes), tab_str(&enc.tab), queries_str(&qs));
	let mut fr = vec![];
	if enc.max_run > 1 {
		fr.push("run_length");
	}
	if enc.shared_offsets > 0 {
		fr.push("shared_offsets");
	}
	if enc.levels_used == 2 {
		fr.push("leaves_2_levels");
	}
	if enc.levels_used == 3 {
		fr.push("leaves_3_levels");
	}
	if enc.levels_used == 2 && ch.mixed_root {
		fr.push("mixed_root");
	}
	if ch.icomp != Comp::Gzip {
		fr.push(if ch.icomp == Comp::None { "internal_none" } else { "internal_brotli" });
	}
	if !ch.clustered {
		fr.push("unclustered");
	}
	if ch.section_order != [0, 2, 1] {
		fr.push("section_order");
	}
	if !ch.offset_zero {
		fr.push("explicit_offsets");
	}
	if ch.counts_zero {
		fr.push("counts_unknown");
	}
	if ch.max_gap > 0 {
		fr.push("gaps");
	}
	let ne = non_empty(tiles);
	let sc = selfcheck(decode_pmtiles(&enc.bytes, false), Fmt::from_pm_type(ch.ttype), Comp::from_pm_code(ch.tcomp), tiles);
	let mut intent = Intent::from_tiles("pmtiles", Fmt::from_pm_type(ch.ttype).unwrap_or(Fmt::Bin), Comp::from_pm_code(ch.tcomp).unwrap_or(Comp::None), &ne);
	// tile compression 0 (unknown) / 4 (zstd): spec-valid but explicitly unsupported by the reader – correspondence only
	intent.comp = Comp::from_pm_code(ch.tcomp);
	intent.flag = Some(("levels", json!(enc.levels_used)));
	Built { line, res, intent, qs, freedoms: fr, selfcheck: sc }
}

// ---- mbtiles

pub fn mb_comp(f: Fmt) -> Comp {
	if f == Fmt::Pbf {
		Comp::Gzip
	} else {
		Comp::None
	}
}
pub fn gen_mb_choices(rng: &mut Rng) -> MbChoices {
	let mut extra = vec![];
	if rng.chance(1, 2) {
		extra.push(("bounds".to_string(), "-180,-85,180,85".to_string()));
		extra.push(("minzoom".to_string(), "0".to_string()));
		extra.push(("maxzoom".to_string(), "14".to_string()));
	}
	if rng.chance(1, 3) {
		extra.push(("attribution".to_string(), "© nobody".to_string()));
		extra.push(("x-custom-row".to_string(), "whatever".to_string()));
		extra.push(("center".to_string(), "0,0,3".to_string()));
	}
	MbChoices { fmt: *rng.pick(&[Fmt::Jpg, Fmt::Pbf, Fmt::Png, Fmt::Webp]), as_view: rng.chance(1, 3), with_index: rng.chance(2, 3), extra_meta: extra, shuffle_rows: rng.chance(1, 2) }
}
pub fn mb_line(fmt: Fmt, rows: &[MbRow], qs: &[Coord]) -> String {
	let mut s = format!("C16m {} {}", fmt.name(), rows.len());
	for (z, c, r, d) in rows {
		s.push_str(&format!(" {z} {c} {r} {}", hexs(d)));
	}
	s.push(' ');
	s.push_str(&queries_str(qs));
	s
}
pub fn build_m(rt: &Runtime, scratch: &mut Scratch, tiles: &TileMap, ch: &MbChoices, seed: u64) -> Built {
	let mut r = Rng(seed);
	let rows = tiles_to_rows(tiles);
	let path = scratch.fresh(".mbtiles");
	// schema freedoms (derived from the seed so that a rebuild while shrinking uses the same schema)
	let mut r2 = Rng(seed ^ 0x6d62_5f73_6368);
	let schema = MbSchema { without_rowid: r2.chance(1, 3), extra_columns: r2.chance(1, 3), other_spelling: r2.chance(1, 4) };
	encode_mbtiles_schema(&path, &rows, ch, &schema, &mut r).unwrap();
	let qs = queries(tiles, seed, 31);
	let sc = selfcheck(decode_mbtiles(&path), Some(ch.fmt), Some(mb_comp(ch.fmt)), tiles);
	let res = run_m(rt, &path, &qs);
	rm(&path);
	let mut intent = Intent::from_tiles("mbtiles", ch.fmt, mb_comp(ch.fmt), tiles);
	let gap = intent.zoom_gap();
	intent.flag = Some(("zoom_gap", json!(gap)));
	let mut fr = vec![];
	if gap {
		fr.push("zoom_gap");
	}
	if ch.as_view {
		fr.push("tiles_is_view");
	}
	if !ch.with_index {
		fr.push("no_index");
	}
	if !ch.extra_meta.is_empty() {
		fr.push("extra_metadata");
	}
	if ch.shuffle_rows {
		fr.push("shuffled_rows");
	}
	if schema.without_rowid {
		fr.push("without_rowid");
	}
	if schema.extra_columns {
		fr.push("extra_columns");
	}
	if schema.other_spelling {
		fr.push("other_column_order_and_type_spelling");
	}
	Built { line: mb_line(ch.fmt, &rows, &qs), res, intent, qs, freedoms: fr, selfcheck: sc }
}

// ---- tar / directory

#[derive(Clone, Debug)]
pub struct NameChoices {
	pub fmt: Fmt,
	pub comp: Comp,
	/// 0 = no "./", 1 = all members, 2 = mixed, 3 = "./" repeated 55 times (names > 100 bytes: ustar prefix field)
	pub dot_prefix: u8,
	pub dir_members: bool,
	pub prefix_field: bool,
	pub shuffle: bool,
	/// metadata member: (base name, compression)
	pub meta: Option<(&'static str, Comp)>,
	/// 0 = canonical extension, 1 = `.jpeg` (jpg only), 2 = upper-case format extension
	pub ext_variant: u8,
	pub stray: bool,
	pub extra_zero_blocks: usize,
	/// directory only: file-system freedoms (links, empty directories, strays below the root, number spellings)
	pub fs: FsLayout,
	/// one extra file named like a tile whose x (or y) is 2^z: outside of its level, open must fail (/repo b9f3d83c)
	pub out_of_level: bool,
	/// tar only: one extra member that is a link to a tile member, named like a tile: 0 none, 1 hard link, 2 symbolic link
	pub link_member: u8,
}
pub fn gen_name_choices(rng: &mut Rng, tar: bool) -> NameChoices {
	let fmt = *rng.pick(&ALL_FMT);
	NameChoices {
		fmt,
		comp: *rng.pick(&ALL_COMP),
		dot_prefix: if tar { rng.below(3) as u8 } else { 0 },
		dir_members: tar && rng.chance(1, 3),
		prefix_field: tar && rng.chance(1, 3),
		shuffle: rng.chance(1, 2),
		meta: if rng.chance(1, 3) { None } else { Some((*rng.pick(&["tiles.json", "meta.json", "metadata.json"]), *rng.pick(&ALL_COMP))) },
		ext_variant: if rng.chance(1, 12) { 2 } else if fmt == Fmt::Jpg && rng.chance(1, 3) { 1 } else { 0 },
		stray: rng.chance(1, 10),
		extra_zero_blocks: if tar && rng.chance(1, 4) { 18 } else { 0 },
		fs: if tar || rng.chance(1, 3) { FsLayout::default() } else { gen_fs_layout(rng) },
		link_member: if tar && rng.chance(1, 6) { rng.range(1, 2) as u8 } else { 0 },
		out_of_level: rng.chance(1, 20),
	}
}
/// checklist class 9 for the directory format: the file system is the encoder
pub fn gen_fs_layout(rng: &mut Rng) -> FsLayout {
	let link = rng.chance(2, 3);
	FsLayout {
		file_link: if link && rng.chance(2, 3) { rng.range(1, 4) as u8 } else { 0 },
		file_share: if rng.chance(1, 3) { 2 } else { 1 },
		x_link: if link && rng.chance(1, 3) { rng.range(1, 2) as u8 } else { 0 },
		z_link: if link && rng.chance(1, 3) { rng.range(1, 2) as u8 } else { 0 },
		empty_dirs: rng.chance(1, 3),
		deep_strays: rng.chance(1, 3),
		digits: if rng.chance(1, 5) { rng.range(1, 2) as u8 } else { 0 },
		wrong_kind: if rng.chance(1, 12) { rng.range(1, 2) as u8 } else { 0 },
	}
}
fn ext_of(ch: &NameChoices) -> String {
	let e = match ch.ext_variant {
		1 if ch.fmt == Fmt::Jpg => "jpeg".to_string(),
		2 => ch.fmt.name().to_ascii_uppercase(),
		_ => ch.fmt.name().to_string(),
	};
	format!(".{e}{}", ch.comp.ext())
}
/// regular files (relative names without "./") in generation order
fn named_files(tiles: &TileMap, ch: &NameChoices, r: &mut Rng) -> Vec<(String, Vec<u8>)> {
	let mut files: Vec<(String, Vec<u8>)> = tiles.iter().map(|((z, x, y), p)| (format!("{z}/{x}/{y}{}", ext_of(ch)), p.clone())).collect();
	if ch.shuffle {
		for i in (1..files.len()).rev() {
			let j = r.below(i as u64 + 1) as usize;
			files.swap(i, j);
		}
	}
	if let Some((name, c)) = ch.meta {
		let pos = if ch.shuffle { r.below(files.len() as u64 + 1) as usize } else { 0 };
		files.insert(pos, (format!("{name}{}", c.ext()), compress(c, br#"{"name":"indep"}"#)));
	}
	if ch.out_of_level {
		if let Some((z, _, _)) = tiles.keys().next() {
			let n = 1u64 << z;
			let name = if r.chance(1, 2) { format!("{z}/{n}/0{}", ext_of(ch)) } else { format!("{z}/0/{n}{}", ext_of(ch)) };
			let pos = r.below(files.len() as u64 + 1) as usize;
			files.insert(pos, (name, vec![7, 7]));
		}
	}
	if ch.stray {
		files.push(("README.md".into(), b"hello".to_vec()));
		files.insert(0, (".DS_Store".into(), vec![0, 1, 2]));
	}
	files
}
fn name_freedoms(ch: &NameChoices, tar: bool) -> Vec<&'static str> {
	let mut fr = vec![];
	if tar {
		match ch.dot_prefix {
			0 => fr.push("no_dot_prefix"),
			2 => fr.push("mixed_dot_prefix"),
			_ => {}
		}
		if ch.dir_members {
			fr.push("directory_members");
		}
		if ch.prefix_field {
			fr.push("ustar_prefix_field");
		}
		if ch.extra_zero_blocks > 0 {
			fr.push("record_padding");
		}
		fr.push("ustar_headers");
	}
	if ch.shuffle {
		fr.push("shuffled_members");
	}
	match ch.meta {
		None => fr.push("no_metadata"),
		Some((n, c)) if n != "tiles.json" || c != ch.comp => fr.push("other_metadata_name"),
		_ => {}
	}
	if ch.ext_variant == 1 && ch.fmt == Fmt::Jpg {
		fr.push("jpeg_extension");
	}
	if ch.ext_variant == 2 {
		fr.push("uppercase_extension");
	}
	if ch.stray {
		fr.push("stray_files");
	}
	if ch.out_of_level {
		fr.push("name_outside_its_level");
	}
	match ch.link_member {
		1 if tar => fr.push("hard_link_member"),
		2 if tar => fr.push("symbolic_link_member"),
		_ => {}
	}
	let f = &ch.fs;
	match f.file_link {
		1 => fr.push("tile_symlink_relative"),
		2 => fr.push("tile_symlink_absolute"),
		3 => fr.push("tile_symlink_chain"),
		4 => fr.push("tile_hard_link"),
		_ => {}
	}
	if f.file_link != 0 && f.file_share == 2 {
		fr.push("every_tile_linked");
	}
	if f.x_link != 0 {
		fr.push(if f.x_link == 1 { "x_directory_symlink_relative" } else { "x_directory_symlink_absolute" });
	}
	if f.z_link != 0 {
		fr.push(if f.z_link == 1 { "z_directory_symlink_relative" } else { "z_directory_symlink_absolute" });
	}
	if f.empty_dirs {
		fr.push("empty_directories");
	}
	if f.deep_strays {
		fr.push("strays_below_root");
	}
	match f.digits {
		1 => fr.push("leading_zeros"),
		2 => fr.push("very_long_file_name"),
		_ => {}
	}
	match f.wrong_kind {
		1 => fr.push("file_where_x_directory_expected"),
		2 => fr.push("file_where_z_directory_expected"),
		_ => {}
	}
	fr
}
pub fn named_line(stream: &str, files: &[(Vec<u8>, Vec<u8>)], qs: &[Coord]) -> String {
	let mut s = format!("{stream} {}", files.len());
	for (n, d) in files {
		s.push_str(&format!(" {} {}", hexs(n), hexs(d)));
	}
	s.push(' ');
	s.push_str(&queries_str(qs));
	s
}
pub fn build_t(rt: &Runtime, scratch: &mut Scratch, tiles: &TileMap, ch: &NameChoices, seed: u64) -> Built {
	let mut r = Rng(seed);
	let files = named_files(tiles, ch, &mut r);
	let mut members: Vec<TarMember> = vec![];
	let mut made_dirs: BTreeSet<String> = BTreeSet::new();
	let mut listed: Vec<(Vec<u8>, Vec<u8>)> = vec![];
	for (name, data) in &files {
		let dot = match ch.dot_prefix {
			0 => false,
			1 | 3 => true,
			_ => r.chance(1, 2),
		};
		let full = if ch.dot_prefix == 3 { format!("{}{name}", "./".repeat(55)) } else if dot { format!("./{name}") } else { name.clone() };
		if ch.dir_members {
			// directory members for the parents, once each, before the file
			let parts: Vec<&str> = full.split('/').collect();
			for k in 1..parts.len() {
				let d = format!("{}/", parts[..k].join("/"));
				if d != "./" && made_dirs.insert(d.clone()) {
					members.push(TarMember { name: d.into_bytes(), data: vec![], typeflag: b'5', use_prefix: false });
				}
			}
		}
		let use_prefix = ch.prefix_field && full.matches('/').count() >= 1 && r.chance(1, 2);
		members.push(TarMember { name: full.clone().into_bytes(), data: data.clone(), typeflag: b'0', use_prefix });
		listed.push((full.into_bytes(), data.clone()));
	}
	// the file system as encoder (GNU tar on a tree with hard-linked or symlinked tiles): one member of type '1' / '2'
	// named like a tile and pointing at a tile member. Expectation: the link behaves like its target, or the archive is
	// refused loudly. The model's listing holds regular members only (the reader skips every other member type).
	let mut linked: Option<(Coord, Vec<u8>)> = None;
	if ch.link_member != 0 && ch.dot_prefix != 3 {
		let target = tiles.iter().find(|(c, p)| c.0 >= 1 && !p.is_empty());
		if let Some(((z, x, y), p)) = target {
			let tname = listed.iter().map(|(n, _)| String::from_utf8_lossy(n).to_string()).find(|n| n.trim_start_matches("./") == format!("{z}/{x}/{y}{}", ext_of(ch)));
			let y2 = (0..(1u64 << z).min(1 << 20) as u32).find(|y2| !tiles.contains_key(&(*z, *x, *y2)));
			if let (Some(tname), Some(y2)) = (tname, y2) {
				let lname = format!("{z}/{x}/{y2}{}", ext_of(ch));
				let target_field = if ch.link_member == 1 { tname.clone() } else { format!("{y}{}", ext_of(ch)) };
				members.push(TarMember { name: lname.into_bytes(), data: target_field.into_bytes(), typeflag: if ch.link_member == 1 { b'1' } else { b'2' }, use_prefix: false });
				linked = Some(((*z, *x, y2), p.clone()));
			}
		}
	}
	let bytes = encode_tar(&members, ch.extra_zero_blocks).unwrap();
	let path = scratch.fresh(".tar");
	std::fs::write(&path, &bytes).unwrap();
	let sc = if ch.stray || ch.dot_prefix == 3 || ch.out_of_level { None } else { selfcheck(decode_tar(&bytes), Some(ch.fmt), Some(ch.comp), tiles) };
	let mut want = tiles.clone();
	if let Some((c, p)) = &linked {
		want.insert(*c, p.clone());
	}
	let qs = queries(&want, seed, 31);
	let res = run_t(rt, &path, &qs);
	rm(&path);
	let mut intent = Intent::from_tiles("tar", ch.fmt, ch.comp, &want);
	intent.flag = Some(("dot_prefix", json!(ch.dot_prefix)));
	intent.refusal_ok = ch.out_of_level;
	if linked.is_some() {
		intent.refusal_ok = true;
		intent.flag = Some(("link_member", json!(if ch.link_member == 1 { "hard" } else { "symbolic" })));
	}
	Built { line: named_line("C16t", &listed, &qs), res, intent, qs, freedoms: name_freedoms(ch, true), selfcheck: sc }
}
pub fn build_d(rt: &Runtime, scratch: &mut Scratch, tiles: &TileMap, ch: &NameChoices, seed: u64) -> Built {
	let mut r = Rng(seed);
	let files = named_files(tiles, ch, &mut r);
	let path = scratch.fresh("");
	let files = if ch.fs.is_plain() {
		write_dir(&path, &files).unwrap();
		files
	} else {
		write_dir_fs(&path, &files, &ch.fs).unwrap()
	};
	// the independent decoder walks the tree following links; it knows canonical numbers only and refuses strays
	let sc = if ch.stray || ch.out_of_level || ch.fs.deep_strays || ch.fs.digits != 0 || ch.fs.wrong_kind != 0 { None } else { selfcheck(decode_dir(&path), Some(ch.fmt), Some(ch.comp), tiles) };
	let qs = queries(tiles, seed, 31);
	let res = run_d(rt, &path, &qs);
	rm(&path);
	rm(&store_of(&path));
	let mut intent = Intent::from_tiles("directory", ch.fmt, ch.comp, tiles);
	// a regular file where the layout wants a directory: refusing the whole tree loudly is as good as ignoring the entry
	intent.refusal_ok = ch.fs.wrong_kind != 0 || ch.out_of_level;
	if !ch.fs.is_plain() {
		let f = &ch.fs;
		let label = if f.z_link != 0 { "z_directory_link" } else if f.x_link != 0 { "x_directory_link" } else if f.file_link == 4 { "hard_link" } else if f.file_link != 0 { "tile_symlink" } else if f.wrong_kind != 0 { "wrong_kind" } else if f.digits != 0 { "digits" } else { "extra_entries" };
		intent.flag = Some(("fs", json!(label)));
	}
	let listed: Vec<(Vec<u8>, Vec<u8>)> = files.into_iter().map(|(n, d)| (n.into_bytes(), d)).collect();
	Built { line: named_line("C16d", &listed, &qs), res, intent, qs, freedoms: name_freedoms(ch, false), selfcheck: sc }
}

// ------------------------------------------------------------------------------------------ emit + shrink

pub const MAX_LINE: usize = 200_000;

pub struct Ctx {
	pub out: Out,
	pub rt: Runtime,
	pub scratch: Scratch,
	shrunk: BTreeMap<String, u32>,
}

/// emit the correspondence line + the oracle verdict; on failure minimise by dropping tiles (re-encoding with the
/// same choices and seed) while the same kind of failure remains
pub fn emit(ctx: &mut Ctx, prop: &str, tiles: &TileMap, built: Built, rebuild: &mut dyn FnMut(&mut Ctx, &TileMap) -> Built) {
	let container = built.intent.container;
	let n_tiles = built.intent.tiles.len();
	let nontrivial = !built.freedoms.is_empty() && n_tiles >= 2;
	ctx.out.count(&format!("container_{container}"));
	for f in &built.freedoms {
		ctx.out.count(&format!("{container}_{f}"));
	}
	ctx.out.count(&format!("tiles_{}", if n_tiles <= 1 { "1" } else if n_tiles <= 8 { "2-8" } else { "9-40" }));
	count_looks(&mut ctx.out, &built.res);
	if let Some(m) = &built.selfcheck {
		ctx.out.count("harness_selfcheck_failed");
		if ctx.out.notes.len() < 5 {
			ctx.out.notes.push(format!("HARNESS SELF-CHECK ({container}): {m}"));
		}
	}
	if built.line.len() <= MAX_LINE {
		ctx.out.case(&built.line, &answer(&built.res), nontrivial);
	} else {
		ctx.out.count("line_too_long_oracle_only");
		ctx.out.eval(&built.line[..200], nontrivial);
	}
	if built.intent.comp.is_none() {
		ctx.out.count(&format!("{container}_unsupported_tile_compression_{}", answer(&built.res).split(' ').next().unwrap()));
		return;
	}
	match judge(&built.intent, &built.qs, &built.res) {
		None => ctx.out.oracle(true, "", json!(null), json!(null)),
		Some((kind, msg)) => {
			let sig = sig_of(&built.intent, kind);
			let key = sig.to_string();
			let n = ctx.shrunk.entry(key).or_insert(0);
			*n += 1;
			let mut best = built;
			let mut best_msg = msg;
			if *n <= 3 {
				let mut cur = tiles.clone();
				loop {
					let mut changed = false;
					for k in cur.keys().copied().collect::<Vec<_>>() {
						if cur.len() <= 1 {
							break;
						}
						let mut t = cur.clone();
						t.remove(&k);
						if t.values().all(|p| p.is_empty()) {
							continue;
						}
						let b = rebuild(ctx, &t);
						if let Some((k2, m2)) = judge(&b.intent, &b.qs, &b.res) {
							if k2 == kind && sig_of(&b.intent, k2) == sig {
								cur = t;
								best = b;
								best_msg = m2;
								changed = true;
							}
						}
					}
					if !changed {
						break;
					}
				}
			}
			ctx.out.oracle(
				false,
				&format!("{prop} {container} {kind}: {best_msg}"),
				sig,
				json!({"case": best.line, "impl": trunc(&answer(&best.res), 300), "message": best_msg, "tiles": best.intent.tiles.len(), "freedoms": best.freedoms}),
			);
		}
	}
}

// ------------------------------------------------------------------------------------------ codec streams

fn fmt_code(f: TileFormat) -> u8 {
	Fmt::from_name(&fmt_name(f)).unwrap().vt_code()
}
fn comp_code(c: TileCompression) -> u8 {
	Comp::from_name(&comp_name(c)).unwrap().vt_code()
}
fn res3(r: Result<anyhow::Result<String>, String>) -> String {
	match r {
		Err(_) => "panic".into(),
		Ok(Err(_)) => "err".into(),
		Ok(Ok(s)) => s,
	}
}
fn p_u64(s: &str) -> anyhow::Result<u64> {
	s.parse::<u64>().map_err(|e| anyhow::anyhow!("bad number {s}: {e}"))
}
fn p_i32(s: &str) -> anyhow::Result<i32> {
	s.parse::<i32>().map_err(|e| anyhow::anyhow!("bad number {s}: {e}"))
}
fn show_entry(e: &EntryV3) -> String {
	format!("{}:{}:{}:{}", e.tile_id, e.range.offset, e.range.length, e.run_length)
}
fn parse_entries(t: &[&str]) -> anyhow::Result<(Vec<EntryV3>, usize)> {
	let n = p_u64(t.first().ok_or(anyhow::anyhow!("missing count"))?)? as usize;
	anyhow::ensure!(t.len() > n, "too few entries");
	let mut v = vec![];
	for s in &t[1..=n] {
		let p: Vec<&str> = s.split(':').collect();
		anyhow::ensure!(p.len() == 4, "bad entry {s}");
		v.push(EntryV3::new(p_u64(p[0])?, ByteRange::new(p_u64(p[1])?, p_u64(p[2])?), p[3].parse::<u32>()?));
	}
	Ok((v, n + 1))
}

fn pm_header_from(n: &[&str]) -> anyhow::Result<HeaderV3> {
	anyhow::ensure!(n.len() == 24, "PMH enc needs 24 numbers");
	let u = |i: usize| p_u64(n[i]);
	// the tile type enum is not nameable from here: obtain the three enum fields through a template header
	let mut t = vec![0u8; 127];
	t[..7].copy_from_slice(b"PMTiles");
	t[7] = 3;
	t[97] = u8::try_from(u(12)?)?;
	t[98] = u8::try_from(u(13)?)?;
	t[99] = u8::try_from(u(14)?)?;
	let mut h = HeaderV3::deserialize(&Blob::from(t))?;
	h.root_dir = ByteRange::new(u(0)?, u(1)?);
	h.metadata = ByteRange::new(u(2)?, u(3)?);
	h.leaf_dirs = ByteRange::new(u(4)?, u(5)?);
	h.tile_data = ByteRange::new(u(6)?, u(7)?);
	h.addressed_tiles_count = u(8)?;
	h.tile_entries_count = u(9)?;
	h.tile_contents_count = u(10)?;
	h.clustered = u(11)? == 1;
	h.min_zoom = u8::try_from(u(15)?)?;
	h.max_zoom = u8::try_from(u(16)?)?;
	h.min_lon_e7 = p_i32(n[17])?;
	h.min_lat_e7 = p_i32(n[18])?;
	h.max_lon_e7 = p_i32(n[19])?;
	h.max_lat_e7 = p_i32(n[20])?;
	h.center_zoom = u8::try_from(u(21)?)?;
	h.center_lon_e7 = p_i32(n[22])?;
	h.center_lat_e7 = p_i32(n[23])?;
	Ok(h)
}

/// answer of the real code to one codec-stream request (None: not a codec stream / malformed request)
pub fn codec_answer(rt: &Runtime, scratch: &mut Scratch, line: &str) -> Option<String> {
	let t: Vec<&str> = line.split(' ').collect();
	let bytes = |i: usize| -> Option<Vec<u8>> { t.get(i).and_then(|s| unhexs(s)) };
	Some(match (t[0], t.get(1).copied()) {
		("VTH", Some("dec")) => {
			let b = bytes(2)?;
			res3(catch(|| {
				let mut r: DataReader = Box::new(DataReaderBlob::from(b));
				let h = rt.block_on(FileHeader::from_reader(&mut r))?;
				Ok(format!(
					"ok {} {} {} {} {} {} {} {} {} {} {} {}",
					fmt_code(h.tile_format), comp_code(h.compression), h.zoom_range[0], h.zoom_range[1], h.bbox[0], h.bbox[1], h.bbox[2], h.bbox[3],
					h.meta_range.offset, h.meta_range.length, h.blocks_range.offset, h.blocks_range.length
				))
			}))
		}
		("VTH", Some("enc")) => {
			if t.len() != 14 {
				return None;
			}
			res3(catch(|| {
				let f = Fmt::from_vt_code(u8::try_from(p_u64(t[2])?)?).ok_or(anyhow::anyhow!("format code"))?;
				let c = Comp::from_vt_code(u8::try_from(p_u64(t[3])?)?).ok_or(anyhow::anyhow!("compression code"))?;
				let h = FileHeader {
					zoom_range: [u8::try_from(p_u64(t[4])?)?, u8::try_from(p_u64(t[5])?)?],
					bbox: [p_i32(t[6])?, p_i32(t[7])?, p_i32(t[8])?, p_i32(t[9])?],
					tile_format: tf(f),
					compression: tc(c),
					meta_range: ByteRange::new(p_u64(t[10])?, p_u64(t[11])?),
					blocks_range: ByteRange::new(p_u64(t[12])?, p_u64(t[13])?),
				};
				Ok(hexs(h.to_blob()?.as_slice()))
			}))
		}
		("VBD", Some("dec")) => {
			let b = bytes(2)?;
			res3(catch(|| {
				let d = BlockDefinition::from_blob(&Blob::from(b))?;
				let (c, g, tr, ir) = (d.get_coord3(), d.get_global_bbox(), d.get_tiles_range(), d.get_index_range());
				Ok(format!("ok {} {} {} {} {} {} {} {} {} {} {}", c.z, c.x, c.y, g.x_min, g.y_min, g.x_max, g.y_max, tr.offset, tr.length, ir.offset, ir.length))
			}))
		}
		("VBD", Some("enc")) => {
			if t.len() != 10 {
				return None;
			}
			res3(catch(|| {
				let v: Vec<u64> = t[2..].iter().map(|s| p_u64(s)).collect::<anyhow::Result<_>>()?;
				let bbox = TileBBox::new(u8::try_from(v[0])?, u32::try_from(v[1])?, u32::try_from(v[2])?, u32::try_from(v[3])?, u32::try_from(v[4])?)?;
				let mut d = BlockDefinition::new(&bbox);
				d.set_tiles_range(ByteRange::new(v[5], v[6]));
				d.set_index_range(ByteRange::new(v[5] + v[6], v[7]));
				Ok(hexs(d.as_blob()?.as_slice()))
			}))
		}
		("VTI", Some("dec")) => {
			let b = bytes(2)?;
			res3(catch(|| {
				let ti = TileIndex::from_blob(Blob::from(b))?;
				let mut s = format!("ok {}", ti.len());
				for r in ti.iter() {
					s.push_str(&format!(" {}:{}", r.offset, r.length));
				}
				Ok(s)
			}))
		}
		("VTI", Some("enc")) => res3(catch(|| {
			let n = p_u64(t.get(2).ok_or(anyhow::anyhow!("count"))?)? as usize;
			anyhow::ensure!(t.len() == 3 + n, "VTI enc arity");
			let mut ti = TileIndex::new_empty(n);
			for (i, s) in t[3..].iter().enumerate() {
				let (o, l) = s.split_once(':').ok_or(anyhow::anyhow!("entry"))?;
				ti.set(i, ByteRange::new(p_u64(o)?, p_u64(l)?));
			}
			Ok(hexs(ti.as_blob()?.as_slice()))
		})),
		("VBI", Some("dec")) => {
			let b = bytes(2)?;
			res3(catch(|| {
				let bi = BlockIndex::from_blob(Blob::from(b))?;
				let mut recs: Vec<(u8, u32, u32, String)> = bi
					.iter()
					.map(|d| {
						let (c, g, tr, ir) = (d.get_coord3(), d.get_global_bbox(), d.get_tiles_range(), d.get_index_range());
						(c.z, c.x, c.y, format!("{},{},{},{},{},{},{},{},{},{},{}", c.z, c.x, c.y, g.x_min, g.y_min, g.x_max, g.y_max, tr.offset, tr.length, ir.offset, ir.length))
					})
					.collect();
				recs.sort();
				let mut s = format!("ok {}", recs.len());
				for r in recs {
					s.push(' ');
					s.push_str(&r.3);
				}
				Ok(s)
			}))
		}
		("PMH", Some("dec")) => {
			let b = bytes(2)?;
			res3(catch(|| {
				let h = HeaderV3::deserialize(&Blob::from(b))?;
				Ok(format!(
					"ok {} {} {} {} {} {} {} {} {} {} {} {} {} {} {} {} {} {} {} {} {} {} {} {}",
					h.root_dir.offset, h.root_dir.length, h.metadata.offset, h.metadata.length, h.leaf_dirs.offset, h.leaf_dirs.length, h.tile_data.offset, h.tile_data.length,
					h.addressed_tiles_count, h.tile_entries_count, h.tile_contents_count, h.clustered as u8, h.internal_compression as u8, h.tile_compression as u8, h.tile_type as u8,
					h.min_zoom, h.max_zoom, h.min_lon_e7, h.min_lat_e7, h.max_lon_e7, h.max_lat_e7, h.center_zoom, h.center_lon_e7, h.center_lat_e7
				))
			}))
		}
		("PMH", Some("enc")) => res3(catch(|| Ok(hexs(pm_header_from(&t[2..])?.serialize()?.as_slice())))),
		("PMD", Some("dec")) => {
			let b = bytes(2)?;
			res3(catch(|| {
				let es = EntriesV3::from_blob(&Blob::from(b))?;
				let mut s = format!("ok {}", es.len());
				for e in es.iter() {
					s.push(' ');
					s.push_str(&show_entry(e));
				}
				Ok(s)
			}))
		}
		("PMD", Some("enc")) => res3(catch(|| {
			let (v, used) = parse_entries(&t[2..])?;
			anyhow::ensure!(used + 2 == t.len(), "PMD enc arity");
			let mut es = EntriesV3::new();
			for e in v {
				es.push(e);
			}
			Ok(hexs(es.as_slice().serialize_entries()?.as_slice()))
		})),
		("PMF", Some(id)) => res3(catch(|| {
			let id = p_u64(id)?;
			let (v, used) = parse_entries(&t[2..])?;
			anyhow::ensure!(used + 2 == t.len(), "PMF arity");
			let mut es = EntriesV3::new();
			for e in v {
				es.push(e);
			}
			Ok(match es.find_tile(id) {
				Some(e) => format!("some {}", show_entry(&e)),
				None => "none".into(),
			})
		})),
		("PMS", Some(target)) => res3(catch(|| {
			let target = p_u64(target)?;
			let (v, used) = parse_entries(&t[2..])?;
			anyhow::ensure!(used + 2 == t.len(), "PMS arity");
			let mut es = EntriesV3::new();
			for e in v {
				es.push(e);
			}
			let d = es.as_directory(target, &TileCompression::Uncompressed)?;
			Ok(format!("ok {} {}", hexs(d.root_bytes.as_slice()), hexs(d.leaves_bytes.as_slice())))
		})),
		("HIL", Some("enc")) => {
			if t.len() != 5 {
				return None;
			}
			res3(catch(|| {
				let z = u8::try_from(p_u64(t[2])?)?;
				let c = TileCoord3::new(u32::try_from(p_u64(t[3])?)?, u32::try_from(p_u64(t[4])?)?, z)?;
				Ok(format!("ok {}", c.get_tile_id()?))
			}))
		}
		("HIL", Some("dec")) => res3(catch(|| {
			let c = tile_id_to_coord(p_u64(t.get(2).ok_or(anyhow::anyhow!("id"))?)?)?;
			Ok(format!("ok {} {} {}", c.x, c.y, c.z))
		})),
		("NAM", Some(h)) => {
			let name = unhexs(h)?;
			let open = |scratch: &mut Scratch, members: &[TarMember]| -> Result<anyhow::Result<TarTilesReader>, String> {
				let bytes = match encode_tar(members, 0) {
					Ok(b) => b,
					Err(e) => return Ok(Err(anyhow::anyhow!(e))),
				};
				let p = scratch.fresh(".tar");
				std::fs::write(&p, bytes).unwrap();
				let r = catch(|| TarTilesReader::open_path(&p));
				rm(&p);
				r
			};
			let m = TarMember { name, data: b"x".to_vec(), typeflag: b'0', use_prefix: false };
			match open(scratch, &[m.clone()]) {
				Err(_) => "panic".into(),
				Ok(Ok(r)) => {
					let p = r.get_parameters();
					let cov = cover_of(&p.bbox_pyramid);
					match cov.iter().next() {
						Some((z, b)) if cov.len() == 1 && b.0 == b.2 && b.1 == b.3 => format!("tile {z} {} {} {} {}", b.0, b.1, fmt_name(p.tile_format), comp_name(p.tile_compression)),
						_ => "err".into(),
					}
				}
				Ok(Err(_)) => match open(scratch, &[m, TarMember::file("0/0/0.png", b"x")]) {
					Ok(Ok(_)) => "skip".into(),
					_ => "err".into(),
				},
			}
		}
		_ => return None,
	})
}

// ------------------------------------------------------------------------------------------ codec generators

fn edge_u64(r: &mut Rng) -> u64 {
	const E: [u64; 18] = [0, 1, 2, 127, 128, 255, 256, 65535, 65536, 0xFFFF_FFFE, 0xFFFF_FFFF, 0x1_0000_0000, 1 << 40, i64::MAX as u64, 1 << 63, u64::MAX - 1, u64::MAX, 12345];
	match r.below(4) {
		0 => *r.pick(&E),
		1 => r.below(1000),
		2 => r.below(1 << 33),
		_ => r.next(),
	}
}
fn small_u64(r: &mut Rng) -> u64 {
	if r.chance(1, 8) {
		edge_u64(r)
	} else {
		r.below(100_000)
	}
}
fn edge_i32(r: &mut Rng) -> i32 {
	match r.below(4) {
		0 => *r.pick(&[0, 1, -1, i32::MAX, i32::MIN, 1800000000, -1800000000, 850511287]),
		_ => r.next() as i32,
	}
}
fn mutate(r: &mut Rng, mut b: Vec<u8>) -> Vec<u8> {
	match r.below(6) {
		0 | 1 => {
			if !b.is_empty() {
				let i = r.below(b.len() as u64) as usize;
				b[i] ^= 1 << r.below(8);
			}
		}
		2 => {
			if !b.is_empty() {
				let i = r.below(b.len() as u64) as usize;
				b[i] = r.next() as u8;
			}
		}
		3 => {
			let n = r.below(b.len() as u64 + 1) as usize;
			b.truncate(n);
		}
		4 => {
			let n = r.range(1, 5) as usize;
			b.extend(r.bytes(n));
		}
		_ => {
			if !b.is_empty() {
				let i = r.below(b.len() as u64) as usize;
				b[i] = *r.pick(&[0u8, 0x7f, 0x80, 0xff]);
			}
		}
	}
	b
}

fn vt_header_bytes(r: &mut Rng) -> Vec<u8> {
	let mut h = b"versatiles_v02".to_vec();
	h.push(if r.chance(1, 6) { r.next() as u8 } else { r.pick(&ALL_FMT).vt_code() });
	h.push(if r.chance(1, 6) { r.below(5) as u8 } else { r.below(3) as u8 });
	h.push(r.below(33) as u8);
	h.push(r.below(33) as u8);
	for _ in 0..4 {
		h.extend_from_slice(&edge_i32(r).to_be_bytes());
	}
	for _ in 0..4 {
		h.extend_from_slice(&edge_u64(r).to_be_bytes());
	}
	h
}
fn gen_vth(r: &mut Rng) -> String {
	if r.chance(1, 2) {
		let mut b = vt_header_bytes(r);
		if r.chance(1, 3) {
			b = mutate(r, b);
		}
		format!("VTH dec {}", hexs(&b))
	} else {
		format!(
			"VTH enc {} {} {} {} {} {} {} {} {} {} {} {}",
			r.pick(&ALL_FMT).vt_code(), r.below(3), r.below(33), r.below(33), edge_i32(r), edge_i32(r), edge_i32(r), edge_i32(r), edge_u64(r), edge_u64(r), edge_u64(r), edge_u64(r)
		)
	}
}
fn vbd_record(r: &mut Rng) -> Vec<u8> {
	let valid = r.chance(2, 3);
	let z = if valid { r.below(25) as u8 } else { r.below(40) as u8 };
	let nb: u64 = if z >= 8 && z < 40 { 1u64 << (z - 8).min(31) } else { 1 };
	let (bx, by) = if valid { (r.below(nb) as u32, r.below(nb) as u32) } else { (*r.pick(&[0u32, 1, 0x00FF_FFFF, 0x0100_0000, u32::MAX, 77]), if r.chance(1, 2) { r.next() as u32 } else { r.below(4) as u32 }) };
	let lim = if z >= 8 { 255 } else { (1u64 << z) - 1 };
	let (mut c0, mut c1, mut r0, mut r1) = (r.below(lim + 1) as u8, r.below(lim + 1) as u8, r.below(lim + 1) as u8, r.below(lim + 1) as u8);
	if valid || r.chance(1, 2) {
		if c0 > c1 {
			std::mem::swap(&mut c0, &mut c1);
		}
		if r0 > r1 {
			std::mem::swap(&mut r0, &mut r1);
		}
	}
	if !valid && r.chance(1, 3) {
		c1 = r.next() as u8;
		r1 = r.next() as u8;
	}
	let mut rec = vec![z];
	rec.extend_from_slice(&bx.to_be_bytes());
	rec.extend_from_slice(&by.to_be_bytes());
	rec.extend_from_slice(&[c0, r0, c1, r1]);
	let (o, l) = if valid { (small_u64(r), small_u64(r)) } else { (edge_u64(r), edge_u64(r)) };
	rec.extend_from_slice(&o.to_be_bytes());
	rec.extend_from_slice(&l.to_be_bytes());
	rec.extend_from_slice(&(edge_u64(r) as u32).to_be_bytes());
	rec
}
fn gen_vbd(r: &mut Rng) -> String {
	if r.chance(3, 5) {
		let mut b = vbd_record(r);
		if r.chance(1, 4) {
			b = mutate(r, b);
		}
		format!("VBD dec {}", hexs(&b))
	} else {
		let zlim = if r.chance(1, 8) { 34 } else { 25 };
		let z = r.below(zlim) as u8;
		let max = (1u64 << z.min(32)) - 1;
		let x0 = anchor(r, z.min(31)) as u64;
		let y0 = anchor(r, z.min(31)) as u64;
		let (mut x1, mut y1) = (x0 + r.below(6), y0 + r.below(6));
		match r.below(8) {
			0 => x1 = x0 + 255,
			1 => x1 = x0 + 256,
			2 => y1 = (y0 | 255) + 1,
			3 => x1 = x0.saturating_sub(1),
			4 => x1 = max + 1,
			_ => {}
		}
		let x1 = x1.min(u32::MAX as u64);
		let y1 = y1.min(u32::MAX as u64);
		let off = edge_u64(r);
		let len = edge_u64(r).min(u64::MAX - off);
		format!("VBD enc {z} {x0} {y0} {x1} {y1} {off} {len} {}", edge_u64(r))
	}
}
fn gen_vti(r: &mut Rng) -> String {
	let n = r.below(7) as usize;
	if r.chance(1, 2) {
		let mut b = vec![];
		for _ in 0..n {
			b.extend_from_slice(&edge_u64(r).to_be_bytes());
			b.extend_from_slice(&(edge_u64(r) as u32).to_be_bytes());
		}
		if r.chance(1, 3) {
			b = mutate(r, b);
		}
		format!("VTI dec {}", hexs(&b))
	} else {
		let mut s = format!("VTI enc {n}");
		for _ in 0..n {
			s.push_str(&format!(" {}:{}", edge_u64(r), edge_u64(r)));
		}
		s
	}
}
fn gen_vbi(r: &mut Rng) -> String {
	let n = r.below(6) as usize;
	let mut b = vec![];
	let mut recs: Vec<Vec<u8>> = vec![];
	for _ in 0..n {
		let rec = if !recs.is_empty() && r.chance(1, 5) {
			// same block coordinate again with other ranges
			let mut d = r.pick(&recs).clone();
			d[20] ^= 0x55;
			d
		} else {
			let mut rec = vbd_record(r);
			// mostly decodable records
			if r.chance(4, 5) {
				rec[13..29].copy_from_slice(&[small_u64(r).to_be_bytes(), small_u64(r).to_be_bytes()].concat());
			}
			rec
		};
		b.extend_from_slice(&rec);
		recs.push(rec);
	}
	if r.chance(1, 6) {
		b = mutate(r, b);
	}
	format!("VBI dec {}", hexs(&b))
}
fn gen_pmh(r: &mut Rng) -> String {
	let nums: Vec<String> = (0..24)
		.map(|i| match i {
			0..=10 => edge_u64(r).to_string(),
			11 => r.below(2).to_string(),
			12 | 13 => r.below(5).to_string(),
			14 => r.below(6).to_string(),
			15 | 16 | 21 => {
				let lim = if r.chance(1, 4) { 256 } else { 25 };
				r.below(lim).to_string()
			}
			_ => edge_i32(r).to_string(),
		})
		.collect();
	if r.chance(1, 2) {
		return format!("PMH enc {}", nums.join(" "));
	}
	// dec: bytes built independently
	let mut h = b"PMTiles".to_vec();
	h.push(3);
	for n in &nums[..11] {
		h.extend_from_slice(&n.parse::<u64>().unwrap().to_le_bytes());
	}
	h.push(if r.chance(1, 5) { r.next() as u8 } else { r.below(2) as u8 });
	for k in [5u64, 5, 6] {
		h.push(if r.chance(1, 6) { r.next() as u8 } else { r.below(k) as u8 });
	}
	h.push(nums[15].parse::<u64>().unwrap() as u8);
	h.push(nums[16].parse::<u64>().unwrap() as u8);
	for n in &nums[17..21] {
		h.extend_from_slice(&n.parse::<i32>().unwrap().to_le_bytes());
	}
	h.push(nums[21].parse::<u64>().unwrap() as u8);
	for n in &nums[22..24] {
		h.extend_from_slice(&n.parse::<i32>().unwrap().to_le_bytes());
	}
	if r.chance(1, 3) {
		h = mutate(r, h);
	}
	format!("PMH dec {}", hexs(&h))
}
fn gen_entries(r: &mut Rng, n: usize, sorted: bool, wild: bool) -> Vec<PmEntry> {
	let mut id = r.below(50);
	let mut off = r.below(10);
	let mut v = vec![];
	for _ in 0..n {
		let lo = if r.chance(1, 10) { 0 } else { 1 };
		let len = if wild && r.chance(1, 6) { edge_u64(r) } else { r.range(lo, 300) };
		let hi = if wild && r.chance(1, 10) { u32::MAX as u64 } else { 5 };
		let run = if r.chance(1, 4) { 0 } else { r.range(1, hi) };
		if r.chance(1, 4) {
			off = if wild && r.chance(1, 4) { edge_u64(r) } else { r.below(5000) };
		}
		v.push(PmEntry { id, off, len, run });
		off = off.wrapping_add(len);
		let step = r.range(if sorted { 1 } else { 0 }, 20);
		id = if wild && r.chance(1, 12) { edge_u64(r) } else { id.saturating_add(step) };
	}
	if !sorted && n > 1 {
		let i = r.below(n as u64) as usize;
		let j = r.below(n as u64) as usize;
		v.swap(i, j);
	}
	v
}
fn entries_str(es: &[PmEntry]) -> String {
	let mut s = format!("{}", es.len());
	for e in es {
		s.push_str(&format!(" {}:{}:{}:{}", e.id, e.off, e.len, e.run.min(u32::MAX as u64)));
	}
	s
}
fn gen_pmd(r: &mut Rng) -> String {
	let n = r.below(8) as usize;
	if r.chance(1, 2) {
		let wild = r.chance(1, 4);
		let es = gen_entries(r, n, true, false);
		let mut b = serialize_dir(&es, r.chance(1, 2));
		match r.below(8) {
			0 => b = mutate(r, b),
			1 => b = mutate(r, b),
			2 => {
				// count larger than the data
				let mut c = vec![];
				put_varint(&mut c, n as u64 + r.range(1, 1 << 40));
				c.extend_from_slice(&b[1.min(b.len())..]);
				b = c;
			}
			3 => {
				// huge varints
				b = vec![];
				put_varint(&mut b, 2);
				for _ in 0..8 {
					if r.chance(1, 2) {
						b.extend_from_slice(&[0xff; 9]);
						b.push(*r.pick(&[0x01u8, 0x7f, 0xff]));
					} else {
						put_varint(&mut b, edge_u64(r));
					}
				}
			}
			4 if wild => {
				let es = gen_entries(r, n, true, true);
				b = vec![];
				put_varint(&mut b, es.len() as u64);
				for e in &es {
					put_varint(&mut b, e.id);
				}
				for e in &es {
					put_varint(&mut b, e.run);
				}
				for e in &es {
					put_varint(&mut b, e.len);
				}
				for e in &es {
					put_varint(&mut b, if r.chance(1, 3) { 0 } else { e.off });
				}
			}
			_ => {}
		}
		format!("PMD dec {}", hexs(&b))
	} else {
		let (so, wi) = (r.chance(4, 5), r.chance(1, 4));
		let es = gen_entries(r, n, so, wi);
		format!("PMD enc {}", entries_str(&es))
	}
}
fn gen_pmf(r: &mut Rng) -> String {
	let n = r.below(9) as usize;
	let so = r.chance(5, 6);
	// checklist class 1: run lengths up to u32::MAX (the field is a u32 in the code), looked up at
	// id + run − 1 / id + run / id + run + 1
	let wild = r.chance(1, 6);
	let es = gen_entries(r, n, so, wild);
	let id = if es.is_empty() || r.chance(1, 6) {
		edge_u64(r)
	} else if wild {
		let e = r.pick(&es);
		e.id.saturating_add(e.run.min(u32::MAX as u64)).saturating_add(r.below(3)).saturating_sub(1)
	} else {
		let e = r.pick(&es);
		(e.id + r.below(e.run + 3)).saturating_sub(r.below(2))
	};
	format!("PMF {id} {}", entries_str(&es))
}
fn gen_pms(r: &mut Rng, big: bool) -> String {
	let n = if big { r.range(4097, 9000) as usize } else { r.below(60) as usize };
	let mut es = gen_entries(r, n, true, false);
	for e in es.iter_mut() {
		e.id &= (1 << 40) - 1;
	}
	if r.chance(1, 5) && n > 1 {
		let i = r.below(n as u64) as usize;
		let j = r.below(n as u64) as usize;
		es.swap(i, j);
	}
	let target = if big { r.range(16, 4000) } else { r.range(16, 400) };
	format!("PMS {target} {}", entries_str(&es))
}
fn gen_hil(r: &mut Rng) -> String {
	if r.chance(1, 2) {
		let z = if r.chance(1, 10) { r.range(32, 40) } else { r.below(32) };
		let max = if z >= 32 { u32::MAX as u64 } else { (1u64 << z) - 1 };
		let mut pick = |r: &mut Rng| match r.below(6) {
			0 => 0,
			1 => max,
			2 => max / 2,
			3 => (max / 2 + 1).min(max),
			4 if r.chance(1, 3) => (max + 1 + r.below(3)).min(u32::MAX as u64),
			_ => r.below(max + 1),
		};
		let (x, y) = (pick(r), pick(r));
		format!("HIL enc {z} {x} {y}")
	} else {
		let id = match r.below(4) {
			0 => {
				let z = r.below(33) as u32;
				let base: u128 = (0..z).map(|t| 1u128 << (2 * t)).sum();
				(base as i128 + r.below(5) as i128 - 2).clamp(0, u64::MAX as i128) as u64
			}
			1 => edge_u64(r),
			2 => r.below(100_000),
			_ => r.next() >> r.below(64),
		};
		format!("HIL dec {id}")
	}
}
fn gen_nam(r: &mut Rng) -> String {
	const FIXED: [&str; 44] = [
		"3/1/2.png", "./3/1/2.png", "3/1/2.jpeg", "3/1/2.PNG", "3/1/2.Jpg.gz", "3/1/2.png.GZ", "03/1/2.png", "+3/1/2.png", "3/+1/2.png", "3/1/+2.png", "3/1/2", "3/1/2.xyz",
		"3/1/2.png.gz.gz", "3/1.png", "a/b/c.png", "3/1/-2.png", "256/0/0.png", "3/99999999999/2.png", "3/9/2.png", "3/1/4294967296.png", "tiles.json", "meta.json", "metadata.json",
		"./tiles.json", "3//1/2.png", "3/./1/2.png", "./././3/1/2.png", "/3/1/2.png", "../3/1/2.png", "3/1/2.PNG.br", "32/0/0.png", "31/0/0.png", "", ".", "./", "3/1/.png",
		"3/1/2.", "3/1/2..png", "3/1/ 2.png", "x/3/1/2.png", "3/1/2.pbf.br", "0/0/0.topojson.gz", "README.md", "3/1/2.png/",
	];
	let name: Vec<u8> = match r.below(10) {
		0..=2 => r.pick(&FIXED).as_bytes().to_vec(),
		3..=5 => {
			let z = r.below(26);
			let n = format!("{}{}/{}/{}.{}{}", if r.chance(1, 3) { "./" } else { "" }, z, r.below(1 << z), r.below(1 << z), r.pick(&ALL_FMT).name(), r.pick(&ALL_COMP).ext());
			n.into_bytes()
		}
		6..=8 => {
			// mutated valid name
			let mut b = format!("{}/{}/{}.{}{}", r.below(15), r.below(300), r.below(300), r.pick(&ALL_FMT).name(), r.pick(&ALL_COMP).ext()).into_bytes();
			for _ in 0..r.range(1, 2) {
				let alphabet = b"0123456789./+-a PNGpngzbrj_";
				let c = *r.pick(alphabet);
				match r.below(3) {
					0 if !b.is_empty() => {
						let i = r.below(b.len() as u64) as usize;
						b[i] = c;
					}
					1 => {
						let i = r.below(b.len() as u64 + 1) as usize;
						b.insert(i, c);
					}
					_ if !b.is_empty() => {
						let i = r.below(b.len() as u64) as usize;
						b.remove(i);
					}
					_ => {}
				}
			}
			b
		}
		_ => match r.below(4) {
			0 => vec![b'3', b'/', b'1', b'/', 0xff, b'.', b'p', b'n', b'g'],
			1 => "3/1/2.pñg".as_bytes().to_vec(),
			2 => format!("{}/5/1/2.png", "d".repeat(r.range(95, 120) as usize)).into_bytes(),
			_ => format!("7/{}/2.webp", "9".repeat(r.range(1, 12) as usize)).into_bytes(),
		},
	};
	let name: Vec<u8> = name.into_iter().filter(|c| *c != 0).collect();
	format!("NAM {}", hexs(&name))
}

// ------------------------------------------------------------------------------------------ replay of reader lines

fn parse_queries(t: &[&str]) -> Option<Vec<Coord>> {
	let n: usize = t.first()?.parse().ok()?;
	if t.len() != 1 + 3 * n {
		return None;
	}
	(0..n).map(|i| Some((t[1 + 3 * i].parse().ok()?, t[2 + 3 * i].parse().ok()?, t[3 + 3 * i].parse().ok()?))).collect()
}
/// skips a `<tab>`; returns the number of tokens it occupies
fn tab_len(t: &[&str]) -> Option<usize> {
	let n: usize = t.first()?.parse().ok()?;
	Some(1 + 2 * n)
}

/// Re-run a reader-stream line (C16v/p/m/t/d): answer + oracle with the intent recovered from the line.
/// `None` if the line is not a well-formed reader line.
pub fn replay_reader_line(ctx: &mut Ctx, prop: &str, line: &str) -> Option<()> {
	let t: Vec<&str> = line.split(' ').collect();
	let (res, intent, qs): (OpenRes, Option<Intent>, Vec<Coord>) = match t[0] {
		"C16v" | "C16p" => {
			let bytes = unhexs(t.get(1)?)?;
			let k = 2 + tab_len(&t[2..])?;
			let qs = parse_queries(&t[k..])?;
			if t[0] == "C16v" {
				let intent = match (decode_versatiles(&bytes), parse_versatiles(&bytes)) {
					(Ok(d), Ok(p)) => {
						let blocks: Vec<VtBlock> = p.records.iter().map(|r| r.block.clone()).collect();
						Some(vt_intent(&bytes, d.format.unwrap(), d.compression.unwrap(), &d.tiles, &blocks, None))
					}
					_ => None,
				};
				(run_v(&ctx.rt, &bytes, &qs), intent, qs)
			} else {
				let intent = match decode_pmtiles(&bytes, false) {
					Ok(d) if d.compression.is_some() => {
						let mut i = Intent::from_tiles("pmtiles", d.format.unwrap_or(Fmt::Bin), d.compression.unwrap(), &d.tiles);
						i.flag = Some(("levels", json!(d.info.get("depth").copied().unwrap_or(0))));
						Some(i)
					}
					_ => None,
				};
				(run_p(&ctx.rt, &bytes, &qs), intent, qs)
			}
		}
		"C16m" => {
			let fmt = Fmt::from_name(t.get(1)?)?;
			let n: usize = t.get(2)?.parse().ok()?;
			let mut rows: Vec<MbRow> = vec![];
			for i in 0..n {
				let b = 3 + 4 * i;
				rows.push((t.get(b)?.parse().ok()?, t.get(b + 1)?.parse().ok()?, t.get(b + 2)?.parse().ok()?, unhexs(t.get(b + 3)?)?));
			}
			let qs = parse_queries(&t[3 + 4 * n..])?;
			let path = ctx.scratch.fresh(".mbtiles");
			let ch = MbChoices { fmt, as_view: false, with_index: true, extra_meta: vec![], shuffle_rows: false };
			encode_mbtiles(&path, &rows, &ch, &mut Rng(1)).ok()?;
			let res = run_m(&ctx.rt, &path, &qs);
			rm(&path);
			let mut tiles = TileMap::new();
			let mut valid = matches!(fmt, Fmt::Jpg | Fmt::Pbf | Fmt::Png | Fmt::Webp);
			for (z, c, r, d) in &rows {
				if *z > 30 || (*c as u64) >= (1u64 << z) || (*r as u64) >= (1u64 << z) {
					valid = false;
					continue;
				}
				if tiles.insert((*z, *c, ((1u64 << z) - 1 - *r as u64) as u32), d.clone()).is_some() {
					valid = false;
				}
			}
			let intent = if valid && !tiles.is_empty() {
				let mut i = Intent::from_tiles("mbtiles", fmt, mb_comp(fmt), &tiles);
				i.flag = Some(("zoom_gap", json!(i.zoom_gap())));
				Some(i)
			} else {
				None
			};
			(res, intent, qs)
		}
		"C16t" | "C16d" => {
			let n: usize = t.get(1)?.parse().ok()?;
			let mut files: Vec<(Vec<u8>, Vec<u8>)> = vec![];
			for i in 0..n {
				files.push((unhexs(t.get(2 + 2 * i)?)?, unhexs(t.get(3 + 2 * i)?)?));
			}
			let qs = parse_queries(&t[2 + 2 * n..])?;
			let tar = t[0] == "C16t";
			// intent from the names (independent classifier); anything unclassifiable makes the intent unknown
			let mut named: Vec<(String, Vec<u8>)> = vec![];
			let mut valid = true;
			for (nme, d) in &files {
				match String::from_utf8(nme.clone()) {
					Ok(s) => named.push((s, d.clone())),
					Err(_) => valid = false,
				}
			}
			let mut tiles = TileMap::new();
			let (mut f, mut c) = (None, None);
			for (nme, d) in &named {
				match classify_name(nme) {
					NameClass::Tile(co, ff, cc) => {
						if f.map_or(false, |x| x != ff) || c.map_or(false, |x| x != cc) || tiles.insert(co, d.clone()).is_some() {
							valid = false;
						}
						f = Some(ff);
						c = Some(cc);
					}
					NameClass::Meta(k) => {
						if decompress(k, d).is_err() {
							valid = false;
						}
					}
					NameClass::Other => {
						if nme.contains('/') {
							valid = false;
						}
					}
				}
			}
			let res = if tar {
				let members: Vec<TarMember> = files.iter().map(|(nme, d)| TarMember { name: nme.clone(), data: d.clone(), typeflag: b'0', use_prefix: false }).collect();
				let bytes = encode_tar(&members, 0).ok()?;
				let path = ctx.scratch.fresh(".tar");
				std::fs::write(&path, bytes).unwrap();
				let r = run_t(&ctx.rt, &path, &qs);
				rm(&path);
				r
			} else {
				if !valid {
					return None;
				}
				let path = ctx.scratch.fresh("");
				write_dir(&path, &named).ok()?;
				let r = run_d(&ctx.rt, &path, &qs);
				rm(&path);
				r
			};
			let intent = if valid && !tiles.is_empty() { Some(Intent::from_tiles(if tar { "tar" } else { "directory" }, f.unwrap(), c.unwrap(), &tiles)) } else { None };
			(res, intent, qs)
		}
		_ => return None,
	};
	count_looks(&mut ctx.out, &res);
	let nontrivial = intent.as_ref().map_or(false, |i| i.tiles.len() >= 2);
	ctx.out.case(line, &answer(&res), nontrivial);
	match &intent {
		Some(i) => match judge(i, &qs, &res) {
			None => ctx.out.oracle(true, "", json!(null), json!(null)),
			Some((kind, msg)) => ctx.out.oracle(false, &format!("{prop} {} {kind}: {msg}", i.container), sig_of(i, kind), json!({"case": line, "impl": trunc(&answer(&res), 300), "message": msg, "replay": true})),
		},
		None => {
			// intent unknown (file not accepted by the strict independent decoder): only "no panic"
			ctx.out.count("replay_intent_unknown");
			let panicked = match &res {
				OpenRes::Panic(_) => true,
				OpenRes::Ok(o) => o.looks.contains(&Look::Panic),
				_ => false,
			};
			let container = match t[0] {
				"C16v" => "versatiles",
				"C16p" => "pmtiles",
				"C16m" => "mbtiles",
				"C16t" => "tar",
				_ => "directory",
			};
			ctx.out.oracle(!panicked, &format!("{prop} {container} panic: reader panicked on a replayed container"), json!({"kind": "panic", "container": container, "valid": false}), json!({"case": line, "replay": true}));
		}
	}
	Some(())
}

// ------------------------------------------------------------------------------------------ run

pub fn new_ctx(args: &Args, name: &str) -> Ctx {
	Ctx { out: Out::new(&args.out), rt: runtime(), scratch: Scratch::new(&args.out, name), shrunk: BTreeMap::new() }
}

fn codec_case(ctx: &mut Ctx, line: &str) {
	if let Some(a) = codec_answer(&ctx.rt, &mut ctx.scratch, line) {
		let stream = line.split(' ').next().unwrap().to_string();
		ctx.out.count(&format!("codec_{stream}"));
		ctx.out.count(&format!(
			"codec_res_{}",
			match a.split(' ').next().unwrap() {
				"panic" => "panic",
				"err" => "err",
				_ => "ok",
			}
		));
		let nontrivial = a != "err";
		ctx.out.case(line, &a, nontrivial);
	} else {
		ctx.out.count("malformed_line");
	}
}

/// hand-made tile sets: (name, tiles)
pub fn special_sets() -> Vec<(String, TileMap)> {
	let mut v: Vec<(String, TileMap)> = vec![];
	// extreme coordinates: zoom 0, 1, 30, 31 with the four corners (and an inner tile)
	for z in [0u8, 1, 30, 31] {
		let m = ((1u64 << z) - 1) as u32;
		let mut t = TileMap::new();
		for (i, (x, y)) in [(0, 0), (m, m), (0, m), (m, 0), (m / 2, m / 2)].into_iter().enumerate() {
			t.insert((z, x, y), vec![z, i as u8, 7]);
		}
		v.push((format!("extreme_z{z}"), t));
	}
	// zoom 0 together with zoom 31 (largest zoom span)
	let mut t = TileMap::new();
	t.insert((0, 0, 0), vec![1]);
	t.insert((31, 0x7fff_ffff, 0), vec![2, 2]);
	t.insert((31, 0, 0x7fff_ffff), vec![3, 3, 3]);
	v.push(("extreme_span".into(), t));
	// payload classes: empty, one byte, duplicates, tar block sizes, de-dup threshold, larger than any small buffer
	let mut t = TileMap::new();
	let sizes = [0usize, 1, 1, 511, 512, 513, 999, 1000, 1001, 70_000, 70_000, 5];
	for (i, n) in sizes.iter().enumerate() {
		t.insert((9, 254 + (i as u32 % 4), 255 + (i as u32 / 4)), (0..*n).map(|k| (k % 251) as u8).collect());
	}
	v.push(("payload_classes".into(), t));
	// long runs: two complete levels with one payload (one run across the level boundary) and one odd tile
	let mut t = TileMap::new();
	for z in [3u8, 4] {
		for x in 0..(1u32 << z) {
			for y in 0..(1u32 << z) {
				t.insert((z, x, y), vec![0xAB, 0xCD]);
			}
		}
	}
	t.insert((4, 5, 5), vec![9]);
	v.push(("long_runs".into(), t));
	// versatiles chunk rule: gaps of 32 KiB ± 1 between the blobs of one block
	for g in [32767usize, 32768, 32769] {
		let mut t = TileMap::new();
		for i in 0..4u32 {
			t.insert((10, 600 + i, 300 + (i % 2)), vec![i as u8; 3 + i as usize]);
		}
		v.push((format!("gap{g}"), t));
	}
	v
}

/// class 9, directory: a DIRECTORY whose name looks like a tile file (`<z>/<x>/<y>.<ext>/`). The model's listing cannot
/// express it (oracle only): the reader may refuse the tree, or must deliver every real tile; a lookup of the phantom
/// coordinate is an error or None, never a payload
fn phantom_dir_cases(ctx: &mut Ctx, rng: &mut Rng, n: usize) {
	for _ in 0..n {
		let seed = rng.next();
		let tiles = gen_tiles(rng, false);
		let mut ch = gen_name_choices(rng, false);
		ch.fs = FsLayout::default();
		ch.stray = false;
		let Some((z, x, _)) = tiles.keys().copied().find(|c| c.0 >= 1) else { continue };
		let Some(y2) = (0..(1u64 << z).min(1 << 20) as u32).find(|y| !tiles.contains_key(&(z, x, *y))) else { continue };
		let mut r = Rng(seed);
		let files = named_files(&tiles, &ch, &mut r);
		let path = ctx.scratch.fresh("");
		write_dir(&path, &files).unwrap();
		let d = path.join(format!("{z}/{x}/{y2}{}", ext_of(&ch)));
		std::fs::create_dir_all(&d).unwrap();
		std::fs::write(d.join("inner.txt"), b"x").unwrap();
		let mut qs: Vec<Coord> = queries(&tiles, seed, 31).into_iter().filter(|q| *q != (z, x, y2)).collect();
		qs.push((z, x, y2));
		let res = run_d(&ctx.rt, &path, &qs);
		rm(&path);
		ctx.out.count("directory_named_like_a_tile");
		ctx.out.eval(&format!("phantom-dir {z}/{x}/{y2} among {} tiles", tiles.len()), true);
		let mut intent = Intent::from_tiles("directory", ch.fmt, ch.comp, &tiles);
		intent.refusal_ok = true;
		intent.flag = Some(("fs", json!("directory_named_like_a_tile")));
		let e = intent.cover_max.entry(z).or_insert((x, y2, x, y2));
		*e = (e.0.min(x), e.1.min(y2), e.2.max(x), e.3.max(y2));
		let verdict = match res {
			OpenRes::Ok(mut o) => {
				let phantom = o.looks.pop();
				qs.pop();
				match phantom {
					Some(Look::Some(b)) => Some(("extra-tile", format!("the directory {z}/{x}/{y2}{} is answered with {} bytes", ext_of(&ch), b.len()))),
					Some(Look::Panic) => Some(("panic", format!("lookup of the directory {z}/{x}/{y2}{} panicked", ext_of(&ch)))),
					_ => judge(&intent, &qs, &OpenRes::Ok(o)),
				}
			}
			other => judge(&intent, &qs, &other),
		};
		match verdict {
			None => ctx.out.oracle(true, "", json!(null), json!(null)),
			Some((kind, msg)) => ctx.out.oracle(false, &format!("C16 directory {kind}: {msg}"), sig_of(&intent, kind), json!({"message": msg, "tiles": tiles.len(), "phantom": format!("{z}/{x}/{y2}{}", ext_of(&ch))})),
		}
	}
}

/// class 2: the same container cut at several offsets
fn truncation_cases(ctx: &mut Ctx, b: &Built, rng: &mut Rng) {
	let t: Vec<&str> = b.line.splitn(3, ' ').collect();
	if t.len() != 3 || b.line.len() > MAX_LINE || b.intent.comp.is_none() {
		return;
	}
	let Some(bytes) = unhexs(t[1]) else { return };
	let n = bytes.len();
	let mut cuts: Vec<usize> = vec![0, 1, 65, 66, 67, 126, 127, 128, n / 3, n / 2, n - n / 4, n.saturating_sub(34), n.saturating_sub(33), n.saturating_sub(1)];
	cuts.push(rng.below(n as u64 + 1) as usize);
	cuts.retain(|c| *c < n);
	cuts.sort();
	cuts.dedup();
	for c in cuts {
		if !rng.chance(1, 2) {
			continue;
		}
		let cut = &bytes[..c];
		let res = if t[0] == "C16v" { run_v(&ctx.rt, cut, &b.qs) } else { run_p(&ctx.rt, cut, &b.qs) };
		let line = format!("{} {} {}", t[0], hexs(cut), t[2]);
		ctx.out.count("truncated_containers");
		ctx.out.count(match &res {
			OpenRes::Ok(_) => "truncated_open_ok",
			OpenRes::Err(_) => "truncated_open_err",
			OpenRes::Panic(_) => "truncated_open_panic",
		});
		ctx.out.case(&line, &answer(&res), matches!(res, OpenRes::Ok(_)));
		let mut bad: Option<String> = None;
		if let OpenRes::Ok(o) = &res {
			for (q, l) in b.qs.iter().zip(&o.looks) {
				match l {
					Look::Some(got) if b.intent.tiles.get(q) != Some(got) => bad = Some(format!("get_tile_data{q:?} returns {} bytes that are not the encoded payload", got.len())),
					Look::Panic => bad = Some(format!("get_tile_data{q:?} panicked")),
					_ => {}
				}
			}
		}
		ctx.out.oracle(
			bad.is_none(),
			&format!("C16 {} truncated: {}", b.intent.container, bad.clone().unwrap_or_default()),
			json!({"kind": "truncated-wrong-bytes", "container": b.intent.container}),
			json!({"case": trunc(&line, 100_000), "cut": c, "of": n}),
		);
	}
}

pub fn run(args: &Args) {
	if std::env::var_os("VTH_LOUD").is_none() {
		quiet_panics();
	}
	self_test().expect("independent Hilbert implementation self test");
	let mut ctx = new_ctx(args, "c16-scratch");
	ctx.out.rule = "every opened container is also read in bulk through get_bbox_tile_stream (full level boxes, quarters, strips across 256-block borders, 3x3 boxes and whole blocks around found tiles; multi-thread runtime, catch_unwind) and must yield exactly the encoded tiles of the box, each once; containers built by an independent encoder from small random tile sets (1–40 tiles in clusters near 0 / the 256 grid / the level edge, zoom 0–14 and some 15–24, payload pool with duplicates and a few empty payloads) and random layout choices (versatiles: sparse/shuffled block index, padded or full ranges, empty declared block, shared offsets, gaps, metadata absent; pmtiles: run lengths, shared offsets, explicit offsets, 1–3 directory levels with fan-out 1–5, mixed root, internal compression none/gzip/brotli, unclustered data, section order; mbtiles: zoom gaps, view over map/images, extra metadata; tar: ./ prefix none/all/mixed, directory members, ustar prefix field, shuffled members, metadata name/compression, .jpeg/.PNG extensions; directory tree likewise); queries = encoded coordinates + ≤100 probes (8 neighbours, ±256, other zoom levels, random); codec streams VTH VBD VTI VBI PMH PMD PMF PMS HIL NAM with valid, mutated and boundary inputs. A container case is non-trivial when it uses at least one freedom the own writer never uses and has ≥ 2 tiles; a codec case when the real code does not answer `err`; distinct by case text".into();
	ctx.out.notes.push("CHECKLIST 1 thresholds: 256-block borders, zoom 0/30/31, u32::MAX run lengths / offsets 2^32±1 in PMD/PMF/VBD, 4097+ entries (PMS), versatiles blob gaps 32767/32768/32769 in one bulk read, tar names 99/100/101/155+; the 64 MiB read-chunk rule is reached only in the thorough tier (one 70 MiB block)".into());
	ctx.out.notes.push("CHECKLIST 2 faults after open: every container is also cut at several lengths (header, index, last byte); reader and model must fail alike or return only encoded tiles; payloads not valid under the declared compression are delivered unopened by both".into());
	ctx.out.notes.push("CHECKLIST 3 payloads: empty, 1 byte, duplicates within/across blocks, > 64 KiB, undecodable; 5 reuse: the same reader answers all lookups again after the bulk streams; 6 order: blob order ≠ index order (reverse, column-major, random), 8 extremes: special_sets(); 9 independent encoder: every container; for the directory format the file system is the encoder: symlinked tile files (relative, absolute, chain of two), hard links, symlinked z and x directories, every tile linked, empty directories, non-tile files and sub directories inside z/x directories, leading zeros, 200-digit file names, a regular file where a z or x directory is expected (refusal allowed), a directory named like a tile (oracle only); mode-000 entries are not generated (the harness runs as root); tar: a hard-link / symbolic-link member named like a tile and pointing at a tile member (expected: like its target or refused loudly – known finding, the reader drops it); 10 two paths: lookup vs get_bbox_tile_stream vs model on every container".into());
	ctx.out.notes.push("CHECKLIST 4 option interplay and 7 HTTP variants: not applicable – the readers take no options besides the path and serve no requests".into());
	if let Some(p) = &args.replay {
		for line in std::fs::read_to_string(p).unwrap().lines() {
			let line = line.trim_end();
			if line.is_empty() {
				continue;
			}
			if line.starts_with("C16") {
				if replay_reader_line(&mut ctx, "C16", line).is_none() {
					ctx.out.count("malformed_line");
				}
			} else {
				codec_case(&mut ctx, line);
			}
		}
		ctx.scratch.done();
		ctx.out.finish();
		return;
	}
	let mut rng = Rng::new(args.seed);
	let n = args.n(600, 3000);
	for i in 0..n {
		for kind in 0..5 {
			let seed = rng.next();
			let tiles = gen_tiles(&mut rng, kind < 2);
			match kind {
				0 => {
					let ch = gen_vt_choices(&mut rng);
					let b = build_v(&ctx.rt, &tiles, &ch, seed);
					emit(&mut ctx, "C16", &tiles, b, &mut |c: &mut Ctx, t: &TileMap| build_v(&c.rt, t, &ch, seed));
				}
				1 => {
					let mut ch = gen_pm_choices(&mut rng);
					if rng.chance(1, 25) {
						ch.tcomp = *rng.pick(&[0u8, 4]);
					}
					let b = build_p(&ctx.rt, &tiles, &ch, seed);
					emit(&mut ctx, "C16", &tiles, b, &mut |c: &mut Ctx, t: &TileMap| build_p(&c.rt, t, &ch, seed));
				}
				2 => {
					// every third case without a zoom gap so that the other mbtiles freedoms are seen on an openable file
					let tiles = if i % 3 == 0 { let z = tiles.keys().next().unwrap().0; tiles.into_iter().filter(|(c, _)| c.0 == z).collect() } else { tiles };
					let tiles: TileMap = if tiles.values().all(|p| p.is_empty()) { tiles.into_iter().map(|(c, _)| (c, vec![1, 2, 3])).collect() } else { tiles };
					let ch = gen_mb_choices(&mut rng);
					let b = build_m(&ctx.rt, &mut ctx.scratch, &tiles, &ch, seed);
					emit(&mut ctx, "C16", &tiles, b, &mut |c: &mut Ctx, t: &TileMap| build_m(&c.rt, &mut c.scratch, t, &ch, seed));
				}
				3 => {
					let ch = gen_name_choices(&mut rng, true);
					let b = build_t(&ctx.rt, &mut ctx.scratch, &tiles, &ch, seed);
					emit(&mut ctx, "C16", &tiles, b, &mut |c: &mut Ctx, t: &TileMap| build_t(&c.rt, &mut c.scratch, t, &ch, seed));
				}
				_ => {
					let ch = gen_name_choices(&mut rng, false);
					let b = build_d(&ctx.rt, &mut ctx.scratch, &tiles, &ch, seed);
					emit(&mut ctx, "C16", &tiles, b, &mut |c: &mut Ctx, t: &TileMap| build_d(&c.rt, &mut c.scratch, t, &ch, seed));
				}
			}
		}
	}
	// hand-made tile sets (checklist classes 1, 3, 8): extreme coordinates, payload classes, long runs, chunk gaps
	for (k, (name, tiles)) in special_sets().into_iter().enumerate() {
		for rep in 0..args.n(2, 6) {
			let seed = rng.next();
			ctx.out.count(&format!("special_{name}"));
			let mut chv = gen_vt_choices(&mut rng);
			if name.starts_with("gap") {
				chv.exact_gap = name[3..].parse().unwrap();
				chv.share = false;
			}
			let b = build_v(&ctx.rt, &tiles, &chv, seed);
			emit(&mut ctx, "C16", &tiles, b, &mut |c: &mut Ctx, t: &TileMap| build_v(&c.rt, t, &chv, seed));
			if name.starts_with("gap") {
				continue;
			}
			let chp = gen_pm_choices(&mut rng);
			let b = build_p(&ctx.rt, &tiles, &chp, seed);
			emit(&mut ctx, "C16", &tiles, b, &mut |c: &mut Ctx, t: &TileMap| build_p(&c.rt, t, &chp, seed));
			if rep == 0 {
				let t2: TileMap = if tiles.values().all(|p| p.is_empty()) { tiles.clone().into_iter().map(|(c, _)| (c, vec![1])).collect() } else { tiles.clone() };
				let chm = gen_mb_choices(&mut rng);
				let b = build_m(&ctx.rt, &mut ctx.scratch, &t2, &chm, seed);
				emit(&mut ctx, "C16", &t2, b, &mut |c: &mut Ctx, t: &TileMap| build_m(&c.rt, &mut c.scratch, t, &chm, seed));
				let mut cht = gen_name_choices(&mut rng, true);
				if k % 2 == 0 {
					cht.dot_prefix = 3;
				}
				let b = build_t(&ctx.rt, &mut ctx.scratch, &tiles, &cht, seed);
				emit(&mut ctx, "C16", &tiles, b, &mut |c: &mut Ctx, t: &TileMap| build_t(&c.rt, &mut c.scratch, t, &cht, seed));
				let chd = gen_name_choices(&mut rng, false);
				let b = build_d(&ctx.rt, &mut ctx.scratch, &tiles, &chd, seed);
				emit(&mut ctx, "C16", &tiles, b, &mut |c: &mut Ctx, t: &TileMap| build_d(&c.rt, &mut c.scratch, t, &chd, seed));
			}
		}
	}
	// checklist class 1, thorough tier only: one versatiles block whose blobs are contiguous and together longer than the
	// 64 MiB read-chunk limit of get_bbox_tile_stream (5 x 14 MiB): the bulk read has to start a new chunk because of
	// the size rule, not because of a gap (oracle only – the line is far beyond MAX_LINE)
	if args.thorough() {
		let mut tiles = TileMap::new();
		for i in 0..5u32 {
			let n = 14 * 1024 * 1024 + i as usize;
			tiles.insert((11, 700 + i, 400 + (i % 2)), (0..n).map(|k| ((k as u32).wrapping_mul(31).wrapping_add(i) % 251) as u8).collect());
		}
		for order in [0u8, 2] {
			let seed = rng.next();
			ctx.out.count("special_chunk64MiB");
			let mut chv = gen_vt_choices(&mut rng);
			chv.share = false;
			chv.max_gap = 0;
			chv.blob_order = order;
			let b = build_v(&ctx.rt, &tiles, &chv, seed);
			emit(&mut ctx, "C16", &tiles, b, &mut |c: &mut Ctx, t: &TileMap| build_v(&c.rt, t, &chv, seed));
		}
	}
	phantom_dir_cases(&mut ctx, &mut rng, args.n(12, 60));
	// truncated containers (class 2): cut valid versatiles / pmtiles files at structural and arbitrary offsets: the reader
	// may fail (open or lookup), but must never panic in a lookup and never return bytes other than the encoded payload
	for _ in 0..args.n(120, 600) {
		let seed = rng.next();
		let tiles = gen_tiles(&mut rng, false);
		let b = if rng.chance(1, 2) { build_v(&ctx.rt, &tiles, &gen_vt_choices(&mut rng), seed) } else { build_p(&ctx.rt, &tiles, &gen_pm_choices(&mut rng), seed) };
		truncation_cases(&mut ctx, &b, &mut rng);
	}
	// codec streams
	let m = args.n(800, 6000);
	for i in 0..m {
		for g in [gen_vth, gen_vbd, gen_vti, gen_vbi, gen_pmh, gen_pmd, gen_pmf, gen_hil] {
			let line = g(&mut rng);
			codec_case(&mut ctx, &line);
		}
		if i % 2 == 0 {
			let line = gen_nam(&mut rng);
			codec_case(&mut ctx, &line);
		}
		if i % 3 == 0 {
			let big = i % 60 == 0;
			let line = gen_pms(&mut rng, big);
			if line.len() <= MAX_LINE {
				codec_case(&mut ctx, &line);
			}
		}
	}
	ctx.scratch.done();
	ctx.out.finish();
}
