//! C19 – decoders report malformed input as an error and never bring the process down.
//!
//! case line: `C19 <ep> <hex input> [<probes>]`   (probes: `z/x/y,…` for containers, ids for `pmfind`)
//! Every case is evaluated in a CHILD process (`vth C19child …`, address space limited to 4 GiB,
//! watchdog per case) under `catch_unwind` with the counting global allocator; the parent only
//! generates the cases and aggregates the answers, so an abort / stack overflow / hang of the code
//! under test is an oracle failure and not the end of the run.
//! Entry points with a Lean model (`MODEL_EPS`) also write a model line; the answer is the verdict
//! `ok` | `err` | `panic`.
use crate::alloc_count::{self, Usage};
use crate::c19_gen;
use crate::common::*;
use serde_json::json;
use std::io::{BufRead, Write};
use std::path::{Path, PathBuf};
use std::sync::atomic::{AtomicU64, Ordering};
use std::sync::Mutex;

pub type Coord = (u8, u32, u32);

#[derive(Clone, Debug)]
pub struct Case {
	pub ep: &'static str,
	pub input: Vec<u8>,
	pub probes: String,
	/// generator class (statistics, non-triviality); not part of the case line
	pub class: &'static str,
}

/// entry points whose verdict is also computed by the Lean model (input ≤ 4 KiB)
pub const MODEL_EPS: &[&str] = &["json", "tilejson", "csv", "mvt", "mvtprops", "pmdir", "pmfind", "pmhdr", "vtblk", "vtbidx", "vttidx", "vthdr", "vpl", "pbfstr"];
pub const ALL_EPS: &[&str] = &[
	"json", "jsonstr", "tilejson", "csv", "buildcsv", "vpl", "vpllimit", "vplfile", "build", "mvt", "mvtprops", "mvtfull", "pbfstr", "pmdir", "pmfind", "pmhdr", "vtblk", "vtbidx", "vttidx", "vthdr", "vt", "pm", "vtfile", "pmfile", "mb",
	"tar", "dir",
];

pub fn intern_ep(s: &str) -> Option<&'static str> {
	ALL_EPS.iter().copied().find(|e| *e == s)
}

impl Case {
	pub fn line(&self) -> String {
		if self.probes.is_empty() {
			format!("C19 {} {}", self.ep, hex(&self.input))
		} else {
			format!("C19 {} {} {}", self.ep, hex(&self.input), self.probes)
		}
	}
	pub fn parse(line: &str) -> Option<Case> {
		let t: Vec<&str> = line.split(' ').collect();
		if t.len() < 3 || t[0] != "C19" {
			return None;
		}
		Some(Case { ep: intern_ep(t[1])?, input: unhex(t[2]), probes: t.get(3).map(|s| s.to_string()).unwrap_or_default(), class: "replay" })
	}
	pub fn has_model(&self) -> bool {
		MODEL_EPS.contains(&self.ep) && self.input.len() <= 4096
	}
}

pub fn probes_str(qs: &[Coord]) -> String {
	qs.iter().map(|(z, x, y)| format!("{z}/{x}/{y}")).collect::<Vec<_>>().join(",")
}
fn parse_probes(s: &str) -> Vec<Coord> {
	s.split(',')
		.filter_map(|t| {
			let p: Vec<&str> = t.split('/').collect();
			if p.len() == 3 {
				Some((p[0].parse().ok()?, p[1].parse().ok()?, p[2].parse().ok()?))
			} else {
				None
			}
		})
		.collect()
}

// ------------------------------------------------------------------------------------------------
// evaluation of one case on the real code (runs inside the child process)
// ------------------------------------------------------------------------------------------------

static LAST_PANIC: Mutex<String> = Mutex::new(String::new());

fn install_hook() {
	std::panic::set_hook(Box::new(|info| {
		let loc = info.location().map(|l| l.file().rsplit('/').next().unwrap_or("?").to_string()).unwrap_or_else(|| "?".into());
		let msg = if let Some(s) = info.payload().downcast_ref::<&str>() {
			s.to_string()
		} else if let Some(s) = info.payload().downcast_ref::<String>() {
			s.clone()
		} else {
			"panic".into()
		};
		// stable site name: file + message with digits and quoted parts removed
		let mut m: String = msg.chars().take(60).map(|c| if c.is_ascii_digit() { '#' } else if c.is_ascii_alphanumeric() || c == '#' { c } else { '_' }).collect();
		while m.contains("##") {
			m = m.replace("##", "#");
		}
		while m.contains("__") {
			m = m.replace("__", "_");
		}
		if let Ok(mut g) = LAST_PANIC.lock() {
			*g = format!("{loc}:{m}");
		}
	}));
}

pub struct Ctx {
	pub rt: tokio::runtime::Runtime,
	pub dir: PathBuf,
	n: u64,
}
impl Ctx {
	pub fn new(dir: &Path) -> Ctx {
		let dir = if dir.is_absolute() { dir.to_path_buf() } else { std::env::current_dir().unwrap().join(dir) };
		std::fs::create_dir_all(&dir).unwrap();
		Ctx { rt: tokio::runtime::Builder::new_current_thread().enable_all().build().unwrap(), dir, n: 0 }
	}
	fn fresh(&mut self, ext: &str) -> PathBuf {
		self.n += 1;
		self.dir.join(format!("f{}{}", self.n, ext))
	}
}

#[derive(Debug, Clone, PartialEq)]
pub enum V {
	Ok,
	Err,
	Panic,
}
impl V {
	fn s(&self) -> &'static str {
		match self {
			V::Ok => "ok",
			V::Err => "err",
			V::Panic => "panic",
		}
	}
}

/// run one fallible call under catch_unwind
fn call<T>(f: impl FnOnce() -> anyhow::Result<T>) -> (V, Option<T>) {
	match catch(f) {
		Ok(Ok(v)) => (V::Ok, Some(v)),
		Ok(Err(_)) => (V::Err, None),
		Err(_) => (V::Panic, None),
	}
}
fn verdict_only<T>(f: impl FnOnce() -> anyhow::Result<T>) -> V {
	call(f).0
}

/// first disagreement between two answers for the same coordinate on the same (undamaged) container:
/// repeated lookup (cached vs uncached path), concurrent lookup, reopened reader
static INCONSISTENT: Mutex<String> = Mutex::new(String::new());
fn note_inconsistent(what: &str, c: Coord, a: &str, b: &str) {
	if let Ok(mut g) = INCONSISTENT.lock() {
		if g.is_empty() {
			*g = format!("{what}_{}/{}/{}_{a}_vs_{b}", c.0, c.1, c.2).replace(' ', "_");
		}
	}
}

type Digests = std::collections::BTreeMap<Coord, String>;

fn digest_of(r: Result<anyhow::Result<Option<versatiles_core::types::Blob>>, String>) -> (V, String) {
	match r {
		Ok(Ok(None)) => (V::Ok, "none".into()),
		Ok(Ok(Some(b))) => {
			let mut h: u64 = 0xcbf29ce484222325;
			for x in b.as_slice() {
				h ^= *x as u64;
				h = h.wrapping_mul(0x100000001b3);
			}
			(V::Ok, format!("some:{}:{h:x}", b.len()))
		}
		Ok(Err(_)) => (V::Err, "err".into()),
		Err(_) => (V::Panic, "panic".into()),
	}
}

/// A SEQUENCE of lookups on the one opened reader (the readers keep caches: versatiles block tile
/// indexes, PMTiles leaf directories): the first coordinate three times in a row, then every probe
/// (neighbours in the same block, other blocks, other levels, extreme coordinates), then all of them
/// once more – after errors as well as after successes – and finally all probes from 4 threads at
/// once.  Every single call must end with a value or an error; with `consistent` the answers for
/// one coordinate must all be the same (cached = uncached = concurrent).
fn lookups(rt: &tokio::runtime::Runtime, reader: &dyn versatiles_core::types::TilesReaderTrait, probes: &str, consistent: bool) -> (V, Digests) {
	use versatiles_core::types::TileCoord3;
	let mut worst = V::Ok;
	let mut seen: Digests = Digests::new();
	let ps = parse_probes(probes);
	let seq: Vec<Coord> = ps.iter().take(1).cycle().take(if ps.is_empty() { 0 } else { 2 }).chain(ps.iter()).chain(ps.iter()).copied().collect();
	for (z, x, y) in seq {
		let (v, d) = digest_of(catch(|| {
			let c = TileCoord3::new(x, y, z)?;
			rt.block_on(reader.get_tile_data(&c))
		}));
		if v == V::Panic {
			return (V::Panic, seen);
		}
		if v == V::Err {
			worst = V::Err;
		}
		match seen.get(&(z, x, y)) {
			Some(old) if consistent && *old != d => note_inconsistent("repeated_lookup", (z, x, y), old, &d),
			Some(_) => {}
			None => {
				seen.insert((z, x, y), d);
			}
		}
	}
	// concurrent lookups on the one reader
	if !ps.is_empty() {
		let handle = rt.handle().clone();
		let results: Vec<Vec<(Coord, V, String)>> = std::thread::scope(|sc| {
			let hs: Vec<_> = (0..4usize)
				.map(|t| {
					let handle = handle.clone();
					let ps = &ps;
					sc.spawn(move || {
						let mut out = vec![];
						for i in 0..ps.len() {
							let (z, x, y) = ps[(i + t * 3) % ps.len()];
							let (v, d) = digest_of(catch(|| {
								let c = TileCoord3::new(x, y, z)?;
								handle.block_on(reader.get_tile_data(&c))
							}));
							out.push(((z, x, y), v, d));
						}
						out
					})
				})
				.collect();
			hs.into_iter().map(|h| h.join().unwrap_or_else(|_| vec![((0, 0, 0), V::Panic, "panic".into())])).collect()
		});
		for (c, v, d) in results.into_iter().flatten() {
			if v == V::Panic {
				return (V::Panic, seen);
			}
			if consistent {
				if let Some(old) = seen.get(&c) {
					if *old != d {
						note_inconsistent("concurrent_lookup", c, old, &d);
					}
				}
			}
		}
	}
	// the metadata and parameters accessors must work on whatever was opened
	if verdict_only(|| Ok((reader.get_tilejson().as_string(), reader.get_parameters().bbox_pyramid.count_tiles()))) == V::Panic {
		return (V::Panic, seen);
	}
	(worst, seen)
}

/// damage applied to the file AFTER a reader has opened it (and warmed its caches):
/// `t<k>` truncate to k bytes, `z` overwrite with zeros, `g` overwrite with 0xAA, `x<k>` append k zero
/// bytes, `d` delete.  (probes string: `<damage>|<probes>`)
fn apply_damage(path: &Path, spec: &str) {
	let len = std::fs::metadata(path).map(|m| m.len() as usize).unwrap_or(0);
	let arg: usize = spec[1..].parse().unwrap_or(0);
	if path.is_dir() {
		// a directory container: remove or empty the tile files
		fn walk(p: &Path, f: &dyn Fn(&Path)) {
			if let Ok(rd) = std::fs::read_dir(p) {
				for e in rd.flatten() {
					let q = e.path();
					if q.is_dir() {
						walk(&q, f);
					} else {
						f(&q);
					}
				}
			}
		}
		match &spec[..1] {
			"d" => walk(path, &|q| {
				let _ = std::fs::remove_file(q);
			}),
			_ => walk(path, &|q| {
				let _ = std::fs::write(q, b"");
			}),
		}
		return;
	}
	match &spec[..1] {
		"t" => {
			if let Ok(f) = std::fs::OpenOptions::new().write(true).open(path) {
				let _ = f.set_len(arg.min(len) as u64);
			}
		}
		"z" => {
			let _ = std::fs::write(path, vec![0u8; len]);
		}
		"g" => {
			let _ = std::fs::write(path, vec![0xAAu8; len]);
		}
		"x" => {
			if let Ok(mut f) = std::fs::OpenOptions::new().append(true).open(path) {
				let _ = f.write_all(&vec![0u8; arg]);
			}
		}
		_ => {
			let _ = std::fs::remove_file(path);
		}
	}
}

fn open_and_look<R: versatiles_core::types::TilesReaderTrait>(rt: &tokio::runtime::Runtime, probes: &str, path: Option<&Path>, open: impl Fn() -> anyhow::Result<R>) -> V {
	let (damage, probes) = match probes.split_once('|') {
		Some((d, p)) => (Some(d), p),
		None => (None, probes),
	};
	let r1 = match call(&open) {
		(V::Ok, Some(r)) => r,
		(v, _) => return v,
	};
	let (v1, d1) = lookups(rt, &r1, probes, true);
	if v1 == V::Panic {
		return V::Panic;
	}
	if let (Some(spec), Some(p)) = (damage, path) {
		if !spec.is_empty() {
			// fault after open: the same reader (warm caches) on a file that changed underneath
			apply_damage(p, spec);
			if lookups(rt, &r1, probes, false).0 == V::Panic {
				return V::Panic;
			}
		}
	}
	// a second reader on the same source: must open (or fail) without a panic; on an undamaged source it
	// must give the same answers as the first one
	match call(&open) {
		(V::Panic, _) => return V::Panic,
		(V::Ok, Some(r2)) => {
			let (v2, d2) = lookups(rt, &r2, probes, damage.is_none());
			if v2 == V::Panic {
				return V::Panic;
			}
			if damage.is_none() {
				for (c, a) in &d1 {
					if let Some(b) = d2.get(c) {
						if a != b {
							note_inconsistent("reopened_reader", *c, a, b);
						}
					}
				}
			}
		}
		(V::Ok, None) => {}
		(V::Err, _) => {
			if damage.is_none() {
				note_inconsistent("reopen_failed", (0, 0, 0), "opened", "err");
			}
		}
	}
	V::Ok
}

fn safe_rel(name: &[u8]) -> Option<PathBuf> {
	use std::os::unix::ffi::OsStrExt;
	if name.is_empty() || name[0] == b'/' || name.contains(&0) || name.len() > 200 {
		return None;
	}
	let mut p = PathBuf::new();
	for part in name.split(|b| *b == b'/') {
		if part == b".." || part.len() > 100 {
			return None;
		}
		if part.is_empty() || part == b"." {
			continue;
		}
		// (file names need not be UTF-8)
		p.push(std::ffi::OsStr::from_bytes(part));
	}
	if p.as_os_str().is_empty() {
		None
	} else {
		Some(p)
	}
}

/// the decoding entry points
pub fn eval(ctx: &mut Ctx, c: &Case) -> V {
	use versatiles_container::verif_hooks::pmtiles::{EntriesV3, HeaderV3};
	use versatiles_container::verif_hooks::versatiles::{BlockDefinition, BlockIndex, FileHeader, TileIndex};
	use versatiles_container::{DirectoryTilesReader, MBTilesReader, PMTilesReader, TarTilesReader, VersaTilesReader};
	use versatiles_core::io::{DataReader, DataReaderBlob, ValueReader, ValueReaderSlice};
	use versatiles_core::json::JsonValue;
	use versatiles_core::tilejson::TileJSON;
	use versatiles_core::types::Blob;
	let b = &c.input;
	match c.ep {
		"json" => verdict_only(|| JsonValue::parse_blob(&Blob::from(b.clone()))),
		"jsonstr" => match std::str::from_utf8(b) {
			Ok(s) => verdict_only(|| JsonValue::parse_str(s)),
			Err(_) => V::Err, // a `&str` entry point cannot be given these bytes
		},
		"tilejson" => {
			let blob = Blob::from(b.clone());
			let v = verdict_only(|| TileJSON::try_from(&blob));
			// the lenient variant used by every container reader has no error channel at all
			let v2 = verdict_only(|| Ok(TileJSON::try_from_blob_or_default(&blob)));
			if v2 == V::Panic {
				V::Panic
			} else {
				v
			}
		}
		"csv" => verdict_only(|| {
			let it = versatiles_core::utils::read_csv_iter(std::io::Cursor::new(b.clone()), b',')?;
			let mut n = 0usize;
			for r in it {
				r?;
				n += 1;
				if n > 100_000 {
					anyhow::bail!("too many rows");
				}
			}
			Ok(n)
		}),
		"buildcsv" => {
			let p = ctx.dir.join("data.csv");
			std::fs::write(&p, b).unwrap();
			let text = "from_container filename=src.pbf | vectortiles_update_properties data_source_path=\"data.csv\" layer_name=\"mock\" id_field_tiles=\"id\" id_field_data=\"id\"";
			let dir = ctx.dir.clone();
			let rt = &ctx.rt;
			verdict_only(|| rt.block_on(async { factory(&dir).operation_from_vpl(text).await.map(|_| ()) }))
		}
		"vpl" => match std::str::from_utf8(b) {
			Ok(s) => verdict_only(|| versatiles_pipeline::parse_vpl(s)),
			Err(_) => V::Err,
		},
		// texts whose source lists are REALLY nested deeper than the limit of 64 (built that way by the
		// generator, after lexically tricky prefixes): the only acceptable verdict is `err`
		"vpllimit" => match std::str::from_utf8(b) {
			Ok(s) => verdict_only(|| versatiles_pipeline::parse_vpl(s)),
			Err(_) => V::Err,
		},
		"vplfile" => {
			// a `.vpl` file opened as a container (`PipelineReader`): arbitrary bytes on disk
			let p = ctx.fresh(".vpl");
			std::fs::write(&p, b).unwrap();
			let rt = &ctx.rt;
			let v = open_and_look(rt, &c.probes, Some(&p), || rt.block_on(versatiles_container::PipelineReader::open_path(&p)));
			let _ = std::fs::remove_file(&p);
			v
		}
		"build" => {
			let Ok(s) = std::str::from_utf8(b) else { return V::Err };
			let dir = ctx.dir.clone();
			let rt = &ctx.rt;
			verdict_only(|| rt.block_on(async { factory(&dir).operation_from_vpl(s).await.map(|_| ()) }))
		}
		"mvt" => verdict_only(|| versatiles_geometry::vector_tile::VectorTile::from_blob(&Blob::from(b.clone()))),
		// second decoding stage: the properties of every feature of every layer (tag ids → key/value tables)
		"mvtprops" => verdict_only(|| {
			let tile = versatiles_geometry::vector_tile::VectorTile::from_blob(&Blob::from(b.clone()))?;
			let mut n = 0usize;
			let mut first_err = None;
			for layer in &tile.layers {
				for f in &layer.features {
					// (every feature is decoded, also after an error: a later one must not panic either)
					match f.decode_properties(layer) {
						Ok(p) => n += p.iter().count(),
						Err(e) => first_err = first_err.or(Some(e)),
					}
				}
			}
			match first_err {
				Some(e) => Err(e),
				None => Ok(n),
			}
		}),
		// every lazily decoded stage reachable from a VectorTile: features, geometry, properties, re-encoding,
		// property rewriting; each call under its own catch_unwind
		"mvtfull" => {
			let (v, tile) = call(|| versatiles_geometry::vector_tile::VectorTile::from_blob(&Blob::from(b.clone())));
			let Some(mut tile) = tile else { return v };
			let mut worst = V::Ok;
			let mut note = |v: V| {
				if v == V::Panic || (v == V::Err && worst == V::Ok) {
					worst = v;
				}
			};
			for layer in &tile.layers {
				note(verdict_only(|| layer.to_features()));
				note(verdict_only(|| layer.to_blob()));
				for f in &layer.features {
					note(verdict_only(|| f.to_geometry()));
					note(verdict_only(|| f.decode_properties(layer)));
					note(verdict_only(|| f.to_feature(layer)));
					note(verdict_only(|| f.to_blob()));
					note(verdict_only(|| layer.decode_tag_ids(&f.tag_ids)));
				}
			}
			note(verdict_only(|| tile.to_blob()));
			for layer in tile.layers.iter_mut() {
				note(verdict_only(|| layer.map_properties(|p| p)));
				note(verdict_only(|| layer.filter_map_properties(Some)));
				note(verdict_only(|| layer.to_features()));
			}
			note(verdict_only(|| tile.to_blob()));
			if worst == V::Panic {
				V::Panic
			} else {
				V::Ok
			}
		}
		"pbfstr" => verdict_only(|| {
			let mut r = ValueReaderSlice::new_le(b);
			let s = r.read_pbf_string()?;
			let bl = r.read_pbf_blob()?;
			Ok((s, bl))
		}),
		"pmdir" => verdict_only(|| EntriesV3::from_blob(&Blob::from(b.clone()))),
		"pmfind" => {
			let (v, es) = call(|| EntriesV3::from_blob(&Blob::from(b.clone())));
			match es {
				Some(es) => {
					for id in c.probes.split(',').filter_map(|t| t.parse::<u64>().ok()) {
						if catch(|| es.find_tile(id)).is_err() {
							return V::Panic;
						}
					}
					V::Ok
				}
				None => v,
			}
		}
		"pmhdr" => verdict_only(|| HeaderV3::deserialize(&Blob::from(b.clone()))),
		"vtblk" => verdict_only(|| BlockDefinition::from_blob(&Blob::from(b.clone()))),
		"vtbidx" => verdict_only(|| BlockIndex::from_blob(Blob::from(b.clone()))),
		"vttidx" => verdict_only(|| TileIndex::from_blob(Blob::from(b.clone()))),
		"vthdr" => {
			let rt = &ctx.rt;
			verdict_only(|| {
				let mut r: DataReader = Box::new(DataReaderBlob::from(b.clone()));
				rt.block_on(FileHeader::from_reader(&mut r))
			})
		}
		"vt" => {
			let rt = &ctx.rt;
			open_and_look(rt, &c.probes, None, || rt.block_on(VersaTilesReader::open_reader(Box::new(DataReaderBlob::from(b.clone())))))
		}
		"pm" => {
			let rt = &ctx.rt;
			open_and_look(rt, &c.probes, None, || rt.block_on(PMTilesReader::open_reader(Box::new(DataReaderBlob::from(b.clone())))))
		}
		"vtfile" => {
			let p = ctx.fresh(".versatiles");
			std::fs::write(&p, b).unwrap();
			let rt = &ctx.rt;
			let v = open_and_look(rt, &c.probes, Some(&p), || rt.block_on(VersaTilesReader::open_path(&p)));
			let _ = std::fs::remove_file(&p);
			v
		}
		"pmfile" => {
			let p = ctx.fresh(".pmtiles");
			std::fs::write(&p, b).unwrap();
			let rt = &ctx.rt;
			let v = open_and_look(rt, &c.probes, Some(&p), || rt.block_on(PMTilesReader::open_path(&p)));
			let _ = std::fs::remove_file(&p);
			v
		}
		"mb" => {
			let p = ctx.fresh(".mbtiles");
			std::fs::write(&p, b).unwrap();
			let v = open_and_look(&ctx.rt, &c.probes, Some(&p), || MBTilesReader::open_path(&p));
			let _ = std::fs::remove_file(&p);
			v
		}
		"tar" => {
			let p = ctx.fresh(".tar");
			std::fs::write(&p, b).unwrap();
			let v = open_and_look(&ctx.rt, &c.probes, Some(&p), || TarTilesReader::open_path(&p));
			let _ = std::fs::remove_file(&p);
			v
		}
		"dir" => {
			// the input is a tar archive (independent parser) that is unpacked into a directory
			let root = ctx.fresh(".d");
			let _ = std::fs::remove_dir_all(&root);
			std::fs::create_dir_all(&root).unwrap();
			if let Ok(es) = crate::indep_formats::parse_tar(b) {
				for e in es {
					if let Some(rel) = safe_rel(&e.name) {
						let p = root.join(rel);
						if e.typeflag == b'5' {
							let _ = std::fs::create_dir_all(&p);
						} else {
							if let Some(d) = p.parent() {
								let _ = std::fs::create_dir_all(d);
							}
							let _ = std::fs::write(&p, &e.data);
						}
					}
				}
			}
			let v = open_and_look(&ctx.rt, &c.probes, Some(&root), || DirectoryTilesReader::open_path(&root));
			let _ = std::fs::remove_dir_all(&root);
			v
		}
		_ => V::Err,
	}
}

fn factory(dir: &Path) -> versatiles_pipeline::PipelineFactory {
	use futures::future::BoxFuture;
	use versatiles_container::{MockTilesReader, MockTilesReaderProfile};
	use versatiles_core::types::TilesReaderTrait;
	versatiles_pipeline::PipelineFactory::default(
		dir,
		Box::new(|_filename: String| -> BoxFuture<'static, anyhow::Result<Box<dyn TilesReaderTrait>>> {
			Box::pin(async { Ok(Box::new(MockTilesReader::new_mock_profile(MockTilesReaderProfile::Pbf)?) as Box<dyn TilesReaderTrait>) })
		}),
	)
}

// ------------------------------------------------------------------------------------------------
// child process: `vth C19child --out DIR <batch file> <skip>`
// ------------------------------------------------------------------------------------------------

static CUR_START_MS: AtomicU64 = AtomicU64::new(0);
static CUR_IDX: AtomicU64 = AtomicU64::new(u64::MAX);
const CASE_TIMEOUT_MS: u64 = 10_000;
fn case_timeout_ms() -> u64 {
	std::env::var("C19_TIMEOUT_MS").ok().and_then(|s| s.parse().ok()).unwrap_or(CASE_TIMEOUT_MS)
}

fn now_ms() -> u64 {
	std::time::SystemTime::now().duration_since(std::time::UNIX_EPOCH).unwrap().as_millis() as u64
}

pub fn child(args: &Args) {
	let batch = args.extra.first().expect("batch file");
	let skip: usize = args.extra.get(1).and_then(|s| s.parse().ok()).unwrap_or(0);
	unsafe {
		let lim = libc::rlimit { rlim_cur: 4 << 30, rlim_max: 4 << 30 };
		libc::setrlimit(libc::RLIMIT_AS, &lim);
		// no core files
		let z = libc::rlimit { rlim_cur: 0, rlim_max: 0 };
		libc::setrlimit(libc::RLIMIT_CORE, &z);
	}
	install_hook();
	let mut ctx = Ctx::new(&args.out);
	let text = std::fs::read_to_string(batch).unwrap();
	let stdout = std::io::stdout();
	let limit_ms = case_timeout_ms();
	std::thread::spawn(move || loop {
		std::thread::sleep(std::time::Duration::from_millis(200));
		let idx = CUR_IDX.load(Ordering::SeqCst);
		let st = CUR_START_MS.load(Ordering::SeqCst);
		if idx != u64::MAX && st != 0 && now_ms().saturating_sub(st) > limit_ms {
			println!("{idx} timeout");
			let _ = std::io::stdout().flush();
			std::process::exit(3);
		}
	});
	for (idx, line) in text.lines().enumerate() {
		if idx < skip {
			continue;
		}
		let Some(c) = Case::parse(line) else {
			println!("{idx} res err 0 0 0 bad-line");
			continue;
		};
		{
			let mut o = stdout.lock();
			writeln!(o, "{idx} start").unwrap();
			o.flush().unwrap();
		}
		CUR_START_MS.store(now_ms(), Ordering::SeqCst);
		CUR_IDX.store(idx as u64, Ordering::SeqCst);
		if let Ok(mut g) = LAST_PANIC.lock() {
			g.clear();
		}
		if let Ok(mut g) = INCONSISTENT.lock() {
			g.clear();
		}
		alloc_count::begin();
		let v = eval(&mut ctx, &c);
		let u: Usage = alloc_count::end();
		CUR_IDX.store(u64::MAX, Ordering::SeqCst);
		let mut site = if v == V::Panic { LAST_PANIC.lock().map(|g| g.clone()).unwrap_or_default() } else { "-".into() };
		let mut verdict = v.s();
		if v != V::Panic {
			if let Ok(g) = INCONSISTENT.lock() {
				if !g.is_empty() {
					verdict = "inconsistent";
					site = g.split('_').take(2).collect::<Vec<_>>().join("_") + ":" + &g.chars().take(120).collect::<String>();
				}
			}
		}
		let mut o = stdout.lock();
		writeln!(o, "{idx} res {} {} {} {} {}", verdict, u.max_single, u.peak, u.count, if site.is_empty() { "?" } else { &site }).unwrap();
		o.flush().unwrap();
	}
	let _ = std::fs::remove_dir_all(&ctx.dir);
}

// ------------------------------------------------------------------------------------------------
// parent: batches → children → aggregation
// ------------------------------------------------------------------------------------------------

#[derive(Clone, Debug)]
pub struct Answer {
	/// ok | err | panic | abort | segv | timeout | killed
	pub verdict: String,
	pub max_single: usize,
	pub peak: usize,
	pub site: String,
}

fn run_batch(exe: &Path, dir: &Path, name: &str, cases: &[Case]) -> Vec<Answer> {
	use std::os::unix::process::ExitStatusExt;
	let file = dir.join(format!("{name}.txt"));
	std::fs::write(&file, cases.iter().map(|c| c.line()).collect::<Vec<_>>().join("\n") + "\n").unwrap();
	let mut answers: Vec<Option<Answer>> = vec![None; cases.len()];
	let mut skip = 0usize;
	let mut restarts = 0;
	while skip < cases.len() && restarts < 200 {
		let out = std::process::Command::new(exe)
			.arg("C19child")
			.arg("--out")
			.arg(dir.join(format!("{name}.scratch")))
			.arg(&file)
			.arg(skip.to_string())
			.stderr(std::process::Stdio::null())
			.output()
			.expect("spawn child");
		let mut started: Option<usize> = None;
		let mut last_done: Option<usize> = None;
		let mut timed_out = false;
		for l in out.stdout.lines().map_while(Result::ok) {
			let t: Vec<&str> = l.splitn(7, ' ').collect();
			let Ok(idx) = t[0].parse::<usize>() else { continue };
			match t.get(1) {
				Some(&"start") => started = Some(idx),
				Some(&"timeout") => timed_out = true,
				Some(&"res") if t.len() >= 7 && idx < cases.len() => {
					answers[idx] = Some(Answer { verdict: t[2].into(), max_single: t[3].parse().unwrap_or(0), peak: t[4].parse().unwrap_or(0), site: t[6].into() });
					last_done = Some(idx);
				}
				_ => {}
			}
		}
		let finished = out.status.success();
		if finished {
			break;
		}
		// the child died: the case that was started but has no answer is the culprit
		let culprit = match (started, last_done) {
			(Some(s), Some(d)) if s > d => s,
			(Some(s), None) => s,
			(_, Some(d)) => d + 1,
			(None, None) => skip,
		};
		if culprit < cases.len() && answers[culprit].is_none() {
			let verdict = if timed_out {
				"timeout"
			} else {
				match out.status.signal() {
					Some(libc::SIGABRT) => "abort",
					Some(libc::SIGSEGV) | Some(libc::SIGBUS) => "segv",
					Some(_) => "killed",
					None => "abort",
				}
			};
			answers[culprit] = Some(Answer { verdict: verdict.into(), max_single: 0, peak: 0, site: format!("signal_{}", out.status.signal().unwrap_or(0)) });
		}
		skip = culprit + 1;
		restarts += 1;
	}
	let _ = std::fs::remove_dir_all(dir.join(format!("{name}.scratch")));
	answers.into_iter().map(|a| a.unwrap_or(Answer { verdict: "notrun".into(), max_single: 0, peak: 0, site: "-".into() })).collect()
}

pub const ALLOC_FACTOR: usize = 64;
/// constant part: the brotli decoder allocates its window (up to 16 MiB, announced by the stream header)
/// before decoding; regex tables of the CSV value parser take ~6 MiB
pub const ALLOC_SLACK: usize = 24 << 20;

fn record(out: &mut Out, c: &Case, a: &Answer) {
	let line = c.line();
	let nontrivial = c.class != "random";
	let model_verdict = match a.verdict.as_str() {
		"ok" | "err" | "panic" => a.verdict.clone(),
		other => format!("died-{other}"),
	};
	if c.has_model() {
		out.case(&line, &model_verdict, nontrivial);
	} else {
		out.eval(&line, nontrivial);
	}
	out.count(&format!("ep_{}", c.ep));
	out.count(&format!("class_{}", c.class));
	out.count(&format!("verdict_{}_{}", c.ep, a.verdict));
	out.count_n("input_bytes", c.input.len() as u64);
	let short = |c: &Case| {
		let l = c.line();
		if l.len() > 200_000 {
			trunc(&l, 2000)
		} else {
			l
		}
	};
	let limit = ALLOC_FACTOR * c.input.len() + ALLOC_SLACK;
	if c.ep == "vpllimit" && a.verdict == "ok" {
		out.oracle(
			false,
			"C19 limit-bypassed: parse_vpl accepts a text nested deeper than its limit of 64 levels (the recursion is then bounded only by the stack)",
			json!({"ep": c.ep, "kind": "limit-bypassed"}),
			json!({"case": short(c), "class": c.class, "input_bytes": c.input.len()}),
		);
	} else if a.verdict == "ok" || a.verdict == "err" {
		if a.max_single > limit {
			out.oracle(
				false,
				&format!("C19 alloc: {} allocates {} bytes in one request for {} input bytes (limit {}·n + 24 MiB)", c.ep, a.max_single, c.input.len(), ALLOC_FACTOR),
				json!({"ep": c.ep, "kind": "alloc"}),
				json!({"case": short(c), "max_single": a.max_single, "peak": a.peak, "input_bytes": c.input.len(), "class": c.class}),
			);
		} else {
			out.oracle(true, "", json!(null), json!(null));
		}
	} else if a.verdict == "notrun" {
		out.notes.push(format!("case not run (child restarts exhausted): {}", trunc(&line, 120)));
		out.oracle(true, "", json!(null), json!(null));
	} else {
		let kind = a.verdict.as_str();
		let (sig_site, full_site) = if kind == "inconsistent" { (a.site.split(':').next().unwrap_or("").to_string(), a.site.clone()) } else { (a.site.clone(), a.site.clone()) };
		out.oracle(
			false,
			&format!("C19 {kind}: entry point {} {} at {}", c.ep, match kind { "panic" => "panics", "abort" => "aborts the process", "segv" => "kills the process (stack overflow / SIGSEGV)", "timeout" => "does not return within 10 s (and not within 60 s when run alone)", "inconsistent" => "gives two different answers for one coordinate of one undamaged container", _ => "dies" }, full_site),
			json!({"ep": c.ep, "kind": kind, "site": sig_site}),
			json!({"case": short(c), "class": c.class, "input_bytes": c.input.len()}),
		);
	}
}

pub fn run(args: &Args) {
	quiet_panics();
	let mut out = Out::new(&args.out);
	out.rule = format!(
		"every decoding entry point with an error channel ({}) is fed random bytes and, mostly, mutations of VALID encodings produced by the real writers and the independent encoders \
(bit flips, byte replacement, truncation, deletion, duplication, splices of two valid encodings, length fields set to 2^31/2^32/2^63/2^64-1 and neighbours, multi-byte UTF-8 placed at every \
alignment relative to error sites, JSON/VPL nesting to 512 quick / 5000 thorough, JSON nesting 1023..1026 around the parser's limit of 1024 and 20 000 / 100 000 levels as crash probes, multi-byte characters straddling ABSOLUTE byte offsets 16..4096 (+-1) of malformed and valid documents, VPL nesting 64/65/66 and 5000 after lexically tricky prefixes (quoted values ending in an escaped backslash, escaped quotes, brackets inside quotes; depth > 64 must be err), self-referential PMTiles leaf directories, semantic corruption of SQLite rows, odd tar member names); \
container cases perform a sequence of single-tile lookups on one opened reader (first coordinate three times, all probes, all probes again: cache-hit paths after errors and successes); each case runs in a child process (RLIMIT_AS 4 GiB, 10 s watchdog) under catch_unwind with a counting global allocator. Oracle: verdict is ok or err (never panic, abort, SIGSEGV, timeout) and the \
largest single allocation request is <= {}*|input| + 24 MiB. Entry points with a Lean model (json, tilejson, csv, mvt, mvtprops, pbfstr, pmdir, pmfind, pmhdr, vtblk, vtbidx, vttidx, vthdr, vpl; input <= 4 KiB) are also compared with the model's verdict. \
non-trivial = derived from a valid encoding or structured generator (everything except class 'random'); distinct by case text",
		ALL_EPS.join(", "),
		ALLOC_FACTOR
	);
	let cases: Vec<Case> = if let Some(p) = &args.replay {
		std::fs::read_to_string(p).unwrap().lines().filter_map(Case::parse).collect()
	} else {
		c19_gen::generate(args)
	};
	if let Ok(p) = std::env::var("C19_DUMP") {
		// development aid: all generated case lines with their class
		let text: String = cases.iter().map(|c| format!("{} {}\n", c.class, c.line())).collect();
		std::fs::write(p, text).unwrap();
	}
	let exe = std::env::current_exe().unwrap();
	let dir = if args.out.is_absolute() { args.out.join("c19") } else { std::env::current_dir().unwrap().join(&args.out).join("c19") };
	std::fs::create_dir_all(&dir).unwrap();
	// batches of ≤ 400 cases, run by up to 8 children at a time
	// (SQLite readers start a connection pool with its own threads: few of them per child, so that the
	// address-space limit is never reached by the harness itself)
	let mut chunks: Vec<&[Case]> = vec![];
	{
		let mut start = 0usize;
		while start < cases.len() {
			let heavy = |c: &Case| c.ep == "mb";
			let cap = if heavy(&cases[start]) { 5 } else { 400 };
			let mut end = start;
			while end < cases.len() && end - start < cap && heavy(&cases[end]) == heavy(&cases[start]) {
				end += 1;
			}
			chunks.push(&cases[start..end]);
			start = end;
		}
	}
	let workers = num_cpus::get().clamp(1, 8);
	let mut answers: Vec<Vec<Answer>> = vec![vec![]; chunks.len()];
	let next = std::sync::atomic::AtomicUsize::new(0);
	let results: Mutex<Vec<(usize, Vec<Answer>)>> = Mutex::new(vec![]);
	std::thread::scope(|s| {
		for _ in 0..workers {
			s.spawn(|| loop {
				let i = next.fetch_add(1, Ordering::SeqCst);
				if i >= chunks.len() {
					break;
				}
				let a = run_batch(&exe, &dir, &format!("b{i}"), chunks[i]);
				results.lock().unwrap().push((i, a));
			});
		}
	});
	for (i, a) in results.into_inner().unwrap() {
		answers[i] = a;
	}
	// a watchdog timeout under load is not a verdict: such a case is run again, alone, with a 60 s
	// watchdog; only a repeated timeout is reported
	let mut retried = 0u64;
	for (ci, chunk) in chunks.iter().enumerate() {
		for (k, c) in chunk.iter().enumerate() {
			if answers[ci][k].verdict == "timeout" {
				std::env::set_var("C19_TIMEOUT_MS", "60000");
				let a = run_batch(&exe, &dir, &format!("retry{ci}_{k}"), std::slice::from_ref(c));
				std::env::remove_var("C19_TIMEOUT_MS");
				answers[ci][k] = a.into_iter().next().unwrap();
				retried += 1;
			}
		}
	}
	if retried > 0 {
		out.notes.push(format!("{retried} case(s) hit the 10 s watchdog in a batch and were re-run alone with a 60 s watchdog"));
	}
	for (chunk, ans) in chunks.iter().zip(answers.iter()) {
		for (c, a) in chunk.iter().zip(ans.iter()) {
			record(&mut out, c, a);
		}
	}
	let _ = std::fs::remove_dir_all(&dir);
	out.notes.push("checklist: class 1 thresholds (classes every-header-byte, header-length, range-at-file-length, entry-count, varint-width, size-field, page-boundary, buffer-boundary, nesting-limit*, abs-offset-*); class 2 faults before open (every-bit, every-truncation, every-window, every-u32, extend) and after open (after-open: truncate/zero/garbage/extend/delete under a warm reader, then a reopened reader); class 3 payload/range classes (odd-ranges, payload-codec, announced-length, zero-length entries); class 4 option interplay: n.a. for decoders (VPL parameter typing is C18's); class 5 reuse: repeated coordinates, second pass, reopened reader on the same source; class 6: 4 threads looking up concurrently on the one reader; class 7 HTTP: n.a.; class 8 extreme coordinates in every probe list (levels 0/30/31, corners); class 9: both the real writers' layouts and the independent encoders with randomised layout freedoms, non-minimal varints; class 10: cached = uncached = concurrent = reopened answers compared per coordinate (kind inconsistent); text handling: UNICODE_TRAPS (case-mapping changes the UTF-8 length, combining / direction marks, NUL, BOM, surrogate neighbours, 4-byte characters) before and after every delimiter in tar/directory names, JSON / TileJSON strings, CSV cells, VPL identifiers and values, MBTiles metadata; NUM_BORDERS in every text or stored number that becomes a coordinate, zoom or count; bulk streams on corrupted containers are outside the statement (no error channel)".into());
	out.extra.insert("alloc_limit".into(), json!(format!("{ALLOC_FACTOR}*|input| + {ALLOC_SLACK}")));
	out.finish();
}
