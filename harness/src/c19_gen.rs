//! C19 case generators: valid encodings (real writers + independent encoders) and their mutants.
use crate::c16::gen_tiles;
use crate::c19::{probes_str, Case, Coord};
use crate::common::*;
use crate::indep_formats as ifm;
use crate::indep_mvt as imvt;

pub const BIG: &[u64] = &[0x7f, 0x80, 0xffff, 1 << 20, (1 << 31) - 1, 1 << 31, (1 << 32) - 1, 1 << 32, (1 << 32) + 1, 1 << 33, 1 << 40, (1 << 63) - 1, 1 << 63, u64::MAX - 1, u64::MAX];

pub struct G {
	pub rng: Rng,
	pub cases: Vec<Case>,
}
impl G {
	fn push(&mut self, ep: &'static str, class: &'static str, input: Vec<u8>, probes: &str) {
		self.cases.push(Case { ep, input, probes: probes.to_string(), class });
	}
}

pub fn varint(mut v: u64) -> Vec<u8> {
	let mut o = vec![];
	loop {
		let b = (v & 0x7f) as u8;
		v >>= 7;
		if v == 0 {
			o.push(b);
			return o;
		}
		o.push(b | 0x80);
	}
}

/// generic byte-level mutation of a valid encoding; returns (class, bytes)
pub fn mutate(rng: &mut Rng, b: &[u8], other: &[u8]) -> (&'static str, Vec<u8>) {
	let mut v = b.to_vec();
	let n = v.len();
	match rng.below(12) {
		0 if n > 0 => {
			let k = rng.range(1, 3);
			for _ in 0..k {
				let i = rng.below(n as u64) as usize;
				v[i] ^= 1 << rng.below(8);
			}
			("bitflip", v)
		}
		1 if n > 0 => {
			let i = rng.below(n as u64) as usize;
			v[i] = *rng.pick(&[0u8, 1, 0x7f, 0x80, 0xff, 0xfe, 0x22, 0x5c, 0x0a]);
			("byte", v)
		}
		2 if n > 0 => {
			v.truncate(rng.below(n as u64) as usize);
			("truncate", v)
		}
		3 if n > 1 => {
			let i = rng.below(n as u64) as usize;
			let l = rng.range(1, (n - i).min(16) as u64) as usize;
			v.drain(i..i + l);
			("delete", v)
		}
		4 if n > 0 => {
			let i = rng.below(n as u64) as usize;
			let l = rng.range(1, (n - i).min(32) as u64) as usize;
			let seg: Vec<u8> = v[i..i + l].to_vec();
			let at = rng.below(n as u64 + 1) as usize;
			v.splice(at..at, seg);
			("duplicate", v)
		}
		5 if !other.is_empty() && n > 0 => {
			let i = rng.below(n as u64 + 1) as usize;
			let j = rng.below(other.len() as u64) as usize;
			v.truncate(i);
			v.extend_from_slice(&other[j..]);
			("splice", v)
		}
		6 => {
			let at = rng.below(n as u64 + 1) as usize;
			let ch: &[u8] = *rng.pick(&["é".as_bytes(), "€".as_bytes(), "😀".as_bytes(), &[0xc3], &[0xe2, 0x82], &[0xf0, 0x9f, 0x98], &[0xa9], &[0xff]]);
			v.splice(at..at, ch.iter().copied());
			("utf8-insert", v)
		}
		7 if n > 0 => {
			// overwrite a (presumed) varint / length field with a big value
			let at = rng.below(n as u64) as usize;
			let mut end = at;
			while end < n && v[end] & 0x80 != 0 && end - at < 9 {
				end += 1;
			}
			let big = varint(*rng.pick(BIG));
			v.splice(at..(end + 1).min(n), big);
			("varint-big", v)
		}
		8 if n >= 8 => {
			// overwrite 8 aligned-or-not bytes with a big fixed-width integer (both byte orders)
			let at = rng.below((n - 7) as u64) as usize;
			let x = *rng.pick(BIG);
			let bytes = if rng.chance(1, 2) { x.to_be_bytes() } else { x.to_le_bytes() };
			v[at..at + 8].copy_from_slice(&bytes);
			("u64-big", v)
		}
		9 if n >= 4 => {
			let at = rng.below((n - 3) as u64) as usize;
			let x = *rng.pick(&[0u32, 1, 0x7fffffff, 0x80000000, 0xffffffff, 0x00ffffff, 0x01000000]);
			let bytes = if rng.chance(1, 2) { x.to_be_bytes() } else { x.to_le_bytes() };
			v[at..at + 4].copy_from_slice(&bytes);
			("u32-big", v)
		}
		10 => {
			let extra = rng.range(1, 20) as usize;
			v.extend(rng.bytes(extra));
			("extend", v)
		}
		_ => {
			if n == 0 {
				return ("extend", rng.bytes(3));
			}
			let i = rng.below(n as u64) as usize;
			v.swap(i, n - 1 - i.min(n - 1));
			("swap", v)
		}
	}
}

// ---------------------------------------------------------------------------------------- text

const JSON_SEEDS: &[&str] = &[
	"null",
	"true",
	"false",
	"0",
	"-12.5e+3",
	"\"\"",
	"\"a\\u00e9\\n\\\"\\\\\\/\\b\\f\\r\\t\"",
	"\"straße 日本 🙂\"",
	"[]",
	"{}",
	"[1,2,3]",
	"{\"a\":1,\"b\":[true,false,null],\"c\":{\"d\":\"e\"}}",
	" { \"k\" : [ 1 , { \"x\" : \"y\" } ] } ",
	"{\"tilejson\":\"3.0.0\",\"name\":\"x\",\"bounds\":[-180,-85,180,85],\"center\":[0,0,3],\"minzoom\":0,\"maxzoom\":14,\"vector_layers\":[{\"id\":\"a\",\"fields\":{\"k\":\"String\"},\"minzoom\":0,\"maxzoom\":14}]}",
	"{\"é\":\"€\",\"😀\":[\"日本\"]}",
];

fn gen_json_text(rng: &mut Rng, depth: u32) -> String {
	let k = if depth == 0 { rng.below(5) } else { rng.below(8) };
	match k {
		0 => "null".into(),
		1 => (*rng.pick(&["true", "false"])).into(),
		2 => (*rng.pick(&["0", "-1", "3.25", "1e5", "-0.5E-3", "123456789012345678901234567890", "1e400", "-1e400", "0.0000001", "+5", ".5", "-", "1.", "1e", "01"])).into(),
		3 | 4 => {
			let s = *rng.pick(&["", "a", "Berlin", "straße", "日本", "🙂", "a\\nb", "\\u0041", "\\ud834", "\\u00zz", "q\\\"q", "\\x", "tab\\t"]);
			format!("\"{s}\"")
		}
		5 | 6 => {
			let n = rng.below(4);
			let items: Vec<String> = (0..n).map(|_| gen_json_text(rng, depth - 1)).collect();
			format!("[{}]", items.join(if rng.chance(1, 3) { " , " } else { "," }))
		}
		_ => {
			let n = rng.below(4);
			let items: Vec<String> = (0..n).map(|i| format!("\"{}{}\":{}", rng.pick(&["a", "k", "é", "name", "bounds"]), i, gen_json_text(rng, depth - 1))).collect();
			format!("{{{}}}", items.join(","))
		}
	}
}

const MB: &[&str] = &["é", "€", "😀", "日", "ß"];

/// invalid JSON after non-ASCII text at every alignment of the 16-byte error window (F6)
fn json_utf8_sites(g: &mut G) {
	let errs: &[&str] = &[" x", "]", ":", "", "\"", "tru", "nul", "1e", "-", "[1 2]", "{\"a\" 1}", "{\"a\":1 \"b\"}", "{1}", "\"\\u12", "\"\\u000é\"", "\"\\u00€\"", "\"\\u0😀\"", "\"\\u000é", "\"x\\u004é\" ", "\"\\u00é0\"", "\"\\ué000\"", "\"\\u0é\"", "\"\\u😀\"", "\"\\q"];
	for pad in 0..20usize {
		for ch in MB {
			for (ei, e) in errs.iter().enumerate() {
				if (pad + ei) % 3 != 0 && pad > 4 {
					continue;
				}
				let body = format!("[\"{}{}{}\",{}", "a".repeat(pad), ch.repeat(4), "b".repeat(pad % 5), e);
				g.push("json", "utf8-site", body.clone().into_bytes(), "");
				g.push("tilejson", "utf8-site", format!("{{\"name\":\"{}{}\",\"bounds\":{}", "a".repeat(pad), ch.repeat(3), e).into_bytes(), "");
				// unterminated string ending inside / right after the character
				let s = format!("\"{}{}", "a".repeat(pad), ch.repeat(5));
				g.push("json", "utf8-site", s.clone().into_bytes(), "");
				let raw = s.into_bytes();
				g.push("json", "utf8-site", raw[..raw.len() - 1].to_vec(), "");
			}
		}
	}
	// non-UTF-8 documents
	for b in [&[0xffu8][..], &[b'"', 0xc3, b'"'], &[b'[', 0xe2, 0x82, b']'], &[b'"', 0xf0, 0x9f, 0x98, 0x80, b'"', 0x80], &[0xef, 0xbb, 0xbf, b'1']] {
		g.push("json", "non-utf8", b.to_vec(), "");
		g.push("tilejson", "non-utf8", b.to_vec(), "");
		g.push("csv", "non-utf8", b.to_vec(), "");
	}
}

/// the JSON parser accepts 1024 nested arrays/objects and must answer `err` beyond (since f7196604);
/// the 100 000-level documents are the crash probe (child process)
fn json_limit(g: &mut G) {
	for d in [1023usize, 1024, 1025, 1026, 1500, 2000] {
		let arr = format!("{}{}", "[".repeat(d), "]".repeat(d));
		let obj = format!("{}1{}", "{\"a\":".repeat(d), "}".repeat(d));
		let mixed = format!("{}{}", "[{\"k\":".repeat(d / 2), "}]".repeat(d / 2));
		for doc in [arr, obj, mixed] {
			g.push("json", "nesting-limit-json", doc.clone().into_bytes(), "");
			g.push("jsonstr", "nesting-limit-json", doc.clone().into_bytes(), "");
			g.push("tilejson", "nesting-limit-json", format!("{{\"x\":{doc}}}").into_bytes(), "");
		}
		// unbalanced: only the opening brackets, and garbage after a valid shallow value
		g.push("json", "nesting-limit-json", "[".repeat(d).into_bytes(), "");
		g.push("json", "nesting-limit-json", format!("1 {}", "[".repeat(d)).into_bytes(), "");
		g.push("json", "nesting-limit-json", format!("[\"{}\"]", "[".repeat(d)).into_bytes(), "");
	}
	// the limit is on the DEPTH: many siblings / closed containers at depth 1-2 must stay accepted
	// (a counter that is not decremented on leaving a container would turn them into errors)
	for n in [1023usize, 1024, 1025, 1100] {
		let sib_arr = format!("[{}]", vec!["[]"; n].join(","));
		let sib_obj = format!("{{{}}}", (0..n).map(|i| format!("\"k{i}\":{{}}")).collect::<Vec<_>>().join(","));
		let sib_mixed = format!("[{}]", vec!["[[]]", "{\"a\":[]}", "[{}]"].iter().cycle().take(n).cloned().collect::<Vec<_>>().join(","));
		for doc in [sib_arr, sib_obj, sib_mixed] {
			g.push("json", "limit-vs-count", doc.clone().into_bytes(), "");
			g.push("tilejson", "limit-vs-count", format!("{{\"x\":{doc}}}").into_bytes(), "");
		}
		// a deep-but-legal chain after many closed siblings
		let doc = format!("[{},{}{}]", vec!["[]"; n].join(","), "[".repeat(1000), "]".repeat(1000));
		g.push("json", "limit-vs-count", doc.into_bytes(), "");
	}
	for d in [20_000usize, 100_000] {
		g.push("json", "nesting-deep", format!("{}{}", "[".repeat(d), "]".repeat(d)).into_bytes(), "");
		g.push("json", "nesting-deep", format!("{}1{}", "{\"a\":".repeat(d), "}".repeat(d)).into_bytes(), "");
		g.push("tilejson", "nesting-deep", format!("{{\"x\":{}1{}}}", "{\"a\":".repeat(d), "}".repeat(d)).into_bytes(), "");
	}
}

fn nesting(g: &mut G, thorough: bool) {
	let depths: &[usize] = if thorough { &[1, 2, 16, 100, 512, 1000, 2000, 5000] } else { &[1, 2, 16, 100, 512] };
	for &d in depths {
		g.push("json", "nesting", format!("{}{}", "[".repeat(d), "]".repeat(d)).into_bytes(), "");
		g.push("json", "nesting", "[".repeat(d).into_bytes(), "");
		g.push("json", "nesting", format!("{}1{}", "{\"a\":".repeat(d), "}".repeat(d)).into_bytes(), "");
		g.push("json", "nesting", format!("{}{}", "[{\"a\":".repeat(d), "}]".repeat(d)).into_bytes(), "");
		g.push("tilejson", "nesting", format!("{{\"x\":{}{}}}", "[".repeat(d), "]".repeat(d)).into_bytes(), "");
		// VPL: nested source lists
		let open = "from_overlayed [ ".repeat(d);
		let close = " ]".repeat(d);
		g.push("vpl", "nesting", format!("{open}from_container filename=a.pbf{close}").into_bytes(), "");
		g.push("vpl", "nesting", "a[".repeat(d).into_bytes(), "");
		if d <= 100 {
			g.push("build", "nesting", format!("{open}from_container filename=a.pbf{close}").into_bytes(), "");
		}
	}
}

const TJ_VALUES: &[&str] = &["null", "true", "0", "-1", "3.5", "256", "1e400", "\"x\"", "\"\"", "[]", "[1]", "[1,2,3]", "[1,2,3,4]", "[1,2,3,4,5]", "[\"a\",\"b\",\"c\",\"d\"]", "{}", "{\"id\":1}", "[{}]", "[{\"id\":\"a\"}]", "[{\"id\":\"a\",\"fields\":[]}]", "[{\"id\":\"a\",\"fields\":{\"k\":1}}]", "[-999,-999,999,999]", "[0,0,99]", "[180,85,-180,-85]"];
const TJ_KEYS: &[&str] = &["tilejson", "name", "bounds", "center", "minzoom", "maxzoom", "vector_layers", "attribution", "tiles", "fillzoom", "type", "format", "x"];

fn tilejson_cases(g: &mut G, n: usize) {
	for _ in 0..n {
		let k = g.rng.range(1, 5);
		let items: Vec<String> = (0..k).map(|_| format!("\"{}\":{}", g.rng.pick(TJ_KEYS), g.rng.pick(TJ_VALUES))).collect();
		g.push("tilejson", "typed-values", format!("{{{}}}", items.join(",")).into_bytes(), "");
	}
	for v in TJ_VALUES {
		g.push("tilejson", "typed-values", v.as_bytes().to_vec(), "");
		for k in TJ_KEYS {
			g.push("tilejson", "typed-values", format!("{{\"{k}\":{v}}}").into_bytes(), "");
		}
	}
}

const CSV_SEEDS: &[&str] = &[
	"a,b\n1,2\n",
	"id,name\r\n1,\"x, y\"\r\n2,\"q\"\"q\"\r\n",
	"id,v\n1,straße\n2,日本\n\n3,🙂",
	"\"a\",\"b\"\n\"1\",\"2\"",
	"x\n",
	"",
	"\n\n",
	"a,b,c\n1,2\n",
	"\"a\"b,c\n",
	"\"a\" ,c\n",
	"\"abc",
	"a,\"b\nc\",d\n",
	"id,n\n1,-99999999999999999999\n",
	"id,n\n1,99999999999999999999999\n",
	"id,n\n1,٣\n",
	"id,n\n1,-٣\n",
	"id,n\n1,1.5\n2,.5\n3,-.25\n",
	"id,n\n1,٣.٥\n",
	"id\n",
	",\n,\n",
];

const VPL_SEEDS: &[&str] = &[
	"from_container filename=a.pbf",
	"from_container filename=\"a b.pbf\" | filter_zoom min=1 max=3",
	"from_container filename=a.pbf | filter_bbox bbox=[1,2,3,4]",
	"from_container filename=a.pbf | filter_bbox bbox=[-180,-85,180,85] | filter_zoom min=0",
	"from_overlayed [ from_container filename=a.pbf, from_container filename=b.pbf ]",
	"from_vectortiles_merged [ from_container filename=a.pbf | filter_zoom max=5, from_container filename=b.pbf ]",
	"from_container filename=a.pbf | vectortiles_update_properties data_source_path=\"data.csv\" layer_name=mock id_field_tiles=id id_field_data=id replace_properties=true",
	"from_debug format=pbf",
	"from_container filename=\"straße/日本.pbf\" | filter_zoom min=\"1\"",
	"from_container filename=a.pbf | filter_bbox bbox=[1e400,2,3,4]",
	"from_container filename=a.pbf | filter_bbox bbox=[3,2,1,0]",
	"from_container filename=a.pbf | filter_bbox bbox=[nan,nan,nan,nan]",
	"from_container filename=a.pbf | filter_zoom min=999999999999999999999",
	"from_container filename=a.pbf | filter_zoom min=-1 max=٣",
];

fn text_cases(g: &mut G, n: usize) {
	for s in JSON_SEEDS {
		g.push("json", "valid", s.as_bytes().to_vec(), "");
		g.push("jsonstr", "valid", s.as_bytes().to_vec(), "");
		g.push("tilejson", "valid", s.as_bytes().to_vec(), "");
	}
	for s in CSV_SEEDS {
		g.push("csv", "seed", s.as_bytes().to_vec(), "");
		g.push("buildcsv", "seed", s.as_bytes().to_vec(), "");
	}
	for b in [&[0xffu8][..], &[b'a', b'[', 0xc3], b"from_container filename=\"\xe2\x82\"", b""] {
		g.push("vplfile", "non-utf8", b.to_vec(), "1/0/0");
	}
	for s in VPL_SEEDS {
		g.push("vplfile", "valid", s.as_bytes().to_vec(), "1/0/0,2/1/1");
		g.push("vpl", "valid", s.as_bytes().to_vec(), "");
		g.push("build", "valid", s.as_bytes().to_vec(), "");
	}
	for i in 0..n {
		let a = if i % 3 == 0 { gen_json_text(&mut g.rng, 4) } else { g.rng.pick(JSON_SEEDS).to_string() };
		let b = g.rng.pick(JSON_SEEDS).to_string();
		if i % 7 == 0 {
			g.push("json", "generated", a.clone().into_bytes(), "");
		}
		let (cl, m) = mutate(&mut g.rng, a.as_bytes(), b.as_bytes());
		g.push("json", cl, m.clone(), "");
		if i % 4 == 0 {
			g.push("tilejson", cl, m.clone(), "");
			g.push("jsonstr", cl, m, "");
		}
		let a = *g.rng.pick(CSV_SEEDS);
		let b = *g.rng.pick(CSV_SEEDS);
		let (cl, m) = mutate(&mut g.rng, a.as_bytes(), b.as_bytes());
		g.push("csv", cl, m.clone(), "");
		if i % 4 == 0 {
			g.push("buildcsv", cl, m, "");
		}
		let a = *g.rng.pick(VPL_SEEDS);
		let b = *g.rng.pick(VPL_SEEDS);
		let (cl, m) = mutate(&mut g.rng, a.as_bytes(), b.as_bytes());
		// the VPL entry points take text: keep the mutant valid UTF-8
		let m = String::from_utf8_lossy(&m).into_owned().into_bytes();
		g.push("vpl", cl, m.clone(), "");
		if i % 5 == 0 {
			g.push("vplfile", cl, m.clone(), "1/0/0");
		}
		if i % 2 == 0 {
			g.push("build", cl, m, "");
		}
	}
	for i in 0..(n / 4).max(20) {
		let len = g.rng.range(0, 40) as usize;
		let r = g.rng.bytes(len);
		let ep = ["json", "csv", "tilejson", "mvt", "pmdir", "pbfstr"][i % 6];
		g.push(ep, "random", r, "");
	}
}

// ---------------------------------------------------------------------------------------- pbf

/// offsets of every length varint of a vector tile (tile.3, layer.1/2/3/4, feature.2/4, value.1)
fn mvt_len_offsets(b: &[u8]) -> Vec<(usize, usize)> {
	fn walk(b: &[u8], base: usize, level: u8, out: &mut Vec<(usize, usize)>) {
		let mut p = 0usize;
		while p < b.len() {
			let Some(key) = imvt::get_varint(b, &mut p) else { return };
			let (f, w) = (key >> 3, key & 7);
			match w {
				0 => {
					if imvt::get_varint(b, &mut p).is_none() {
						return;
					}
				}
				1 => p += 8,
				5 => p += 4,
				2 => {
					let at = p;
					let Some(l) = imvt::get_varint(b, &mut p) else { return };
					out.push((base + at, p - at));
					let end = p.saturating_add(l as usize);
					if end > b.len() {
						return;
					}
					let sub = match (level, f) {
						(0, 3) => Some(1),
						(1, 2) => Some(2),
						(1, 4) => Some(3),
						_ => None,
					};
					if let Some(lv) = sub {
						walk(&b[p..end], base + p, lv, out);
					}
					p = end;
				}
				_ => return,
			}
		}
	}
	let mut out = vec![];
	walk(b, 0, 0, &mut out);
	out
}

fn mvt_cases(g: &mut G, n: usize) {
	let opts = imvt::GenOpts {
		names: vec![b"a".to_vec(), b"roads".to_vec(), "straße".as_bytes().to_vec()],
		keys: vec![b"id".to_vec(), b"name".to_vec(), b"k".to_vec()],
		id_values: vec![imvt::IValue::UInt(1), imvt::IValue::Str(b"x".to_vec())],
		max_layers: 3,
		max_features: 4,
		messy_tables: true,
		nan: true,
	};
	// the 8-byte tiles of F13: tile{layer{<field> len = L}}
	for &l in BIG {
		for key in [0x0au8, 0x1a, 0x12, 0x22] {
			let mut layer = vec![key];
			layer.extend(varint(l));
			let mut t = vec![0x1a];
			t.extend(varint(layer.len() as u64));
			t.extend(&layer);
			g.push("mvt", "announced-length", t, "");
		}
		let mut t = vec![0x1a];
		t.extend(varint(l));
		g.push("mvt", "announced-length", t, "");
		// value string, feature geometry blob, packed tags with announced length L
		for inner in [vec![0x22u8, 0x0a, 0x0a], vec![0x12, 0x0a, 0x22], vec![0x12, 0x0a, 0x12]] {
			let mut layer = vec![0x0a, 0x01, b'a'];
			let mut sub = vec![inner[2]];
			sub.extend(varint(l));
			layer.push(inner[0]);
			layer.extend(varint(sub.len() as u64));
			layer.extend(&sub);
			let mut t = vec![0x1a];
			t.extend(varint(layer.len() as u64));
			t.extend(&layer);
			g.push("mvt", "announced-length", t, "");
		}
		let mut s = varint(l);
		s.extend(b"abc");
		g.push("pbfstr", "announced-length", s, "");
		let mut s = vec![0x01, b'a'];
		s.extend(varint(l));
		g.push("pbfstr", "announced-length", s, "");
	}
	g.push("pbfstr", "valid", vec![3, b'a', b'b', b'c', 2, 1, 2], "");
	g.push("pbfstr", "valid", vec![2, 0xc3, 0xa9, 0], "");
	g.push("pbfstr", "non-utf8", vec![1, 0xff, 0], "");
	let mut prev: Vec<u8> = vec![];
	for i in 0..n {
		let uniq = g.rng.chance(1, 2);
		let t = imvt::gen_tile(&mut g.rng, &opts, uniq);
		let st = imvt::gen_style(&mut g.rng);
		let b = imvt::encode_tile(&t, &st);
		if b.len() > 3000 {
			continue;
		}
		if i % 5 == 0 {
			g.push("mvt", "valid", b.clone(), "");
		}
		// targeted: every k-th length varint replaced by a big value
		let offs = mvt_len_offsets(&b);
		if !offs.is_empty() {
			let (at, l) = offs[g.rng.below(offs.len() as u64) as usize];
			let mut v = b.clone();
			v.splice(at..at + l, varint(*g.rng.pick(BIG)));
			g.push("mvt", "length-field", v, "");
		}
		let (cl, m) = mutate(&mut g.rng, &b, &prev);
		g.push("mvt", cl, m, "");
		let (cl, m) = mutate(&mut g.rng, &b, &prev);
		g.push("mvt", cl, m, "");
		prev = b;
	}
}

// ---------------------------------------------------------------------------------------- codecs

fn dir_cases(g: &mut G, n: usize) {
	for i in 0..n {
		let k = g.rng.range(0, 6) as usize;
		let mut id = g.rng.below(50);
		let mut es = vec![];
		let mut off = g.rng.below(100);
		for _ in 0..k {
			let lo = if g.rng.chance(1, 8) { 0 } else { 1 };
			let len = g.rng.range(lo, 50);
			let run = g.rng.below(4);
			es.push(ifm::PmEntry { id, off, len, run });
			id += g.rng.range(1, 30);
			off += if g.rng.chance(1, 2) { len } else { len + g.rng.below(5) };
		}
		let b = ifm::serialize_dir(&es, g.rng.chance(1, 2));
		let ids: Vec<String> = es.iter().flat_map(|e| [e.id.saturating_sub(1), e.id, e.id + 1, e.id + e.run]).chain([0, u64::MAX]).map(|x| x.to_string()).collect();
		let probes = ids.join(",");
		if i % 4 == 0 {
			g.push("pmdir", "valid", b.clone(), "");
			g.push("pmfind", "valid", b.clone(), &probes);
		}
		// every varint position replaced by a big value
		let mut p = 0usize;
		let mut starts = vec![];
		while p < b.len() {
			let s = p;
			if ifm::get_varint(&b, &mut p).is_err() {
				break;
			}
			starts.push((s, p - s));
		}
		if !starts.is_empty() {
			let (at, l) = starts[g.rng.below(starts.len() as u64) as usize];
			let mut v = b.clone();
			v.splice(at..at + l, varint(*g.rng.pick(BIG)));
			g.push("pmdir", "length-field", v.clone(), "");
			g.push("pmfind", "length-field", v, &probes);
		}
		// unsorted directories
		if es.len() >= 2 {
			let mut raw = vec![];
			raw.extend(varint(es.len() as u64));
			for e in &es {
				raw.extend(varint(g.rng.below(3) + if e.id % 2 == 0 { 0 } else { e.id }));
			}
			for e in &es {
				raw.extend(varint(e.run + g.rng.below(2) * 1000));
			}
			for e in &es {
				raw.extend(varint(e.len));
			}
			for e in &es {
				raw.extend(varint(if g.rng.chance(1, 3) { 0 } else { e.off + 1 }));
			}
			g.push("pmfind", "odd-directory", raw, &probes);
		}
		let (cl, m) = mutate(&mut g.rng, &b, &[]);
		g.push("pmdir", cl, m.clone(), "");
		g.push("pmfind", cl, m, &probes);
	}
	for &l in BIG {
		// announced entry count L with no / few entries following
		let mut v = varint(l);
		g.push("pmdir", "announced-length", v.clone(), "");
		v.extend([1, 1, 1, 1, 1, 1, 1, 1]);
		g.push("pmdir", "announced-length", v, "");
		// first id diff L, second diff L (overflow), offset 0 for first entry
		let mut v = varint(2);
		v.extend(varint(l));
		v.extend(varint(l));
		v.extend([1, 1, 5, 5, 1, 0]);
		g.push("pmfind", "announced-length", v, "0,1,2");
		let mut v = varint(2);
		v.extend([1, 1, 1, 1]);
		v.extend(varint(l));
		v.extend(varint(l));
		v.extend(varint(l));
		v.push(0);
		g.push("pmfind", "announced-length", v, "0,1,2");
		let mut v = varint(1);
		v.extend([0, 1, 1, 0]);
		g.push("pmdir", "announced-length", v, "");
	}
}

fn fixed_codec_cases(g: &mut G, n: usize) {
	// versatiles block definitions (33 bytes, big endian)
	let blk = |z: u8, x: u32, y: u32, c: [u8; 4], off: u64, tl: u64, il: u32| {
		let mut v = vec![z];
		v.extend(x.to_be_bytes());
		v.extend(y.to_be_bytes());
		v.extend(c);
		v.extend(off.to_be_bytes());
		v.extend(tl.to_be_bytes());
		v.extend(il.to_be_bytes());
		v
	};
	let mut valid = vec![blk(0, 0, 0, [0, 0, 0, 0], 66, 10, 5), blk(9, 1, 1, [0, 0, 255, 255], 100, 1000, 50), blk(14, 33, 21, [3, 4, 200, 100], 5000, 1 << 20, 99), blk(31, (1 << 23) - 1, 0, [255, 255, 255, 255], 0, 0, 0)];
	for &big in BIG {
		valid.push(blk(12, 3, 4, [1, 2, 3, 4], big, big, 7));
		valid.push(blk(12, big as u32, (big >> 8) as u32, [1, 2, 3, 4], 10, 10, big as u32));
		valid.push(blk(big as u8, big as u32, 0, [9, 9, 1, 1], 1, 1, 1));
	}
	for v in &valid {
		g.push("vtblk", "structured", v.clone(), "");
	}
	for i in 0..n {
		let a = g.rng.pick(&valid).clone();
		let b = g.rng.pick(&valid).clone();
		let (cl, m) = mutate(&mut g.rng, &a, &b);
		g.push("vtblk", cl, m.clone(), "");
		let mut idx = a.clone();
		idx.extend(&b);
		if i % 3 == 0 {
			g.push("vtbidx", "structured", idx.clone(), "");
		}
		let (cl, m) = mutate(&mut g.rng, &idx, &a);
		g.push("vtbidx", cl, m, "");
		// tile index: 12-byte entries
		let k = g.rng.below(5);
		let mut ti = vec![];
		for _ in 0..k {
			ti.extend(g.rng.pick(BIG).to_be_bytes());
			ti.extend((*g.rng.pick(BIG) as u32).to_be_bytes());
		}
		g.push("vttidx", "structured", ti.clone(), "");
		let (cl, m) = mutate(&mut g.rng, &ti, &a);
		g.push("vttidx", cl, m, "");
	}
}

// ---------------------------------------------------------------------------------------- containers

fn probes_for(rng: &mut Rng, tiles: &ifm::TileMap) -> String {
	let mut qs: Vec<Coord> = tiles.keys().take(6).copied().collect();
	for (z, x, y) in tiles.keys().take(2).copied().collect::<Vec<_>>() {
		let m = (1u64 << z) as u32 - 1;
		qs.push((z, (x + 1).min(m), y));
		qs.push((z, x, y.saturating_sub(1)));
		if z < 30 {
			qs.push((z + 1, x * 2, y * 2));
		}
	}
	qs.push((0, 0, 0));
	qs.push((31, (1u32 << 31) - 1 + (1u32 << 31), 0));
	// extreme coordinates: corners of the deepest levels and of the levels in use
	qs.push((31, (1u32 << 31) - 1, (1u32 << 31) - 1));
	qs.push((31, 0, (1u32 << 31) - 1));
	qs.push((30, (1u32 << 30) - 1, 0));
	for z in tiles.keys().map(|k| k.0).collect::<std::collections::BTreeSet<u8>>().into_iter().take(3) {
		let m = ((1u64 << z) - 1) as u32;
		qs.push((z, 0, 0));
		qs.push((z, m, m));
		qs.push((z, m, 0));
	}
	let z = rng.range(0, 20) as u8;
	qs.push((z, rng.below(1 << z) as u32, rng.below(1 << z) as u32));
	probes_str(&qs)
}

/// versatiles file built by hand so that the (pre-compression) index bytes can be corrupted
fn vt_custom(meta: &[u8], block_index_raw: impl Fn(u64, u64, u32) -> Vec<u8>, tile_index_raw: &[u8], tiles: &[u8]) -> Vec<u8> {
	let mut f = vec![0u8; 66];
	f[..14].copy_from_slice(b"versatiles_v02");
	f[14] = 0x20; // pbf
	f[15] = 0; // uncompressed
	f[16] = 0;
	f[17] = 1;
	let meta_off = f.len() as u64;
	f.extend_from_slice(meta);
	let tiles_off = f.len() as u64;
	f.extend_from_slice(tiles);
	let ti = ifm::brotli_c(tile_index_raw);
	f.extend_from_slice(&ti);
	let bi = ifm::brotli_c(&block_index_raw(tiles_off, tiles.len() as u64, ti.len() as u32));
	let bi_off = f.len() as u64;
	f.extend_from_slice(&bi);
	f[34..42].copy_from_slice(&meta_off.to_be_bytes());
	f[42..50].copy_from_slice(&(meta.len() as u64).to_be_bytes());
	f[50..58].copy_from_slice(&bi_off.to_be_bytes());
	f[58..66].copy_from_slice(&(bi.len() as u64).to_be_bytes());
	f
}

fn vt_cases(g: &mut G, n: usize) {
	// hand-built files with corrupted index contents
	let blockdef = |z: u8, x: u32, y: u32, c: [u8; 4], off: u64, tl: u64, il: u32| {
		let mut v = vec![z];
		v.extend(x.to_be_bytes());
		v.extend(y.to_be_bytes());
		v.extend(c);
		v.extend(off.to_be_bytes());
		v.extend(tl.to_be_bytes());
		v.extend(il.to_be_bytes());
		v
	};
	let tiles = b"AAAABBBBCCCCDDDD".to_vec();
	let tidx = |entries: &[(u64, u32)]| {
		let mut v = vec![];
		for (o, l) in entries {
			v.extend(o.to_be_bytes());
			v.extend(l.to_be_bytes());
		}
		v
	};
	let good_ti = tidx(&[(0, 4), (4, 4), (8, 4), (12, 4)]);
	let probes = "1/0/0,1/1/0,1/0/1,1/1/1,1/1/2,0/0/0,2/0/0,2/3/3,31/2147483647/2147483647,31/0/0,30/1073741823/0";
	let meta = b"{\"name\":\"x\"}";
	// valid baseline
	g.push("vt", "valid", vt_custom(meta, |o, tl, il| blockdef(1, 0, 0, [0, 0, 1, 1], o, tl, il), &good_ti, &tiles), probes);
	g.push("vtfile", "valid", vt_custom(meta, |o, tl, il| blockdef(1, 0, 0, [0, 0, 1, 1], o, tl, il), &good_ti, &tiles), probes);
	// tile index with the wrong number of entries (assert_eq! in get_block_tile_index)
	for k in [0usize, 1, 3, 5] {
		let ti = tidx(&vec![(0u64, 4u32); k]);
		g.push("vt", "index-count", vt_custom(meta, |o, tl, il| blockdef(1, 0, 0, [0, 0, 1, 1], o, tl, il), &ti, &tiles), probes);
	}
	for &big in BIG {
		// tile ranges far outside the file / overflowing when the block offset is added
		let ti = tidx(&[(big, 4), (4, big as u32), (big, big as u32), (12, 4)]);
		g.push("vt", "length-field", vt_custom(meta, |o, tl, il| blockdef(1, 0, 0, [0, 0, 1, 1], o, tl, il), &ti, &tiles), probes);
		g.push("vtfile", "length-field", vt_custom(meta, |o, tl, il| blockdef(1, 0, 0, [0, 0, 1, 1], o, tl, il), &ti, &tiles), probes);
		// block definition with big offset / lengths / coordinates
		g.push("vt", "length-field", vt_custom(meta, |_, tl, il| blockdef(1, 0, 0, [0, 0, 1, 1], big, tl, il), &good_ti, &tiles), probes);
		g.push("vt", "length-field", vt_custom(meta, |o, _, il| blockdef(1, 0, 0, [0, 0, 1, 1], o, big, il), &good_ti, &tiles), probes);
		g.push("vt", "length-field", vt_custom(meta, |o, tl, _| blockdef(1, 0, 0, [0, 0, 1, 1], o, tl, big as u32), &good_ti, &tiles), probes);
		g.push("vt", "length-field", vt_custom(meta, |o, tl, il| blockdef(1, big as u32, (big >> 16) as u32, [0, 0, 1, 1], o, tl, il), &good_ti, &tiles), probes);
		g.push("vtfile", "length-field", vt_custom(meta, |o, _, il| blockdef(1, 0, 0, [0, 0, 1, 1], o, big, il), &good_ti, &tiles), probes);
		// header ranges
		let base = vt_custom(meta, |o, tl, il| blockdef(1, 0, 0, [0, 0, 1, 1], o, tl, il), &good_ti, &tiles);
		for at in [34usize, 42, 50, 58] {
			let mut v = base.clone();
			v[at..at + 8].copy_from_slice(&big.to_be_bytes());
			g.push("vt", "length-field", v.clone(), probes);
			g.push("vtfile", "length-field", v.clone(), probes);
			if v.len() >= 66 {
				g.push("vthdr", "length-field", v[..66].to_vec(), "");
			}
		}
	}
	// coverage box larger than the zoom level, reversed boxes, z > 31
	for c in [[0u8, 0, 255, 255], [1, 1, 0, 0], [0, 0, 3, 3]] {
		for z in [0u8, 1, 8, 32, 255] {
			g.push("vt", "odd-block", vt_custom(meta, |o, tl, il| blockdef(z, 0, 0, c, o, tl, il), &good_ti, &tiles), probes);
		}
	}
	// non-UTF-8 / broken metadata
	for m in [&[0xffu8, 0xfe][..], b"{\"a\":\"\xc3", b"[1,2", b"{\"bounds\":[1]}", "{\"name\":\"ééééééééééééééé\" x".as_bytes()] {
		g.push("vt", "bad-meta", vt_custom(m, |o, tl, il| blockdef(1, 0, 0, [0, 0, 1, 1], o, tl, il), &good_ti, &tiles), probes);
	}
	// files from the independent encoder, byte-level mutants (concentrated on header and trailing block index)
	let mut prev: Vec<u8> = vec![];
	for i in 0..n {
		let tiles = gen_tiles(&mut g.rng, false);
		let mut ch = ifm::VtChoices::plain(*g.rng.pick(&[ifm::Fmt::Pbf, ifm::Fmt::Png]), *g.rng.pick(&[ifm::Comp::None, ifm::Comp::Gzip, ifm::Comp::Brotli]));
		if g.rng.chance(1, 2) {
			ch.meta = Some(b"{\"name\":\"stra\xc3\x9fe\"}".to_vec());
		}
		// layout freedoms of the independent encoder (not only what /repo's writer emits)
		ch.range_mode = g.rng.below(3) as u8;
		ch.empty_block = g.rng.chance(1, 3);
		ch.shuffle_blocks = g.rng.chance(1, 2);
		ch.shuffle_index = g.rng.chance(1, 2);
		ch.share = g.rng.chance(1, 2);
		ch.max_gap = g.rng.below(3) as usize * 7;
		let mut r2 = g.rng.fork();
		let enc = ifm::encode_versatiles(&tiles, &ch, &mut r2);
		let b = enc.bytes;
		if b.len() > 60_000 {
			continue;
		}
		let probes = probes_for(&mut g.rng, &tiles);
		if i % 6 == 0 {
			g.push("vt", "valid", b.clone(), &probes);
			g.push("vthdr", "valid", b[..66].to_vec(), "");
		}
		for _ in 0..3 {
			let (cl, mut m) = mutate(&mut g.rng, &b, &prev);
			if g.rng.chance(1, 2) && b.len() > 80 {
				// redo the mutation inside the header or the tail
				let mut v = b.clone();
				let at = if g.rng.chance(1, 2) { g.rng.below(66) as usize } else { b.len() - 1 - g.rng.below(40.min(b.len() as u64 - 1)) as usize };
				v[at] ^= 1 << g.rng.below(8);
				m = v;
			}
			g.push("vt", cl, m.clone(), &probes);
			if m.len() >= 66 && g.rng.chance(1, 4) {
				g.push("vthdr", cl, m[..66].to_vec(), "");
			}
		}
		let (cl, m) = mutate(&mut g.rng, &b[..66.min(b.len())], &prev);
		g.push("vthdr", cl, m, "");
		prev = b;
	}
}

fn pm_header(root: (u64, u64), meta: (u64, u64), leaves: (u64, u64), data: (u64, u64), icomp: u8) -> Vec<u8> {
	let mut h = b"PMTiles".to_vec();
	h.push(3);
	for (a, b) in [root, meta, leaves, data] {
		h.extend(a.to_le_bytes());
		h.extend(b.to_le_bytes());
	}
	for _ in 0..3 {
		h.extend(1u64.to_le_bytes());
	}
	h.push(1); // clustered
	h.push(icomp); // internal compression (1 = none, 2 = gzip)
	h.push(1); // tile compression none
	h.push(1); // mvt
	h.push(0);
	h.push(3);
	for v in [-1800000000i32, -850000000, 1800000000, 850000000] {
		h.extend(v.to_le_bytes());
	}
	h.push(0);
	h.extend(0i32.to_le_bytes());
	h.extend(0i32.to_le_bytes());
	assert_eq!(h.len(), 127);
	h
}

/// uncompressed PMTiles file from raw directory bytes
fn pm_custom(root: &[u8], meta: &[u8], leaves: &[u8], data: &[u8]) -> Vec<u8> {
	let r = (127u64, root.len() as u64);
	let m = (r.0 + r.1, meta.len() as u64);
	let l = (m.0 + m.1, leaves.len() as u64);
	let d = (l.0 + l.1, data.len() as u64);
	let mut f = pm_header(r, m, l, d, 1);
	f.extend_from_slice(root);
	f.extend_from_slice(meta);
	f.extend_from_slice(leaves);
	f.extend_from_slice(data);
	f
}

fn pm_cases(g: &mut G, n: usize, _thorough: bool) {
	let e = |id, off, len, run| ifm::PmEntry { id, off, len, run };
	let probes = "0/0/0,1/0/0,1/1/1,2/1/1,3/4/4,3/7/7,10/5/5,31/2147483647/2147483647,31/0/2147483647,30/0/0";
	let data = b"AAAABBBBCCCC";
	let meta = b"{}";
	let root = ifm::serialize_dir(&[e(0, 0, 4, 1), e(1, 4, 4, 2), e(5, 8, 4, 1)], true);
	g.push("pm", "valid", pm_custom(&root, meta, &[], data), probes);
	g.push("pmfile", "valid", pm_custom(&root, meta, &[], data), probes);
	g.push("pmhdr", "valid", pm_custom(&root, meta, &[], data)[..127].to_vec(), "");
	// self-referential leaf directory: the leaf section IS a directory whose only entry points to itself
	let leaf = ifm::serialize_dir(&[e(0, 0, 0, 0)], false); // placeholder to learn the length
	let selfdir = ifm::serialize_dir(&[e(0, 0, leaf.len() as u64, 0)], false);
	assert_eq!(selfdir.len(), leaf.len());
	g.push("pm", "self-referential-leaf", pm_custom(&selfdir, meta, &selfdir, data), probes);
	// a chain of 40 nested leaves (deeper than any writer produces)
	{
		let mut leaves: Vec<u8> = vec![];
		let mut entries: Vec<(u64, u64)> = vec![];
		let tile_dir = ifm::serialize_dir(&[e(0, 0, 4, 1)], false);
		entries.push((0, tile_dir.len() as u64));
		leaves.extend(&tile_dir);
		for _ in 0..40 {
			let (o, l) = *entries.last().unwrap();
			let d = ifm::serialize_dir(&[e(0, o, l, 0)], false);
			entries.push((leaves.len() as u64, d.len() as u64));
			leaves.extend(&d);
		}
		let (o, l) = *entries.last().unwrap();
		let rootd = ifm::serialize_dir(&[e(0, o, l, 0)], false);
		g.push("pm", "deep-leaves", pm_custom(&rootd, meta, &leaves, data), probes);
	}
	for &big in BIG {
		// run lengths, ids, offsets and lengths at the integer boundaries
		let variants: Vec<Vec<ifm::PmEntry>> = vec![
			vec![e(0, 0, 4, big)],
			vec![e(big.min(u64::MAX - 3), 0, 4, 3)],
			vec![e(0, big.min(u64::MAX - 1), 4, 1)],
			vec![e(0, 0, big, 1)],
			vec![e(0, 4, big, 1), e(1, 0, 4, 1)],
			vec![e(0, 0, big, 0)],
			vec![e(0, big.min(u64::MAX - 1), big, 0)],
		];
		for es in variants {
			// (a run length of ~2^31 made `open` loop for minutes before /repo 0189261d)
			let root = ifm::serialize_dir(&es, false);
			g.push("pm", "length-field", pm_custom(&root, meta, &[], data), probes);
			g.push("pmfind", "length-field", root.clone(), "0,1,2,3,4,5");
		}
		// header ranges
		let base = pm_custom(&root, meta, &[], data);
		for at in (8..72).step_by(8) {
			let mut v = base.clone();
			v[at..at + 8].copy_from_slice(&big.to_le_bytes());
			g.push("pm", "length-field", v.clone(), probes);
			if at % 16 == 0 {
				g.push("pmfile", "length-field", v.clone(), probes);
			}
			g.push("pmhdr", "length-field", v[..127].to_vec(), "");
		}
	}
	// every header byte set to a few values
	let base = pm_custom(&root, meta, &[], data);
	for at in 0..127 {
		for val in [0u8, 1, 2, 5, 0x80, 0xff] {
			if base[at] != val {
				let mut v = base[..127].to_vec();
				v[at] = val;
				g.push("pmhdr", "byte", v, "");
				if at >= 97 && val != 0xff {
					let mut f = base.clone();
					f[at] = val;
					g.push("pm", "byte", f, probes);
				}
			}
		}
	}
	for m in [&[0xffu8][..], b"{\"a\":\"\xe2\x82", "[\"ééééééééééééééééé\" x".as_bytes()] {
		g.push("pm", "bad-meta", pm_custom(&root, m, &[], data), probes);
	}
	let mut prev: Vec<u8> = vec![];
	for i in 0..n {
		let tiles = gen_tiles(&mut g.rng, false);
		let mut ch = ifm::PmChoices::plain(1, *g.rng.pick(&[1u8, 2, 3]));
		ch.icomp = *g.rng.pick(&[ifm::Comp::None, ifm::Comp::None, ifm::Comp::Gzip]);
		ch.levels = *g.rng.pick(&[1u8, 2, 3]);
		ch.merge_runs = g.rng.chance(1, 2);
		ch.share = g.rng.chance(1, 2);
		ch.offset_zero = g.rng.chance(1, 2);
		ch.mixed_root = g.rng.chance(1, 3);
		ch.clustered = g.rng.chance(1, 2);
		ch.counts_zero = g.rng.chance(1, 3);
		ch.max_gap = g.rng.below(3) as usize * 5;
		ch.section_order = *g.rng.pick(&[[0u8, 2, 1], [0, 1, 2], [1, 0, 2], [2, 1, 0]]);
		let mut r2 = g.rng.fork();
		let enc = ifm::encode_pmtiles(&tiles, &ch, &mut r2);
		let b = enc.bytes;
		if b.len() > 60_000 || b.len() < 127 {
			continue;
		}
		let probes = probes_for(&mut g.rng, &tiles);
		if i % 6 == 0 {
			g.push("pm", "valid", b.clone(), &probes);
		}
		for _ in 0..3 {
			let (cl, mut m) = mutate(&mut g.rng, &b, &prev);
			if g.rng.chance(1, 2) {
				// mutate inside the header or the root directory instead
				let root_off = u64::from_le_bytes(b[8..16].try_into().unwrap()) as usize;
				let root_len = u64::from_le_bytes(b[16..24].try_into().unwrap()) as usize;
				let mut v = b.clone();
				if g.rng.chance(1, 2) && root_len > 0 && root_off + root_len <= v.len() {
					let at = root_off + g.rng.below(root_len as u64) as usize;
					if g.rng.chance(1, 2) {
						v[at] ^= 1 << g.rng.below(8);
					} else {
						let big = varint(*g.rng.pick(BIG));
						let end = (at + 1).min(v.len());
						v.splice(at..end, big);
					}
				} else {
					let at = g.rng.below(127) as usize;
					v[at] ^= 1 << g.rng.below(8);
				}
				m = v;
			}
			g.push("pm", cl, m, &probes);
		}
		prev = b;
	}
}

fn sqlite_variant(dir: &std::path::Path, base: &[u8], sql: &str) -> Option<Vec<u8>> {
	let p = dir.join("variant.mbtiles");
	std::fs::write(&p, base).ok()?;
	{
		let conn = rusqlite::Connection::open(&p).ok()?;
		let _ = conn.execute_batch(sql);
	}
	let b = std::fs::read(&p).ok();
	let _ = std::fs::remove_file(&p);
	b
}

const MB_SQL: &[&str] = &[
	"UPDATE metadata SET value = 'foo' WHERE name = 'format';",
	"DELETE FROM metadata WHERE name = 'format';",
	"DELETE FROM metadata;",
	"DROP TABLE metadata;",
	"UPDATE metadata SET value = NULL;",
	"UPDATE metadata SET name = NULL;",
	"UPDATE metadata SET value = CAST(x'fffe' AS TEXT) WHERE name = 'format';",
	"INSERT INTO metadata VALUES ('json', CAST(x'7b22c3' AS TEXT));",
	"INSERT INTO metadata VALUES ('json', '{\"vector_layers\":[{\"id\":1}]}');",
	"INSERT INTO metadata VALUES ('json', '[\"ééééééééééééééééééé\" x');",
	"INSERT INTO metadata VALUES ('bounds', '1,2,3'); INSERT INTO metadata VALUES ('center', 'a,b'); INSERT INTO metadata VALUES ('minzoom', 'x'); INSERT INTO metadata VALUES ('maxzoom', '999');",
	"INSERT INTO metadata VALUES ('bounds', '1e400,-1e400,nan,inf');",
	"INSERT INTO metadata VALUES (x'ff', x'ff');",
	"UPDATE tiles SET zoom_level = 200;",
	"UPDATE tiles SET zoom_level = 32;",
	"UPDATE tiles SET zoom_level = 31;",
	"UPDATE tiles SET zoom_level = -1;",
	"UPDATE tiles SET zoom_level = 9223372036854775807;",
	"UPDATE tiles SET zoom_level = NULL;",
	"UPDATE tiles SET zoom_level = 'abc';",
	"UPDATE tiles SET tile_column = 4294967296;",
	"UPDATE tiles SET tile_column = -1;",
	"UPDATE tiles SET tile_row = 9223372036854775807;",
	"UPDATE tiles SET tile_row = -9223372036854775808;",
	"UPDATE tiles SET tile_column = NULL;",
	"UPDATE tiles SET tile_column = 1.5, tile_row = 'x';",
	"UPDATE tiles SET tile_data = NULL;",
	"UPDATE tiles SET tile_data = 'text';",
	"UPDATE tiles SET tile_data = 12345;",
	"DELETE FROM tiles;",
	"DROP TABLE tiles;",
	"DROP TABLE tiles; CREATE TABLE tiles (a, b);",
	"DROP TABLE tiles; CREATE TABLE tiles (zoom_level text, tile_column text, tile_row text, tile_data text); INSERT INTO tiles VALUES ('1','0','0','x');",
	"INSERT INTO tiles VALUES (40, 1099511627775, 1099511627775, x'00');",
	"INSERT INTO tiles VALUES (0, 5, 5, x'00');",
];

fn mb_cases(g: &mut G, dir: &std::path::Path, n: usize) {
	std::fs::create_dir_all(dir).unwrap();
	let mut bases: Vec<(Vec<u8>, String)> = vec![];
	for i in 0..3 {
		let mut tiles = gen_tiles(&mut g.rng, false);
		tiles.retain(|_, p| !p.is_empty());
		if tiles.is_empty() {
			tiles.insert((1, 0, 0), vec![1, 2, 3]);
		}
		let ch = ifm::MbChoices { fmt: *g.rng.pick(&[ifm::Fmt::Pbf, ifm::Fmt::Png]), as_view: i == 2, with_index: true, extra_meta: vec![("name".into(), "straße".into())], shuffle_rows: false };
		let p = dir.join("base.mbtiles");
		let mut r2 = g.rng.fork();
		if ifm::encode_mbtiles(&p, &ifm::tiles_to_rows(&tiles), &ch, &mut r2).is_ok() {
			if let Ok(b) = std::fs::read(&p) {
				let probes = probes_for(&mut g.rng, &tiles);
				g.push("mb", "valid", b.clone(), &probes);
				bases.push((b, probes));
			}
		}
		let _ = std::fs::remove_file(&p);
	}
	if bases.is_empty() {
		return;
	}
	for (k, sql) in MB_SQL.iter().enumerate() {
		let (b, probes) = &bases[k % bases.len().min(2)];
		if let Some(v) = sqlite_variant(dir, b, sql) {
			g.push("mb", "sqlite-rows", v, probes);
		}
	}
	for _ in 0..n {
		let (b, probes) = g.rng.pick(&bases).clone();
		let (cl, mut m) = mutate(&mut g.rng, &b, &[]);
		if g.rng.chance(2, 3) {
			// SQLite header / first page / a cell area
			let mut v = b.clone();
			let k = g.rng.range(1, 4);
			for _ in 0..k {
				let at = if g.rng.chance(1, 2) { g.rng.below(100) as usize } else { g.rng.below(v.len() as u64) as usize };
				v[at] = g.rng.next() as u8;
			}
			m = v;
		}
		g.push("mb", cl, m, &probes);
	}
}

fn tar_cases(g: &mut G, n: usize) {
	let names: &[&str] = &[
		"1/0/0.pbf", "1/1/1.pbf", "./2/1/1.pbf", "tiles.json", "meta.json", "1/0/1.pbf.gz", "1/1/0.pbf.br", "3/1/2.png", "x/y/z.pbf", "1/2.pbf", "1/0/0", "99/0/0.pbf", "4294967296/1/1.pbf",
		"1/4294967296/0.pbf", "1/0/99999999999999999999.pbf", "-1/0/0.pbf", "1/0/0.foo", "1/0/0.pbf.zip", "tiles.json.gz", "tiles.json.br", "a/b/c/d.pbf", "1//0.pbf", "٣/٣/٣.pbf", "1/0/0.PBF", ".pbf",
		"1/0/.pbf", "31/2147483648/0.pbf", "32/0/0.pbf", "255/0/0.pbf", "256/0/0.pbf", "straße/日本/🙂.pbf",
	];
	let metas: &[&[u8]] = &[b"{\"name\":\"x\"}", b"{", &[0xff, 0xfe], b"[1,2,3]", "{\"a\":\"éééééééééééééééé\" x".as_bytes(), b"{\"vector_layers\":7}", b""];
	for i in 0..n {
		let k = g.rng.range(1, 6);
		let mut members = vec![];
		for _ in 0..k {
			let name = *g.rng.pick(names);
			let data: Vec<u8> = if name.contains("json") {
				let m = g.rng.pick(metas).to_vec();
				if name.ends_with(".gz") && g.rng.chance(1, 2) {
					ifm::gzip(&m)
				} else if name.ends_with(".br") && g.rng.chance(1, 2) {
					ifm::brotli_c(&m)
				} else {
					m
				}
			} else {
				let len = g.rng.below(20) as usize;
				g.rng.bytes(len)
			};
			let mut m = ifm::TarMember::file(name, &data);
			if g.rng.chance(1, 10) {
				m.name = vec![b'1', b'/', 0xff, b'/', b'0', b'.', b'p', b'b', b'f'];
			}
			if g.rng.chance(1, 10) {
				m.typeflag = *g.rng.pick(&[b'5', b'2', b'1', b'x']);
			}
			members.push(m);
		}
		let Ok(b) = ifm::encode_tar(&members, 0) else { continue };
		let probes = "1/0/0,1/1/1,1/0/1,1/1/0,2/1/1,3/1/2,0/0/0,31/2147483648/0";
		if i % 3 == 0 {
			g.push("tar", "structured", b.clone(), probes);
			g.push("dir", "structured", b.clone(), probes);
		}
		let (cl, mut m) = mutate(&mut g.rng, &b, &[]);
		if g.rng.chance(1, 2) {
			// corrupt a header field: size (124..136), checksum (148..156), typeflag (156), name
			let mut v = b.clone();
			let at = *g.rng.pick(&[0usize, 50, 99, 100, 124, 125, 134, 135, 148, 156, 257, 345]);
			v[at] = *g.rng.pick(&[0u8, b'7', b'9', 0x80, 0xff, b' ', b'/']);
			if g.rng.chance(1, 2) {
				// size field = 77777777777 (8 GiB) or base-256 huge
				let f: &[u8] = if g.rng.chance(1, 2) { b"77777777777\0" } else { &[0x80, 0x7f, 0xff, 0xff, 0xff, 0xff, 0xff, 0xff, 0xff, 0xff, 0xff, 0xff] };
				v[124..136].copy_from_slice(f);
				// keep the checksum valid so that the size is actually used
				for c in &mut v[148..156] {
					*c = b' ';
				}
				let sum: u32 = v[..512].iter().map(|x| *x as u32).sum();
				let s = format!("{:06o}\0 ", sum);
				v[148..156].copy_from_slice(s.as_bytes());
			}
			m = v;
		}
		g.push("tar", cl, m, probes);
	}
}

/// documents of every text decoder with a 2/3/4-byte character straddling an ABSOLUTE byte offset B
/// (buffers, error-context truncation, ring buffers are indexed from the start of the document, not
/// from the error site): malformed with the error before and after B, and valid ones
fn absolute_offsets(g: &mut G) {
	const OFFS: &[usize] = &[16, 32, 64, 100, 128, 255, 256, 257, 512, 1000, 1024, 4096];
	let chars: &[&str] = &["é", "€", "😀"];
	for &b0 in OFFS {
		for d in [-1i64, 0, 1] {
			let b = (b0 as i64 + d) as usize;
			for ch in chars {
				let w = ch.len();
				// the character starts at `start`, start < b < start + w
				for start in (b + 1 - w)..b {
					// (prefix, suffix variants) per decoder; the string content begins right after the prefix
					let fill = |prefix: &str, tail: &str| -> Option<Vec<u8>> {
						if start < prefix.len() {
							return None;
						}
						let mut s = String::from(prefix);
						s.push_str(&"a".repeat(start - prefix.len()));
						debug_assert_eq!(s.len(), start);
						s.push_str(ch);
						s.push_str("bbbbbbbbbbbb");
						s.push_str(tail);
						Some(s.into_bytes())
					};
					let mut put = |g: &mut G, ep: &'static str, class: &'static str, v: Option<Vec<u8>>| {
						if let Some(v) = v {
							g.push(ep, class, v, if ep == "vplfile" { "1/0/0" } else { "" });
						}
					};
					// JSON
					for ep in ["json", "jsonstr"] {
						put(g, ep, "abs-offset-valid", fill("[\"", "\"]"));
						put(g, ep, "abs-offset-err-after", fill("[\"", "\" x"));
						put(g, ep, "abs-offset-err-after", fill("[\"", ""));
						put(g, ep, "abs-offset-err-before", fill("[x,\"", "\"]"));
						put(g, ep, "abs-offset-err-after", fill("{\"k\":\"", "\",}"));
					}
					// TileJSON (well-formed JSON of the wrong shape as well)
					put(g, "tilejson", "abs-offset-valid", fill("{\"name\":\"", "\"}"));
					put(g, "tilejson", "abs-offset-err-after", fill("{\"name\":\"", "\" x"));
					put(g, "tilejson", "abs-offset-err-before", fill("{\"bounds\":1 \"", "\"}"));
					put(g, "tilejson", "abs-offset-err-after", fill("{\"bounds\":\"", "\"}"));
					// CSV
					for ep in ["csv", "buildcsv"] {
						put(g, ep, "abs-offset-valid", fill("id,n\n1,", "\n"));
						put(g, ep, "abs-offset-err-after", fill("id,n\n1,\"", "\"x\n"));
						put(g, ep, "abs-offset-err-after", fill("id,n\n1,\"", ""));
						put(g, ep, "abs-offset-err-before", fill("id,n\n\"1\"x,", "\n"));
					}
					// VPL
					for ep in ["vpl", "build", "vplfile"] {
						put(g, ep, "abs-offset-valid", fill("from_container filename=\"", "\""));
						put(g, ep, "abs-offset-err-after", fill("from_container filename=\"", "\" |"));
						put(g, ep, "abs-offset-err-after", fill("from_container filename=\"", ""));
						put(g, ep, "abs-offset-err-before", fill("from_container = filename=\"", "\""));
					}
				}
			}
		}
	}
}

/// nesting of source lists right at / beyond the limit of `parse_vpl`, AFTER lexically tricky text
/// (the limit is enforced by a lexical pre-scan that tracks quotes and escapes)
fn vpl_limit(g: &mut G, thorough: bool) {
	let prefixes: &[&str] = &[
		"",
		"x=\"C:\\\\\"",
		"x=\"\\\\\"",
		"x=\"\\\\\\\\\"",
		"x=\"\\\"\"",
		"x=\"\\\\\\\"\"",
		"x=\"a\\\"[\\\"b\"",
		"x=\"[[[[\"",
		"x=\"]]]]\"",
		"x=\"\"",
		"x=\"é\\\\\"",
		"x=\"\\n\\t\\\\\"",
		"x=a.b-c_d",
		"x=[a,\"[\",\"\\\\\",b]",
		"x=\"\\\\\" y=\"\\\\\"",
		"x=\"\\\\\" y=\"[\"",
	];
	let nest = |prefix: &str, d: usize| -> Vec<u8> {
		// node `a` with the property and `d` levels of source lists
		let mut s = format!("a {prefix} [");
		s.push_str(&"a[".repeat(d - 1));
		s.push('a');
		s.push_str(&"]".repeat(d));
		s.into_bytes()
	};
	for p in prefixes {
		for d in [1usize, 2, 63, 64] {
			g.push("vpl", "nesting-limit-ok", nest(p, d), "");
		}
		for d in [65usize, 66, 100, 200] {
			g.push("vpllimit", "nesting-limit", nest(p, d), "");
			g.push("vpl", "nesting-limit", nest(p, d), "");
		}
		g.push("build", "nesting-limit", nest(p, 65), "");
		g.push("vplfile", "nesting-limit", nest(p, 65), "1/0/0");
		// the crash probe (child process): far beyond any stack
		let deep = if thorough { 20000 } else { 5000 };
		g.push("vpllimit", "nesting-deep", nest(p, deep), "");
	}
	// the limit is on the depth, not on the number of brackets: many sibling lists at depth 1-2
	for n in [64usize, 65, 66, 200] {
		let sib = format!("a [{}]", vec!["a"; n].join(","));
		let sib2 = format!("a [{}]", vec!["a[a]"; n].join(","));
		let arrs = format!("a {}", (0..n).map(|i| format!("p{i}=[1,2]")).collect::<Vec<_>>().join(" "));
		for t in [sib, sib2, arrs] {
			g.push("vpl", "limit-vs-count", t.clone().into_bytes(), "");
			g.push("build", "limit-vs-count", t.into_bytes(), "");
		}
	}
	// the tricky text inside the nesting as well
	for p in prefixes.iter().skip(1) {
		let mut s = String::new();
		for _ in 0..65 {
			s.push_str(&format!("a {p} ["));
		}
		s.push('a');
		s.push_str(&"]".repeat(65));
		g.push("vpllimit", "nesting-limit", s.into_bytes(), "");
	}
}

// ---------------------------------------------------------------------------------------- checklist classes

fn small_vt() -> (Vec<u8>, &'static str) {
	let blockdef = |o: u64, tl: u64, il: u32| {
		let mut v = vec![1u8];
		v.extend(0u32.to_be_bytes());
		v.extend(0u32.to_be_bytes());
		v.extend([0u8, 0, 1, 1]);
		v.extend(o.to_be_bytes());
		v.extend(tl.to_be_bytes());
		v.extend(il.to_be_bytes());
		v
	};
	let mut ti = vec![];
	for (o, l) in [(0u64, 4u32), (4, 4), (8, 4), (12, 4)] {
		ti.extend(o.to_be_bytes());
		ti.extend(l.to_be_bytes());
	}
	(vt_custom(b"{\"name\":\"x\"}", |o, tl, il| blockdef(o, tl, il), &ti, b"AAAABBBBCCCCDDDD"), "1/0/0,1/1/0,1/0/1,1/1/1,0/0/0,2/0/0")
}

/// uncompressed PMTiles with a root directory, one leaf directory and two tiles
fn small_pm() -> (Vec<u8>, &'static str) {
	let e = |id, off, len, run| ifm::PmEntry { id, off, len, run };
	let leaf = ifm::serialize_dir(&[e(1, 0, 4, 2), e(4, 4, 4, 1)], true);
	let root = ifm::serialize_dir(&[e(0, 8, 4, 1), e(1, 0, leaf.len() as u64, 0)], false);
	(pm_custom(&root, b"{}", &leaf, b"AAAABBBBCCCC"), "0/0/0,1/0/0,1/0/1,1/1/1,1/1/0,2/0/0")
}

/// class 2 (before open): damage at EVERY position of two small containers — every single bit,
/// every truncation length, every 8-byte window zeroed or set to ff, extension by 1 / 100 bytes
fn structural_damage(g: &mut G, thorough: bool) {
	for (ep, epf, (base, probes)) in [("vt", "vtfile", small_vt()), ("pm", "pmfile", small_pm())] {
		g.push(ep, "valid", base.clone(), probes);
		for at in 0..base.len() {
			for bit in 0..8 {
				let mut v = base.clone();
				v[at] ^= 1 << bit;
				g.push(ep, "every-bit", v.clone(), probes);
				if thorough && bit % 3 == 0 {
					g.push(epf, "every-bit", v, probes);
				}
			}
			g.push(ep, "every-truncation", base[..at].to_vec(), probes);
			if at % 4 == 0 {
				g.push(epf, "every-truncation", base[..at].to_vec(), probes);
			}
			if at + 8 <= base.len() {
				for fill in [0u8, 0xff] {
					let mut v = base.clone();
					for x in &mut v[at..at + 8] {
						*x = fill;
					}
					g.push(ep, "every-window", v, probes);
				}
			}
			if at + 4 <= base.len() {
				for val in [u32::MAX, u32::MAX - 1, 0x8000_0000, 65535, 65536] {
					for be in [true, false] {
						let mut v = base.clone();
						v[at..at + 4].copy_from_slice(&if be { val.to_be_bytes() } else { val.to_le_bytes() });
						g.push(ep, "every-u32", v, probes);
					}
				}
			}
		}
		for extra in [1usize, 100] {
			let mut v = base.clone();
			v.extend(std::iter::repeat(0u8).take(extra));
			g.push(ep, "extend", v.clone(), probes);
			g.push(epf, "extend", v, probes);
		}
	}
}

/// class 2 (after open): the file changes underneath an opened reader with warm caches
fn after_open(g: &mut G, scratch: &std::path::Path) {
	let damages = |len: usize| -> Vec<String> {
		let mut v = vec!["t0".to_string(), "t1".into(), "z".into(), "g".into(), "d".into(), "x1".into(), "x4096".into()];
		for k in [16usize, 65, 66, 67, 126, 127, 128, 512, 4096, len / 2, len.saturating_sub(1)] {
			if k < len {
				v.push(format!("t{k}"));
			}
		}
		v
	};
	let (vt, vtp) = small_vt();
	let (pm, pmp) = small_pm();
	for d in damages(vt.len()) {
		g.push("vtfile", "after-open", vt.clone(), &format!("{d}|{vtp}"));
	}
	for d in damages(pm.len()) {
		g.push("pmfile", "after-open", pm.clone(), &format!("{d}|{pmp}"));
	}
	// larger containers from the independent encoders
	for i in 0..6 {
		let tiles = gen_tiles(&mut g.rng, false);
		let probes = probes_for(&mut g.rng, &tiles);
		let mut r2 = g.rng.fork();
		let b = if i % 2 == 0 {
			ifm::encode_versatiles(&tiles, &ifm::VtChoices::plain(ifm::Fmt::Pbf, ifm::Comp::Gzip), &mut r2).bytes
		} else {
			let mut ch = ifm::PmChoices::plain(1, 2);
			ch.levels = 2;
			ifm::encode_pmtiles(&tiles, &ch, &mut r2).bytes
		};
		if b.len() > 60_000 {
			continue;
		}
		for d in damages(b.len()) {
			g.push(if i % 2 == 0 { "vtfile" } else { "pmfile" }, "after-open", b.clone(), &format!("{d}|{probes}"));
		}
	}
	// tar / directory
	let members = vec![ifm::TarMember::file("1/0/0.pbf", b"AAAA"), ifm::TarMember::file("1/1/1.pbf", b"BBBB"), ifm::TarMember::file("tiles.json", b"{\"name\":\"x\"}")];
	if let Ok(t) = ifm::encode_tar(&members, 0) {
		for d in damages(t.len()) {
			g.push("tar", "after-open", t.clone(), &format!("{d}|1/0/0,1/1/1,1/0/1,0/0/0"));
		}
		for d in ["d", "z"] {
			g.push("dir", "after-open", t.clone(), &format!("{d}|1/0/0,1/1/1,1/0/1,0/0/0"));
		}
	}
	// mbtiles (few: every case starts connection pools)
	std::fs::create_dir_all(scratch).unwrap();
	let mut tiles = ifm::TileMap::new();
	tiles.insert((1, 0, 0), b"AAAA".to_vec());
	tiles.insert((1, 1, 1), b"BBBB".to_vec());
	let ch = ifm::MbChoices { fmt: ifm::Fmt::Png, as_view: false, with_index: true, extra_meta: vec![], shuffle_rows: false };
	let p = scratch.join("after.mbtiles");
	let mut r2 = g.rng.fork();
	if ifm::encode_mbtiles(&p, &ifm::tiles_to_rows(&tiles), &ch, &mut r2).is_ok() {
		if let Ok(b) = std::fs::read(&p) {
			for d in ["t0", "t100", "t4096", "t4097", "z", "g", "d", "x1"] {
				g.push("mb", "after-open", b.clone(), &format!("{d}|1/0/0,1/1/1,1/0/1,0/0/0"));
			}
			// class 1: SQLite page boundaries and the page-size field of the header
			for cut in [99usize, 100, 101, 4095, 4096, 4097, 8191, 8192, 8193] {
				if cut < b.len() {
					g.push("mb", "page-boundary", b[..cut].to_vec(), "1/0/0,1/1/1");
				}
			}
			for (hi, lo) in [(0u8, 0u8), (0, 1), (2, 0), (16, 0), (16, 1), (0xff, 0xff), (0x80, 0)] {
				let mut v = b.clone();
				v[16] = hi;
				v[17] = lo;
				g.push("mb", "page-boundary", v, "1/0/0,1/1/1");
			}
		}
	}
	let _ = std::fs::remove_file(&p);
}

fn long_varint(mut v: u64, width: usize) -> Vec<u8> {
	// non-minimal encoding padded with continuation bytes to `width` bytes
	let mut o = vec![];
	for i in 0..width {
		let b = (v & 0x7f) as u8;
		v >>= 7;
		o.push(if i + 1 < width { b | 0x80 } else { b });
	}
	o
}

/// class 1: the literals and bounds on the open / lookup paths
fn thresholds(g: &mut G) {
	// --- versatiles header: every byte x a few values; length 65/66/67; ranges at file_len±1 and u32 borders
	let (vt, vtp) = small_vt();
	for at in 0..66 {
		for val in [0u8, 1, 2, 3, 0x10, 0x14, 0x15, 0x20, 0x23, 0x24, 0x7f, 0x80, 0xff] {
			if vt[at] != val {
				let mut v = vt.clone();
				v[at] = val;
				g.push("vthdr", "every-header-byte", v[..66].to_vec(), "");
				if at >= 14 {
					g.push("vt", "every-header-byte", v, vtp);
				}
			}
		}
	}
	for l in [0usize, 1, 13, 14, 65, 67] {
		let mut v = vt[..l.min(vt.len())].to_vec();
		v.resize(l, 0);
		g.push("vthdr", "header-length", v.clone(), "");
		g.push("vt", "header-length", v, vtp);
	}
	let flen = vt.len() as u64;
	let near: Vec<u64> = vec![flen - 1, flen, flen + 1, u32::MAX as u64 - 1, u32::MAX as u64, u32::MAX as u64 + 1, i32::MAX as u64, i32::MAX as u64 + 1, 65535, 65536, 0];
	for &x in &near {
		for at in [34usize, 42, 50, 58] {
			let mut v = vt.clone();
			v[at..at + 8].copy_from_slice(&x.to_be_bytes());
			g.push("vt", "range-at-file-length", v.clone(), vtp);
			g.push("vtfile", "range-at-file-length", v, vtp);
		}
		// offset + length exactly at / one beyond the end of the file
		for at in [34usize, 50] {
			let off = u64::from_be_bytes(vt[at..at + 8].try_into().unwrap());
			for end in [flen - 1, flen, flen + 1] {
				let mut v = vt.clone();
				v[at + 8..at + 16].copy_from_slice(&end.saturating_sub(off).to_be_bytes());
				g.push("vt", "range-at-file-length", v, vtp);
			}
		}
	}
	let (pm, pmp) = small_pm();
	let plen = pm.len() as u64;
	for &x in near.iter().chain([plen - 1, plen, plen + 1].iter()) {
		for at in (8..72).step_by(8) {
			let mut v = pm.clone();
			v[at..at + 8].copy_from_slice(&x.to_le_bytes());
			g.push("pm", "range-at-file-length", v.clone(), pmp);
			if at % 16 == 8 {
				g.push("pmfile", "range-at-file-length", v, pmp);
			}
		}
	}
	for l in [0usize, 1, 7, 8, 126, 128] {
		let mut v = pm[..l.min(pm.len())].to_vec();
		v.resize(l, 0);
		g.push("pmhdr", "header-length", v.clone(), "");
		g.push("pm", "header-length", v, pmp);
	}
	// --- entry counts 0 / 1 / 65535 / 65536 / 65537, 10^10 and 10^10 + 1 announced
	let e = |id, off, len, run| ifm::PmEntry { id, off, len, run };
	for n in [0u64, 1, 2, 65535, 65536, 65537] {
		let es: Vec<ifm::PmEntry> = (0..n).map(|i| e(i, i * 2, 2, 1)).collect();
		let dir = ifm::serialize_dir(&es, n % 2 == 0);
		g.push("pmdir", "entry-count", dir.clone(), "");
		g.push("pmfind", "entry-count", dir.clone(), &format!("0,1,{},{},{}", n.saturating_sub(1), n, n + 1));
		let data = vec![0x41u8; (n as usize * 2).max(4)];
		g.push("pm", "entry-count", pm_custom(&dir, b"{}", &[], &data), "0/0/0,1/0/0,8/255/255,9/0/0");
	}
	for n in [10_000_000_000u64 - 1, 10_000_000_000, 10_000_000_001] {
		let mut v = varint(n);
		v.extend([0, 1, 1, 1]);
		g.push("pmdir", "entry-count", v, "");
	}
	// versatiles block of 256 x 256 tiles: tile index with 65535 / 65536 / 65537 entries
	for n in [0usize, 1, 65535, 65536, 65537] {
		let blockdef = |o: u64, tl: u64, il: u32| {
			let mut v = vec![8u8];
			v.extend(0u32.to_be_bytes());
			v.extend(0u32.to_be_bytes());
			v.extend([0u8, 0, 255, 255]);
			v.extend(o.to_be_bytes());
			v.extend(tl.to_be_bytes());
			v.extend(il.to_be_bytes());
			v
		};
		let mut ti = Vec::with_capacity(n * 12);
		for i in 0..n {
			ti.extend(((i % 4) as u64 * 4).to_be_bytes());
			ti.extend(4u32.to_be_bytes());
		}
		g.push("vt", "entry-count", vt_custom(b"{}", |o, tl, il| blockdef(o, tl, il), &ti, b"AAAABBBBCCCCDDDD"), "8/0/0,8/255/255,8/255/0,8/0/255,8/128/128,8/256/0,7/0/0");
		if n <= 1 || n == 65536 {
			g.push("vttidx", "entry-count", ti.clone(), "");
		}
	}
	// --- varint widths: minimal, padded to 9 / 10 / 11 bytes, bits beyond 64
	for w in [1usize, 2, 9, 10, 11, 12] {
		for val in [0u64, 1, 3, 127, 300] {
			let lv = long_varint(val, w);
			// as a length prefix of a string of that length
			let mut s = lv.clone();
			s.extend(std::iter::repeat(b'a').take(val as usize));
			s.push(0);
			g.push("pbfstr", "varint-width", s, "");
			// as the entry count of a PMTiles directory
			let mut d = lv.clone();
			for _ in 0..val.min(3) * 4 {
				d.push(1);
			}
			g.push("pmdir", "varint-width", d, "");
			// as the length of the layer sub-message of a tile
			let mut t = vec![0x1a];
			t.extend(&lv);
			let mut layer = vec![0x0a, 0x01, b'a'];
			layer.resize(val as usize, 0);
			if val >= 3 {
				t.extend(&layer[..val as usize]);
			}
			g.push("mvt", "varint-width", t, "");
		}
		// all payload bits set: 10th byte carries bits 63..69
		let mut v = vec![0xffu8; w.saturating_sub(1)];
		v.push(0x7f);
		g.push("pbfstr", "varint-width", v.clone(), "");
		g.push("pmdir", "varint-width", v.clone(), "");
		let mut t = vec![0x1a];
		t.extend(&v);
		g.push("mvt", "varint-width", t, "");
	}
	// --- tar: size field at the octal / base-256 limits
	let m = vec![ifm::TarMember::file("1/0/0.pbf", b"AAAA"), ifm::TarMember::file("tiles.json", b"{}")];
	if let Ok(t) = ifm::encode_tar(&m, 0) {
		let fields: &[&[u8]] = &[b"77777777777\0", b"777777777777", b"00000000004\0", b"00000000005\0", b"00000001000\0", b"17777777777\0", b"20000000000\0", b"37777777777\0", b"40000000000\0", b"           \0", b"\0\0\0\0\0\0\0\0\0\0\0\0", b"-0000000001\0", &[0x80, 0, 0, 0, 0, 0, 0, 0, 0, 0, 0, 4], &[0x80, 0, 0, 0, 1, 0, 0, 0, 0, 0, 0, 0], &[0xff; 12], &[0x80, 0x7f, 0xff, 0xff, 0xff, 0xff, 0xff, 0xff, 0xff, 0xff, 0xff, 0xff]];
		for which in [0usize, 1] {
			let base = which * 1024; // second header follows 512 header + 512 data
			if base + 512 > t.len() {
				continue;
			}
			for f in fields {
				let mut v = t.clone();
				v[base + 124..base + 136].copy_from_slice(f);
				for c in &mut v[base + 148..base + 156] {
					*c = b' ';
				}
				let sum: u32 = v[base..base + 512].iter().map(|x| *x as u32).sum();
				v[base + 148..base + 156].copy_from_slice(format!("{:06o}\0 ", sum).as_bytes());
				g.push("tar", "size-field", v.clone(), "1/0/0,0/0/0");
				g.push("tar", "size-field", v, "t600|1/0/0,0/0/0");
			}
		}
	}
	// --- text decoders: tokens straddling the 4096-byte read buffer of the byte iterator (and 8192)
	for b in [4096usize, 8192] {
		for tok in ["\\u00e9", "\\n", "true", "null", "-12.5e+3", "\"\"", "é", "😀", "],[", "\":\""] {
			for shift in 0..tok.len() + 1 {
				let start = b - shift;
				let mut s = String::from("[\"");
				s.push_str(&"a".repeat(start.saturating_sub(2 + 2)));
				// close the string before bare tokens
				let bare = matches!(tok, "true" | "null" | "-12.5e+3" | "],[");
				if bare {
					s.push_str("\",");
				} else {
					s.push_str("aa");
				}
				s.push_str(tok);
				if bare {
					s.push_str(",\"");
				}
				s.push_str("bbb\"]");
				g.push("json", "buffer-boundary", s.clone().into_bytes(), "");
				if shift % 2 == 0 {
					g.push("tilejson", "buffer-boundary", format!("{{\"x\":{s}}}").into_bytes(), "");
				}
			}
		}
		for tok in ["\"\"", "\",\"", "\r\n", ",", "é"] {
			for shift in 0..tok.len() + 1 {
				let start = b - shift;
				let mut s = String::from("id,n\n1,\"");
				s.push_str(&"a".repeat(start.saturating_sub(s.len())));
				s.push_str(tok);
				s.push_str("b\"\n");
				g.push("csv", "buffer-boundary", s.into_bytes(), "");
			}
		}
	}
}

/// class 3: entries pointing at 0-byte, overlapping, out-of-file and self-referential ranges
fn odd_ranges(g: &mut G) {
	let e = |id, off, len, run| ifm::PmEntry { id, off, len, run };
	let probes = "0/0/0,1/0/0,1/0/1,1/1/1,1/1/0,2/0/0,2/1/1";
	let data = b"AAAABBBBCCCC";
	let dirs: Vec<(&str, Vec<ifm::PmEntry>)> = vec![
		("zero-length", vec![e(0, 0, 0, 1), e(1, 0, 0, 3)]),
		("overlapping", vec![e(0, 0, 8, 1), e(1, 4, 8, 1), e(2, 2, 10, 1)]),
		("same-range", vec![e(0, 0, 4, 1), e(1, 0, 4, 1), e(2, 0, 4, 2)]),
		("out-of-file", vec![e(0, 12, 1, 1), e(1, 11, 2, 1), e(2, 1000, 4, 1), e(3, 0, 13, 1)]),
		("whole-section", vec![e(0, 0, 12, 1)]),
		("leaf-zero", vec![e(0, 0, 0, 0)]),
		("leaf-out-of-file", vec![e(0, 5, 1000, 0), e(1, 1 << 40, 4, 0)]),
	];
	for (_name, es) in &dirs {
		let root = ifm::serialize_dir(es, false);
		g.push("pm", "odd-ranges", pm_custom(&root, b"{}", &[], data), probes);
		// the same entries as a leaf directory
		let leaf = root.clone();
		let r2 = ifm::serialize_dir(&[e(0, 0, leaf.len() as u64, 0)], false);
		g.push("pm", "odd-ranges", pm_custom(&r2, b"{}", &leaf, data), probes);
	}
	// header sections overlapping each other / the header / covering the whole file
	let (pm, pmp) = small_pm();
	let l = pm.len() as u64;
	for (o, n) in [(0u64, l), (0, 127), (0, 0), (127, 0), (l, 0), (l - 1, 1), (100, 50), (8, 8)] {
		for at in [8usize, 24, 40, 56] {
			let mut v = pm.clone();
			v[at..at + 8].copy_from_slice(&o.to_le_bytes());
			v[at + 8..at + 16].copy_from_slice(&n.to_le_bytes());
			g.push("pm", "odd-ranges", v, pmp);
		}
	}
	// versatiles: tile ranges of length 0, overlapping, the whole file, the header, beyond the file;
	// index range pointing at the block index itself / at the header; meta = whole file
	let blockdef = |o: u64, tl: u64, il: u32| {
		let mut v = vec![1u8];
		v.extend(0u32.to_be_bytes());
		v.extend(0u32.to_be_bytes());
		v.extend([0u8, 0, 1, 1]);
		v.extend(o.to_be_bytes());
		v.extend(tl.to_be_bytes());
		v.extend(il.to_be_bytes());
		v
	};
	let tidx = |entries: &[(u64, u32)]| {
		let mut v = vec![];
		for (o, l) in entries {
			v.extend(o.to_be_bytes());
			v.extend(l.to_be_bytes());
		}
		v
	};
	let vtp = "1/0/0,1/1/0,1/0/1,1/1/1,0/0/0";
	for ti in [tidx(&[(0, 0), (0, 0), (0, 0), (0, 0)]), tidx(&[(0, 16), (4, 12), (8, 8), (0, 4)]), tidx(&[(0, 4), (0, 4), (0, 4), (0, 4)]), tidx(&[(16, 1), (15, 2), (1000, 4), (0, 17)]), tidx(&[(0, 1 << 31), (0, u32::MAX), (u64::MAX - 100, 4), (u64::MAX, 0)])] {
		g.push("vt", "odd-ranges", vt_custom(b"{}", |o, tl, il| blockdef(o, tl, il), &ti, b"AAAABBBBCCCCDDDD"), vtp);
		// block offset 0: the tile ranges are relative to the start of the file (header bytes as tiles)
		g.push("vt", "odd-ranges", vt_custom(b"{}", |_, tl, il| blockdef(0, tl, il), &ti, b"AAAABBBBCCCCDDDD"), vtp);
	}
	let (vt, _) = small_vt();
	let l = vt.len() as u64;
	for (o, n) in [(0u64, l), (0, 66), (0, 0), (66, 0), (l, 0), (l - 1, 1), (50, 16)] {
		for at in [34usize, 50] {
			let mut v = vt.clone();
			v[at..at + 8].copy_from_slice(&o.to_be_bytes());
			v[at + 8..at + 16].copy_from_slice(&n.to_be_bytes());
			g.push("vt", "odd-ranges", v, vtp);
		}
	}
	// metadata that does not decode under the declared compression / decodes under another codec
	for comp in [1u8, 2] {
		for meta in [b"{\"name\":\"x\"}".to_vec(), ifm::gzip(b"{\"name\":\"x\"}"), ifm::brotli_c(b"{\"name\":\"x\"}"), vec![], vec![0x1f, 0x8b], vec![0x1f, 0x8b, 8, 0, 0, 0, 0, 0, 0, 3]] {
			let mut v = vt_custom(&meta, |o, tl, il| blockdef(o, tl, il), &tidx(&[(0, 4), (4, 4), (8, 4), (12, 4)]), b"AAAABBBBCCCCDDDD");
			v[15] = comp;
			g.push("vt", "payload-codec", v, vtp);
		}
	}
}

/// second-stage families for vector tiles: tag lists (length 0, 1, 3, 2n+1; indices at table_len-1 /
/// table_len / u32::MAX; valid key + invalid value and vice versa) and geometry command streams
fn mvt_stage2(g: &mut G) {
	let st = imvt::PLAIN;
	let geoms: Vec<(Option<u32>, Option<Vec<u8>>)> = {
		let cmd = |id: u64, count: u64| (count << 3) | id;
		let zz = |v: i64| ((v << 1) ^ (v >> 63)) as u64;
		let enc = |vals: &[u64]| -> Vec<u8> { vals.iter().flat_map(|v| varint(*v)).collect() };
		let big = i64::MAX / 2 + 7;
		vec![
			(Some(1), Some(enc(&[cmd(1, 1), zz(5), zz(7)]))),
			(Some(2), Some(enc(&[cmd(1, 1), zz(0), zz(0), cmd(2, 2), zz(3), zz(0), zz(0), zz(3)]))),
			(Some(3), Some(enc(&[cmd(1, 1), zz(0), zz(0), cmd(2, 2), zz(3), zz(0), zz(0), zz(3), cmd(7, 1)]))),
			(Some(3), Some(enc(&[cmd(1, 1), zz(0), zz(0), cmd(7, 1)]))),
			(Some(3), Some(enc(&[cmd(7, 1)]))),
			(Some(2), Some(enc(&[cmd(2, 1), zz(1), zz(1)]))),
			(Some(1), Some(enc(&[cmd(1, 0)]))),
			(Some(1), Some(enc(&[cmd(1, 1 << 28), zz(1), zz(1)]))),
			(Some(1), Some(enc(&[cmd(1, (1 << 61) - 1), zz(1)]))),
			(Some(2), Some(enc(&[cmd(1, 3), zz(big), zz(big), zz(big), zz(big), zz(big), zz(big)]))),
			(Some(2), Some(enc(&[cmd(1, 2), zz(i64::MIN), zz(i64::MIN), zz(i64::MIN), zz(i64::MIN)]))),
			(Some(1), Some(enc(&[cmd(0, 1), 1, 1]))),
			(Some(1), Some(enc(&[cmd(3, 1), cmd(4, 1), cmd(5, 1), cmd(6, 1)]))),
			(Some(1), Some(enc(&[cmd(1, 1), zz(5)]))),
			(Some(1), Some(vec![0x80])),
			(Some(1), Some(vec![0xff; 11])),
			(Some(1), Some(vec![])),
			(Some(1), None),
			(None, Some(enc(&[cmd(1, 1), zz(5), zz(7)]))),
			(Some(0), Some(enc(&[cmd(1, 1), zz(5), zz(7)]))),
			(Some(4), Some(enc(&[cmd(1, 1), zz(5), zz(7)]))),
			(Some(u32::MAX), Some(enc(&[cmd(1, 1), zz(5), zz(7)]))),
			(Some(3), Some(enc(&[cmd(1, 2), zz(0), zz(0), zz(1), zz(1)]))),
			(Some(1), Some(enc(&[cmd(1, 1), zz(0), zz(0), cmd(2, 1), zz(1), zz(1), cmd(1, 1), zz(2), zz(2)]))),
			(Some(3), Some(enc(&[cmd(1, 1), zz(0), zz(0), cmd(2, 2), zz(3), zz(0), zz(0), zz(3), cmd(7, 1), cmd(7, 1), cmd(2, 1), zz(1), zz(1)]))),
		]
	};
	for nk in [0usize, 1, 3] {
		for nv in [0usize, 1, 2] {
			let keys: Vec<Vec<u8>> = (0..nk).map(|i| format!("k{i}").into_bytes()).collect();
			let values: Vec<imvt::IValue> = (0..nv).map(|i| if i % 2 == 0 { imvt::IValue::Str(format!("v{i}").into_bytes()) } else { imvt::IValue::UInt(i as u64) }).collect();
			let (lk, lv) = (nk as u32, nv as u32);
			let mut tag_lists: Vec<Vec<u32>> = vec![
				vec![],
				vec![0],
				vec![0, 0],
				vec![0, 0, 0],
				vec![0, 0, 0, 0, 0],
				vec![lk.wrapping_sub(1), lv.wrapping_sub(1)],
				vec![lk, 0],
				vec![0, lv],
				vec![lk, lv],
				vec![lk.wrapping_sub(1), lv],
				vec![lk, lv.wrapping_sub(1)],
				vec![u32::MAX, 0],
				vec![0, u32::MAX],
				vec![u32::MAX, u32::MAX],
				vec![u32::MAX],
				vec![0, 0, lk, lv],
				vec![0, 0, 0, 0, 0, 0, 1],
				(0..9).map(|i| i % 2).collect(),
				(0..64).map(|_| 0).collect(),
				(0..65).map(|_| 0).collect(),
			];
			for n in [2usize, 7, 33] {
				tag_lists.push((0..2 * n + 1).map(|i| (i as u32) % lk.max(1)).collect());
			}
			for (ti, tags) in tag_lists.iter().enumerate() {
				let (gt, geom) = geoms[(ti + nk + nv) % geoms.len()].clone();
				// the odd / invalid list alone, before a good feature, and after one
				let bad = imvt::IFeature { id: Some(ti as u64), tags: tags.clone(), gtype: gt, geom };
				let good = imvt::IFeature { id: None, tags: if nk > 0 && nv > 0 { vec![0, 0] } else { vec![] }, gtype: Some(1), geom: Some(vec![9, 10, 14]) };
				for feats in [vec![bad.clone()], vec![good.clone(), bad.clone()], vec![bad.clone(), good.clone()]] {
					let layer = imvt::ILayer { name: b"a".to_vec(), features: feats, keys: keys.clone(), values: values.clone(), extent: None, version: Some(2) };
					let b = imvt::encode_tile(&imvt::ITile { layers: vec![layer] }, &st);
					g.push("mvt", "tag-lists", b, "");
				}
			}
		}
	}
	// every geometry stream with every declared geometry type
	for (_, geom) in &geoms {
		for gt in [None, Some(0u32), Some(1), Some(2), Some(3), Some(4)] {
			let f = imvt::IFeature { id: Some(1), tags: vec![], gtype: gt, geom: geom.clone() };
			let layer = imvt::ILayer { name: b"g".to_vec(), features: vec![f], keys: vec![], values: vec![], extent: Some(4096), version: Some(2) };
			g.push("mvt", "geometry-commands", imvt::encode_tile(&imvt::ITile { layers: vec![layer] }, &st), "");
		}
	}
}

const MB_KEYS: &[&str] = &["name", "format", "bounds", "center", "minzoom", "maxzoom", "json", "type", "version", "description", "attribution", "author", "license", "scheme", "unknown_key"];
const MB_VALUES: &[&str] = &[
	"", " ", "0", "13.4", "13.4,52.5", "13.4,52.5,7", "1,2,3,4", "1,2,3,4,5", "a", "a,b", "1,b,3", "1, 2, 3", " 1 , 2 ", "1,2,", ",", ",,", ",1,2", "1,,2", "1e400,2,3", "-1e400", "nan,nan,nan", "NaN", "inf,-inf,inf",
	"13.4,52.5,-1", "13.4,52.5,256", "13.4,52.5,3.7", "999,999,1", "-180,-85.05,180,85.05", "-180,-90,180,90", "180,85,-180,-85", "-999,-999,999,999", "0,0,0,0", "255", "256", "-1", "3.5", "99999999999999999999", "pbf", "png", "jpg",
	"webp", "PBF", "jpeg", "foo", "{}", "[]", "{\"vector_layers\":[]}", "{\"vector_layers\":7}", "{\"vector_layers\":[{\"id\":\"a\",\"fields\":{}}]}", "{\"vector_layers\":[{\"id\":1}]}", "{\"bounds\":[1]}", "{", "null", "٣", "13.4٫5",
];

/// per metadata key the reader interprets: value families (list lengths, types, extremes, NULL / BLOB /
/// very long, duplicate rows); plus odd rows of the tiles table
fn mb_metadata(g: &mut G, dir: &std::path::Path, thorough: bool) {
	std::fs::create_dir_all(dir).unwrap();
	let mut tiles = ifm::TileMap::new();
	tiles.insert((1, 0, 0), b"AAAA".to_vec());
	tiles.insert((1, 1, 1), b"BBBB".to_vec());
	let ch = ifm::MbChoices { fmt: ifm::Fmt::Png, as_view: false, with_index: true, extra_meta: vec![], shuffle_rows: false };
	let p = dir.join("meta-base.mbtiles");
	let mut r2 = g.rng.fork();
	if ifm::encode_mbtiles(&p, &ifm::tiles_to_rows(&tiles), &ch, &mut r2).is_err() {
		return;
	}
	let Ok(base) = std::fs::read(&p) else { return };
	let _ = std::fs::remove_file(&p);
	let probes = "1/0/0,1/1/1,1/0/1,0/0/0";
	let esc = |v: &str| v.replace('\'', "''");
	let mut sqls: Vec<String> = vec![];
	for (ki, k) in MB_KEYS.iter().enumerate() {
		for (vi, v) in MB_VALUES.iter().enumerate() {
			// quick tier: every value for the keys with a list / number syntax, a rotating third for the others
			let listy = matches!(*k, "bounds" | "center" | "minzoom" | "maxzoom" | "json" | "format");
			if !thorough && !listy && (vi + ki) % 6 != 0 {
				continue;
			}
			sqls.push(format!("DELETE FROM metadata WHERE name = '{k}'; INSERT INTO metadata VALUES ('{k}', '{}');", esc(v)));
		}
		sqls.push(format!("DELETE FROM metadata WHERE name = '{k}'; INSERT INTO metadata VALUES ('{k}', NULL);"));
		sqls.push(format!("DELETE FROM metadata WHERE name = '{k}'; INSERT INTO metadata VALUES ('{k}', x'ff00fe');"));
		sqls.push(format!("DELETE FROM metadata WHERE name = '{k}'; INSERT INTO metadata VALUES ('{k}', 12.5);"));
		sqls.push(format!("DELETE FROM metadata WHERE name = '{k}'; INSERT INTO metadata VALUES ('{k}', '{}');", "9,".repeat(3000)));
		sqls.push(format!("INSERT INTO metadata VALUES ('{k}', '1,2'); INSERT INTO metadata VALUES ('{k}', 'x'); INSERT INTO metadata VALUES ('{k}', '1,2,3');"));
	}
	for t in [
		"UPDATE tiles SET tile_column = 'x' WHERE zoom_level = 1;",
		"UPDATE tiles SET tile_row = 1.5;",
		"UPDATE tiles SET zoom_level = '1';",
		"UPDATE tiles SET tile_data = x'';",
		"INSERT INTO tiles VALUES (1, 0, 0, x'01');",
		"INSERT INTO tiles VALUES (NULL, NULL, NULL, NULL);",
		"INSERT INTO tiles VALUES (1, 2, 0, x'01'); INSERT INTO tiles VALUES (1, 0, 2, x'01');",
		"INSERT INTO tiles VALUES (31, 2147483647, 2147483647, x'01');",
		"INSERT INTO tiles VALUES (31, 2147483648, 0, x'01');",
		"INSERT INTO tiles VALUES (30, 1073741823, 0, x'01');",
		"INSERT INTO tiles VALUES (0, 0, 0, x'01'); INSERT INTO tiles VALUES (0, 1, 1, x'01');",
		"INSERT INTO tiles VALUES (-5, 0, 0, x'01');",
		"INSERT INTO tiles VALUES (255, 0, 0, x'01'); INSERT INTO tiles VALUES (256, 0, 0, x'01');",
		"INSERT INTO tiles VALUES (1, -9223372036854775808, 9223372036854775807, x'01');",
	] {
		sqls.push(t.to_string());
	}
	for sql in sqls {
		if let Some(v) = sqlite_variant(dir, &base, &sql) {
			g.push("mb", "metadata-values", v, probes);
		}
	}
}

/// the JSON side channels other readers interpret at open: `tiles.json` members of tar / directory
/// containers and the PMTiles JSON metadata, with the typed-value family per interpreted key
fn metadata_side_channels(g: &mut G, thorough: bool) {
	let e = |id, off, len, run| ifm::PmEntry { id, off, len, run };
	let root = ifm::serialize_dir(&[e(0, 0, 4, 1), e(1, 4, 4, 2)], true);
	let (vt_ti, vt_tiles) = {
		let mut ti = vec![];
		for (o, l) in [(0u64, 4u32), (4, 4), (8, 4), (12, 4)] {
			ti.extend(o.to_be_bytes());
			ti.extend(l.to_be_bytes());
		}
		(ti, b"AAAABBBBCCCCDDDD".to_vec())
	};
	let blockdef = |o: u64, tl: u64, il: u32| {
		let mut v = vec![1u8];
		v.extend(0u32.to_be_bytes());
		v.extend(0u32.to_be_bytes());
		v.extend([0u8, 0, 1, 1]);
		v.extend(o.to_be_bytes());
		v.extend(tl.to_be_bytes());
		v.extend(il.to_be_bytes());
		v
	};
	let mut n = 0usize;
	for k in TJ_KEYS {
		for v in TJ_VALUES {
			n += 1;
			if !thorough && n % 3 != 0 {
				continue;
			}
			let doc = format!("{{\"{k}\":{v}}}");
			let members = vec![ifm::TarMember::file("1/0/0.pbf", b"AAAA"), ifm::TarMember::file(if n % 2 == 0 { "tiles.json" } else { "meta.json" }, doc.as_bytes())];
			if let Ok(t) = ifm::encode_tar(&members, 0) {
				g.push("tar", "metadata-values", t.clone(), "1/0/0,0/0/0");
				if n % 2 == 0 {
					g.push("dir", "metadata-values", t, "1/0/0,0/0/0");
				}
			}
			g.push("pm", "metadata-values", pm_custom(&root, doc.as_bytes(), &[], b"AAAABBBBCCCC"), "0/0/0,1/0/0,1/1/1");
			g.push("vt", "metadata-values", vt_custom(doc.as_bytes(), |o, tl, il| blockdef(o, tl, il), &vt_ti, &vt_tiles), "1/0/0,1/1/1,0/0/0");
		}
	}
}

/// tile names whose numbers sit at the borders of the level and of the integer types:
/// z in {0,5,31,32,255,256}, x / y in {2^z-1, 2^z, 2^32-1, 2^32, 2^64, 99999999999999999999, -1, +1, 007}
/// - alone (the first coordinate a reader sees), before and after a well-formed tile; tar and directory
fn coord_name_family(g: &mut G) {
	let zs: &[&str] = &["0", "5", "31", "32", "255", "256", "-1", "+5", "05"];
	let probes = "0/0/0,5/31/31,5/32/0,31/2147483647/2147483647,31/4294967295/0,1/0/0";
	for zt in zs {
		let z: i64 = zt.parse().unwrap_or(0);
		let mut nums: Vec<String> = NUM_BORDERS.iter().map(|s| s.to_string()).collect();
		if (0..=40).contains(&z) {
			nums.push(((1u64 << z) - 1).to_string());
			nums.push((1u64 << z).to_string());
			nums.push(((1u64 << z) + 1).to_string());
		}
		for n in &nums {
			for (x, y) in [(n.as_str(), "0"), ("0", n.as_str()), (n.as_str(), n.as_str())] {
				let name = format!("{zt}/{x}/{y}.png");
				let odd = ifm::TarMember::file(&name, b"ODD!");
				let good = ifm::TarMember::file("1/0/0.png", b"GOOD");
				for members in [vec![odd.clone()], vec![odd.clone(), good.clone()], vec![good.clone(), odd.clone()]] {
					if let Ok(t) = ifm::encode_tar(&members, 0) {
						g.push("tar", "coordinate-names", t.clone(), probes);
						g.push("dir", "coordinate-names", t, probes);
					}
				}
			}
		}
	}
}

/// textual / numeric fields at the borders of the level and of the integer types - used for EVERY
/// place where a reader turns text or a stored number into a coordinate, zoom or count
pub const NUM_BORDERS: &[&str] = &[
	"0", "1", "30", "31", "32", "33", "255", "256", "65535", "65536", "2147483647", "2147483648", "4294967294", "4294967295", "4294967296", "9223372036854775807", "9223372036854775808", "18446744073709551615",
	"18446744073709551616", "99999999999999999999", "-1", "-0", "+1", "007", "1.0", "1e3", "-2147483649",
];

fn number_borders(g: &mut G, dir: &std::path::Path) {
	for n in NUM_BORDERS {
		// TileJSON keys that are numbers / number lists
		for doc in [format!("{{\"minzoom\":{n}}}"), format!("{{\"maxzoom\":{n}}}"), format!("{{\"minzoom\":{n},\"maxzoom\":0}}"), format!("{{\"bounds\":[{n},{n},{n},{n}]}}"), format!("{{\"center\":[{n},{n},{n}]}}"), format!("{{\"center\":[0,0,{n}]}}"), format!("{{\"fillzoom\":{n}}}"), format!("{{\"vector_layers\":[{{\"id\":\"a\",\"fields\":{{}},\"minzoom\":{n},\"maxzoom\":{n}}}]}}")] {
			// (signs and leading zeros are not JSON numbers: those documents must simply be errors)
			g.push("tilejson", "number-borders", doc.clone().into_bytes(), "");
			g.push("json", "number-borders", doc.into_bytes(), "");
		}
		// VPL arguments that are parsed as numbers when the pipeline is built
		for t in [
			format!("from_container filename=a.pbf | filter_zoom min={n} max={n}"),
			format!("from_container filename=a.pbf | filter_zoom min=\"{n}\""),
			format!("from_container filename=a.pbf | filter_bbox bbox=[{n},{n},{n},{n}]"),
			format!("from_container filename=a.pbf | filter_bbox bbox=[0,0,{n},1]"),
			format!("from_debug format=pbf | filter_zoom max={n}"),
		] {
			g.push("build", "number-borders", t.clone().into_bytes(), "");
			g.push("vpl", "number-borders", t.into_bytes(), "");
		}
		// CSV cells (turned into values by GeoValue::parse_str when the pipeline is built)
		g.push("buildcsv", "number-borders", format!("id,n\n{n},{n}\n-{n},{n}.{n}\n").into_bytes(), "");
	}
	// versatiles block coordinates at the border of the level: block x = 2^z / 256 - 1, 2^z / 256, +1
	let blockdef = |z: u8, x: u32, y: u32, o: u64, tl: u64, il: u32| {
		let mut v = vec![z];
		v.extend(x.to_be_bytes());
		v.extend(y.to_be_bytes());
		v.extend([0u8, 0, 1, 1]);
		v.extend(o.to_be_bytes());
		v.extend(tl.to_be_bytes());
		v.extend(il.to_be_bytes());
		v
	};
	let mut ti = vec![];
	for (o, l) in [(0u64, 4u32), (4, 4), (8, 4), (12, 4)] {
		ti.extend(o.to_be_bytes());
		ti.extend(l.to_be_bytes());
	}
	for z in [0u8, 1, 8, 9, 16, 30, 31] {
		let nb = if z >= 8 { 1u64 << (z - 8) } else { 1 };
		for bx in [nb.saturating_sub(1), nb, nb + 1, (1u64 << 24) - 1, 1 << 24, u32::MAX as u64] {
			for (x, y) in [(bx as u32, 0u32), (0, bx as u32), (bx as u32, bx as u32)] {
				let f = vt_custom(b"{}", |o, tl, il| blockdef(z, x, y, o, tl, il), &ti, b"AAAABBBBCCCCDDDD");
				let probes = format!("{z}/{}/{},{z}/0/0,0/0/0", (x as u64 * 256).min(u32::MAX as u64), (y as u64 * 256).min(u32::MAX as u64));
				g.push("vt", "number-borders", f, &probes);
			}
		}
	}
	// MBTiles rows and zoom metadata
	std::fs::create_dir_all(dir).unwrap();
	let mut tiles = ifm::TileMap::new();
	tiles.insert((1, 0, 0), b"AAAA".to_vec());
	let ch = ifm::MbChoices { fmt: ifm::Fmt::Png, as_view: false, with_index: true, extra_meta: vec![], shuffle_rows: false };
	let p = dir.join("borders-base.mbtiles");
	let mut r2 = g.rng.fork();
	if ifm::encode_mbtiles(&p, &ifm::tiles_to_rows(&tiles), &ch, &mut r2).is_err() {
		return;
	}
	let Ok(base) = std::fs::read(&p) else { return };
	let _ = std::fs::remove_file(&p);
	let probes = "1/0/0,0/0/0,5/31/31,31/2147483647/2147483647,31/4294967295/0";
	for (i, n) in NUM_BORDERS.iter().enumerate() {
		// SQLite turns an integer literal beyond i64 into a REAL, and 'text' stays TEXT: both are wanted
		let lit = if n.starts_with('+') || n.starts_with("00") { format!("'{n}'") } else { n.to_string() };
		let z = ["0", "5", "31"][i % 3];
		let mut sqls = vec![
			format!("INSERT INTO tiles VALUES ({z}, {lit}, 0, x'01');"),
			format!("DELETE FROM tiles; INSERT INTO tiles VALUES ({z}, 0, {lit}, x'01');"),
			format!("DELETE FROM tiles; INSERT INTO tiles VALUES ({lit}, {lit}, {lit}, x'01');"),
			format!("INSERT INTO metadata VALUES ('minzoom', '{n}'); INSERT INTO metadata VALUES ('maxzoom', '{n}');"),
		];
		if i % 4 == 0 {
			sqls.push(format!("DELETE FROM tiles; INSERT INTO tiles VALUES ({lit}, 0, 0, x'01');"));
		}
		for sql in sqls {
			if let Some(v) = sqlite_variant(dir, &base, &sql) {
				g.push("mb", "number-borders", v, probes);
			}
		}
	}
}

/// characters that break byte-index arithmetic on text: lower/upper-casing changes the UTF-8 length
/// (Ohm, Kelvin, Angstrom signs, capital sharp s, dotted capital I, 'n preceded by apostrophe, sharp s,
/// ligatures), combining and direction marks, NUL, BOM, the neighbours of the surrogate range, 4-byte chars
pub const UNICODE_TRAPS: &[&str] = &[
	"\u{2126}", "\u{212A}", "\u{212B}", "\u{1E9E}", "\u{0130}", "\u{0149}", "ß", "\u{FB01}", "\u{FB03}", "\u{01C5}", "\u{0301}", "e\u{0301}", "\u{200F}", "\u{202E}", "\u{0}", "\u{FEFF}", "\u{D7FF}", "\u{E000}", "😀", "\u{10FFFF}", "İİ", "K\u{212A}k",
];

/// the traps before / after every delimiter a decoder looks for (last `.`, `/`, `,`, `"`, `=`), in
/// stem and extension position, in every text a reader case-folds, trims, splits or slices
fn unicode_traps(g: &mut G, dir: &std::path::Path) {
	let probes = "1/0/0,0/0/0";
	std::fs::create_dir_all(dir).unwrap();
	let mut tiles = ifm::TileMap::new();
	tiles.insert((1, 0, 0), b"AAAA".to_vec());
	let ch = ifm::MbChoices { fmt: ifm::Fmt::Png, as_view: false, with_index: true, extra_meta: vec![], shuffle_rows: false };
	let p = dir.join("traps-base.mbtiles");
	let mut r2 = g.rng.fork();
	let mb_base = if ifm::encode_mbtiles(&p, &ifm::tiles_to_rows(&tiles), &ch, &mut r2).is_ok() { std::fs::read(&p).ok() } else { None };
	let _ = std::fs::remove_file(&p);
	for (ti, t) in UNICODE_TRAPS.iter().enumerate() {
		// --- file / member names: stem, around the dots, in the format and the compression extension
		let names = [
			format!("1/0/{t}.png"),
			format!("1/0/0{t}.png"),
			format!("1/0/{t}0.png"),
			format!("1/0/0.{t}png"),
			format!("1/0/0.png{t}"),
			format!("1/0/0.p{t}ng"),
			format!("1/0/0.{t}"),
			format!("1/0/0{t}"),
			format!("1/0/{t}.png.gz"),
			format!("1/0/0.png.{t}gz"),
			format!("1/0/0.png.gz{t}"),
			format!("1/0/0.{t}.gz"),
			format!("1/0/7{t}.pbf"),
			format!("1/0/{t}€.png.br"),
			format!("1/{t}/0.png"),
			format!("{t}/0/0.png"),
			format!("1{t}/0/0.png"),
			format!("{t}.json"),
			format!("tiles{t}.json"),
			format!("tiles.json{t}"),
			format!("tiles.{t}json"),
			format!("{t}"),
		];
		for (ni, name) in names.iter().enumerate() {
			if name.contains('\0') && ni % 4 != 0 {
				continue; // (NUL cannot be part of a file name; the tar member keeps it)
			}
			let odd = ifm::TarMember::file(name, b"{\"name\":\"x\"}");
			let good = ifm::TarMember::file("1/0/1.png", b"GOOD");
			for members in [vec![odd.clone(), good.clone()], vec![good.clone(), odd.clone()]] {
				if let Ok(tar) = ifm::encode_tar(&members, 0) {
					g.push("tar", "unicode-traps", tar.clone(), probes);
					if !name.contains('\0') {
						g.push("dir", "unicode-traps", tar, probes);
					}
				}
			}
		}
		if t.contains('\0') {
			// text decoders: NUL is an ordinary byte there
		}
		// --- JSON / TileJSON strings: keys, values, around quotes, commas and colons
		for doc in [
			format!("{{\"{t}\":\"{t}\"}}"),
			format!("{{\"name\":\"{t}\",\"format\":\"{t}png\",\"type\":\"pn{t}g\"}}"),
			format!("{{\"name{t}\":1,\"{t}bounds\":[1,2,3,4]}}"),
			format!("{{\"vector_layers\":[{{\"id\":\"{t}\",\"fields\":{{\"{t}\":\"String{t}\"}}}}]}}"),
			format!("[\"{t}\",\"a{t}\",\"{t}b\"]{t}"),
			format!("[\"a\"{t},\"b\"]"),
			format!("{{\"a\"{t}:1}}"),
			format!("{t}[1]"),
			format!("tru{t}e"),
			format!("1{t}2"),
		] {
			g.push("json", "unicode-traps", doc.clone().into_bytes(), "");
			g.push("tilejson", "unicode-traps", doc.into_bytes(), "");
		}
		// --- CSV cells, header names, around separators and quotes
		for doc in [format!("id,{t}\n1,{t}\n"), format!("{t},n\n{t},2\n"), format!("id,n\n1,\"{t}\"\n2,\"a{t},b\"\n"), format!("id,n\n1,\"x\"{t}\n"), format!("id{t},n\n1{t},2\n"), format!("id,n\n1,{t}true\n2,fal{t}se\n")] {
			g.push("csv", "unicode-traps", doc.clone().into_bytes(), "");
			g.push("buildcsv", "unicode-traps", doc.into_bytes(), "");
		}
		// --- VPL: identifiers, bare and quoted values, around `=`, `|`, `[`, `,`; file names with extensions
		if !t.contains('\0') || ti % 2 == 0 {
			for text in [
				format!("from_container filename=\"{t}.png\""),
				format!("from_container filename=\"a.{t}\""),
				format!("from_container filename=\"7{t}.pbf\" | filter_zoom min=1"),
				format!("from_container filename={t}"),
				format!("from_container {t}filename=a.pbf"),
				format!("from_container filename{t}=a.pbf"),
				format!("from_container filename={t}=a.pbf"),
				format!("from_{t}container filename=a.pbf"),
				format!("{t}from_container filename=a.pbf"),
				format!("from_container filename=a.pbf {t}| filter_zoom min=1"),
				format!("from_container filename=a.pbf | filter_bbox bbox=[1,{t}2,3,4]"),
				format!("from_debug format={t}"),
				format!("from_debug format=\"pb{t}f\""),
				format!("from_debug format=P{t}BF fast=TRU{t}E"),
				format!("from_container filename=a.pbf | vectortiles_update_properties data_source_path=\"{t}.csv\" layer_name=\"{t}\" id_field_tiles=\"{t}\" id_field_data=\"{t}\" replace_properties=ye{t}s"),
				format!("from_overlayed [ from_container filename=\"{t}\", from_container filename=\"b{t}.pbf\" ]"),
			] {
				g.push("vpl", "unicode-traps", text.clone().into_bytes(), "");
				g.push("build", "unicode-traps", text.clone().into_bytes(), "");
				g.push("vplfile", "unicode-traps", text.into_bytes(), "1/0/0");
			}
		}
		// --- MBTiles metadata: `format` and the other interpreted keys
		if let Some(base) = &mb_base {
			if !t.contains('\0') {
				let esc = t.replace('\'', "''");
				for sql in [
					format!("UPDATE metadata SET value = '{esc}' WHERE name = 'format';"),
					format!("UPDATE metadata SET value = 'pn{esc}g' WHERE name = 'format';"),
					format!("UPDATE metadata SET value = '{esc}png' WHERE name = 'format';"),
					format!("UPDATE metadata SET name = 'format{esc}';"),
					format!("INSERT INTO metadata VALUES ('bounds', '1,{esc}2,3,4'); INSERT INTO metadata VALUES ('center', '{esc}'); INSERT INTO metadata VALUES ('name', '{esc}'); INSERT INTO metadata VALUES ('{esc}', '{esc}'); INSERT INTO metadata VALUES ('json', '{{\"{esc}\":\"{esc}\"}}');"),
				] {
					if let Some(v) = sqlite_variant(dir, base, &sql) {
						g.push("mb", "unicode-traps", v, probes);
					}
				}
			}
		}
	}
}

pub fn generate(args: &Args) -> Vec<Case> {
	let mut g = G { rng: Rng::new(args.seed), cases: vec![] };
	let thorough = args.thorough();
	json_utf8_sites(&mut g);
	nesting(&mut g, thorough);
	json_limit(&mut g);
	absolute_offsets(&mut g);
	vpl_limit(&mut g, thorough);
	structural_damage(&mut g, thorough);
	thresholds(&mut g);
	odd_ranges(&mut g);
	tilejson_cases(&mut g, args.n(600, 10000));
	text_cases(&mut g, args.n(3000, 80000));
	mvt_cases(&mut g, args.n(800, 20000));
	mvt_stage2(&mut g);
	metadata_side_channels(&mut g, thorough);
	dir_cases(&mut g, args.n(600, 16000));
	fixed_codec_cases(&mut g, args.n(400, 10000));
	vt_cases(&mut g, args.n(250, 5000));
	pm_cases(&mut g, args.n(250, 5000), thorough);
	let scratch = if args.out.is_absolute() { args.out.join("c19gen") } else { std::env::current_dir().unwrap().join(&args.out).join("c19gen") };
	mb_cases(&mut g, &scratch, args.n(100, 1500));
	after_open(&mut g, &scratch);
	mb_metadata(&mut g, &scratch, thorough);
	number_borders(&mut g, &scratch);
	unicode_traps(&mut g, &scratch);
	let _ = std::fs::remove_dir_all(&scratch);
	tar_cases(&mut g, args.n(300, 6000));
	coord_name_family(&mut g);
	// every vector tile that is generated for `from_blob` also goes through the later decoding stages
	let extra: Vec<Case> = g
		.cases
		.iter()
		.filter(|c| c.ep == "mvt")
		.flat_map(|c| {
			["mvtprops", "mvtfull"].into_iter().map(|ep| Case { ep, input: c.input.clone(), probes: String::new(), class: c.class })
		})
		.collect();
	g.cases.extend(extra);
	g.cases
}
