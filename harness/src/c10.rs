//! C10 – `from_vectortiles_merged`: the output exists iff some source has the tile, has one layer per
//! distinct layer name, each holding the features of that layer from all sources in source order with
//! original id / geometry / property set; declared and delivered uncompressed.
//!
//! case line `C10m <src>,<src>,…` (src = `none` | hex of the *uncompressed* tile);
//! answer `none` | `ok <semantic dump, layers in output order = sorted by name since /repo d0cb5799>` | `err` | `panic`.
//! The real operation is built from VPL over in-memory sources (plain / gzip / brotli) and read through
//! `get_tile_data` and (2 of 3 cases) `get_tile_stream`; in the stream earlier sources suspend longer
//! than later ones (staggered `yield_now`), so a merge that collects in completion order is exposed.
use crate::c11::{diff_kind, make_factory, runtime, SourceSpec, Sources};
use crate::common::*;
use crate::indep_mvt::*;
use serde_json::json;
use std::collections::HashMap;
use std::io::Write;
use std::sync::{Arc, Mutex};
use versatiles_core::types::*;
use versatiles_pipeline::OperationTrait;

fn compress(b: &[u8], c: TileCompression) -> Vec<u8> {
	match c {
		TileCompression::Uncompressed => b.to_vec(),
		TileCompression::Gzip => {
			let mut e = flate2::write::GzEncoder::new(Vec::new(), flate2::Compression::fast());
			e.write_all(b).unwrap();
			e.finish().unwrap()
		}
		TileCompression::Brotli => {
			let mut o = vec![];
			{
				let mut w = brotli::CompressorWriter::new(&mut o, 4096, 3, 20);
				w.write_all(b).unwrap();
			}
			o
		}
	}
}

pub struct MergeCase {
	pub sources: Vec<(Option<Vec<u8>>, TileCompression)>,
	/// source i of k suspends (k - i) * stagger times before its stream delivers: earlier sources finish later
	pub stagger: u32,
}

enum Res {
	None,
	Tile(Vec<u8>),
	Err,
	Panic(String),
}

struct Runner {
	rt: tokio::runtime::Runtime,
	dir: std::path::PathBuf,
}

impl Runner {
	fn run(&self, c: &MergeCase, with_stream: bool) -> (Res, Option<Res>, bool) {
		let coord = TileCoord3::new(5, 6, 4).unwrap();
		let mut map = HashMap::new();
		for (i, (t, comp)) in c.sources.iter().enumerate() {
			let mut tiles = HashMap::new();
			if let Some(b) = t {
				tiles.insert((4u8, 5u32, 6u32), compress(b, *comp));
			}
			map.insert(format!("s{i}"), SourceSpec { tiles, compression: *comp, yields: (c.sources.len() - i) as u32 * c.stagger, fail: vec![] });
		}
		let sources: Sources = Arc::new(Mutex::new(map));
		let factory = make_factory(&self.dir, sources);
		let vpl = format!("from_vectortiles_merged [ {} ]", (0..c.sources.len()).map(|i| format!("from_container filename=s{i}")).collect::<Vec<_>>().join(", "));
		let rt = &self.rt;
		let op = match catch(|| rt.block_on(factory.operation_from_vpl(&vpl))) {
			Ok(Ok(op)) => op,
			Ok(Err(_)) => return (Res::Err, None, false),
			Err(m) => return (Res::Panic(m), None, false),
		};
		let declared_uncompressed = op.get_parameters().tile_compression == TileCompression::Uncompressed && op.get_parameters().tile_format == TileFormat::PBF;
		let data = match catch(|| rt.block_on(op.get_tile_data(&coord))) {
			Ok(Ok(Some(b))) => Res::Tile(b.into_vec()),
			Ok(Ok(None)) => Res::None,
			Ok(Err(_)) => Res::Err,
			Err(m) => Res::Panic(m),
		};
		let stream = if with_stream {
			Some(match catch(|| rt.block_on(async { op.get_tile_stream(TileBBox::new(4, 4, 4, 7, 7).unwrap()).await.collect().await })) {
				Ok(v) => match v.into_iter().find(|(c, _)| *c == coord) {
					Some((_, b)) => Res::Tile(b.into_vec()),
					None => Res::None,
				},
				Err(m) => Res::Panic(m),
			})
		} else {
			None
		};
		(data, stream, declared_uncompressed)
	}
}

/// the statement, on the independent semantic reading of the inputs: per distinct name (sorted) the
/// concatenation of the features in source order.  Extent / version of a merged layer are not fixed by
/// the statement (the code keeps those of the first layer of that name) and are not judged.
fn expected(inputs: &[Vec<SLayer>]) -> Vec<SLayer> {
	let mut out: Vec<SLayer> = vec![];
	for t in inputs {
		for l in t {
			match out.iter_mut().find(|o| o.name == l.name) {
				Some(o) => o.feats.extend(l.feats.iter().cloned()),
				None => out.push(l.clone()),
			}
		}
	}
	out.sort_by(|a, b| a.name.cmp(&b.name));
	out
}

fn emit(out: &mut Out, runner: &Runner, c: &MergeCase, with_stream: bool) {
	let line = format!("C10m {}", c.sources.iter().map(|(t, _)| t.as_ref().map_or("none".to_string(), |b| hex(b))).collect::<Vec<_>>().join(","));
	let (res, stream, declared) = runner.run(c, with_stream);
	let ans = match &res {
		Res::None => "none".to_string(),
		// since /repo d0cb5799 merge_tiles keeps a BTreeMap: the real layer order must be "sorted by name" (the model sorts)
		Res::Tile(b) => format!("ok {}", dump_bytes(b, false)),
		Res::Err => "err".into(),
		Res::Panic(_) => "panic".into(),
	};
	let inputs: Vec<Option<Vec<SLayer>>> = c.sources.iter().filter_map(|(t, _)| t.as_ref()).map(|b| decode_tile(b).map(|t| sem_tile(&t))).collect();
	let valid = inputs.iter().all(|i| {
		i.as_ref().is_some_and(|ls| {
			let mut names: Vec<&Vec<u8>> = ls.iter().map(|l| &l.name).collect();
			names.sort();
			names.windows(2).all(|w| w[0] != w[1]) && ls.iter().all(|l| l.feats.iter().all(|f| f.props.is_some() && !f.dup_key && f.gtype <= 3))
		})
	});
	let present = inputs.len();
	let ins: Vec<Vec<SLayer>> = if valid { inputs.into_iter().map(|i| i.unwrap()).collect() } else { vec![] };
	let shared = {
		let mut n = 0;
		for (i, a) in ins.iter().enumerate() {
			for b in &ins[i + 1..] {
				if a.iter().any(|l| b.iter().any(|m| m.name == l.name && !(l.feats.is_empty() && m.feats.is_empty()))) {
					n += 1;
				}
			}
		}
		n
	};
	let nontrivial = valid && present >= 2 && shared > 0;
	out.case(&line, &ans, nontrivial);
	out.count(&format!("sources_{}", c.sources.len()));
	out.count(&format!("sources_with_tile_{present}"));
	out.count(if nontrivial { "merge_shared_layer_names" } else { "merge_trivial" });
	for (_, comp) in &c.sources {
		out.count(&format!("source_compression_{comp:?}"));
	}
	if !valid {
		out.count("merge_invalid_input");
		out.oracle(!matches!(res, Res::Panic(_)), "C10 merge: panic on input that is not a valid tile set", json!({"kind": "panic_invalid"}), json!({"case": line}));
		if let Some(s) = &stream {
			// a tile the lookup refuses must be left out of the stream, never abort it
			out.eval(&format!("stream {line}"), false);
			let ok = match (s, &res) {
				(Res::Panic(_), _) => false,
				(Res::Tile(a), Res::Tile(b)) => a == b,
				(Res::Tile(_), _) => false,
				(_, Res::Tile(_)) => false,
				_ => true,
			};
			let what = if matches!(s, Res::Panic(_)) { "get_tile_stream panics on a source tile that is not valid (the lookup returns an error)" } else { "get_tile_stream and get_tile_data disagree on input that is not valid" };
			out.oracle(ok, &format!("C10 merge: {what}"), json!({"kind": "stream_invalid"}), json!({"case": line}));
		}
		return;
	}
	if present == 0 {
		out.oracle(matches!(res, Res::None), &format!("C10 merge: no source has the tile, output is {ans}"), json!({"kind": "exists"}), json!({"case": line}));
	} else {
		let want = expected(&ins);
		match &res {
			Res::Tile(b) => {
				// no canonicalisation: the output layers must come in ascending order of their names (BTreeMap, /repo d0cb5799)
				let got = decode_tile(b).map(|t| sem_tile(&t));
				let kind = match &got {
					None => "output_undecodable_or_compressed",
					Some(g) => {
						let names_ok = g.len() == want.len() && g.iter().zip(&want).all(|(a, b)| a.name == b.name);
						if !names_ok {
							"layer_names_or_order"
						} else {
							// extent / version are not judged
							let g2: Vec<SLayer> = g.iter().zip(&want).map(|(a, b)| SLayer { extent: b.extent, version: b.version, ..a.clone() }).collect();
							diff_kind(&want, &g2)
						}
					}
				};
				out.oracle(
					kind == "none",
					&format!("C10 merge ({kind}): want {} got {}", trunc(&dump_layers(&want), 300), trunc(&dump_bytes(b, true), 300)),
					json!({"kind": kind, "sources": c.sources.len()}),
					json!({"case": line}),
				);
			}
			Res::None => out.oracle(false, "C10 merge: a source has the tile but the output is missing", json!({"kind": "exists"}), json!({"case": line})),
			Res::Err => out.oracle(false, "C10 merge: valid tiles refused", json!({"kind": "refused"}), json!({"case": line})),
			Res::Panic(m) => out.oracle(false, &format!("C10 merge: panic on valid tiles: {m}"), json!({"kind": "panic"}), json!({"case": line})),
		}
	}
	out.oracle(declared, "C10 merge: output not declared as uncompressed PBF", json!({"kind": "declared_compression"}), json!({"case": line}));
	if let Some(s) = stream {
		let same = match (&s, &res) {
			(Res::Tile(a), Res::Tile(b)) => a == b, // byte-identical since d0cb5799
			(Res::None, Res::None) => true,
			_ => false,
		};
		out.eval(&format!("stream {line}"), nontrivial);
		out.count(&format!("stream_stagger_{}", c.stagger));
		out.oracle(same, &format!("C10 merge: get_tile_stream (sources staggered by {}) delivers different bytes than get_tile_data (feature order must be source order, not completion order)", c.stagger), json!({"kind": "stream_differs"}), json!({"case": line, "stagger": c.stagger}));
	}
}

fn opts(rng: &mut Rng) -> GenOpts {
	GenOpts {
		names: ["roads", "water", "pois", "Straße"].iter().map(|s| s.as_bytes().to_vec()).collect(),
		keys: ["id", "name", "kind", "pop", "höhe"].iter().map(|s| s.as_bytes().to_vec()).collect(),
		id_values: vec![IValue::UInt(1), IValue::Str(b"a1".to_vec()), IValue::SInt(-3), IValue::Int(-3)],
		max_layers: 3,
		max_features: 4,
		messy_tables: rng.chance(2, 3),
		nan: rng.chance(1, 10),
	}
}

pub fn run(args: &Args) {
	quiet_panics();
	let mut out = Out::new(&args.out);
	out.rule = "2–4 sources, each without a tile or with a tile from the independent MVT encoder (overlapping layer names, different key/value tables incl. duplicates and int64/sint64 twins, differing extents/versions, empty layers; a few tiles with a repeated layer name = model only), stored plain / gzip / brotli; the real from_vectortiles_merged built from VPL, read through get_tile_data and (2 of 3 cases) get_tile_stream with staggered sources (source i of k yields (k-i)*c times, c seeded 0..3, so earlier sources complete later); oracle: independent decoder's reading of the output vs per-name concatenation of the inputs' features in source order (extent/version of a merged layer not judged), existence, declared compression. non-trivial: at least two sources have the tile and share a non-empty layer name; distinct by case text".into();
	let dir = args.out.join("c10-data");
	std::fs::create_dir_all(&dir).unwrap();
	let runner = Runner { rt: runtime(), dir };
	if let Some(p) = &args.replay {
		for line in std::fs::read_to_string(p).unwrap().lines() {
			let t: Vec<&str> = line.split(' ').collect();
			if t.len() == 2 && t[0] == "C10m" {
				let c = MergeCase { sources: t[1].split(',').map(|s| (if s == "none" { None } else { Some(unhex(s)) }, TileCompression::Uncompressed)).collect(), stagger: 2 };
				emit(&mut out, &runner, &c, true);
			}
		}
		out.finish();
		return;
	}
	let mut rng = Rng::new(args.seed);
	let n = args.n(3000, 40000);
	for i in 0..n {
		let k = rng.range(2, 4);
		let mut sources = vec![];
		let all_none = rng.chance(1, 25);
		for _ in 0..k {
			let comp = *rng.pick(&[TileCompression::Uncompressed, TileCompression::Uncompressed, TileCompression::Gzip, TileCompression::Brotli]);
			if all_none || rng.chance(1, 5) {
				sources.push((None, comp));
			} else {
				let o = opts(&mut rng);
				let unique = !rng.chance(1, 30);
				let tile = gen_tile(&mut rng, &o, unique);
				let st = gen_style(&mut rng);
				sources.push((Some(encode_tile(&tile, &st)), comp));
			}
		}
		let stagger = rng.below(4) as u32;
		let mut with_stream = i % 3 != 2;
		if i % 25 == 11 {
			// one source delivers a truncated tile: lookup must fail cleanly, the stream must survive
			if let Some((Some(b), _)) = sources.iter_mut().find(|(t, _)| t.as_ref().is_some_and(|b| b.len() > 2)) {
				let keep = rng.range(1, b.len() as u64 - 1) as usize;
				b.truncate(keep);
				with_stream = true;
			}
		}
		emit(&mut out, &runner, &MergeCase { sources, stagger }, with_stream);
	}
	out.finish();
}
