//! C10 – `from_vectortiles_merged`: the output exists iff some source has the tile, has one layer per
//! distinct layer name, each holding the features of that layer from all sources in source order with
//! original id / geometry / property set; declared and delivered uncompressed.
//!
//! case line `C10m <src>,<src>,…` (src = `none` | hex of the *uncompressed* tile);
//! answer `none` | `ok <semantic dump, layers in output order = sorted by name since /repo d0cb5799>` | `err` | `panic`.
//! The real operation is built from VPL over in-memory sources (plain / gzip / brotli) and read through
//! `get_tile_data` and (2 of 3 cases) `get_tile_stream`; in the stream earlier sources suspend longer
//! than later ones (staggered `yield_now`), so a merge that collects in completion order is exposed.
use crate::c11::{box_around, compress_as, diff_kind, make_factory, runtime, SourceSpec, Sources, COORDS};
use crate::common::*;
use crate::indep_mvt::*;
use serde_json::json;
use std::collections::HashMap;
use std::io::Write;
use std::sync::{Arc, Mutex};
use versatiles_core::types::*;
use versatiles_pipeline::OperationTrait;

fn compress(b: &[u8], c: TileCompression) -> Vec<u8> {
	match c {
		TileCompression::Uncompressed => b.to_vec(),
		TileCompression::Gzip => {
			let mut e = flate2::write::GzEncoder::new(Vec::new(), flate2::Compression::fast());
			e.write_all(b).unwrap();
			e.finish().unwrap()
		}
		TileCompression::Brotli => {
			let mut o = vec![];
			{
				let mut w = brotli::CompressorWriter::new(&mut o, 4096, 3, 20);
				w.write_all(b).unwrap();
			}
			o
		}
	}
}

pub struct MergeCase {
	pub sources: Vec<(Option<Vec<u8>>, TileCompression)>,
	/// source i of k suspends (k - i) * stagger times before its stream delivers: earlier sources finish later
	pub stagger: u32,
	/// where the tile sits (zoom 0 … 31, 32-grid borders of the merged stream's sub-boxes)
	pub coord: (u8, u32, u32),
}

enum Res {
	None,
	Tile(Vec<u8>),
	Err,
	Panic(String),
}

struct Runner {
	rt: tokio::runtime::Runtime,
	dir: std::path::PathBuf,
}

impl Runner {
	fn run(&self, c: &MergeCase, with_stream: bool) -> (Res, Option<Res>, bool) {
		let coord = TileCoord3::new(c.coord.1, c.coord.2, c.coord.0).unwrap();
		let mut map = HashMap::new();
		for (i, (t, comp)) in c.sources.iter().enumerate() {
			let mut tiles = HashMap::new();
			if let Some(b) = t {
				tiles.insert(c.coord, compress(b, *comp));
			}
			map.insert(format!("s{i}"), SourceSpec { tiles, compression: *comp, yields: (c.sources.len() - i) as u32 * c.stagger, fail: vec![], format: TileFormat::PBF, pyramid: None });
		}
		let sources: Sources = Arc::new(Mutex::new(map));
		let factory = make_factory(&self.dir, sources);
		let vpl = format!("from_vectortiles_merged [ {} ]", (0..c.sources.len()).map(|i| format!("from_container filename=s{i}")).collect::<Vec<_>>().join(", "));
		let rt = &self.rt;
		let op = match catch(|| rt.block_on(factory.operation_from_vpl(&vpl))) {
			Ok(Ok(op)) => op,
			Ok(Err(_)) => return (Res::Err, None, false),
			Err(m) => return (Res::Panic(m), None, false),
		};
		let declared_uncompressed = op.get_parameters().tile_compression == TileCompression::Uncompressed && op.get_parameters().tile_format == TileFormat::PBF;
		let data = match catch(|| rt.block_on(op.get_tile_data(&coord))) {
			Ok(Ok(Some(b))) => Res::Tile(b.into_vec()),
			Ok(Ok(None)) => Res::None,
			Ok(Err(_)) => Res::Err,
			Err(m) => Res::Panic(m),
		};
		let stream = if with_stream {
			Some(match catch(|| rt.block_on(async { op.get_tile_stream(box_around(c.coord)).await.collect().await })) {
				Ok(v) => match v.into_iter().find(|(c, _)| *c == coord) {
					Some((_, b)) => Res::Tile(b.into_vec()),
					None => Res::None,
				},
				Err(m) => Res::Panic(m),
			})
		} else {
			None
		};
		(data, stream, declared_uncompressed)
	}
}

/// the statement, on the independent semantic reading of the inputs: per distinct name (sorted) the
/// concatenation of the features in source order.  Extent / version of a merged layer are not fixed by
/// the statement (the code keeps those of the first layer of that name) and are not judged.
fn expected(inputs: &[Vec<SLayer>]) -> Vec<SLayer> {
	let mut out: Vec<SLayer> = vec![];
	for t in inputs {
		for l in t {
			match out.iter_mut().find(|o| o.name == l.name) {
				Some(o) => o.feats.extend(l.feats.iter().cloned()),
				None => out.push(l.clone()),
			}
		}
	}
	out.sort_by(|a, b| a.name.cmp(&b.name));
	out
}

fn emit(out: &mut Out, runner: &Runner, c: &MergeCase, with_stream: bool) {
	let line = format!("C10m {}", c.sources.iter().map(|(t, _)| t.as_ref().map_or("none".to_string(), |b| hex(b))).collect::<Vec<_>>().join(","));
	let (res, stream, declared) = runner.run(c, with_stream);
	let ans = match &res {
		Res::None => "none".to_string(),
		// since /repo d0cb5799 merge_tiles keeps a BTreeMap: the real layer order must be "sorted by name" (the model sorts)
		Res::Tile(b) => format!("ok {}", dump_bytes(b, false)),
		Res::Err => "err".into(),
		Res::Panic(_) => "panic".into(),
	};
	let inputs: Vec<Option<Vec<SLayer>>> = c.sources.iter().filter_map(|(t, _)| t.as_ref()).map(|b| decode_tile(b).map(|t| sem_tile(&t))).collect();
	let valid = inputs.iter().all(|i| {
		i.as_ref().is_some_and(|ls| {
			let mut names: Vec<&Vec<u8>> = ls.iter().map(|l| &l.name).collect();
			names.sort();
			names.windows(2).all(|w| w[0] != w[1]) && ls.iter().all(|l| l.feats.iter().all(|f| f.props.is_some() && !f.dup_key && f.gtype <= 3))
		})
	});
	let present = inputs.len();
	let ins: Vec<Vec<SLayer>> = if valid { inputs.into_iter().map(|i| i.unwrap()).collect() } else { vec![] };
	let shared = {
		let mut n = 0;
		for (i, a) in ins.iter().enumerate() {
			for b in &ins[i + 1..] {
				if a.iter().any(|l| b.iter().any(|m| m.name == l.name && !(l.feats.is_empty() && m.feats.is_empty()))) {
					n += 1;
				}
			}
		}
		n
	};
	let nontrivial = valid && present >= 2 && shared > 0;
	out.case(&line, &ans, nontrivial);
	out.count(&format!("sources_{}", c.sources.len()));
	out.count(&format!("sources_with_tile_{present}"));
	out.count(if nontrivial { "merge_shared_layer_names" } else { "merge_trivial" });
	for (_, comp) in &c.sources {
		out.count(&format!("source_compression_{comp:?}"));
	}
	if !valid {
		out.count("merge_invalid_input");
		out.oracle(!matches!(res, Res::Panic(_)), "C10 merge: panic on input that is not a valid tile set", json!({"kind": "panic_invalid"}), json!({"case": line}));
		if let Some(s) = &stream {
			// a tile the lookup refuses must be left out of the stream, never abort it
			out.eval(&format!("stream {line}"), false);
			let ok = match (s, &res) {
				(Res::Panic(_), _) => false,
				(Res::Tile(a), Res::Tile(b)) => a == b,
				(Res::Tile(_), _) => false,
				(_, Res::Tile(_)) => false,
				_ => true,
			};
			let what = if matches!(s, Res::Panic(_)) { "get_tile_stream panics on a source tile that is not valid (the lookup returns an error)" } else { "get_tile_stream and get_tile_data disagree on input that is not valid" };
			out.oracle(ok, &format!("C10 merge: {what}"), json!({"kind": "stream_invalid"}), json!({"case": line}));
		}
		return;
	}
	if present == 0 {
		out.oracle(matches!(res, Res::None), &format!("C10 merge: no source has the tile, output is {ans}"), json!({"kind": "exists"}), json!({"case": line}));
	} else {
		let want = expected(&ins);
		match &res {
			Res::Tile(b) => {
				// no canonicalisation: the output layers must come in ascending order of their names (BTreeMap, /repo d0cb5799)
				let got = decode_tile(b).map(|t| sem_tile(&t));
				let kind = match &got {
					None => "output_undecodable_or_compressed",
					Some(g) => {
						let names_ok = g.len() == want.len() && g.iter().zip(&want).all(|(a, b)| a.name == b.name);
						if !names_ok {
							"layer_names_or_order"
						} else {
							// extent / version are not judged
							let g2: Vec<SLayer> = g.iter().zip(&want).map(|(a, b)| SLayer { extent: b.extent, version: b.version, ..a.clone() }).collect();
							diff_kind(&want, &g2)
						}
					}
				};
				out.oracle(
					kind == "none",
					&format!("C10 merge ({kind}): want {} got {}", trunc(&dump_layers(&want), 300), trunc(&dump_bytes(b, true), 300)),
					json!({"kind": kind, "sources": c.sources.len()}),
					json!({"case": line}),
				);
			}
			Res::None => out.oracle(false, "C10 merge: a source has the tile but the output is missing", json!({"kind": "exists"}), json!({"case": line})),
			Res::Err => out.oracle(false, "C10 merge: valid tiles refused", json!({"kind": "refused"}), json!({"case": line})),
			Res::Panic(m) => out.oracle(false, &format!("C10 merge: panic on valid tiles: {m}"), json!({"kind": "panic"}), json!({"case": line})),
		}
	}
	if present == 1 {
		// merged-with-nothing must equal what plain decoding / re-encoding of that tile gives (layers by name)
		if let (Res::Tile(b), Some((Some(t), _))) = (&res, c.sources.iter().find(|(t, _)| t.is_some())) {
			use versatiles_geometry::vector_tile::VectorTile;
			if let Ok(Ok(p)) = catch(|| VectorTile::from_blob(&Blob::from(t.clone())).and_then(|t| t.to_blob())) {
				out.oracle(dump_bytes(b, true) == dump_bytes(p.as_slice(), true), "C10 merge: a single present source is not delivered as plain from_blob/to_blob delivers it", json!({"kind": "single_source_differs"}), json!({"case": line}));
			}
		}
	}
	out.oracle(declared, "C10 merge: output not declared as uncompressed PBF", json!({"kind": "declared_compression"}), json!({"case": line}));
	if let Some(s) = stream {
		let same = match (&s, &res) {
			(Res::Tile(a), Res::Tile(b)) => a == b, // byte-identical since d0cb5799
			(Res::None, Res::None) => true,
			_ => false,
		};
		out.eval(&format!("stream {line}"), nontrivial);
		out.count(&format!("stream_stagger_{}", c.stagger));
		out.oracle(same, &format!("C10 merge: get_tile_stream (sources staggered by {}) delivers different bytes than get_tile_data (feature order must be source order, not completion order)", c.stagger), json!({"kind": "stream_differs"}), json!({"case": line, "stagger": c.stagger}));
	}
}

/// Faults after open and payload classes for the merge, and reuse of the operation object (no model line:
/// the model has no notion of IO errors / codecs).  Judged: a source fault at the coordinate is reported by
/// get_tile_data (never a tile built from the remaining sources); a tile the lookup refuses is absent from the
/// stream; nothing panics; a second lookup and a second stream on the same object repeat the first byte for byte;
/// merging a tile with an identical copy of itself doubles every layer's features.
fn emit_faults(out: &mut Out, runner: &Runner, rng: &mut Rng, tiles: Vec<Vec<u8>>) {
	let coord = *rng.pick(COORDS);
	let k = tiles.len();
	let kind = rng.below(5); // 0 read error, 1 wrong codec, 2 one-byte payload, 3 identical duplicate, 4 none (reuse only)
	let victim = rng.below(k as u64) as usize;
	let mut map = HashMap::new();
	let mut plain: Vec<Vec<u8>> = vec![];
	let mut codecs: Vec<String> = vec![];
	for (i, t) in tiles.iter().enumerate() {
		let declared = *rng.pick(&[TileCompression::Uncompressed, TileCompression::Gzip, TileCompression::Brotli]);
		let mut payload = if kind == 3 { tiles[0].clone() } else { t.clone() };
		let mut actual = declared;
		let mut fail = vec![];
		if i == victim {
			match kind {
				0 => fail.push(coord),
				1 => {
					// (not used: plain bytes in a brotli-declared source – the brotli crate accepts a PBF's first bytes as a
					// complete stream and ignores the rest, so that mismatch is invisible below the vector operations; C04's subject)
					actual = match declared {
						TileCompression::Uncompressed => TileCompression::Brotli,
						TileCompression::Gzip => TileCompression::Uncompressed,
						TileCompression::Brotli => TileCompression::Gzip,
					}
				}
				2 => payload = vec![*rng.pick(&[0x1au8, 0x00, 0xff, 0x0a])],
				_ => {}
			}
		}
		plain.push(payload.clone());
		codecs.push(format!("{declared:?}<-{actual:?}"));
		map.insert(format!("s{i}"), SourceSpec { tiles: HashMap::from([(coord, compress_as(&payload, actual))]), compression: declared, yields: rng.below(3) as u32, fail, format: TileFormat::PBF, pyramid: None });
	}
	let sources: Sources = Arc::new(Mutex::new(map));
	let factory = make_factory(&runner.dir, sources);
	let vpl = format!("from_vectortiles_merged [ {} ]", (0..k).map(|i| format!("from_container filename=s{i}")).collect::<Vec<_>>().join(", "));
	let rt = &runner.rt;
	let key = format!("faults {kind} {victim} {coord:?} {}", plain.iter().map(|b| hex(b)).collect::<Vec<_>>().join(","));
	out.eval(&key, true);
	out.count(&format!("faults_kind_{}", ["read_error", "wrong_codec", "one_byte", "duplicate", "reuse"][kind as usize]));
	let Ok(Ok(op)) = catch(|| rt.block_on(factory.operation_from_vpl(&vpl))) else { return };
	let c3 = TileCoord3::new(coord.1, coord.2, coord.0).unwrap();
	let look = || match catch(|| rt.block_on(op.get_tile_data(&c3))) {
		Ok(Ok(Some(b))) => Res::Tile(b.into_vec()),
		Ok(Ok(None)) => Res::None,
		Ok(Err(_)) => Res::Err,
		Err(m) => Res::Panic(m),
	};
	let stream = || match catch(|| rt.block_on(async { op.get_tile_stream(box_around(coord)).await.collect().await })) {
		Ok(v) => match v.into_iter().find(|(c, _)| *c == c3) {
			Some((_, b)) => Res::Tile(b.into_vec()),
			None => Res::None,
		},
		Err(m) => Res::Panic(m),
	};
	let (l1, s1, l2, s2) = (look(), stream(), look(), stream());
	let detail = json!({"case": format!("C10m {}", plain.iter().map(|b| hex(b)).collect::<Vec<_>>().join(",")), "fault": kind, "victim": victim, "coord": format!("{coord:?}"), "codecs": codecs});
	let sig = |what: &str| json!({"kind": what, "fault": kind});
	let same = |a: &Res, b: &Res| match (a, b) {
		(Res::Tile(x), Res::Tile(y)) => x == y,
		(Res::None, Res::None) | (Res::Err, Res::Err) => true,
		_ => false,
	};
	out.oracle(same(&l1, &l2) && same(&s1, &s2), "C10 faults: a second lookup / stream on the same operation differs from the first", sig("reuse_differs"), detail.clone());
	out.oracle(![&l1, &s1, &l2, &s2].iter().any(|r| matches!(r, Res::Panic(_))), "C10 faults: panic", sig("panic"), detail.clone());
	if kind <= 2 {
		out.oracle(matches!(l1, Res::Err), "C10 faults: a source fault (read error / wrong codec / one-byte payload) is not reported by get_tile_data", sig("fault_not_reported"), detail.clone());
		if kind != 0 {
			// (for a failing source *lookup* the source's own stream drops the tile, as reader streams do: not judged here)
			out.oracle(matches!(s1, Res::None), "C10 faults: a tile the lookup refuses is delivered by the stream", sig("fault_streamed"), detail.clone());
		}
	} else {
		out.oracle(matches!((&l1, &s1), (Res::Tile(a), Res::Tile(b)) if a == b), "C10 faults: stream and lookup differ", sig("stream_differs"), detail.clone());
		if kind == 3 {
			// k identical copies: every layer holds its features k times, in order
			if let (Res::Tile(b), Some(t)) = (&l1, decode_tile(&tiles[0])) {
				let names_unique = {
					let mut n: Vec<&Vec<u8>> = t.layers.iter().map(|l| &l.name).collect();
					n.sort();
					n.windows(2).all(|w| w[0] != w[1])
				};
				if names_unique {
					let one = sem_tile(&t);
					let want = expected(&vec![one; k]);
					let got = decode_tile(b).map(|t| sem_tile(&t));
					let ok = got.as_ref().is_some_and(|g| g.len() == want.len() && g.iter().zip(&want).all(|(a, b)| a.name == b.name && a.feats == b.feats));
					out.oracle(ok, "C10 faults: merging identical copies does not repeat the features", sig("duplicate_merge"), detail.clone());
				}
			}
		}
	}
}

/// Sources with DIFFERENT declared coverages, in every order: boxes that are disjoint, nested, overlapping, confined
/// to one 32×32 block or straddling a block border, and sources that do not cover the streamed zoom level at all.
/// The stream over a box that leaves the first / a middle source's coverage must deliver exactly the tiles the
/// lookups deliver (same bytes), and every streamed tile must hold the features of all sources that have it, in order.
fn emit_coverage(out: &mut Out, runner: &Runner, rng: &mut Rng) {
	let z: u8 = *rng.pick(&[5u8, 6, 6, 7]);
	let max = (1u32 << z) - 1;
	let k = rng.range(2, 3) as usize;
	// coverage boxes at level z (None = the source has no tiles at this level: it covers another zoom range)
	let shapes = |rng: &mut Rng| -> Option<(u32, u32, u32, u32)> {
		Some(match rng.below(8) {
			0 => return None,
			1 => (0, 0, max / 2, max),               // west half
			2 => (max / 2 + 1, 0, max, max),         // east half
			3 => (0, 0, max, max),                   // everything
			4 => (3, 5, 9, 12),                      // inside the first block
			5 => (28.min(max), 28.min(max), 35.min(max), 35.min(max)), // straddles the 32-border (where the level has one)
			6 => (max.saturating_sub(6), max.saturating_sub(6), max, max), // last block corner
			_ => {
				let x0 = rng.below(max as u64 + 1) as u32;
				let y0 = rng.below(max as u64 + 1) as u32;
				(x0, y0, (x0 + rng.below(40) as u32).min(max), (y0 + rng.below(40) as u32).min(max))
			}
		})
	};
	let mut map = HashMap::new();
	let mut src_tiles: Vec<HashMap<(u32, u32), Vec<u8>>> = vec![];
	let mut desc = vec![];
	for i in 0..k {
		let shape = shapes(rng);
		let mut pyramid = TileBBoxPyramid::new_empty();
		let mut tiles = HashMap::new();
		let mut plain = HashMap::new();
		match shape {
			None => {
				// shallower or deeper source
				let other = if rng.chance(1, 2) { z - 1 } else { z + 1 };
				pyramid.include_bbox(&TileBBox::new_full(other).unwrap());
			}
			Some((x0, y0, x1, y1)) => {
				pyramid.include_bbox(&TileBBox::new(z, x0, y0, x1, y1).unwrap());
				if rng.chance(1, 2) {
					pyramid.include_bbox(&TileBBox::new_full(z - 1).unwrap());
				}
				// tiles: the corners of the box and a few inside
				let mut coords = vec![(x0, y0), (x1, y1), (x0, y1), (x1, y0)];
				for _ in 0..rng.below(4) {
					coords.push((x0 + rng.below((x1 - x0 + 1) as u64) as u32, y0 + rng.below((y1 - y0 + 1) as u64) as u32));
				}
				for (x, y) in coords {
					let t = ITile { layers: vec![ILayer { name: b"roads".to_vec(), features: vec![IFeature { id: Some((i as u64) * 1000 + (x as u64 % 1000)), tags: vec![0, 0], gtype: Some(1), geom: Some(vec![9, 2, 2]) }], keys: vec![format!("k{i}").into_bytes()], values: vec![IValue::UInt(y as u64)], extent: None, version: None }] };
					let b = encode_tile(&t, &PLAIN);
					tiles.insert((z, x, y), b.clone());
					plain.insert((x, y), b);
				}
			}
		}
		desc.push(format!("{shape:?}"));
		src_tiles.push(plain);
		map.insert(format!("s{i}"), SourceSpec { tiles, compression: TileCompression::Uncompressed, yields: rng.below(3) as u32, fail: vec![], format: TileFormat::PBF, pyramid: Some(pyramid) });
	}
	let sources: Sources = Arc::new(Mutex::new(map));
	let factory = make_factory(&runner.dir, sources);
	let vpl = format!("from_vectortiles_merged [ {} ]", (0..k).map(|i| format!("from_container filename=s{i}")).collect::<Vec<_>>().join(", "));
	let rt = &runner.rt;
	let key = format!("coverage z{z} {}", desc.join(" | "));
	out.eval(&key, true);
	out.count(&format!("coverage_zoom_{z}"));
	let Ok(Ok(op)) = catch(|| rt.block_on(factory.operation_from_vpl(&vpl))) else {
		out.oracle(false, "C10 coverage: sources with different coverages cannot be merged", json!({"kind": "coverage_build"}), json!({"sources": desc}));
		return;
	};
	// stream box: the whole level, or a box around a 32-border
	let bbox = if rng.chance(1, 2) || max < 40 { TileBBox::new_full(z).unwrap() } else { TileBBox::new(z, 20, 20, 45.min(max), 45.min(max)).unwrap() };
	let streamed = catch(|| rt.block_on(async { op.get_tile_stream(bbox.clone()).await.collect().await }));
	let detail = json!({"zoom": z, "sources": desc, "box": format!("{bbox:?}")});
	let Ok(streamed) = streamed else {
		out.oracle(false, "C10 coverage: get_tile_stream panics", json!({"kind": "coverage_stream_panic"}), detail);
		return;
	};
	let stream_map: HashMap<(u32, u32), Vec<u8>> = streamed.into_iter().map(|(c, b)| ((c.x, c.y), b.into_vec())).collect();
	// every coordinate of the box at which some source has a tile
	let mut missing = 0;
	let mut differs = 0;
	let mut content = 0;
	let mut checked = 0;
	let mut first_bad = String::new();
	let mut all: Vec<(u32, u32)> = src_tiles.iter().flat_map(|m| m.keys().cloned()).collect();
	all.sort();
	all.dedup();
	for (x, y) in all {
		let c3 = TileCoord3::new(x, y, z).unwrap();
		if !bbox.contains3(&c3) {
			continue;
		}
		checked += 1;
		let look = match catch(|| rt.block_on(op.get_tile_data(&c3))) {
			Ok(Ok(Some(b))) => Some(b.into_vec()),
			_ => None,
		};
		let ins: Vec<Vec<SLayer>> = src_tiles.iter().filter_map(|m| m.get(&(x, y))).map(|b| sem_tile(&decode_tile(b).unwrap())).collect();
		let want = expected(&ins);
		match stream_map.get(&(x, y)) {
			None => {
				missing += 1;
				if first_bad.is_empty() {
					first_bad = format!("tile ({z},{x},{y}) of {} source(s) is missing from the stream", ins.len());
				}
			}
			Some(sb) => {
				if look.as_ref() != Some(sb) {
					differs += 1;
					if first_bad.is_empty() {
						first_bad = format!("streamed tile ({z},{x},{y}) differs from its lookup");
					}
				}
				let got = decode_tile(sb).map(|t| sem_tile(&t));
				if !got.as_ref().is_some_and(|g| g.len() == want.len() && g.iter().zip(&want).all(|(a, b)| a.name == b.name && a.feats == b.feats)) {
					content += 1;
					if first_bad.is_empty() {
						first_bad = format!("streamed tile ({z},{x},{y}) does not hold the features of all {} sources that have it: {}", ins.len(), dump_bytes(sb, false));
					}
				}
			}
		}
	}
	out.count_n("coverage_tiles_checked", checked);
	for (k2, _) in &stream_map {
		if !src_tiles.iter().any(|m| m.contains_key(k2)) {
			differs += 1;
			first_bad = format!("the stream delivers a tile at ({z},{},{}) where no source has one", k2.0, k2.1);
		}
	}
	let kind = if missing > 0 { "coverage_tile_missing" } else if content > 0 { "coverage_features_missing" } else { "coverage_stream_differs" };
	out.oracle(missing + differs + content == 0, &format!("C10 coverage: {first_bad} (missing {missing}, content {content}, differing {differs})"), json!({"kind": kind}), detail);
}

fn opts(rng: &mut Rng) -> GenOpts {
	GenOpts {
		names: ["roads", "water", "pois", "Straße", "Roads", "ROADS", "roads ", " roads", "roads2", "road", "ro\u{430}ds", "", "STRASSE", "caf\u{e9}", "cafe\u{301}"].iter().map(|s| s.as_bytes().to_vec()).collect(),
		keys: ["id", "name", "kind", "pop", "höhe"].iter().map(|s| s.as_bytes().to_vec()).collect(),
		id_values: vec![IValue::UInt(1), IValue::Str(b"a1".to_vec()), IValue::SInt(-3), IValue::Int(-3)],
		max_layers: 4,
		max_features: 4,
		messy_tables: rng.chance(2, 3),
		nan: rng.chance(1, 10),
	}
}

pub fn run(args: &Args) {
	quiet_panics();
	let mut out = Out::new(&args.out);
	out.rule = "2–4 sources, each without a tile or with a tile from the independent MVT encoder (overlapping layer names, different key/value tables incl. duplicates and int64/sint64 twins, differing extents/versions, empty layers; a few tiles with a repeated layer name = model only), stored plain / gzip / brotli; the real from_vectortiles_merged built from VPL, read through get_tile_data and (2 of 3 cases) get_tile_stream with staggered sources (source i of k yields (k-i)*c times, c seeded 0..3, so earlier sources complete later); oracle: independent decoder's reading of the output vs per-name concatenation of the inputs' features in source order (extent/version of a merged layer not judged), existence, declared compression. non-trivial: at least two sources have the tile and share a non-empty layer name; distinct by case text".into();
	out.notes.push("checklist: 1 thresholds = sweep_table_sizes (tag-index width border while merging) + extents/versions 0,1,4095..4097,u32::MAX; 2 faults = emit_faults (read error, wrong codec; plain bytes in a brotli-declared source are accepted by the brotli crate itself and not judged); 3 payloads = empty tile, one-byte, identical duplicates, truncated; 4 options: the operation has none; 5 reuse = second lookup/stream on the same object; 6 order = staggered sources; 7 n.a. (no HTTP); 8 coordinates = zoom 0..31 incl. 32-grid borders; 9 encoder freedoms = indep_mvt styles (unknown/extension fields and unpacked or split packed tag lists are rejected/not merged by the decoder by design and are not generated); 10 paths = stream vs lookup byte for byte, single present source vs plain re-encode; 1b counter confusion: number of sources vs number of sources that have the tile vs number of layers per name all vary independently; 11 fallbacks: a merged layer keeps the FIRST layer's extent and version (not judged: the statement fixes id, geometry bytes and properties only - note that geometry bytes of a later layer with another extent are NOT rescaled), a single present source is delivered as plain re-encoding".into());
	let dir = args.out.join("c10-data");
	std::fs::create_dir_all(&dir).unwrap();
	let runner = Runner { rt: runtime(), dir };
	if let Some(p) = &args.replay {
		for line in std::fs::read_to_string(p).unwrap().lines() {
			let t: Vec<&str> = line.split(' ').collect();
			if t.len() == 2 && t[0] == "C10m" {
				let c = MergeCase { sources: t[1].split(',').map(|s| (if s == "none" { None } else { Some(unhex(s)) }, TileCompression::Uncompressed)).collect(), stagger: 2, coord: (4, 5, 6) };
				emit(&mut out, &runner, &c, true);
			}
		}
		out.finish();
		return;
	}
	let mut rng = Rng::new(args.seed);
	// threshold sweep: target tables growing across the 1→2 byte tag-index border while merging
	let sizes: &[usize] = if args.thorough() { &[1, 63, 64, 127, 128, 129, 255, 256, 1000, 16383, 16384] } else { &[1, 64, 127, 128, 129, 256] };
	for &n in sizes {
		let a = ITile { layers: vec![sized_tables_layer("roads", n, 70), sized_strings_layer(n)] };
		let mut b_layer = sized_tables_layer("roads", n.min(300) + 1, 3);
		b_layer.keys.reverse(); // same strings, other indices
		for f in b_layer.features.iter_mut() {
			let m = b_layer.keys.len() as u32;
			for t in f.tags.chunks_mut(2) {
				t[0] = m - 1 - t[0];
			}
		}
		let b = ITile { layers: vec![sized_strings_layer(n), b_layer] };
		let c = MergeCase { sources: vec![(Some(encode_tile(&a, &PLAIN)), TileCompression::Uncompressed), (None, TileCompression::Gzip), (Some(encode_tile(&b, &PLAIN)), TileCompression::Brotli)], stagger: 1, coord: (6, 31, 32) };
		emit(&mut out, &runner, &c, true);
		out.count("sweep_table_sizes");
	}
	// "all tile sources must provide vector tiles": a source of another format must be refused when the pipeline is built
	for (k, formats) in [[TileFormat::PBF, TileFormat::PNG], [TileFormat::PNG, TileFormat::PBF], [TileFormat::PBF, TileFormat::PBF]].iter().enumerate() {
		let map: HashMap<String, SourceSpec> = formats.iter().enumerate().map(|(i, f)| (format!("s{i}"), SourceSpec { tiles: HashMap::new(), compression: TileCompression::Uncompressed, yields: 0, fail: vec![], format: *f, pyramid: None })).collect();
		let factory = make_factory(&runner.dir, Arc::new(Mutex::new(map)));
		let built = catch(|| runner.rt.block_on(factory.operation_from_vpl("from_vectortiles_merged [ from_container filename=s0, from_container filename=s1 ]")));
		let accepted = matches!(built, Ok(Ok(_)));
		out.eval(&format!("formats {k}"), true);
		out.oracle(accepted == (k == 2), &format!("C10 build: sources {formats:?} accepted={accepted}"), json!({"kind": "non_vector_source"}), json!({"formats": format!("{formats:?}")}));
	}
	// sources with different coverages, streamed over boxes that leave them
	for _ in 0..args.n(150, 3000) {
		emit_coverage(&mut out, &runner, &mut rng);
	}
	// faults after open, payload classes, reuse
	for _ in 0..args.n(300, 5000) {
		let k = rng.range(2, 3) as usize;
		let tiles: Vec<Vec<u8>> = (0..k)
			.map(|_| {
				let o = opts(&mut rng);
				let t = gen_tile(&mut rng, &o, true);
				encode_tile(&t, &gen_style(&mut rng))
			})
			.collect();
		emit_faults(&mut out, &runner, &mut rng, tiles);
	}
	let n = args.n(3000, 40000);
	for i in 0..n {
		let k = rng.range(2, 4);
		let mut sources = vec![];
		let all_none = rng.chance(1, 25);
		for _ in 0..k {
			let comp = *rng.pick(&[TileCompression::Uncompressed, TileCompression::Uncompressed, TileCompression::Gzip, TileCompression::Brotli]);
			if all_none || rng.chance(1, 5) {
				sources.push((None, comp));
			} else {
				let o = opts(&mut rng);
				let unique = !rng.chance(1, 30);
				let tile = gen_tile(&mut rng, &o, unique);
				let st = gen_style(&mut rng);
				sources.push((Some(encode_tile(&tile, &st)), comp));
			}
		}
		let stagger = rng.below(4) as u32;
		let mut with_stream = i % 3 != 2;
		if i % 25 == 11 {
			// one source delivers a truncated tile: lookup must fail cleanly, the stream must survive
			if let Some((Some(b), _)) = sources.iter_mut().find(|(t, _)| t.as_ref().is_some_and(|b| b.len() > 2)) {
				let keep = rng.range(1, b.len() as u64 - 1) as usize;
				b.truncate(keep);
				with_stream = true;
			}
		}
		let coord = if i % 2 == 0 { (4, 5, 6) } else { *rng.pick(COORDS) };
		out.count(&format!("zoom_{}", coord.0));
		emit(&mut out, &runner, &MergeCase { sources, stagger, coord }, with_stream);
	}
	out.finish();
}
