//! C17 – NDJSON reader (`versatiles_core::json::read_ndjson_iter`, exposed by the `verif` hook).
//! `C17n <hex input>` → items separated by `;` (`ok:<tree>` | `err`), `-` when there is none.
//! Direct oracle: values written one per line (LF or CRLF, blank / whitespace-only lines between,
//! with or without a final newline) are read back unchanged and in order.
use super::{gen_string, gen_value, same, tree, NumStyle};
use crate::common::*;
use serde_json::json;
use std::io::Cursor;
use versatiles_core::json::{read_ndjson_iter, JsonValue};

fn run_real(input: &[u8]) -> Result<Vec<Result<JsonValue, ()>>, String> {
	catch(|| read_ndjson_iter(Cursor::new(input.to_vec())).map(|r| r.map_err(|_| ())).collect())
}

fn show(items: &Result<Vec<Result<JsonValue, ()>>, String>) -> String {
	match items {
		Err(_) => "panic".into(),
		Ok(v) if v.is_empty() => "-".into(),
		Ok(v) => v.iter().map(|r| match r {
			Ok(x) => format!("ok:{}", tree(x, NumStyle::Bits)),
			Err(()) => "err".into(),
		}).collect::<Vec<_>>().join(";"),
	}
}

fn emit(out: &mut Out, input: &[u8], expect: Option<&[JsonValue]>) {
	let line = format!("C17n {}", hex(input));
	let items = run_real(input);
	out.case(&line, &show(&items), input.contains(&b'\n'));
	out.count("ndjson_inputs");
	if let Err(m) = &items {
		out.oracle(false, "C17 ndjson: reader panicked", json!({"kind": "ndjson", "what": "panic"}), json!({"case": line, "panic": trunc(m, 200)}));
	}
	// two code paths for one answer: the buffered tokio stream must deliver exactly what the iterator delivers, in order
	if let Ok(got) = &items {
		let streamed = catch(|| {
			let rt = tokio::runtime::Builder::new_multi_thread().worker_threads(3).enable_all().build().unwrap();
			rt.block_on(async {
				use futures::StreamExt;
				versatiles_core::json::read_ndjson_stream(Cursor::new(input.to_vec())).map(|r| r.map_err(|_| ())).collect::<Vec<_>>().await
			})
		});
		let same_items = match &streamed {
			Ok(st) => st.len() == got.len() && st.iter().zip(got).all(|(a, b)| match (a, b) {
				(Ok(x), Ok(y)) => same(x, y),
				(Err(()), Err(())) => true,
				_ => false,
			}),
			Err(_) => false,
		};
		out.oracle(same_items, "C17 ndjson: read_ndjson_stream and read_ndjson_iter disagree", json!({"kind": "ndjson", "what": "stream-vs-iter"}), json!({"case": line}));
	}
	if let (Some(vs), Ok(got)) = (expect, &items) {
		let ok = got.len() == vs.len() && got.iter().zip(vs).all(|(g, v)| matches!(g, Ok(x) if same(x, v)));
		out.oracle(ok, "C17 ndjson: values written one per line are not read back unchanged", json!({"kind": "ndjson", "what": "roundtrip"}), json!({"case": line, "expected_items": vs.len(), "got_items": got.len()}));
	}
}

const BLANKS: &[&str] = &["", " ", "\t", "  \t ", "\u{b}", "\u{c}", "\u{85}", "\u{a0}", "\u{2028}", "\u{2003}\u{3000}", "\r"];

pub fn replay_line(out: &mut Out, line: &str) {
	if let Some(h) = line.strip_prefix("C17n ") {
		emit(out, &unhex(h), None);
	}
}

pub fn run(args: &Args, out: &mut Out, rng: &mut Rng) {
	for t in ["", "\n", "\n\n", "1", "1\n", "1\r\n", "1\r", "\r\n", "1\n2", "1\n\n2\n", " 1 \n\t2\t\n", "\u{85}\n1", "\u{b}1\n2", "1\n\u{a0}\n2", "{\"a\":\n1}", "[1,\n2]", "x\n1\ny", "\"a\\nb\"\n"] {
		emit(out, t.as_bytes(), None);
	}
	for raw in [&b"1\n\xff\n2\n"[..], b"\xc3\n\xa9\n1", b"\"\xc3\xa9\"\n\"\xc3", b"1\n2\n\xf0\x9f\x98"] {
		emit(out, raw, None);
	}
	for i in 0..args.n(300, 4000) {
		let n = rng.below(5) as usize;
		let vs: Vec<JsonValue> = (0..n).map(|_| gen_value(rng, (i % 4) as u32)).collect();
		let mut text = Vec::new();
		let eol: &str = if rng.chance(1, 3) { "\r\n" } else { "\n" };
		for (j, v) in vs.iter().enumerate() {
			while rng.chance(1, 4) {
				text.extend_from_slice(rng.pick(BLANKS).as_bytes());
				text.extend_from_slice(eol.as_bytes());
			}
			if rng.chance(1, 4) {
				text.extend_from_slice(b"  ");
			}
			text.extend_from_slice(v.stringify().as_bytes());
			if j + 1 < vs.len() || rng.chance(1, 2) {
				text.extend_from_slice(eol.as_bytes());
			}
		}
		emit(out, &text, Some(&vs));
		// damaged variants (model correspondence only)
		if i % 3 == 0 && !text.is_empty() {
			let mut t = text.clone();
			let k = rng.below(t.len() as u64) as usize;
			match rng.below(4) {
				0 => t[k] = b'\n',
				1 => t.insert(k, *rng.pick(&[0xffu8, 0xc3, 0x0d, 0x0a, 0x85])),
				2 => t.truncate(k),
				_ => {
					let s = gen_string(rng);
					t.splice(k..k, s.into_bytes());
				}
			}
			emit(out, &t, None);
		}
	}
}
