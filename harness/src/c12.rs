//! C12 – an interrupted write never leaves a file that opens as a valid, wrong container.
//!
//! A recording `DataWriterTrait` captures the operation sequence of the REAL writers
//! (`VersaTilesWriter`, `PMTilesWriter`) for generated tile sets (all compressions).  Every
//! op-prefix and byte-granular cuts of individual ops (all cuts of header-sized ops, sampled cuts
//! of the others) are materialised as byte vectors and opened with the REAL readers
//! (`open_reader(DataReaderBlob)`).
//!
//! case line  `C12 <v|p> <ntab> <hex>… <nops> <op>… <ncuts> <i>:<k>… src <fmt> <comp> <n> <z>/<x>/<y>:<hex>…`
//! impl line  one letter per cut: `e` open fails (Err or panic), `f` opens + every tile intact +
//!            bytes equal the completed file, `c` opens + tiles intact + only header bytes 99..127
//!            differ (pmtiles), `X` opens + tiles intact + differs otherwise, `V` opens and lacks /
//!            misreports a tile (the violation).
//! The Lean model (`VtModel.Crash`) computes `e`/`f`/`c`/`X` from the ops and the table of byte
//! strings the real decompressors accept.  The tokens after `src` are ignored by the model; a
//! replay re-runs the real writer on that source.
use crate::common::*;
use crate::memsrc::MemSource;
use anyhow::Result;
use serde_json::json;
use versatiles_container::{PMTilesReader, PMTilesWriter, TilesWriterTrait, VersaTilesReader, VersaTilesWriter};
use versatiles_core::io::{DataReaderBlob, DataWriterBlob, DataWriterFile, DataWriterTrait};
use versatiles_core::types::*;
use versatiles_core::utils::{decompress_brotli, decompress_gzip};

#[derive(Clone, Debug, PartialEq)]
pub enum Op {
	Append(Vec<u8>),
	WriteStart(Vec<u8>),
	SetPosition(u64),
}
impl Op {
	fn size(&self) -> usize {
		match self {
			Op::Append(b) | Op::WriteStart(b) => b.len(),
			Op::SetPosition(_) => 1,
		}
	}
	fn show(&self) -> String {
		match self {
			Op::Append(b) => format!("a:{}", hex(b)),
			Op::WriteStart(b) => format!("w:{}", hex(b)),
			Op::SetPosition(p) => format!("p:{p}"),
		}
	}
}

/// records the calls of the writer; `get_position` is answered from the tracked position
/// (every call is also forwarded to a real `DataWriterBlob`, whose answers are returned, so the
/// recorded run IS a run of the real in-memory writer)
pub struct Recorder {
	pub ops: Vec<Op>,
	inner: DataWriterBlob,
}
impl Recorder {
	pub fn new() -> Self {
		Recorder { ops: vec![], inner: DataWriterBlob::new().unwrap() }
	}
}
impl DataWriterTrait for Recorder {
	fn append(&mut self, blob: &Blob) -> Result<ByteRange> {
		self.ops.push(Op::Append(blob.as_slice().to_vec()));
		self.inner.append(blob)
	}
	fn write_start(&mut self, blob: &Blob) -> Result<()> {
		self.ops.push(Op::WriteStart(blob.as_slice().to_vec()));
		self.inner.write_start(blob)
	}
	fn get_position(&mut self) -> Result<u64> {
		self.inner.get_position()
	}
	fn set_position(&mut self, position: u64) -> Result<()> {
		self.ops.push(Op::SetPosition(position));
		self.inner.set_position(position)
	}
}

/// file semantics: positional write, zero fill of a gap; an op that writes no byte changes nothing
struct Disk {
	file: Vec<u8>,
	pos: usize,
}
impl Disk {
	fn write_at(&mut self, pos: usize, b: &[u8]) {
		if b.is_empty() {
			return;
		}
		if self.file.len() < pos + b.len() {
			self.file.resize(pos + b.len(), 0);
		}
		self.file[pos..pos + b.len()].copy_from_slice(b);
	}
	fn apply_cut(&mut self, op: &Op, k: usize) {
		match op {
			Op::Append(b) => {
				let k = k.min(b.len());
				let p = self.pos;
				self.write_at(p, &b[..k]);
				self.pos += k;
			}
			Op::WriteStart(b) => {
				let k = k.min(b.len());
				self.write_at(0, &b[..k]);
			}
			Op::SetPosition(p) => {
				if k > 0 {
					self.pos = *p as usize
				}
			}
		}
	}
}
fn crash_state(ops: &[Op], i: usize, k: usize) -> Vec<u8> {
	let mut d = Disk { file: vec![], pos: 0 };
	for op in &ops[..i.min(ops.len())] {
		d.apply_cut(op, op.size());
	}
	if i < ops.len() {
		d.apply_cut(&ops[i], k);
	}
	d.file
}

#[derive(Clone)]
struct Src {
	fmt: TileFormat,
	comp: TileCompression,
	tiles: Vec<(TileCoord3, Vec<u8>)>,
}
fn fmt_name(f: TileFormat) -> &'static str {
	match f {
		TileFormat::AVIF => "avif",
		TileFormat::BIN => "bin",
		TileFormat::GEOJSON => "geojson",
		TileFormat::JPG => "jpg",
		TileFormat::JSON => "json",
		TileFormat::PBF => "pbf",
		TileFormat::PNG => "png",
		TileFormat::SVG => "svg",
		TileFormat::TOPOJSON => "topojson",
		TileFormat::WEBP => "webp",
	}
}
fn fmt_of(s: &str) -> TileFormat {
	match s {
		"avif" => TileFormat::AVIF,
		"bin" => TileFormat::BIN,
		"geojson" => TileFormat::GEOJSON,
		"jpg" => TileFormat::JPG,
		"json" => TileFormat::JSON,
		"png" => TileFormat::PNG,
		"svg" => TileFormat::SVG,
		"topojson" => TileFormat::TOPOJSON,
		"webp" => TileFormat::WEBP,
		_ => TileFormat::PBF,
	}
}
fn comp_name(c: TileCompression) -> &'static str {
	match c {
		TileCompression::Uncompressed => "none",
		TileCompression::Gzip => "gzip",
		TileCompression::Brotli => "brotli",
	}
}
fn comp_of(s: &str) -> TileCompression {
	match s {
		"gzip" => TileCompression::Gzip,
		"brotli" => TileCompression::Brotli,
		_ => TileCompression::Uncompressed,
	}
}
impl Src {
	fn show(&self) -> String {
		let mut s = format!("src {} {} {}", fmt_name(self.fmt), comp_name(self.comp), self.tiles.len());
		for (c, b) in &self.tiles {
			s.push_str(&format!(" {}/{}/{}:{}", c.z, c.x, c.y, hex(b)));
		}
		s
	}
	fn parse(toks: &[&str]) -> Option<Src> {
		if toks.len() < 4 || toks[0] != "src" {
			return None;
		}
		let n: usize = toks[3].parse().ok()?;
		let mut tiles = vec![];
		for t in toks[4..].iter().take(n) {
			let (c, h) = t.split_once(':')?;
			let p: Vec<u32> = c.split('/').filter_map(|x| x.parse().ok()).collect();
			tiles.push((TileCoord3::new(p[1], p[2], p[0] as u8).ok()?, unhex(h)));
		}
		Some(Src { fmt: fmt_of(toks[1]), comp: comp_of(toks[2]), tiles })
	}
	fn mem(&self) -> MemSource {
		MemSource::new("c12", self.fmt, self.comp, self.tiles.iter().map(|(c, b)| (*c, Blob::from(b.clone()))).collect())
	}
}

fn gen_src(rng: &mut Rng, big: bool) -> Src {
	let fmt = *rng.pick(&[TileFormat::PBF, TileFormat::PNG, TileFormat::BIN, TileFormat::JSON, TileFormat::WEBP]);
	let comp = *rng.pick(&[TileCompression::Uncompressed, TileCompression::Gzip, TileCompression::Brotli]);
	let n = if big { rng.range(40, 300) } else { rng.range(1, 14) } as usize;
	let zmax = if big { 10 } else { *rng.pick(&[0u8, 1, 2, 3, 5, 9]) };
	let zmin = rng.below(zmax as u64 + 1) as u8;
	let mut tiles: Vec<(TileCoord3, Vec<u8>)> = vec![];
	let shared_len = rng.range(1, 12) as usize;
	let shared = rng.bytes(shared_len);
	while tiles.len() < n {
		let z = rng.range(zmin as u64, zmax as u64) as u8;
		let m = 1u64 << z;
		// cluster the coordinates so that several tiles share a 256-block, sometimes cross a block border
		let (x, y) = if z >= 9 && rng.chance(2, 3) { (250 + rng.below(12), 250 + rng.below(12)) } else { (rng.below(m.min(40)), rng.below(m.min(40))) };
		let c = TileCoord3::new(x as u32, y as u32, z).unwrap();
		if tiles.iter().any(|(d, _)| *d == c) {
			if m * m <= tiles.len() as u64 + 1 {
				break;
			}
			continue;
		}
		let (big_len, small_len) = (rng.range(1000, 1400) as usize, rng.range(1, 24) as usize);
		// (no empty payloads: both containers report an empty blob as an absent tile even in a
		// completed file – a round-trip question that belongs to C01/C16, not to interruption)
		let blob = match rng.below(12) {
			0..=2 => shared.clone(), // duplicates: the versatiles writer stores them once
			3 if big => rng.bytes(big_len),
			_ => rng.bytes(small_len),
		};
		tiles.push((c, blob));
	}
	tiles.sort_by_key(|(c, _)| (c.z, c.y, c.x));
	Src { fmt, comp, tiles }
}

/// few tiles spread over a whole level: the level box spans many 256-blocks, the block index gets
/// long enough (> 255 bytes) for a torn length field to denote a non-empty strict prefix
fn gen_spread(rng: &mut Rng, round: usize) -> Src {
	let z = [12u8, 11, 10][round % 3];
	let m = 1u64 << z;
	let n = if z == 12 { rng.range(30, 60) } else { rng.range(2, 5) };
	let mut tiles: Vec<(TileCoord3, Vec<u8>)> = vec![];
	tiles.push((TileCoord3::new(rng.below(200) as u32, rng.below(200) as u32, z).unwrap(), rng.bytes(9)));
	tiles.push((TileCoord3::new((m - 1 - rng.below(200)) as u32, (m - 1 - rng.below(200)) as u32, z).unwrap(), rng.bytes(11)));
	while (tiles.len() as u64) < n {
		let c = TileCoord3::new(rng.below(m) as u32, rng.below(m) as u32, z).unwrap();
		if !tiles.iter().any(|(d, _)| *d == c) {
			let len = rng.range(1, 20) as usize;
			tiles.push((c, rng.bytes(len)));
		}
	}
	tiles.sort_by_key(|(c, _)| (c.z, c.y, c.x));
	Src { fmt: TileFormat::PBF, comp: *rng.pick(&[TileCompression::Uncompressed, TileCompression::Gzip, TileCompression::Brotli]), tiles }
}

/// payload sizes around the thresholds of the writers: 1000 (de-duplication of the versatiles writer,
/// `blob.len() < 1000`), 8192 (capacity of the `BufWriter` in `DataWriterFile`: larger blobs bypass the buffer)
fn gen_threshold(rng: &mut Rng, round: usize) -> Src {
	let sizes: &[usize] = if round % 2 == 0 { &[999, 1000, 1001, 999, 1000, 1001, 1] } else { &[8191, 8192, 8193, 8191, 16384, 3, 8192] };
	let z = 9u8;
	let mut tiles = vec![];
	let dup_a = rng.bytes(sizes[0]);
	for (k, sz) in sizes.iter().enumerate() {
		// both sides of the block border at 255/256, duplicates of the first payload at the same sizes
		let c = TileCoord3::new(254 + k as u32, 255 + (k as u32 % 2), z).unwrap();
		let b = if k == 3 { dup_a.clone() } else if k == 0 { dup_a.clone() } else { rng.bytes(*sz) };
		tiles.push((c, b));
	}
	tiles.sort_by_key(|(c, _)| (c.z, c.y, c.x));
	Src { fmt: TileFormat::PNG, comp: *rng.pick(&[TileCompression::Uncompressed, TileCompression::Gzip, TileCompression::Brotli]), tiles }
}

/// 130 × 130 tiles at zoom 8 (> 16384 entries): the PMTiles writer needs leaf directories (4096-entry leaves,
/// 16257-byte root limit); the versatiles writer gets a full 256-block plus neighbours
fn gen_leafy() -> Src {
	let mut tiles = vec![];
	for x in 0..130u32 {
		for y in 0..130u32 {
			let c = TileCoord3::new(x, y, 8).unwrap();
			let mut b = format!("t{x}/{y} ").into_bytes();
			b.extend(std::iter::repeat(b'.').take(((x * 7 + y * 13) % 23) as usize));
			tiles.push((c, b));
		}
	}
	tiles.sort_by_key(|(c, _)| (c.z, c.y, c.x));
	Src { fmt: TileFormat::PBF, comp: TileCompression::Uncompressed, tiles }
}

/// observation outside the property's scope (it names .versatiles and .pmtiles): a tar archive has no
/// completion marker a reader could insist on – what do byte prefixes of a written archive open as?
fn tar_prefix_observation(args: &Args, out: &mut Out, rng: &mut Rng) {
	use versatiles_container::{TarTilesReader, TarTilesWriter};
	let src = gen_src(rng, false);
	let path = args.out.join("c12_obs.tar");
	let rt = tokio::runtime::Builder::new_current_thread().enable_all().build().unwrap();
	let mut mem = src.mem();
	if rt.block_on(async { TarTilesWriter::write_to_path(&mut mem, &path).await }).is_err() {
		return;
	}
	let bytes = std::fs::read(&path).unwrap_or_default();
	let (mut fails, mut all, mut fewer, mut panics) = (0, 0, 0, 0);
	let cut_path = args.out.join("c12_obs_cut.tar");
	let mut cuts: Vec<usize> = (0..=bytes.len() / 512).map(|k| k * 512).collect();
	cuts.extend((0..10).map(|_| rng.below(bytes.len() as u64 + 1) as usize));
	for k in cuts {
		std::fs::write(&cut_path, &bytes[..k.min(bytes.len())]).unwrap();
		let r = catch(|| {
			rt.block_on(async {
				let reader = TarTilesReader::open_path(&cut_path)?;
				let mut n = 0;
				for (c, b) in &src.tiles {
					if matches!(reader.get_tile_data(c).await, Ok(Some(g)) if g.as_slice() == b.as_slice()) {
						n += 1;
					}
				}
				anyhow::Ok(n)
			})
		});
		match r {
			Err(_) => panics += 1,
			Ok(Err(_)) => fails += 1,
			Ok(Ok(n)) if n == src.tiles.len() => all += 1,
			Ok(Ok(_)) => fewer += 1,
		}
	}
	out.extra.insert("observation_tar_prefixes".into(), json!({"archive_bytes": bytes.len(), "tiles": src.tiles.len(), "prefixes_open_fails": fails, "prefixes_open_with_all_tiles": all, "prefixes_open_with_FEWER_tiles": fewer, "prefixes_panic": panics}));
	let _ = std::fs::remove_file(&cut_path);
	let _ = std::fs::remove_file(&path);
}

// ───────────── write faults: an operation of the DataWriterTrait fails (once, by size, or from then on) ─────────────

#[derive(Clone, Copy, Debug, PartialEq)]
enum FaultPolicy {
	/// the n-th operation fails once (disk nearly full for that blob, transient EIO); later ones succeed
	NthOnce(usize),
	/// every append / write_start of more than k bytes fails (quota, EFBIG); smaller ones succeed
	LargerThan(usize),
	/// the n-th and every later operation fails
	FromNth(usize),
}
impl FaultPolicy {
	fn show(&self) -> String {
		match self {
			FaultPolicy::NthOnce(n) => format!("once:{n}"),
			FaultPolicy::LargerThan(k) => format!("larger:{k}"),
			FaultPolicy::FromNth(n) => format!("from:{n}"),
		}
	}
	fn parse(s: &str) -> Option<FaultPolicy> {
		let (a, b) = s.split_once(':')?;
		let v: usize = b.parse().ok()?;
		Some(match a {
			"once" => FaultPolicy::NthOnce(v),
			"larger" => FaultPolicy::LargerThan(v),
			_ => FaultPolicy::FromNth(v),
		})
	}
}

/// forwards to a real `DataWriterBlob`, except that the chosen operations fail with an error and write nothing
struct FaultyWriter {
	inner: DataWriterBlob,
	policy: FaultPolicy,
	count: usize,
	faults: usize,
}
impl FaultyWriter {
	fn fails(&mut self, size: usize) -> bool {
		let i = self.count;
		self.count += 1;
		let f = match self.policy {
			FaultPolicy::NthOnce(n) => i == n,
			FaultPolicy::LargerThan(k) => size > k,
			FaultPolicy::FromNth(n) => i >= n,
		};
		if f {
			self.faults += 1;
		}
		f
	}
}
impl DataWriterTrait for FaultyWriter {
	fn append(&mut self, blob: &Blob) -> Result<ByteRange> {
		if self.fails(blob.len() as usize) {
			anyhow::bail!("injected write fault (append of {} bytes)", blob.len());
		}
		self.inner.append(blob)
	}
	fn write_start(&mut self, blob: &Blob) -> Result<()> {
		if self.fails(blob.len() as usize) {
			anyhow::bail!("injected write fault (write_start)");
		}
		self.inner.write_start(blob)
	}
	fn get_position(&mut self) -> Result<u64> {
		self.inner.get_position()
	}
	fn set_position(&mut self, position: u64) -> Result<()> {
		if self.fails(0) {
			anyhow::bail!("injected write fault (set_position)");
		}
		self.inner.set_position(position)
	}
}

/// One run of the real writer against a faulty `DataWriterTrait`.  Oracle: the write call fails loudly
/// (Err or panic) – then what it left behind must not open as a wrong container –, or it returns Ok and the
/// file opens and delivers every source tile.  A write that "succeeds" while a tile is missing is the violation.
fn emit_fault(out: &mut Out, src: &Src, container: char, policy: FaultPolicy) {
	let rt = tokio::runtime::Builder::new_current_thread().enable_all().build().unwrap();
	let mut mem = src.mem();
	let mut w = FaultyWriter { inner: DataWriterBlob::new().unwrap(), policy, count: 0, faults: 0 };
	let r = catch(|| {
		rt.block_on(async {
			if container == 'v' {
				VersaTilesWriter::write_to_writer(&mut mem, &mut w).await
			} else {
				PMTilesWriter::write_to_writer(&mut mem, &mut w).await
			}
		})
	});
	let outcome = match &r {
		Ok(Ok(())) => "ok",
		Ok(Err(_)) => "err",
		Err(_) => "panic",
	};
	let bytes = w.inner.as_slice().to_vec();
	let (v, msg) = open_and_compare(&rt, container, &bytes, src);
	let line = format!("C12 fault {container} {} {}", policy.show(), src.show());
	out.eval(&line, w.faults > 0);
	out.count(&format!("fault_{container}_{}_write_{outcome}{}", match policy {
		FaultPolicy::NthOnce(_) => "once",
		FaultPolicy::LargerThan(_) => "larger",
		FaultPolicy::FromNth(_) => "from",
	}, if w.faults == 0 { "_no_fault_fired" } else { "" }));
	let ok = if outcome == "ok" { v == Verdict::Intact } else { v != Verdict::Wrong };
	let what = if outcome == "ok" {
		format!("C12 silent-write-fault: {} operation(s) of the DataWriterTrait failed, write_to_writer returned Ok, but the file does not deliver every source tile ({msg})", w.faults)
	} else {
		format!("C12 opens-wrong: after a failed write ({outcome}) the file left behind opens as a container that lacks or misreports a tile ({msg})")
	};
	out.oracle(ok, &what, json!({"kind": if outcome == "ok" { "silent-write-fault" } else { "opens-wrong" }, "format": container.to_string(), "target": "faulty-writer", "comp": comp_name(src.comp)}), json!({"case": trunc(&line, 6000), "policy": policy.show(), "write_result": outcome, "faults_fired": w.faults, "message": msg}));
}

fn emit_faults(out: &mut Out, rng: &mut Rng, src: &Src, container: char) {
	let Ok((ops, _)) = record(src, container) else { return };
	let n = ops.len();
	// every operation fails once (sampled above 40 operations); size thresholds; sticky failures
	let mut points: Vec<usize> = if n <= 40 { (0..n).collect() } else { (0..40).map(|_| rng.below(n as u64) as usize).collect() };
	points.sort();
	points.dedup();
	for p in points {
		emit_fault(out, src, container, FaultPolicy::NthOnce(p));
	}
	let mut sizes: Vec<usize> = ops.iter().map(|o| o.size()).collect();
	sizes.sort();
	sizes.dedup();
	for k in [0usize, 8, 20, 66, 127, 999, 8191].iter().copied().chain(sizes.iter().rev().take(3).map(|s| s.saturating_sub(1))) {
		emit_fault(out, src, container, FaultPolicy::LargerThan(k));
	}
	for _ in 0..3 {
		emit_fault(out, src, container, FaultPolicy::FromNth(rng.below(n as u64) as usize));
	}
}

fn record(src: &Src, container: char) -> Result<(Vec<Op>, Vec<u8>), String> {
	let rt = tokio::runtime::Builder::new_current_thread().enable_all().build().unwrap();
	let mut mem = src.mem();
	let mut rec = Recorder::new();
	let r = catch(|| {
		rt.block_on(async {
			if container == 'v' {
				VersaTilesWriter::write_to_writer(&mut mem, &mut rec).await
			} else {
				PMTilesWriter::write_to_writer(&mut mem, &mut rec).await
			}
		})
	});
	match r {
		Ok(Ok(())) => {
			let bytes = rec.inner.as_slice().to_vec();
			Ok((rec.ops, bytes))
		}
		Ok(Err(e)) => Err(format!("err: {e}")),
		Err(p) => Err(format!("panic: {p}")),
	}
}

#[derive(PartialEq, Debug, Clone, Copy)]
enum Verdict {
	Fail,
	Panic,
	Intact,
	Wrong,
}

/// opens `bytes` with the real reader; on success compares every tile of the source and probes
/// coordinates the source does not have
fn open_and_compare(rt: &tokio::runtime::Runtime, container: char, bytes: &[u8], src: &Src) -> (Verdict, String) {
	let data = bytes.to_vec();
	let opened = std::sync::atomic::AtomicBool::new(false);
	let r = catch(|| {
		rt.block_on(async {
			let reader: Box<dyn TilesReaderTrait> = if container == 'v' {
				Box::new(VersaTilesReader::open_reader(Box::new(DataReaderBlob::from(data))).await?)
			} else {
				Box::new(PMTilesReader::open_reader(Box::new(DataReaderBlob::from(data))).await?)
			};
			let mut bad: Option<String> = None;
			for (c, b) in &src.tiles {
				let got = reader.get_tile_data(c).await;
				let ok = matches!(&got, Ok(Some(g)) if g.as_slice() == b.as_slice());
				if !ok && bad.is_none() {
					bad = Some(format!(
						"tile {}/{}/{}: expected {} bytes, got {}",
						c.z,
						c.x,
						c.y,
						b.len(),
						match &got {
							Ok(Some(g)) => format!("{} other bytes", g.len()),
							Ok(None) => "None".into(),
							Err(_) => "Err".into(),
						}
					));
				}
			}
			// misreport: a tile the source does not have
			for (c, _) in src.tiles.iter().take(6) {
				for (dx, dy) in [(1u32, 0u32), (0, 1)] {
					let m = 1u32 << c.z;
					if c.x + dx >= m || c.y + dy >= m {
						continue;
					}
					let p = TileCoord3::new(c.x + dx, c.y + dy, c.z).unwrap();
					if src.tiles.iter().any(|(d, _)| *d == p) {
						continue;
					}
					if let Ok(Some(g)) = reader.get_tile_data(&p).await {
						if bad.is_none() {
							bad = Some(format!("tile {}/{}/{} is not in the source but {} bytes were returned", p.z, p.x, p.y, g.len()));
						}
					}
				}
			}
			// what the container ADVERTISES is part of what it reports: (a) the coverage in its parameters
			// contains every source tile (C03's statement), (b) streaming the advertised levels delivers
			// every source tile – consumers (convert, TileJSON zoom range, level streams) go through these
			opened.store(true, std::sync::atomic::Ordering::SeqCst);
			let pyramid = reader.get_parameters().bbox_pyramid.clone();
			for (c, _) in &src.tiles {
				if !pyramid.contains_coord(c) && bad.is_none() {
					bad = Some(format!("tile {}/{}/{} is stored but outside the advertised coverage", c.z, c.x, c.y));
				}
			}
			if bad.is_none() {
				let mut streamed: std::collections::HashMap<(u8, u32, u32), Vec<u8>> = std::collections::HashMap::new();
				// whole levels up to 4096 tiles; of larger levels the 3 × 3 neighbourhoods of the source tiles
				// (clipped to the advertised level box)
				let mut levels: Vec<TileBBox> = vec![];
				for b in pyramid.iter_levels().filter(|b| !b.is_empty()) {
					if b.count_tiles() <= 4096 {
						levels.push(b.clone());
					} else {
						let stride = (src.tiles.len() / 64).max(1);
						for (c, _) in src.tiles.iter().step_by(stride).filter(|(c, _)| c.z == b.level && b.x_min <= c.x && c.x <= b.x_max && b.y_min <= c.y && c.y <= b.y_max) {
							let (x0, y0) = (c.x.saturating_sub(1).max(b.x_min), c.y.saturating_sub(1).max(b.y_min));
							let (x1, y1) = ((c.x + 1).min(b.x_max), (c.y + 1).min(b.y_max));
							if let Ok(nb) = TileBBox::new(b.level, x0, y0, x1, y1) {
								levels.push(nb);
							}
						}
					}
				}
				for b in levels {
					for (c, blob) in reader.get_bbox_tile_stream(b).await.collect().await {
						streamed.insert((c.z, c.x, c.y), blob.into_vec());
					}
				}
				let sampled = src.tiles.len() > 64 && pyramid.iter_levels().any(|b| b.count_tiles() > 4096);
				let stride = if sampled { (src.tiles.len() / 64).max(1) } else { 1 };
				for (c, b) in src.tiles.iter().step_by(stride) {
					if streamed.get(&(c.z, c.x, c.y)) != Some(b) && bad.is_none() {
						bad = Some(format!("tile {}/{}/{} is not delivered intact by streaming the advertised levels", c.z, c.x, c.y));
					}
				}
			}
			anyhow::Ok(bad)
		})
	});
	match r {
		Err(p) if opened.load(std::sync::atomic::Ordering::SeqCst) => (Verdict::Wrong, format!("panic after the open succeeded (coverage / level streams): {}", trunc(&p, 80))),
		Err(p) => (Verdict::Panic, trunc(&p, 100)),
		Ok(Err(e)) => (Verdict::Fail, trunc(&format!("{e:#}"), 100)),
		Ok(Ok(None)) => (Verdict::Intact, String::new()),
		Ok(Ok(Some(m))) => (Verdict::Wrong, m),
	}
}

fn choose_cuts(rng: &mut Rng, ops: &[Op], all_header_cuts: bool) -> Vec<(usize, usize)> {
	let mut cuts = vec![];
	if ops.len() > 2000 {
		// tens of thousands of appends (PMTiles with leaf directories): sampled op-prefixes and byte cuts in the
		// body, every operation boundary of the last six operations, the header fields
		let n = ops.len();
		for _ in 0..14 {
			let i = rng.range(1, n as u64 - 7) as usize;
			cuts.push((i, 0));
			if ops[i].size() > 1 {
				cuts.push((i, rng.range(1, ops[i].size() as u64 - 1) as usize));
			}
		}
		for i in n - 6..n {
			cuts.push((i, 0));
			let sz = ops[i].size();
			if sz > 1 && !matches!(ops[i], Op::SetPosition(_)) {
				if matches!(ops[i], Op::WriteStart(_)) {
					cuts.extend([7usize, 8, 16, 64, 96, 97, 98, 99, 100, 101, 102, 126].iter().filter(|k| **k < sz).map(|k| (i, *k)));
				} else {
					cuts.extend([1, sz / 2, sz - 1].iter().map(|k| (i, *k)));
				}
			}
		}
		cuts.push((n, 0));
		cuts.sort();
		cuts.dedup();
		return cuts;
	}
	for (i, op) in ops.iter().enumerate() {
		cuts.push((i, 0)); // op-prefix
		match op {
			Op::SetPosition(_) => {}
			Op::Append(b) | Op::WriteStart(b) => {
				let n = b.len();
				let header_sized = matches!(op, Op::WriteStart(_)) || (i == 0 && n <= 127);
				if header_sized && all_header_cuts {
					cuts.extend((1..n).map(|k| (i, k)));
				} else if n > 1 && ops.len() > 100 && !header_sized && i + 2 < ops.len() {
					// long runs (hundreds of blocks): op-prefixes plus an occasional byte cut
					if rng.chance(1, 4) {
						cuts.push((i, rng.range(1, n as u64 - 1) as usize));
					}
				} else if n > 1 {
					let mut ks = vec![1, n - 1, n / 2];
					if header_sized {
						// the fields of the two headers
						ks.extend([7, 8, 14, 16, 34, 42, 43, 49, 50, 57, 58, 59, 60, 61, 62, 63, 64, 65, 96, 97, 98, 99, 100, 126].iter().filter(|k| **k < n));
					}
					for _ in 0..2 {
						ks.push(rng.range(1, n as u64 - 1) as usize);
					}
					ks.sort();
					ks.dedup();
					cuts.extend(ks.into_iter().filter(|k| *k >= 1 && *k < n).map(|k| (i, k)));
				}
			}
		}
	}
	cuts.push((ops.len(), 0)); // the completed file
	cuts
}

struct Laws {
	nil_tests: u64,
	be_tests: u64,
	prefix_tests: u64,
	accepted: Vec<String>,
}

/// `dec_nil` / `dec_prefix` on the real crates for one compressed blob
fn test_codec_laws(rng: &mut Rng, laws: &mut Laws, kind: &str, blob: &[u8], what: &str) {
	let dec = |b: &[u8]| -> bool {
		let blob = Blob::from(b.to_vec());
		catch(|| if kind == "brotli" { decompress_brotli(&blob).is_ok() } else { decompress_gzip(&blob).is_ok() }).unwrap_or(false)
	};
	laws.nil_tests += 1;
	if dec(&[]) {
		laws.accepted.push(format!("{kind} accepts the empty input"));
	}
	let l = blob.len() as u64;
	// lengths a torn big-endian / little-endian rewrite of the 8-byte length field can leave
	let mut lens: Vec<u64> = vec![];
	for j in 0..8u32 {
		lens.push(l >> (8 * j) << (8 * j)); // BE: low bytes still zero
		lens.push(l & ((1u64 << (8 * j)) - 1)); // LE: high bytes still zero
	}
	lens.sort();
	lens.dedup();
	for v in lens.into_iter().filter(|v| *v < l) {
		laws.be_tests += 1;
		if dec(&blob[..v as usize]) {
			laws.accepted.push(format!("{kind} accepts the {v}-byte prefix of the {l}-byte {what}: {}", trunc(&hex(blob), 200)));
		}
	}
	let mut ks: Vec<usize> = if blob.len() <= 64 { (1..blob.len()).collect() } else { (0..40).map(|_| rng.range(1, l - 1) as usize).collect() };
	ks.sort();
	ks.dedup();
	for k in ks {
		laws.prefix_tests += 1;
		if dec(&blob[..k]) {
			laws.accepted.push(format!("{kind} accepts the {k}-byte prefix of the {l}-byte {what}: {}", trunc(&hex(blob), 200)));
		}
	}
}

/// a recorded run of a real writer and the on-disk states it went through
struct Run {
	ops: Vec<Op>,
	/// through the real `DataWriterFile`: file bytes and writer position before each op (index
	/// `ops.len()` = after the last op); `None`: in-memory run, states are replayed from the ops
	snaps: Option<(Vec<Vec<u8>>, Vec<u64>)>,
	/// bytes the path held before `DataWriterFile::from_path` (file runs only)
	old: Option<Vec<u8>>,
	/// `from_path` emptied the existing file (`File::create`)
	truncated: bool,
	/// byte strings of the OLD file the real decompressors accept
	old_tab: Vec<Vec<u8>>,
	target: &'static str,
}
impl Run {
	fn state(&self, i: usize, k: usize) -> Vec<u8> {
		match &self.snaps {
			None => crash_state(&self.ops, i, k),
			Some((snaps, poss)) => {
				let j = i.min(self.ops.len());
				let mut d = Disk { file: snaps[j].clone(), pos: poss[j] as usize };
				if i < self.ops.len() {
					d.apply_cut(&self.ops[i], k);
				}
				d.file
			}
		}
	}
}

/// forwards every call to the REAL `DataWriterFile` and copies the file after each completed call
/// (`get_position` makes the `BufWriter` flush, so the copy is what a reader would find)
struct FileRecorder {
	ops: Vec<Op>,
	inner: DataWriterFile,
	path: std::path::PathBuf,
	snaps: Vec<Vec<u8>>,
	poss: Vec<u64>,
}
impl FileRecorder {
	fn new(path: &std::path::Path) -> Result<Self> {
		let mut inner = DataWriterFile::from_path(path)?;
		let pos = inner.get_position()?;
		Ok(FileRecorder { ops: vec![], inner, path: path.to_path_buf(), snaps: vec![std::fs::read(path)?], poss: vec![pos] })
	}
	fn snap(&mut self) -> Result<()> {
		let pos = self.inner.get_position()?;
		self.snaps.push(std::fs::read(&self.path)?);
		self.poss.push(pos);
		Ok(())
	}
}
impl DataWriterTrait for FileRecorder {
	fn append(&mut self, blob: &Blob) -> Result<ByteRange> {
		self.ops.push(Op::Append(blob.as_slice().to_vec()));
		let r = self.inner.append(blob)?;
		self.snap()?;
		Ok(r)
	}
	fn write_start(&mut self, blob: &Blob) -> Result<()> {
		self.ops.push(Op::WriteStart(blob.as_slice().to_vec()));
		self.inner.write_start(blob)?;
		self.snap()
	}
	fn get_position(&mut self) -> Result<u64> {
		self.inner.get_position()
	}
	fn set_position(&mut self, position: u64) -> Result<()> {
		self.ops.push(Op::SetPosition(position));
		self.inner.set_position(position)?;
		self.snap()
	}
}

/// the byte strings of a run the real decompressors accept (for the model's table)
fn valid_streams(ops: &[Op], container: char, comp: TileCompression) -> Vec<(Vec<u8>, &'static str, &'static str)> {
	let appended: Vec<&Vec<u8>> = ops.iter().filter_map(|o| if let Op::Append(b) = o { Some(b) } else { None }).collect();
	let mut tab = vec![];
	if container == 'v' {
		// ops: header, meta, …, block index, header
		if appended.len() >= 3 {
			tab.push((appended[appended.len() - 1].clone(), "brotli", "block index"));
			if comp != TileCompression::Uncompressed {
				tab.push((appended[1].clone(), comp_name(comp), "metadata"));
			}
		}
	} else {
		// ops: p:16384, meta, tiles…, p:127, root, p:end, leaves, header
		if !appended.is_empty() {
			tab.push((appended[0].clone(), "gzip", "metadata"));
		}
		if let Some(i) = ops.iter().position(|o| *o == Op::SetPosition(127)) {
			if let Some(Op::Append(root)) = ops.get(i + 1) {
				tab.push((root.clone(), "gzip", "root directory"));
			}
		}
	}
	tab
}

fn emit(out: &mut Out, rng: &mut Rng, laws: &mut Laws, src: &Src, container: char, all_header_cuts: bool, only_cuts: Option<Vec<(usize, usize)>>) {
	let (ops, real_bytes) = match record(src, container) {
		Ok(o) => o,
		Err(e) => {
			// the writer refuses / fails on this source: nothing is written, nothing to interrupt
			out.count(&format!("writer_{}_{}", container, if e.starts_with("panic") { "panic" } else { "err" }));
			return;
		}
	};
	let final_bytes = crash_state(&ops, ops.len(), 0);
	out.oracle(real_bytes == final_bytes, "C12 materialise: replaying the recorded operations does not give the bytes of the real DataWriterBlob", json!({"kind": "materialise", "format": container.to_string()}), json!({"case": src.show()}));
	let run = Run { ops, snaps: None, old: None, truncated: false, old_tab: vec![], target: "memory" };
	judge(out, rng, laws, src, container, &run, all_header_cuts, only_cuts);
}

/// runs the real writer through the real `DataWriterFile` on `path` (which may already hold a file)
fn record_file(src: &Src, container: char, path: &std::path::Path, old_tab: Vec<Vec<u8>>) -> Result<Run, String> {
	let old = std::fs::read(path).unwrap_or_default();
	let rt = tokio::runtime::Builder::new_current_thread().enable_all().build().unwrap();
	let mut mem = src.mem();
	let mut rec = FileRecorder::new(path).map_err(|e| format!("err: {e}"))?;
	let r = catch(|| {
		rt.block_on(async {
			if container == 'v' {
				VersaTilesWriter::write_to_writer(&mut mem, &mut rec).await
			} else {
				PMTilesWriter::write_to_writer(&mut mem, &mut rec).await
			}
		})
	});
	match r {
		Ok(Ok(())) => {
			let truncated = !old.is_empty() && rec.snaps[0].is_empty();
			let target = if old.is_empty() { "file-fresh" } else { "file-overwrite" };
			// without a truncation the model starts from what `from_path` left (= the old bytes)
			let old = if truncated { old } else { rec.snaps[0].clone() };
			let FileRecorder { ops, inner, snaps, poss, .. } = rec;
			drop(inner); // flush + close: the completed file
			Ok(Run { ops, snaps: Some((snaps, poss)), old: Some(old), truncated, old_tab, target })
		}
		Ok(Err(e)) => Err(format!("err: {e}")),
		Err(p) => Err(format!("panic: {p}")),
	}
}

fn judge(out: &mut Out, rng: &mut Rng, laws: &mut Laws, src: &Src, container: char, run: &Run, all_header_cuts: bool, only_cuts: Option<Vec<(usize, usize)>>) {
	let ops = &run.ops;
	let final_bytes = run.state(ops.len(), 0);
	let mut tab: Vec<Vec<u8>> = vec![];
	for (blob, kind, what) in valid_streams(ops, container, src.comp) {
		if what == "block index" {
			out.count(if blob.len() >= 256 { "v_block_index_ge_256_bytes" } else { "v_block_index_lt_256_bytes" });
		}
		test_codec_laws(rng, laws, kind, &blob, what);
		tab.push(blob);
	}
	for b in &run.old_tab {
		if !tab.contains(b) {
			tab.push(b.clone());
		}
	}
	let cuts = only_cuts.unwrap_or_else(|| choose_cuts(rng, ops, all_header_cuts));
	let rt = tokio::runtime::Builder::new_current_thread().enable_all().build().unwrap();
	let mut letters = String::new();
	// in the case line the truncation of `File::create` is operation 0
	let shift = if run.truncated { 1 } else { 0 };
	let head = format!(
		"C12 {container} {} {} {} {}{}",
		tab.len(),
		tab.iter().map(|b| hex(b)).collect::<Vec<_>>().join(" "),
		ops.len() + shift,
		if run.truncated { "t " } else { "" },
		ops.iter().map(|o| o.show()).collect::<Vec<_>>().join(" ")
	);
	let head = head.replace("  ", " ");
	let tail = match &run.old {
		Some(old) => format!("old {} {}", hex(old), src.show()),
		None => src.show(),
	};
	for (i, k) in &cuts {
		let bytes = run.state(*i, *k);
		let (v, msg) = open_and_compare(&rt, container, &bytes, src);
		let phase = if *i >= ops.len() {
			"complete"
		} else if matches!(ops[*i], Op::WriteStart(_)) {
			"header-rewrite"
		} else if *i == 0 {
			"first-op"
		} else {
			"body"
		};
		let letter = match v {
			Verdict::Fail | Verdict::Panic => 'e',
			Verdict::Wrong => 'V',
			Verdict::Intact => {
				if bytes == final_bytes {
					'f'
				} else if container == 'p' && bytes.len() >= 127 && final_bytes.len() >= 127 && bytes[..99] == final_bytes[..99] && bytes[127..] == final_bytes[127..] {
					'c'
				} else {
					'X'
				}
			}
		};
		letters.push(letter);
		let tgt = if run.target == "memory" { String::new() } else { format!("{}_", run.target) };
		out.count(&format!("{tgt}{container}_{phase}_{}", match v {
			Verdict::Fail => "open_fails",
			Verdict::Panic => "open_panics",
			Verdict::Intact => "opens_tiles_intact",
			Verdict::Wrong => "opens_WRONG",
		}));
		out.eval(&format!("{head}/{i}/{k}/{}", run.target), *k > 0 || phase == "header-rewrite" || run.target == "file-overwrite");
		let single = format!("{head} 1 {}:{k} {tail}", i + shift);
		// direct oracle, exactly the statement: the open fails, or every tile is returned intact
		out.oracle(
			v != Verdict::Wrong,
			&format!("C12 opens-wrong: a crash state opens as a container that lacks or misreports a tile ({msg})"),
			json!({"kind": "opens-wrong", "format": container.to_string(), "phase": phase, "comp": comp_name(src.comp), "target": run.target}),
			json!({"case": trunc(&single, 6000), "op": i, "byte_cut": k, "message": msg, "old_file_bytes": run.old.as_ref().map(|o| o.len()), "truncated_by_from_path": run.truncated}),
		);
		// the completed file must open and return everything (otherwise the check would be vacuous)
		if *i >= ops.len() {
			out.oracle(v == Verdict::Intact, &format!("C12 complete-file: the completed file does not open with all tiles ({msg})"), json!({"kind": "complete-file", "format": container.to_string(), "target": run.target}), json!({"case": trunc(&single, 6000), "message": msg}));
		}
	}
	let line = format!("{head} {} {} {tail}", cuts.len(), cuts.iter().map(|(i, k)| format!("{}:{k}", i + shift)).collect::<Vec<_>>().join(" "));
	let nontrivial = cuts.iter().any(|(i, k)| *k > 0 && *i < ops.len());
	if line.len() <= 400_000 {
		out.case(&line, &letters, nontrivial);
	} else {
		// too large for the line protocol (hundreds of KB of blobs): direct oracle only
		out.count("cases_without_model_line");
		out.eval(&format!("{}/{}", &line[..200], line.len()), nontrivial);
	}
	out.count(&format!("cases_{}_{container}_{}", run.target, comp_name(src.comp)));
	out.count_n("cuts", cuts.len() as u64);
	out.count_n("ops", ops.len() as u64);
}

/// the real writers through the real `DataWriterFile`: first `old_src` on a fresh path (crash
/// states judged against `old_src`), then `new_src` over the completed file at the SAME path
/// (crash states judged against `new_src`)
fn emit_overwrite(out: &mut Out, rng: &mut Rng, laws: &mut Laws, dir: &std::path::Path, old_src: &Src, new_src: &Src, container: char, all_header_cuts: bool) {
	let path = dir.join(format!("c12_overwrite.{}", if container == 'v' { "versatiles" } else { "pmtiles" }));
	let _ = std::fs::remove_file(&path);
	let first = match record_file(old_src, container, &path, vec![]) {
		Ok(r) => r,
		Err(e) => {
			out.count(&format!("file_writer_{}_{}", container, if e.starts_with("panic") { "panic" } else { "err" }));
			return;
		}
	};
	// the file the real writer left must be what the last snapshot shows
	let on_disk = std::fs::read(&path).unwrap_or_default();
	out.oracle(on_disk == first.state(first.ops.len(), 0), "C12 materialise: the closed file differs from the last snapshot of the real DataWriterFile", json!({"kind": "materialise", "format": container.to_string(), "target": "file"}), json!({"case": old_src.show()}));
	judge(out, rng, laws, old_src, container, &first, false, None);
	let old_tab: Vec<Vec<u8>> = valid_streams(&first.ops, container, old_src.comp).into_iter().map(|x| x.0).collect();
	match record_file(new_src, container, &path, old_tab) {
		Ok(second) => {
			out.count(if second.truncated { "overwrite_from_path_truncates" } else { "overwrite_from_path_KEEPS_old_bytes" });
			out.count(if on_disk.len() > second.state(second.ops.len(), 0).len() { "overwrite_old_longer" } else { "overwrite_old_shorter_or_equal" });
			judge(out, rng, laws, new_src, container, &second, all_header_cuts, None);
		}
		Err(e) => out.count(&format!("file_writer_{}_{}", container, if e.starts_with("panic") { "panic" } else { "err" })),
	}
	let _ = std::fs::remove_file(&path);
}

pub fn run(args: &Args) {
	quiet_panics();
	let mut out = Out::new(&args.out);
	out.rule = "tile sets of 1–14 (thorough: also 40–300) tiles over zoom 0–10 with empty, duplicate, tiny and ≥1000-byte payloads, formats pbf/png/bin/json/webp, declared compression none/gzip/brotli; the REAL VersaTilesWriter and PMTilesWriter run against a recording DataWriterTrait; crash states = every op-prefix, EVERY byte cut of the provisional header and of the final header rewrite (66 resp. 127 cuts; sampled for the large thorough sets), first/last/middle/2 random byte cuts of every other op, and the completed file; additionally the same through the REAL DataWriterFile (every call forwarded, the file copied after each completed call, byte cuts applied to the copy): on a fresh path, and with a DIFFERENT tile set written over the completed container at the same path (old file longer and shorter than the new one) – judged against the NEW source; each state is materialised (positional write, zero fill) and opened with the real reader, all source tiles and neighbouring absent coordinates are compared; write FAULTS: the real writers run against a DataWriterTrait in which the n-th operation fails once (every n), every operation above k bytes fails, or every operation from the n-th on fails – the write call must return Err / panic (and leave nothing that opens wrong) or, if it returns Ok, the file must deliver every source tile; the advertised coverage must contain every source tile and streaming the advertised levels must deliver every source tile; non-trivial = a state inside an operation or inside the header rewrite; distinct by (ops, cut)".into();
	let mut laws = Laws { nil_tests: 0, be_tests: 0, prefix_tests: 0, accepted: vec![] };
	let mut rng = Rng::new(args.seed);
	if let Some(p) = &args.replay {
		for line in std::fs::read_to_string(p).unwrap().lines() {
			let t: Vec<&str> = line.split(' ').collect();
			if t.len() < 4 || t[0] != "C12" {
				continue;
			}
			if t[1] == "fault" && t.len() >= 5 {
				if let (Some(policy), Some(sp)) = (FaultPolicy::parse(t[3]), t.iter().position(|x| *x == "src")) {
					if let Some(src) = Src::parse(&t[sp..]) {
						emit_fault(&mut out, &src, t[2].chars().next().unwrap_or('v'), policy);
					}
				}
				continue;
			}
			let container = t[1].chars().next().unwrap_or('v');
			let Some(sp) = t.iter().position(|x| *x == "src") else { continue };
			let Some(src) = Src::parse(&t[sp..]) else { continue };
			// cuts: the tokens between the ops and `src`
			let ntab: usize = t[2].parse().unwrap_or(0);
			let nops_at = 3 + ntab;
			let nops: usize = t.get(nops_at).and_then(|x| x.parse().ok()).unwrap_or(0);
			let ncuts_at = nops_at + 1 + nops;
			let cuts: Vec<(usize, usize)> = t[(ncuts_at + 1).min(sp)..sp].iter().filter_map(|c| c.split_once(':')).filter_map(|(i, k)| Some((i.parse().ok()?, k.parse().ok()?))).collect();
			if sp >= 2 && t[sp - 2] == "old" {
				// through the real DataWriterFile, over the bytes the path held
				let old = unhex(t[sp - 1]);
				let path = args.out.join(format!("c12_replay.{}", if container == 'v' { "versatiles" } else { "pmtiles" }));
				let _ = std::fs::remove_file(&path);
				if !old.is_empty() {
					std::fs::write(&path, &old).unwrap();
				}
				let line_shift = if t.get(nops_at + 1) == Some(&"t") { 1 } else { 0 };
				let line_tab: Vec<Vec<u8>> = t[3..(3 + ntab).min(t.len())].iter().map(|h| unhex(h)).collect();
				match record_file(&src, container, &path, line_tab) {
					Ok(run) => {
						let cuts: Vec<(usize, usize)> = cuts.iter().filter(|(i, _)| *i >= line_shift).map(|(i, k)| (i - line_shift, *k)).collect();
						judge(&mut out, &mut rng, &mut laws, &src, container, &run, true, if cuts.is_empty() { None } else { Some(cuts) });
					}
					Err(e) => out.notes.push(format!("replay: the file writer failed: {e}")),
				}
				let _ = std::fs::remove_file(&path);
				continue;
			}
			emit(&mut out, &mut rng, &mut laws, &src, container, true, if cuts.is_empty() { None } else { Some(cuts) });
		}
		finish_laws(&mut out, laws);
		out.finish();
		return;
	}
	// smallest cases first
	let one = Src { fmt: TileFormat::PBF, comp: TileCompression::Uncompressed, tiles: vec![(TileCoord3::new(0, 0, 0).unwrap(), vec![1, 2, 3])] };
	for comp in [TileCompression::Uncompressed, TileCompression::Gzip, TileCompression::Brotli] {
		let mut s = one.clone();
		s.comp = comp;
		emit(&mut out, &mut rng, &mut laws, &s, 'v', true, None);
		emit(&mut out, &mut rng, &mut laws, &s, 'p', true, None);
	}
	let n = args.n(60, 240);
	for i in 0..n {
		let src = gen_src(&mut rng, false);
		emit(&mut out, &mut rng, &mut laws, &src, 'v', true, None);
		// a pmtiles file is ≥ 16 KiB: fewer cases carry all 127 header cuts
		emit(&mut out, &mut rng, &mut laws, &src, 'p', i % 3 == 0, None);
	}
	// write faults (an operation fails, the writer must fail loudly or still deliver everything)
	for round in 0..args.n(6, 40) {
		let src = if round % 3 == 2 { gen_threshold(&mut rng, round) } else { gen_src(&mut rng, false) };
		emit_faults(&mut out, &mut rng, &src, 'v');
		emit_faults(&mut out, &mut rng, &src, 'p');
	}
	// thresholds of the writers (1000-byte de-duplication, 8192-byte BufWriter): in memory and through the real file writer
	for round in 0..args.n(2, 6) {
		let src = gen_threshold(&mut rng, round);
		emit(&mut out, &mut rng, &mut laws, &src, 'v', true, None);
		emit(&mut out, &mut rng, &mut laws, &src, 'p', false, None);
		let other = gen_src(&mut rng, false);
		emit_overwrite(&mut out, &mut rng, &mut laws, &args.out, &other, &src, 'v', false);
		emit_overwrite(&mut out, &mut rng, &mut laws, &args.out, &other, &src, 'p', false);
	}
	// > 16384 tiles: PMTiles leaf directories (sampled crash states, direct oracle only)
	{
		let src = gen_leafy();
		emit(&mut out, &mut rng, &mut laws, &src, 'p', false, None);
		if args.thorough() {
			emit(&mut out, &mut rng, &mut laws, &src, 'v', false, None);
		}
	}
	tar_prefix_observation(args, &mut out, &mut rng);
	// through the real DataWriterFile: fresh path, then a different tile set over the completed file
	for round in 0..args.n(10, 40) {
		let mut a = gen_src(&mut rng, round % 5 == 4);
		let mut b = gen_src(&mut rng, round % 5 == 3);
		if round % 2 == 1 {
			std::mem::swap(&mut a, &mut b);
		}
		if a.tiles == b.tiles {
			continue;
		}
		emit_overwrite(&mut out, &mut rng, &mut laws, &args.out, &a, &b, 'v', true);
		emit_overwrite(&mut out, &mut rng, &mut laws, &args.out, &a, &b, 'p', round % 4 == 0);
	}
	for round in 0..args.n(3, 6) {
		let src = gen_spread(&mut rng, round);
		emit(&mut out, &mut rng, &mut laws, &src, 'v', true, None);
		emit(&mut out, &mut rng, &mut laws, &src, 'p', false, None);
	}
	if args.thorough() {
		for _ in 0..6 {
			let src = gen_src(&mut rng, true);
			emit(&mut out, &mut rng, &mut laws, &src, 'v', true, None);
			emit(&mut out, &mut rng, &mut laws, &src, 'p', false, None);
		}
	}
	finish_laws(&mut out, laws);
	out.notes.push("checklist: (1) thresholds – payloads of 999/1000/1001 bytes (de-duplication), 8191/8192/8193/16384 bytes (BufWriter of DataWriterFile), tiles on both sides of the 255/256 block border, > 16384 tiles (PMTiles leaf directories), block index > 255 bytes (second length byte); (2) the interruption IS the fault – source faults during a write are C06/C01's subject; (3) payload classes 1 byte, duplicates, larger than the writer's buffer; 0-byte payloads are excluded (both readers report them as absent in completed files: round-trip question); payloads are opaque to the writers, so undecodable / other-codec payloads make no difference here; (4) no options in the writers; (5) pre-existing longer and shorter files at the target path, fresh path; reuse of a writer object does not exist (consumed per run); (6) single-threaded writers: n.a.; (7) n.a.; (8) zoom 0–12, block borders; (9) readers are exercised on the real writers' crash states only – independent encoders are C16's; (10) crash state through the in-memory writer vs through the real file writer, lookups vs advertised coverage vs level streams. mbtiles / tar / directory are outside the property's statement (no completion marker: SQLite transactions, archive prefixes and partial directory trees are valid smaller containers by construction) – see extra.observation_tar_prefixes".into());
	out.notes.push("out of model and out of this check: BufWriter / page-cache reordering below the DataWriterTrait level (a crash state here has the bytes of earlier operations on disk before those of later ones); a panic while opening a torn file counts as a failed open (see distribution *_open_panics)".into());
	out.finish();
}

fn finish_laws(out: &mut Out, laws: Laws) {
	out.extra.insert("codec_laws_tested_on_real_crates".into(), json!({"dec_nil_tests": laws.nil_tests, "torn_length_prefix_tests": laws.be_tests, "other_strict_prefix_tests": laws.prefix_tests, "accepted_inputs": laws.accepted.len(), "examples": laws.accepted.iter().take(5).collect::<Vec<_>>()}));
	// an accepted empty input / strict prefix breaks an assumption of the theorems
	let ok = laws.accepted.is_empty();
	out.oracle(ok, "C12 codec-law: the real decompressor accepts an empty input or a strict prefix of a valid stream (assumption of the C12 theorems)", json!({"kind": "codec-law"}), json!({"examples": laws.accepted.iter().take(5).collect::<Vec<_>>()}));
}
