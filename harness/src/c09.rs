//! C09 – zoom and bounding-box filters pass exactly the tiles inside the filter.
//!
//! Sources: in-memory and real container files (written / re-opened with the real code).
//! Pipelines through `PipelineFactory::operation_from_vpl`: chains of up to 4 `filter_zoom` /
//! `filter_bbox` stages (min > max, bounds beyond the source's range, absent bounds; valid,
//! degenerate, tile-border, out-of-range, reversed, NaN/inf, wrong-arity boxes), also above and
//! below a `from_overlayed`.
//! Direct oracle (written from the statement, independent of the model):
//!  * build: an invalid argument ⇒ `Err` (never a panic, never `Ok`); valid arguments ⇒ `Ok`;
//!  * lookup of a chain over one source at every coordinate of zoom ≤ 4 plus all tile coordinates
//!    and their neighbours: the source's tile with identical bytes iff the coordinate is inside every
//!    zoom range and inside `TileBBox::from_geo(z, bbox)` of every bbox stage; nothing otherwise;
//!  * stream = lookups for every requested box (C02 oracle), including boxes emptied by the filter.
//! Model: same lines through `vtdriver` (PipeProto.lean: build result, coverage, lookups, streams).
use crate::c02::{coords_arg, gen_sources, geo_arg, zoom_arg};
use crate::common::*;
use crate::tsrc::*;
use serde_json::json;
use std::collections::BTreeMap;
use versatiles_core::types::*;

const RULE: &str = "1-3 sources (memory / versatiles / pmtiles / mbtiles / tar / directory) under chains of 1-4 filter stages generated from the case splits: zoom bounds absent / inside / at the edge / beyond the source's zoom range / min>max / not a u8 (word, float, negative, empty, > 255); geographic boxes: world, point, tile-aligned (edges exactly on tile borders, +-1e-7 nudges), random, reversed, out of range, NaN, inf, wrong arity (0,1,3,5,8 entries), repeated key, non-numeric entry or tail, scalar; zoom-then-bbox and bbox-then-zoom orders and every chain also reversed; filters above and below from_overlayed. Coordinates: all of zoom <= 4, every tile and its neighbours, random ones up to zoom 31. non-trivial = the filter keeps some but not all of the source's tiles (lookups) / box partially overlaps the narrowed coverage or crosses a block border (streams) / argument invalid (build)";

#[derive(Clone, Debug)]
enum Stage {
	Zoom(Option<i64>, Option<i64>, bool), // min, max, not-a-number flag
	BBox([f64; 4]),
	BBoxArity,
}

fn parse_stage(tok: &str) -> Option<Stage> {
	let (h, rest) = tok.split_at(1);
	match h {
		"Z" => {
			let (a, b) = rest.split_once(':')?;
			let p = |s: &str| -> (Option<i64>, bool) {
				match s {
					"n" => (None, false),
					v if v.starts_with('x') => (None, true),
					v => (v.parse().ok(), false),
				}
			};
			let (a, xa) = p(a);
			let (b, xb) = p(b);
			Some(Stage::Zoom(a, b, xa || xb))
		}
		"B" => {
			if rest.starts_with('x') {
				return Some(Stage::BBoxArity);
			}
			let v: Vec<f64> = rest.split(':').map(|t| f64::from_bits(t.parse::<u64>().unwrap())).collect();
			Some(Stage::BBox([v[0], v[1], v[2], v[3]]))
		}
		_ => None,
	}
}

/// validity of an argument, from the documentation of the operations (u8 zoom levels; a geographic
/// box [west, south, east, north] with west ≤ east, south ≤ north inside ±180 / ±90)
fn stage_valid(s: &Stage) -> bool {
	match s {
		Stage::Zoom(a, b, bad) => !*bad && a.map_or(true, |v| (0..=255).contains(&v)) && b.map_or(true, |v| (0..=255).contains(&v)),
		Stage::BBox(g) => g.iter().all(|v| v.is_finite()) && g[0] >= -180.0 && g[2] <= 180.0 && g[1] >= -90.0 && g[3] <= 90.0 && g[0] <= g[2] && g[1] <= g[3],
		Stage::BBoxArity => false,
	}
}

/// independent slippy-map reference for "the tile box a geographic bbox maps to at zoom z" (written from the
/// documented rule: fractional tile position, 1e-6 tile rounding guard inwards, clamped to the level, never empty) –
/// NOT `TileBBox::from_geo`, which is code under test
fn ref_tile_box(z: u8, g: &[f64; 4]) -> (u32, u32, u32, u32) {
	let n = 2.0f64.powi(z as i32);
	let fx = |lon: f64| n * (lon / 360.0 + 0.5);
	let fy = |lat: f64| n * (0.5 - 0.5 * (lat * std::f64::consts::PI / 360.0 + std::f64::consts::PI / 4.0).tan().ln() / std::f64::consts::PI);
	let clamp = |v: f64| v.min(n - 1.0).max(0.0) as u32;
	let x0 = clamp((fx(g[0]) + 1e-6).floor());
	let y0 = clamp((fy(g[3]) + 1e-6).floor());
	let x1 = clamp((fx(g[2]) - 1e-6).floor());
	let y1 = clamp((fy(g[1]) - 1e-6).floor());
	(x0, y0, x1.max(x0), y1.max(y0))
}

fn stage_keeps(s: &Stage, c: &TileCoord3) -> bool {
	match s {
		Stage::Zoom(a, b, _) => a.map_or(true, |v| v <= c.z as i64) && b.map_or(true, |v| c.z as i64 <= v),
		Stage::BBox(g) => {
			let (x0, y0, x1, y1) = ref_tile_box(c.z, g);
			c.x >= x0 && c.x <= x1 && c.y >= y0 && c.y <= y1
		}
		Stage::BBoxArity => false,
	}
}

/// a geographic box whose edges sit on, or a hair (0, 1e-9 … 1e-5 tiles) beside, a tile border of zoom 1–10
fn near_border_geo(rng: &mut Rng) -> String {
	let z = rng.range(1, 10) as i32;
	let n = 2.0f64.powi(z);
	let size = 1u64 << z;
	let x0 = rng.below(size);
	let y0 = rng.below(size);
	let x1 = (x0 + rng.below(3)).min(size - 1);
	let y1 = (y0 + rng.below(3)).min(size - 1);
	let deltas = [0.0, 0.0, 1e-9, -1e-9, 1e-7, -1e-7, 5e-7, -5e-7, 9.9e-7, -9.9e-7, 1.01e-6, -1.01e-6, 2e-6, -2e-6, 1e-5, -1e-5];
	let lon = |xf: f64| (xf / n - 0.5) * 360.0;
	let lat = |yf: f64| (std::f64::consts::PI * (1.0 - 2.0 * yf / n)).sinh().atan() * 180.0 / std::f64::consts::PI;
	let mut g = [
		lon(x0 as f64 + *rng.pick(&deltas)),
		lat((y1 + 1) as f64 + *rng.pick(&deltas)),
		lon((x1 + 1) as f64 + *rng.pick(&deltas)),
		lat(y0 as f64 + *rng.pick(&deltas)),
	];
	g[0] = g[0].clamp(-180.0, 180.0);
	g[2] = g[2].clamp(-180.0, 180.0);
	g[1] = g[1].clamp(-90.0, 90.0);
	g[3] = g[3].clamp(-90.0, 90.0);
	if g[0] > g[2] {
		g[2] = g[0]
	}
	if g[1] > g[3] {
		g[3] = g[1]
	}
	format!("B{}:{}:{}:{}", g[0].to_bits(), g[1].to_bits(), g[2].to_bits(), g[3].to_bits())
}

fn bad_geo(rng: &mut Rng) -> String {
	let g: [f64; 4] = match rng.below(8) {
		0 => [10.0, 10.0, 5.0, 5.0],
		1 => [10.0, 5.0, 5.0, 10.0],
		2 => [5.0, 10.0, 10.0, 5.0],
		3 => [-181.0, 0.0, 10.0, 10.0],
		4 => [0.0, 0.0, 10.0, 90.5],
		5 => [f64::NAN, 0.0, 10.0, 10.0],
		6 => [0.0, 0.0, f64::INFINITY, 10.0],
		_ => [0.0, f64::NEG_INFINITY, 1.0, 10.0],
	};
	format!("B{}:{}:{}:{}", g[0].to_bits(), g[1].to_bits(), g[2].to_bits(), g[3].to_bits())
}

fn gen_stage(rng: &mut Rng, levels: &BTreeMap<u8, Vec<(u32, u32)>>, allow_invalid: bool) -> String {
	if allow_invalid && rng.chance(3, 4) {
		return match rng.below(10) {
			0 => format!("Z{}:n", rng.pick(&["x", "xf", "xn", "xe"])),
			1 => format!("Z{}:{}", rng.range(0, 5), rng.pick(&["x", "xf", "xn", "xe"])),
			2 => format!("Z{}:n", rng.pick(&[256u64, 257, 300, 65536, 70000])),
			3 => format!("Zn:{}", rng.pick(&[256u64, 257, 300, 65536, 70000])),
			4..=7 => format!("B{}", rng.pick(&["x", "x0", "x1", "x5", "x8", "xr", "xt", "xn", "xs"])),
			_ => bad_geo(rng),
		};
	}
	if rng.chance(1, 2) {
		zoom_arg(rng, levels)
	} else {
		geo_arg(rng, levels)
	}
}

/// direct oracle for `L0,<stages…>`
fn check_chain(rt: &tokio::runtime::Runtime, out: &mut Out, w: &World, rpn: &str, coords: &[TileCoord3]) {
	let toks: Vec<&str> = rpn.split(',').collect();
	if toks[0] != "L0" && toks[0] != "D1" {
		return;
	}
	let stages: Vec<Stage> = match toks[1..].iter().map(|t| parse_stage(t)).collect::<Option<Vec<_>>>() {
		Some(s) => s,
		None => return,
	};
	let env = w.env_string();
	let case = format!("C09 G {rpn} {env} {}", coords.iter().map(|c| format!("{},{},{}", c.x, c.y, c.z)).collect::<Vec<_>>().join(";"));
	let all_valid = stages.iter().all(stage_valid);
	let built = build_op(rt, w, rpn);
	out.count(if all_valid { "chain_valid" } else { "chain_invalid" });
	let op = match built {
		Err(m) => {
			out.eval(&format!("build {rpn}"), true);
			out.oracle(false, &format!("C09 build panicked: {}", trunc(&m, 160)), json!({"kind": "build_panic", "valid_args": all_valid}), json!({"case": format!("C09 P {rpn} {env}"), "vpl": rpn_to_vpl(rpn)}));
			return;
		}
		Ok(Err(e)) => {
			out.eval(&format!("build {rpn}"), !all_valid);
			out.oracle(!all_valid, &format!("C09 build failed although every argument is valid: {}", trunc(&e, 160)), json!({"kind": "build_err_on_valid"}), json!({"case": format!("C09 P {rpn} {env}"), "vpl": rpn_to_vpl(rpn)}));
			return;
		}
		Ok(Ok(o)) => {
			out.eval(&format!("build {rpn}"), !all_valid);
			out.oracle(all_valid, "C09 build succeeded although an argument is invalid", json!({"kind": "build_ok_on_invalid"}), json!({"case": format!("C09 P {rpn} {env}"), "vpl": rpn_to_vpl(rpn)}));
			if !all_valid {
				return;
			}
			o
		}
	};
	let src: Real = if toks[0] == "D1" {
		match build_op(rt, w, "D1") {
			Ok(Ok(o)) => Real::O(o),
			_ => return,
		}
	} else {
		match catch(|| rt.block_on(async { w.reader(0).await })) {
			Ok(Ok(r)) => Real::R(r),
			_ => return,
		}
	};
	let mut kept = 0;
	let mut dropped = 0;
	let mut fail: Option<(String, String, TileCoord3)> = None;
	for c in coords {
		let want = match catch(|| rt.block_on(async { src.lookup(c).await })) {
			Ok(Ok(b)) => b,
			_ => continue,
		};
		let inside = stages.iter().all(|s| stage_keeps(s, c));
		let want = if inside { want } else { None };
		let got = catch(|| rt.block_on(async { op.get_tile_data(c).await }));
		if want.is_some() {
			kept += 1
		} else {
			dropped += 1
		}
		let f = match (&got, &want) {
			(Err(m), _) => Some(("lookup_panic", format!("filtered lookup panicked: {}", trunc(m, 100)))),
			(Ok(Err(e)), _) => Some(("lookup_err", format!("filtered lookup failed: {e:#}"))),
			(Ok(Ok(None)), Some(_)) => Some(("tile_dropped", "a tile inside the filter is missing".to_string())),
			(Ok(Ok(Some(_))), None) => Some(("tile_leaked", if inside { "a tile appears that the source does not have".to_string() } else { "a tile outside the filter is returned".to_string() })),
			(Ok(Ok(Some(a))), Some(b)) if a.as_slice() != b.as_slice() => Some(("tile_changed", "the tile bytes differ from the source's".to_string())),
			_ => None,
		};
		if let Some((k, t)) = f {
			if fail.is_none() {
				fail = Some((k.to_string(), t, *c));
			}
		}
	}
	out.eval(&case, kept > 0 && dropped > 0);
	out.count_n("chain_lookups", coords.len() as u64);
	match fail {
		None => out.oracle(true, "C09 filtered lookup", json!({}), json!({})),
		Some((k, t, c)) => out.oracle(
			false,
			&format!("C09 filtered lookup at {c:?}: {t}"),
			json!({"kind": k, "ops": sig_src(w, rpn)}),
			json!({"case": format!("C09 G {rpn} {env} {},{},{}", c.x, c.y, c.z), "vpl": rpn_to_vpl(rpn)}),
		),
	}
}

fn coord_list(rng: &mut Rng, specs: &[SrcSpec], small_all: bool) -> Vec<TileCoord3> {
	let mut v: Vec<(u32, u32, u8)> = vec![];
	if small_all {
		for z in 0..=4u8 {
			for y in 0..(1u32 << z) {
				for x in 0..(1u32 << z) {
					v.push((x, y, z));
				}
			}
		}
	}
	for s in coords_arg(rng, specs, 6).split(';') {
		let t: Vec<u32> = s.split(',').map(|x| x.parse().unwrap()).collect();
		v.push((t[0], t[1], t[2] as u8));
	}
	for s in specs {
		for (z, x, y) in s.tiles.keys() {
			let max = ((1u64 << z) - 1) as u32;
			v.push((x.saturating_sub(1), *y, *z));
			v.push((*x, y.saturating_sub(1), *z));
			v.push((*x, (*y + 1).min(max), *z));
		}
	}
	v.sort();
	v.dedup();
	v.iter().map(|(x, y, z)| TileCoord3::new(*x, *y, *z).unwrap()).collect()
}

pub fn run(args: &Args) {
	quiet_panics();
	let rt = runtime();
	let mut out = Out::new(&args.out);
	let mut id = Ident::new();
	let scratch = args.out.join("scratch");
	std::fs::create_dir_all(&scratch).unwrap();
	out.rule = RULE.to_string();
	if let Some(f) = &args.replay {
		for line in std::fs::read_to_string(f).unwrap().lines() {
			let line = line.trim();
			if line.is_empty() || line.starts_with('#') {
				continue;
			}
			run_line(&rt, &mut out, &mut id, &scratch, line);
			// the chain oracle as well
			let t: Vec<&str> = line.split(' ').collect();
			if t.len() >= 4 {
				let specs = parse_env(t[3]);
				let w = World::build(&rt, &scratch, &specs);
				if w.usable() {
					let coords: Vec<TileCoord3> = if t[1] == "G" && t.len() > 4 {
						t[4].split(';').map(|s| {
							let v: Vec<u32> = s.split(',').map(|x| x.parse().unwrap()).collect();
							TileCoord3::new(v[0], v[1], v[2] as u8).unwrap()
						}).collect()
					} else {
						let mut r = Rng::new(1);
						coord_list(&mut r, &specs, true)
					};
					check_chain(&rt, &mut out, &w, t[2], &coords);
				}
				w.cleanup();
			}
		}
		let _ = std::fs::remove_dir_all(&scratch);
		out.finish();
		return;
	}
	let mut rng = Rng::new(args.seed);
	let mut next: u64 = 0;
	let n_worlds = args.n(16, 90);
	for wi in 0..n_worlds {
		// small zoom levels are always present in half of the worlds so that the exhaustive coordinates bite
		let mut specs = gen_sources(&mut rng, &mut next, 1, 3, 50);
		if wi % 2 == 0 {
			let mut extra = BTreeMap::new();
			// byte-identical payloads (a small pool, incl. sizes around the versatiles writer's 1000-byte
			// de-duplication threshold) so that index entries of real versatiles sources share ranges
			next += 1;
			let mut pool: Vec<u64> = vec![next];
			while pool.len() < 4 {
				next += 1;
				if size_target(next).is_some() {
					pool.push(next);
				}
			}
			if wi % 4 == 0 {
				specs[0].kind = "versatiles".to_string();
			}
			for z in 0..=4u8 {
				for y in 0..(1u32 << z) {
					for x in 0..(1u32 << z) {
						if rng.chance(1, 3) {
							let idv = if rng.chance(2, 3) {
								*rng.pick(&pool)
							} else {
								next += 1;
								next
							};
							extra.insert((z, x, y), idv);
						}
					}
				}
			}
			out.count(&format!("world_src0_{}", specs[0].kind));
			if base_kind(&specs[0].kind) == "mbtiles" {
				extra.retain(|k, _| k.0 == 3);
				specs[0].tiles.clear();
			}
			specs[0].tiles.extend(extra);
		}
		// every fourth world: tiles on the two highest levels, so that min/max of 30..33 and 255 bite
		let top = wi % 4 == 1;
		if top {
			let m31 = u32::MAX >> 1;
			let m30 = u32::MAX >> 2;
			// in memory: the container writers walk every 256-block of the advertised level box, and the box spanned by
			// opposite corners of level 30/31 has 2^44 of them (observed: > 60 GB)
			specs[0].kind = "mem".to_string();
			for k in [(31u8, 0u32, 0u32), (31, m31, m31), (31, m31 - 1, 5), (30, 0, 0), (30, m30, m30), (30, 7, m30 - 1)] {
				next += 1;
				specs[0].tiles.insert(k, next);
			}
			out.count("world_with_level_30_31_tiles");
		}
		let w = World::build(&rt, &scratch, &specs);
		out.count("world");
		if !w.usable() {
			out.count("world_unusable");
			out.notes.push(format!("world unusable: {:?}", w.open_errors.iter().flatten().map(|e| trunc(e, 120)).collect::<Vec<_>>()));
			w.cleanup();
			continue;
		}
		let mut levels = levels_of(&specs);
		let zmax = *levels.keys().max().unwrap_or(&0);
		if zmax < 31 {
			levels.entry(zmax + 1).or_default();
		}
		let coords = coord_list(&mut rng, &specs, wi % 2 == 0);
		let coords_s = coords.iter().map(|c| format!("{},{},{}", c.x, c.y, c.z)).collect::<Vec<_>>().join(";");
		// all coordinates of zoom <= 5 (borders of zoom 1-10 boxes project onto borders of the coarser levels)
		let mut coords_near: Vec<TileCoord3> = vec![];
		for z in 0..=5u8 {
			for y in 0..(1u32 << z) {
				for x in 0..(1u32 << z) {
					coords_near.push(TileCoord3::new(x, y, z).unwrap());
				}
			}
		}
		let coords_near_s = coords_near.iter().map(|c| format!("{},{},{}", c.x, c.y, c.z)).collect::<Vec<_>>().join(";");
		// the battery of invalid arguments, each alone on a valid source: must be `Err`, never `Ok`, never a panic
		if wi % 3 == 0 {
			// near-miss parameter NAMES of every operation (other case, trailing underscore, prefix, next to the correct
			// name, look-alike letter): a build error, never silently ignored
			for (i, rpn) in ["L0,Zxk1:n", "L0,Zxk2:n", "L0,Zxk3:n", "L0,Zxk4:n", "L0,Zxk5:n", "L0,Zxk6:n", "L0,Zxk7:n", "L0,Bxk1", "L0,Bxk2", "L0,Bxk3", "L0,Bxk4", "L0,Bxk5", "Dxk1", "Dxk2", "Dxk3", "Dxk4", "Dxk5", "L0,Uxk1", "L0,Uxk2", "L0,Uxk3", "L0,Z1:2,Bxk1", "L0,L0,O2,Zxk1:n"].iter().enumerate() {
				out.count("near_miss_parameter_names");
				let built = build_op(&rt, &w, rpn);
				let (ok, what) = match &built {
					Ok(Err(_)) => (true, String::new()),
					Ok(Ok(_)) => (false, "the pipeline builds although a parameter name is misspelled / unknown".to_string()),
					Err(m) => (false, format!("build panicked: {}", trunc(m, 100))),
				};
				out.eval(&format!("C09 name {rpn} {wi} {i}"), true);
				out.oracle(ok, &format!("C09 near-miss parameter name: {what}"), json!({"kind": "near_miss_name_accepted"}), json!({"case": format!("C09 P {rpn} {}", w.env_string()), "vpl": rpn_to_vpl(rpn)}));
				run_in_world(&rt, &mut out, &mut id, &w, "C09", "P", rpn, "");
			}
			for bad in ["Bx", "Bx0", "Bx1", "Bx5", "Bx8", "Bxr", "Bxt", "Bxn", "Bxs", "Zx:n", "Zxf:n", "Zxn:n", "Zxe:n", "Zn:xf", "Zn:xn", "Z256:n", "Zn:300"] {
				let rpn = format!("L0,{bad}");
				out.count("invalid_battery");
				check_chain(&rt, &mut out, &w, &rpn, &coords[..coords.len().min(3)]);
				run_in_world(&rt, &mut out, &mut id, &w, "C09", "P", &rpn, "");
			}
		}
		if top && w.usable() {
			for z in ["Z30:n", "Z31:n", "Z32:n", "Z33:n", "Z255:n", "Zn:29", "Zn:30", "Zn:31", "Zn:32", "Zn:255", "Z31:31", "Z32:255", "Z30:31"] {
				let rpn = format!("L0,{z}");
				out.count("top_level_zoom_bounds");
				check_chain(&rt, &mut out, &w, &rpn, &coords);
				run_in_world(&rt, &mut out, &mut id, &w, "C09", "P", &rpn, "");
				run_in_world(&rt, &mut out, &mut id, &w, "C09", "G", &rpn, &coords_s);
			}
			for z in [30u8, 31] {
				let present: Vec<(u32, u32)> = specs[0].tiles.keys().filter(|k| k.0 == z).map(|k| (k.1, k.2)).collect();
				let boxes = gen_boxes(&mut rng, z, &present, 1, 10);
				for zf in ["Z32:n", "Z31:n", "Zn:30"] {
					run_in_world(&rt, &mut out, &mut id, &w, "C09", "S", &format!("L0,{zf}"), &boxes_arg(&boxes));
				}
			}
		}
		// filter_bbox with edges on / a hair beside tile borders, over from_debug (a tile everywhere) and over source 0:
		// lookups at all coordinates of zoom <= 4 plus the tiles around the box at its own zoom
		for _ in 0..args.n(4, 12) {
			let g = near_border_geo(&mut rng);
			out.count("near_border_bbox");
			for base in ["D1", "L0"] {
				let rpn = format!("{base},{g}");
				check_chain(&rt, &mut out, &w, &rpn, &coords_near);
				run_in_world(&rt, &mut out, &mut id, &w, "C09", "P", &rpn, "");
				run_in_world(&rt, &mut out, &mut id, &w, "C09", "G", &rpn, &coords_near_s);
			}
		}
		// chains over from_debug (a tile at every coordinate of the pyramid: every filter boundary is visible)
		if wi % 3 == 1 {
			for _ in 0..2 {
				let n_st = rng.range(1, 3);
				let mut rpn = "D1".to_string();
				for _ in 0..n_st {
					rpn += ",";
					rpn += &gen_stage(&mut rng, &levels, false);
				}
				out.count("chain_over_from_debug");
				check_chain(&rt, &mut out, &w, &rpn, &coords);
				run_in_world(&rt, &mut out, &mut id, &w, "C09", "P", &rpn, "");
				run_in_world(&rt, &mut out, &mut id, &w, "C09", "G", &rpn, &coords_s);
				for (z, present) in levels.iter().take(2) {
					let boxes = gen_boxes(&mut rng, *z, present, 1, 8);
					run_in_world(&rt, &mut out, &mut id, &w, "C09", "S", &rpn, &boxes_arg(&boxes));
				}
			}
		}
		for pi in 0..args.n(5, 8) {
			// chain over source 0
			let n_st = rng.range(1, 4);
			let mut rpn = "L0".to_string();
			// at most one invalid argument per chain, in a third of the chains
			let bad_at = if rng.chance(1, 3) { rng.below(n_st) } else { 99 };
			for k in 0..n_st {
				rpn += ",";
				rpn += &if k == bad_at { gen_stage(&mut rng, &levels, true) } else { gen_stage(&mut rng, &levels, false) };
			}
			out.count(&format!("chain_len_{n_st}"));
			check_chain(&rt, &mut out, &w, &rpn, &coords);
			// chains are the intersection: the reversed order must satisfy the same per-coordinate spec
			if n_st >= 2 {
				let mut toks: Vec<&str> = rpn.split(',').collect();
				toks[1..].reverse();
				let rev = toks.join(",");
				out.count("chain_reversed");
				check_chain(&rt, &mut out, &w, &rev, &coords);
				run_in_world(&rt, &mut out, &mut id, &w, "C09", "P", &rev, "");
				run_in_world(&rt, &mut out, &mut id, &w, "C09", "G", &rev, &coords_s);
			}
			run_in_world(&rt, &mut out, &mut id, &w, "C09", "P", &rpn, "");
			run_in_world(&rt, &mut out, &mut id, &w, "C09", "G", &rpn, &coords_s);
			for (z, present) in levels.iter() {
				let boxes = gen_boxes(&mut rng, *z, present, 1, args.n(10, 24));
				run_in_world(&rt, &mut out, &mut id, &w, "C09", "S", &rpn, &boxes_arg(&boxes));
			}
			// a zoom filter that empties the low levels BEFORE / AFTER a bbox filter (coverage no longer starts at
			// level 0 when the geographic box is applied), both orders
			if pi == 0 {
				let zs: Vec<u8> = levels.iter().filter(|(_, v)| !v.is_empty()).map(|(z, _)| *z).collect();
				let zmin = if zs.is_empty() { 1 } else { (*rng.pick(&zs)).max(1) };
				let g = geo_arg(&mut rng, &levels);
				for rpn3 in [format!("L0,Z{zmin}:n,{g}"), format!("L0,{g},Z{zmin}:n"), format!("L0,Z{zmin}:n,{g},Zn:{}", zmin + 3)] {
					out.count("chain_zoom_then_bbox_orders");
					check_chain(&rt, &mut out, &w, &rpn3, &coords);
					run_in_world(&rt, &mut out, &mut id, &w, "C09", "P", &rpn3, "");
					run_in_world(&rt, &mut out, &mut id, &w, "C09", "G", &rpn3, &coords_s);
					for (z, present) in levels.iter().take(3) {
						let boxes = gen_boxes(&mut rng, *z, present, 1, args.n(6, 12));
						run_in_world(&rt, &mut out, &mut id, &w, "C09", "S", &rpn3, &boxes_arg(&boxes));
					}
				}
			}
			// filters below and above an overlay (model correspondence + stream oracle)
			if specs.len() >= 2 && pi < 2 {
				let rpn2 = format!("L0,{},L1,O2,{}", gen_stage(&mut rng, &levels, false), gen_stage(&mut rng, &levels, true));
				out.count("nested_overlay");
				run_in_world(&rt, &mut out, &mut id, &w, "C09", "P", &rpn2, "");
				run_in_world(&rt, &mut out, &mut id, &w, "C09", "G", &rpn2, &coords_s);
				for (z, present) in levels.iter().take(3) {
					let boxes = gen_boxes(&mut rng, *z, present, 1, args.n(8, 16));
					run_in_world(&rt, &mut out, &mut id, &w, "C09", "S", &rpn2, &boxes_arg(&boxes));
				}
			}
		}
		w.cleanup();
	}
	out.notes.push("checklist: (1) zoom bounds 0, 29..33, 255, 256; bbox edges exactly on tile borders +-1e-7; level 30/31 tiles; (2) n.a. beyond C02's FaultySource (filters pass errors through unchanged); (3) payload classes via tsrc styles; (4) chains of 1-4 stages in both orders, below/above from_overlayed, over from_debug; invalid-argument battery; (5) every 4th box streamed twice; (6) concurrent streams on one operation, straggler sources; (8) all coordinates of zoom <= 4, corners of levels 30/31; (9) vtx and converter-wrapped leaves; (10) stream vs lookups, advertised pyramid vs delivered tiles, reversed chain vs same spec".to_string());
	let _ = std::fs::remove_dir_all(&scratch);
	out.finish();
}
