//! C18 – VPL: every well-formed pipeline text parses to the pipeline it describes; everything else is an error.
//!
//! case lines  `C18 parse <hex(text)>`  → `ok <dump>` | `err` | `panic`
//!             `C18 build <hex(text)>`  → `ok` | `err` | `panic`   (PipelineFactory::operation_from_vpl)
//!
//! Three independent answers per text: the real `parse_vpl` (nom), the Lean model (via cases.txt), and the
//! direct oracle — the generating syntax tree for generated texts, a hand-written recursive-descent reference
//! parser (written from the documented grammar, shares no code with nom or the model) for mutated texts.
use crate::common::*;
use serde_json::json;
use std::collections::BTreeMap;
use std::path::Path;
use versatiles_pipeline::{parse_vpl, PipelineFactory, VPLNode, VPLPipeline};

// ------------------------------------------------------------------------------------------------
// expected tree + canonical dump (the same format as VtModel.Vpl.dumpPipeline)
// ------------------------------------------------------------------------------------------------

#[derive(Clone, Debug, PartialEq)]
pub struct TNode {
	name: String,
	props: BTreeMap<String, Vec<String>>,
	sources: Vec<Vec<TNode>>,
}

pub(crate) fn hs(s: &str) -> String {
	hex(s.as_bytes())
}

fn dump_props(p: &BTreeMap<String, Vec<String>>) -> String {
	p.iter()
		.map(|(k, vs)| format!("{}={}", hs(k), vs.iter().map(|v| hs(v)).collect::<Vec<_>>().join(",")))
		.collect::<Vec<_>>()
		.join(";")
}

fn dump_tpipe(p: &[TNode]) -> String {
	format!("({})", p.iter().map(dump_tnode).collect::<Vec<_>>().join("|"))
}
fn dump_tnode(n: &TNode) -> String {
	format!(
		"{}{{{}}}[{}]",
		hs(&n.name),
		dump_props(&n.props),
		n.sources.iter().map(|p| dump_tpipe(p)).collect::<Vec<_>>().join(",")
	)
}

fn dump_rpipe(p: &VPLPipeline) -> String {
	format!("({})", p.pipeline.iter().map(dump_rnode).collect::<Vec<_>>().join("|"))
}
fn dump_rnode(n: &VPLNode) -> String {
	format!(
		"{}{{{}}}[{}]",
		hs(&n.name),
		dump_props(&n.properties),
		n.sources.iter().map(dump_rpipe).collect::<Vec<_>>().join(",")
	)
}

/// the real parser's answer, canonical
fn real_parse(text: &str) -> String {
	match catch(|| parse_vpl(text).map(|p| dump_rpipe(&p))) {
		Ok(Ok(d)) => format!("ok {d}"),
		Ok(Err(_)) => "err".into(),
		Err(_) => "panic".into(),
	}
}

// ------------------------------------------------------------------------------------------------
// concrete syntax trees = syntax tree + layout (whitespace, quoting, bracketing)
// ------------------------------------------------------------------------------------------------

#[derive(Clone, Debug)]
enum GItem {
	Bare(String),
	/// value + the escaped body as written
	Quoted(String, String),
}
#[derive(Clone, Debug)]
enum GVal {
	Scalar(GItem),
	/// `[` w0 item (wa , wb item)* w1 `]`
	List(String, Vec<(String, String, GItem)>, String),
}
#[derive(Clone, Debug)]
struct GProp {
	ws: String, // non-empty whitespace before the key
	key: String,
	wa: String,
	wb: String,
	val: GVal,
}
#[derive(Clone, Debug)]
struct GNode {
	pre: String,
	name: String,
	props: Vec<GProp>,
	ws_s: String,
	srcs: Option<(String, Vec<GPipe>, String)>,
	post: String,
}
#[derive(Clone, Debug)]
struct GPipe {
	pre: String,
	nodes: Vec<GNode>,
	post: String,
}

impl GItem {
	fn value(&self) -> &str {
		match self {
			GItem::Bare(s) => s,
			GItem::Quoted(s, _) => s,
		}
	}
	fn render(&self, o: &mut String) {
		match self {
			GItem::Bare(s) => o.push_str(s),
			GItem::Quoted(_, body) => {
				o.push('"');
				o.push_str(body);
				o.push('"');
			}
		}
	}
}
impl GPipe {
	fn render(&self, o: &mut String) {
		o.push_str(&self.pre);
		for (i, n) in self.nodes.iter().enumerate() {
			if i > 0 {
				o.push('|');
			}
			n.render(o);
		}
		o.push_str(&self.post);
	}
	fn tree(&self) -> Vec<TNode> {
		self.nodes.iter().map(|n| n.tree()).collect()
	}
	fn depth(&self) -> usize {
		self.nodes.iter().map(|n| n.depth()).max().unwrap_or(0)
	}
	fn count(&self) -> (usize, usize, usize) {
		let mut c = (0, 0, 0);
		for n in &self.nodes {
			c.0 += 1;
			c.1 += n.props.len();
			if let Some((_, ps, _)) = &n.srcs {
				c.2 += 1;
				for p in ps {
					let d = p.count();
					c.0 += d.0;
					c.1 += d.1;
					c.2 += d.2;
				}
			}
		}
		c
	}
}
impl GNode {
	fn render(&self, o: &mut String) {
		o.push_str(&self.pre);
		o.push_str(&self.name);
		for p in &self.props {
			o.push_str(&p.ws);
			o.push_str(&p.key);
			o.push_str(&p.wa);
			o.push('=');
			o.push_str(&p.wb);
			match &p.val {
				GVal::Scalar(it) => it.render(o),
				GVal::List(w0, items, w1) => {
					o.push('[');
					o.push_str(w0);
					for (i, (wa, wb, it)) in items.iter().enumerate() {
						if i > 0 {
							o.push_str(wa);
							o.push(',');
							o.push_str(wb);
						}
						it.render(o);
					}
					o.push_str(w1);
					o.push(']');
				}
			}
		}
		o.push_str(&self.ws_s);
		if let Some((w0, pipes, w1)) = &self.srcs {
			o.push('[');
			o.push_str(w0);
			for (i, p) in pipes.iter().enumerate() {
				if i > 0 {
					o.push(',');
				}
				p.render(o);
			}
			o.push_str(w1);
			o.push(']');
		}
		o.push_str(&self.post);
	}
	/// the pipeline the text describes: repeated keys append (a map from key to all its values, in order)
	fn tree(&self) -> TNode {
		let mut props: BTreeMap<String, Vec<String>> = BTreeMap::new();
		for p in &self.props {
			let vs: Vec<String> = match &p.val {
				GVal::Scalar(it) => vec![it.value().to_string()],
				GVal::List(_, items, _) => items.iter().map(|(_, _, it)| it.value().to_string()).collect(),
			};
			props.entry(p.key.clone()).or_default().extend(vs);
		}
		TNode {
			name: self.name.clone(),
			props,
			sources: self.srcs.as_ref().map(|(_, ps, _)| ps.iter().map(|p| p.tree()).collect()).unwrap_or_default(),
		}
	}
	fn depth(&self) -> usize {
		1 + self.srcs.as_ref().map(|(_, ps, _)| ps.iter().map(|p| p.depth()).max().unwrap_or(0)).unwrap_or(0)
	}
}

// ---- token encoding of a written pipeline for the Lean side (`C18r <d> <tokens>`, see VtModel/VplSyntax.lean) ----

fn enc_ws(w: &str) -> String {
	if w.is_empty() {
		return "-".into();
	}
	w.chars()
		.map(|c| match c {
			' ' => 's',
			'\t' => 't',
			'\r' => 'r',
			'\n' => 'n',
			_ => panic!("not whitespace"),
		})
		.collect()
}
fn enc_item(it: &GItem, o: &mut Vec<String>) {
	match it {
		GItem::Bare(s) => {
			o.push("b".into());
			o.push(hs(s));
		}
		GItem::Quoted(_, body) => {
			o.push("q".into());
			let mut q = vec![];
			let mut cs = body.chars();
			while let Some(c) = cs.next() {
				if c == '\\' {
					q.push(match cs.next().unwrap() {
						'\\' => "eb".to_string(),
						'"' => "eq".into(),
						'n' => "en".into(),
						't' => "et".into(),
						_ => panic!("bad escape in generator"),
					});
				} else {
					q.push(format!("r{:x}", c as u32));
				}
			}
			o.push(if q.is_empty() { "-".into() } else { q.join(".") });
		}
	}
}
impl GPipe {
	fn encode(&self, o: &mut Vec<String>) {
		assert!(self.pre.is_empty() && self.post.is_empty());
		o.push("I".into());
		o.push(self.nodes.len().to_string());
		for n in &self.nodes {
			n.encode(o);
		}
	}
}
impl GNode {
	fn encode(&self, o: &mut Vec<String>) {
		o.push("N".into());
		o.push(enc_ws(&self.pre));
		o.push(hs(&self.name));
		o.push(self.props.len().to_string());
		for p in &self.props {
			o.push(enc_ws(&p.ws));
			o.push(hs(&p.key));
			o.push(enc_ws(&p.wa));
			o.push(enc_ws(&p.wb));
			match &p.val {
				GVal::Scalar(it) => {
					o.push("S".into());
					enc_item(it, o);
				}
				GVal::List(w0, items, w1) => {
					o.push("L".into());
					o.push(enc_ws(w0));
					o.push(items.len().to_string());
					for (i, (wa, wb, it)) in items.iter().enumerate() {
						if i > 0 {
							o.push(enc_ws(wa));
							o.push(enc_ws(wb));
						}
						enc_item(it, o);
					}
					o.push(enc_ws(w1));
				}
			}
		}
		o.push(enc_ws(&self.ws_s));
		match &self.srcs {
			None => o.push("X".into()),
			Some((w0, pipes, w1)) if pipes.is_empty() => {
				assert!(w1.is_empty());
				o.push("E".into());
				o.push(enc_ws(w0));
			}
			Some((w0, pipes, w1)) => {
				assert!(w0.is_empty() && w1.is_empty());
				o.push("P".into());
				o.push(pipes.len().to_string());
				for p in pipes {
					p.encode(o);
				}
			}
		}
		o.push(enc_ws(&self.post));
	}
}

const WS: &[&str] = &["", "", " ", " ", "  ", "\t", "\n", "\r\n", " \n\t ", "\n\n   ", "\r"];
const WS1: &[&str] = &[" ", " ", "  ", "\t", "\n", "\r\n", " \n\t ", "\n   ", "\r"];

fn ws(rng: &mut Rng, style: u64) -> String {
	match style {
		0 => String::new(),              // as tight as the syntax allows
		1 => " ".into(),                 // single spaces
		_ => rng.pick(WS).to_string(), // anything
	}
}
fn ws1(rng: &mut Rng, style: u64) -> String {
	match style {
		0 | 1 => " ".into(),
		_ => rng.pick(WS1).to_string(),
	}
}

fn ident(rng: &mut Rng) -> String {
	const A: &[u8] = b"abcdefghijklmnopqrstuvwxyzABCDEFGHIJKLMNOPQRSTUVWXYZ";
	const R: &[u8] = b"abcxyzABCXYZ0123456789__--";
	let mut s = String::new();
	s.push(*rng.pick(A) as char);
	let n = match rng.below(4) {
		0 => 0,
		1 => 1,
		_ => rng.range(2, 9),
	};
	for _ in 0..n {
		s.push(*rng.pick(R) as char);
	}
	s
}

const KEYS: &[&str] = &["k", "key", "a", "b", "min", "filename", "x-1", "y_2"];

fn key(rng: &mut Rng) -> String {
	// a small pool so that repeated keys occur
	if rng.chance(3, 5) {
		rng.pick(KEYS).to_string()
	} else {
		ident(rng)
	}
}

pub(crate) fn is_bare(s: &str) -> bool {
	!s.is_empty() && s.chars().all(|c| c.is_ascii_alphanumeric() || c == '.' || c == '-' || c == '_')
}

fn value(rng: &mut Rng) -> String {
	const NASTY: &[&str] = &[
		" ", "\"", "\\", "[", "]", ",", "=", "|", "\n", "\t", "\r", "é", "ß", "日本", "🗺", "\u{0}", "'", "#", "a", "1", ".", "-", "_", "\\n", "\\\"",
	];
	match rng.below(8) {
		0 => String::new(),
		1 | 2 => {
			// bare-able
			const B: &[u8] = b"abcXYZ0123456789.-_";
			(0..rng.range(1, 8)).map(|_| *rng.pick(B) as char).collect()
		}
		3 => rng.pick(&["-2.0", "1e5", "true", "berlin.mbtiles", "-", ".", "_", "0"]).to_string(),
		_ => (0..rng.range(1, 7)).map(|_| *rng.pick(NASTY)).collect::<Vec<_>>().join(""),
	}
}

/// escape a value for a quoted string; `\n`/`\t` may be written raw or escaped
fn escape(rng: &mut Rng, v: &str) -> String {
	let mut o = String::new();
	for c in v.chars() {
		match c {
			'\\' => o.push_str("\\\\"),
			'"' => o.push_str("\\\""),
			'\n' if rng.chance(1, 2) => o.push_str("\\n"),
			'\t' if rng.chance(1, 2) => o.push_str("\\t"),
			c => o.push(c),
		}
	}
	o
}

fn item(rng: &mut Rng, v: String, quote_pref: u64) -> GItem {
	let bare_ok = is_bare(&v);
	let want_bare = match quote_pref {
		0 => true,
		1 => false,
		_ => rng.chance(1, 2),
	};
	if bare_ok && want_bare {
		GItem::Bare(v)
	} else {
		let b = escape(rng, &v);
		GItem::Quoted(v, b)
	}
}

struct Style {
	ws: u64,    // 0 tight, 1 single spaces, 2 free
	quote: u64, // 0 bare where possible, 1 always quoted, 2 mixed
	list: u64,  // 0 scalars unbracketed, 1 single values bracketed too, 2 mixed
}

fn gen_prop(rng: &mut Rng, st: &Style) -> GProp {
	let n = match rng.below(10) {
		0 => 0,
		1..=6 => 1,
		_ => rng.range(2, 4),
	};
	let vals: Vec<String> = (0..n).map(|_| value(rng)).collect();
	let bracket = n != 1
		|| match st.list {
			0 => false,
			1 => true,
			_ => rng.chance(1, 3),
		};
	let val = if bracket {
		let items = vals.into_iter().map(|v| (ws(rng, st.ws), ws(rng, st.ws), item(rng, v, st.quote))).collect();
		GVal::List(ws(rng, st.ws), items, ws(rng, st.ws))
	} else {
		GVal::Scalar(item(rng, vals.into_iter().next().unwrap(), st.quote))
	};
	GProp { ws: ws1(rng, st.ws), key: key(rng), wa: ws(rng, st.ws), wb: ws(rng, st.ws), val }
}

fn gen_node(rng: &mut Rng, st: &Style, depth: usize, width: u64) -> GNode {
	let np = match rng.below(6) {
		0 => 0,
		1 | 2 => 1,
		_ => rng.range(1, width),
	};
	let props = (0..np).map(|_| gen_prop(rng, st)).collect();
	let srcs = if depth > 1 && rng.chance(2, 3) {
		// slots: `[` ws `]` when empty; otherwise the whitespace inside the brackets belongs to the operations
		let n = if rng.chance(1, 8) { 0 } else { rng.range(1, width) };
		let w0 = if n == 0 { ws(rng, st.ws) } else { String::new() };
		Some((w0, (0..n).map(|_| gen_pipe(rng, st, depth - 1, width)).collect(), String::new()))
	} else if rng.chance(1, 12) {
		Some((ws(rng, st.ws), vec![], String::new()))
	} else {
		None
	};
	GNode { pre: ws(rng, st.ws), name: ident(rng), props, ws_s: ws(rng, st.ws), srcs, post: ws(rng, st.ws) }
}

fn gen_pipe(rng: &mut Rng, st: &Style, depth: usize, width: u64) -> GPipe {
	let n = if rng.chance(1, 3) { 1 } else { rng.range(1, width) };
	// whitespace around a pipeline is the `pre` of its first and the `post` of its last operation
	GPipe { pre: String::new(), nodes: (0..n).map(|_| gen_node(rng, st, depth, width)).collect(), post: String::new() }
}

// ------------------------------------------------------------------------------------------------
// reference parser: recursive descent from the documented grammar
//   pipeline := node ('|' node)*            node := name (WS+ key '=' value)* sources?
//   value    := "…" | bare | '[' (item (',' item)*)? ']'      sources := '[' (pipeline (',' pipeline)*)? ']'
//   whitespace allowed around every token; names/keys [A-Za-z][A-Za-z0-9_-]*; bare values [A-Za-z0-9._-]+;
//   escapes inside quotes: \\ \" \n \t
// ------------------------------------------------------------------------------------------------

struct Ref {
	s: Vec<char>,
	i: usize,
}
impl Ref {
	fn peek(&self) -> Option<char> {
		self.s.get(self.i).copied()
	}
	fn ws(&mut self) -> usize {
		let a = self.i;
		while matches!(self.peek(), Some(' ' | '\t' | '\r' | '\n')) {
			self.i += 1;
		}
		self.i - a
	}
	fn eat(&mut self, c: char) -> Result<(), ()> {
		if self.peek() == Some(c) {
			self.i += 1;
			Ok(())
		} else {
			Err(())
		}
	}
	fn ident(&mut self) -> Result<String, ()> {
		let a = self.i;
		if !self.peek().is_some_and(|c| c.is_ascii_alphabetic()) {
			return Err(());
		}
		while self.peek().is_some_and(|c| c.is_ascii_alphanumeric() || c == '_' || c == '-') {
			self.i += 1;
		}
		Ok(self.s[a..self.i].iter().collect())
	}
	fn quoted(&mut self) -> Result<String, ()> {
		self.eat('"')?;
		let mut o = String::new();
		loop {
			match self.peek() {
				None => return Err(()),
				Some('"') => {
					self.i += 1;
					return Ok(o);
				}
				Some('\\') => {
					self.i += 1;
					o.push(match self.peek() {
						Some('\\') => '\\',
						Some('"') => '"',
						Some('n') => '\n',
						Some('t') => '\t',
						_ => return Err(()),
					});
					self.i += 1;
				}
				Some(c) => {
					o.push(c);
					self.i += 1;
				}
			}
		}
	}
	fn bare(&mut self) -> Result<String, ()> {
		let a = self.i;
		while self.peek().is_some_and(|c| c.is_ascii_alphanumeric() || c == '.' || c == '-' || c == '_') {
			self.i += 1;
		}
		if a == self.i {
			Err(())
		} else {
			Ok(self.s[a..self.i].iter().collect())
		}
	}
	fn item(&mut self) -> Result<String, ()> {
		if self.peek() == Some('"') {
			self.quoted()
		} else {
			self.bare()
		}
	}
	fn value(&mut self) -> Result<Vec<String>, ()> {
		if self.peek() == Some('[') {
			self.i += 1;
			self.ws();
			let mut v = vec![];
			if self.peek() != Some(']') {
				loop {
					v.push(self.item()?);
					self.ws();
					if self.peek() == Some(',') {
						self.i += 1;
						self.ws();
					} else {
						break;
					}
				}
			}
			self.eat(']')?;
			Ok(v)
		} else {
			Ok(vec![self.item()?])
		}
	}
	fn node(&mut self) -> Result<TNode, ()> {
		self.ws();
		let name = self.ident()?;
		let mut props: BTreeMap<String, Vec<String>> = BTreeMap::new();
		loop {
			let save = self.i;
			if self.ws() == 0 || !self.peek().is_some_and(|c| c.is_ascii_alphabetic()) {
				self.i = save;
				break;
			}
			let k = self.ident()?;
			self.ws();
			self.eat('=')?;
			self.ws();
			let v = self.value()?;
			props.entry(k).or_default().extend(v);
		}
		self.ws();
		let mut sources = vec![];
		if self.peek() == Some('[') {
			self.i += 1;
			self.ws();
			if self.peek() != Some(']') {
				loop {
					sources.push(self.pipeline()?);
					if self.peek() == Some(',') {
						self.i += 1;
					} else {
						break;
					}
				}
			}
			self.eat(']')?;
		}
		self.ws();
		Ok(TNode { name, props, sources })
	}
	fn pipeline(&mut self) -> Result<Vec<TNode>, ()> {
		let mut v = vec![];
		loop {
			v.push(self.node()?);
			if self.peek() == Some('|') {
				self.i += 1;
			} else {
				break;
			}
		}
		Ok(v)
	}
}

/// documented limit: at most 64 square brackets may be open at any point outside quoted strings
/// (value lists count like source lists); written from the documentation of MAX_NESTING_DEPTH
fn ref_too_deep(text: &str) -> bool {
	#[derive(PartialEq)]
	enum M {
		Plain,
		Quoted,
		QuotedEsc,
	}
	let (mut m, mut open, mut worst) = (M::Plain, 0i64, 0i64);
	for c in text.chars() {
		m = match (m, c) {
			(M::Plain, '"') => M::Quoted,
			(M::Plain, '[') => {
				open += 1;
				worst = worst.max(open);
				M::Plain
			}
			(M::Plain, ']') => {
				open = (open - 1).max(0);
				M::Plain
			}
			(M::Plain, _) => M::Plain,
			(M::Quoted, '\\') => M::QuotedEsc,
			(M::Quoted, '"') => M::Plain,
			(M::Quoted, _) => M::Quoted,
			(M::QuotedEsc, _) => M::Quoted,
		};
	}
	worst > 64
}

fn ref_tree(text: &str) -> Option<Vec<TNode>> {
	if ref_too_deep(text) {
		return None;
	}
	let mut r = Ref { s: text.chars().collect(), i: 0 };
	match r.pipeline() {
		Ok(p) if r.i == r.s.len() => Some(p),
		_ => None,
	}
}

pub(crate) fn ref_parse(text: &str) -> String {
	match ref_tree(text) {
		Some(p) => format!("ok {}", dump_tpipe(&p)),
		None => "err".into(),
	}
}

// ------------------------------------------------------------------------------------------------
// order of the operations: VPLPipeline::split and the chain the factory builds
// ------------------------------------------------------------------------------------------------

/// `C18 split <hex>`: head and tail handed to the factory (`parse_vpl(text)?.split()`), tail in text order
fn emit_split(out: &mut Out, text: &str) {
	let real = match catch(|| parse_vpl(text).and_then(|p| p.split())) {
		Ok(Ok((h, t))) => format!("ok {} ({})", dump_rnode(&h), t.iter().map(dump_rnode).collect::<Vec<_>>().join("|")),
		Ok(Err(_)) => "err".into(),
		Err(_) => "panic".into(),
	};
	let expected = match ref_tree(text) {
		Some(p) => format!("ok {} {}", dump_tnode(&p[0]), dump_tpipe(&p[1..])),
		None => "err".into(),
	};
	let case = format!("C18 split {}", hs(text));
	let tail_len = ref_tree(text).map(|p| p.len().saturating_sub(1)).unwrap_or(0);
	out.case(&case, &real, tail_len >= 2);
	out.count(&format!("split_tail_{}", tail_len.min(4)));
	if real == expected {
		out.oracle(true, "", json!(null), json!(null));
	} else {
		out.oracle(
			false,
			&format!("C18 split order: {:?} is handed to the factory as {} but the text says {}", trunc(text, 120), trunc(&real, 200), trunc(&expected, 200)),
			json!({"kind": "split-order", "tail": tail_len.min(4)}),
			json!({"case": case, "text": text, "impl": real, "expected": expected}),
		);
	}
}

/// `C18 node <hex>`: the second entry point `VPLNode::from_str` (test helper of the crate) against `parse_vpl`:
/// the same operation for texts with one operation, an error for invalid texts, the documented assertion otherwise
pub(crate) fn emit_node(out: &mut Out, text: &str) {
	let real = match catch(|| VPLNode::from_str(text).map(|n| dump_rnode(&n))) {
		Ok(Ok(d)) => format!("ok {d}"),
		Ok(Err(_)) => "err".into(),
		Err(_) => "panic".into(),
	};
	let expected = match ref_tree(text) {
		Some(p) if p.len() == 1 => format!("ok {}", dump_tnode(&p[0])),
		Some(_) => "panic".into(),
		None => "err".into(),
	};
	let case = format!("C18 node {}", hs(text));
	out.case(&case, &real, true);
	out.count(&format!("node_{}", &real[..real.len().min(2)]));
	if real == expected {
		out.oracle(true, "", json!(null), json!(null));
	} else {
		out.oracle(
			false,
			&format!("C18 node: VPLNode::from_str({:?}) gives {} but parse_vpl / the text say {}", trunc(text, 120), trunc(&real, 160), trunc(&expected, 160)),
			json!({"kind": "node-from-str", "impl": &real[..real.len().min(5)]}),
			json!({"case": case, "text": text}),
		);
	}
}

/// markers (`layer_name` of the update stages) in the order the built operation prints them: outermost first
pub(crate) fn debug_markers(dbg: &str) -> Vec<String> {
	let pat = "layer_name: \"";
	let mut v = vec![];
	let mut rest = dbg;
	while let Some(i) = rest.find(pat) {
		rest = &rest[i + pat.len()..];
		let j = rest.find('"').unwrap_or(rest.len());
		v.push(rest[..j].to_string());
		rest = &rest[j..];
	}
	v
}

fn real_chain(rt: &tokio::runtime::Runtime, dir: &Path, text: &str) -> String {
	match catch(|| rt.block_on(async { factory(dir).operation_from_vpl(text).await.map(|op| format!("{op:?}")) })) {
		Ok(Ok(d)) => format!("ok {}", debug_markers(&d).iter().map(|m| hs(m)).collect::<Vec<_>>().join(",")),
		Ok(Err(_)) => "err".into(),
		Err(_) => "panic".into(),
	}
}

/// `C18 chain <hex>`: the operation chain that is actually constructed; `expected` = stages in text order
pub(crate) fn emit_chain(out: &mut Out, rt: &tokio::runtime::Runtime, dir: &Path, text: &str, expected: Option<Vec<String>>) {
	let real = real_chain(rt, dir, text);
	let case = format!("C18 chain {}", hs(text));
	out.case(&case, &real, true);
	out.count("chain_cases");
	let Some(exp) = expected else {
		out.oracle(true, "", json!(null), json!(null));
		return;
	};
	out.count(&format!("chain_stages_{}", exp.len().min(6)));
	let want = format!("ok {}", exp.iter().map(|m| hs(m)).collect::<Vec<_>>().join(","));
	if real == want {
		out.oracle(true, "", json!(null), json!(null));
	} else {
		let got: Vec<String> = debug_markers_of(&real);
		out.oracle(
			false,
			&format!("C18 chain order: {:?} is built with the stages nested {:?} (outermost first) but the text order demands {:?}", trunc(text, 200), got, exp),
			json!({"kind": "chain-order", "impl_ok": real.starts_with("ok")}),
			json!({"case": case, "text": text, "impl": real, "expected": want}),
		);
	}
}

fn debug_markers_of(line: &str) -> Vec<String> {
	line.strip_prefix("ok ").map(|l| l.split(',').filter(|x| !x.is_empty()).map(|h| String::from_utf8_lossy(&unhex(h)).to_string()).collect()).unwrap_or_default()
}

/// a pipeline with marked stages; returns (text, markers in the order the built operation must print them)
fn chain_text(rng: &mut Rng, depth: usize, counter: &mut usize) -> (String, Vec<String>) {
	let mut s;
	let mut head_markers: Vec<String> = vec![];
	if depth > 1 && rng.chance(1, 2) {
		let n = rng.range(2, 3);
		let mut parts = vec![];
		for _ in 0..n {
			let (t, m) = chain_text(rng, depth - 1, counter);
			parts.push(t);
			head_markers.extend(m);
		}
		s = format!("{} [ {} ]", if rng.chance(1, 2) { "from_overlayed" } else { "from_vectortiles_merged" }, parts.join(", "));
	} else if rng.chance(1, 2) {
		s = "from_debug format=pbf".to_string();
	} else {
		s = "from_container filename=x.versatiles".to_string();
	}
	let k = match rng.below(6) {
		0 => 0,
		1 => 1,
		2 | 3 => 2,
		4 => 3,
		_ => rng.range(4, 6),
	};
	let mut tail: Vec<String> = vec![];
	for _ in 0..k {
		s += if rng.chance(1, 2) { " | " } else { "|" };
		if rng.chance(1, 4) {
			s += &format!("filter_zoom min={} max={}", rng.below(4), rng.range(10, 20));
		} else {
			*counter += 1;
			let m = format!("m{}", *counter);
			s += &format!("vectortiles_update_properties data_source_path=data.csv id_field_data=id id_field_tiles=x layer_name={m}");
			if rng.chance(1, 3) {
				s += " include_id=true";
			}
			tail.push(m);
		}
	}
	tail.reverse();
	tail.extend(head_markers);
	(s, tail)
}

// ------------------------------------------------------------------------------------------------
// parse cases
// ------------------------------------------------------------------------------------------------

fn classify(text: &str) -> serde_json::Value {
	json!({
		"empty_quoted": text.contains("\"\""),
		"has_escape": text.contains('\\'),
		"has_sources": text.contains('['),
	})
}

/// shrink a text while `bad` stays true (delete single characters / halves)
fn shrink_text(text: &str, bad: &dyn Fn(&str) -> bool) -> String {
	let mut cur: Vec<char> = text.chars().collect();
	let mut chunk = (cur.len() / 2).max(1);
	let mut budget = 4000;
	while chunk >= 1 && budget > 0 {
		let mut i = 0;
		let mut changed = false;
		while i + chunk <= cur.len() && budget > 0 {
			let mut t = cur.clone();
			t.drain(i..i + chunk);
			budget -= 1;
			if bad(&t.iter().collect::<String>()) {
				cur = t;
				changed = true;
			} else {
				i += 1;
			}
		}
		if !changed {
			if chunk == 1 {
				break;
			}
			chunk /= 2;
		}
	}
	cur.into_iter().collect()
}

/// a text with the answer the property demands (`expected`: `ok <dump>` or `err`)
pub(crate) fn emit_parse(out: &mut Out, text: &str, expected: &str, kind: &str, nontrivial: bool) {
	let real = real_parse(text);
	let case = format!("C18 parse {}", hs(text));
	out.case(&case, &real, nontrivial);
	out.count(&format!("parse_{kind}"));
	out.count(if real.starts_with("ok") { "verdict_ok" } else if real == "err" { "verdict_err" } else { "verdict_panic" });
	if real == expected {
		out.oracle(true, "", json!(null), json!(null));
		return;
	}
	let fail_kind = if real == "panic" {
		"panic"
	} else if expected == "err" {
		"accepted-outside-syntax"
	} else if real == "err" {
		"rejected-well-formed"
	} else {
		"wrong-tree"
	};
	// minimise: keep "the oracle (reference parser) and the implementation disagree in the same way"
	let bad = |t: &str| {
		let r = real_parse(t);
		let e = ref_parse(t);
		r != e
			&& match fail_kind {
				"panic" => r == "panic",
				"accepted-outside-syntax" => e == "err" && r.starts_with("ok"),
				"rejected-well-formed" => r == "err" && e.starts_with("ok"),
				_ => r.starts_with("ok") && e.starts_with("ok"),
			}
	};
	let small = if bad(text) { shrink_text(text, &bad) } else { text.to_string() };
	let mut sig = classify(&small);
	sig["kind"] = json!(fail_kind);
	out.oracle(
		false,
		&format!("C18 parse {fail_kind}: {:?} gives {} but the text describes {}", trunc(&small, 120), trunc(&real_parse(&small), 160), trunc(&ref_parse(&small), 160)),
		sig,
		json!({"case": format!("C18 parse {}", hs(&small)), "text": small, "original_case": case, "impl": real, "expected": expected, "generator": kind}),
	);
}

const MUT_CHARS: &[char] = &['[', ']', '"', '\\', '=', '|', ',', ' ', '\t', '\n', 'x', '1', '.', '-', '_', 'é', ';', '\'', '\u{0}'];

fn mutate(rng: &mut Rng, text: &str) -> (String, &'static str) {
	let mut cs: Vec<char> = text.chars().collect();
	let positions = |cs: &Vec<char>, set: &[char]| -> Vec<usize> { (0..cs.len()).filter(|i| set.contains(&cs[*i])).collect() };
	let class = rng.below(9);
	match class {
		0 if !cs.is_empty() => {
			let i = rng.below(cs.len() as u64) as usize;
			cs.remove(i);
			(cs.into_iter().collect(), "delete")
		}
		1 => {
			let i = rng.below(cs.len() as u64 + 1) as usize;
			cs.insert(i, *rng.pick(MUT_CHARS));
			(cs.into_iter().collect(), "insert")
		}
		2 if !cs.is_empty() => {
			let i = rng.below(cs.len() as u64) as usize;
			cs[i] = *rng.pick(MUT_CHARS);
			(cs.into_iter().collect(), "replace")
		}
		3 | 4 => {
			// unbalance brackets: drop or double one
			let p = positions(&cs, &['[', ']']);
			if p.is_empty() {
				cs.push(']');
			} else {
				let i = *rng.pick(&p);
				if rng.chance(2, 3) {
					cs.remove(i);
				} else {
					let c = cs[i];
					cs.insert(i, c);
				}
			}
			(cs.into_iter().collect(), "unbalance")
		}
		5 => {
			let p = positions(&cs, &['=']);
			if p.is_empty() {
				cs.push('=');
			} else {
				cs.remove(*rng.pick(&p));
			}
			(cs.into_iter().collect(), "drop-eq")
		}
		6 => {
			// bad escape / broken quoting
			let p = positions(&cs, &['"', '\\']);
			if p.is_empty() {
				cs.push('"');
			} else {
				let i = *rng.pick(&p);
				match rng.below(3) {
					0 => {
						cs.remove(i);
					}
					1 => cs.insert(i + 1, *rng.pick(&['x', 'r', '0', ' ', 'u'])),
					_ => cs.insert(i, '\\'),
				}
			}
			(cs.into_iter().collect(), "quote-escape")
		}
		7 => {
			// separators
			let p = positions(&cs, &['|', ',']);
			if p.is_empty() {
				cs.push('|');
			} else {
				let i = *rng.pick(&p);
				match rng.below(3) {
					0 => {
						cs.remove(i);
					}
					1 => {
						let c = cs[i];
						cs.insert(i, c)
					}
					_ => cs[i] = if cs[i] == '|' { ',' } else { '|' },
				}
			}
			(cs.into_iter().collect(), "separator")
		}
		_ => {
			// truncate
			let i = rng.below(cs.len() as u64 + 1) as usize;
			cs.truncate(i);
			(cs.into_iter().collect(), "truncate")
		}
	}
}

// ------------------------------------------------------------------------------------------------
// build cases (typed parameters, operation names)
// ------------------------------------------------------------------------------------------------

pub(crate) fn factory(dir: &Path) -> PipelineFactory {
	use futures::future::BoxFuture;
	use versatiles_container::{MockTilesReader, MockTilesReaderProfile};
	use versatiles_core::types::TilesReaderTrait;
	PipelineFactory::default(
		dir,
		Box::new(|filename: String| -> BoxFuture<'static, anyhow::Result<Box<dyn TilesReaderTrait>>> {
			// fixture: files called `missing.versatiles` cannot be opened
			let fail = filename.ends_with("missing.versatiles");
			Box::pin(async move {
				anyhow::ensure!(!fail, "no such file");
				Ok(Box::new(MockTilesReader::new_mock_profile(MockTilesReaderProfile::Pbf)?) as Box<dyn TilesReaderTrait>)
			})
		}),
	)
}

pub(crate) fn real_build(rt: &tokio::runtime::Runtime, dir: &Path, text: &str) -> String {
	match catch(|| rt.block_on(async { factory(dir).operation_from_vpl(text).await.map(|_| ()) })) {
		Ok(Ok(())) => "ok".into(),
		Ok(Err(_)) => "err".into(),
		Err(_) => "panic".into(),
	}
}

fn q(rng: &mut Rng, v: &str) -> String {
	if is_bare(v) && rng.chance(1, 2) {
		v.to_string()
	} else {
		format!("\"{}\"", v.replace('\\', "\\\\").replace('"', "\\\""))
	}
}

const GOOD_U8: &[&str] = &["0", "3", "14", "255", "+7", "007"];
const BAD_U8: &[&str] = &["256", "-1", "3.0", "banana", "", " 3", "3 ", "1e1", "0x10", "+", "99999999999999999999999", "٣"];
const GOOD_F: &[&str] = &["13.37", "-5.25", "52.5", "1e1", "+7.125", ".5", "8.", "1E-1", "0"];
const BAD_F: &[&str] = &["banana", "", "1,5", "1e", ".", "--1", "1.2.3", "0x1", " 1", "1 ", "e5", "1_0", "+-1"];
const GOOD_B: &[&str] = &["true", "false", "1", "0", "yes", "no", "ok", "TRUE", " true ", "False"];
const BAD_B: &[&str] = &["banana", "2", "tru", "", "on", "off", "t", "y", "nope", "truefalse", "-1"];
const FORMATS: &[&str] = &["pbf", "pbf", "pbf", "PBF", ".pbf", "png", "jpg", "jpeg", "webp"];

/// one operation as text; `defect` = what to break (None = well-formed). Returns (text, tile format)
struct Brk<'a> {
	kind: &'a str,
	armed: bool,
}

fn bbox_text(rng: &mut Rng, brk: &mut Brk) -> String {
	let mut v: Vec<String> = vec![
		format!("{}", rng.pick(&["-10.5", "1.25", "+3.5", "-0.75"])),
		format!("{}", rng.pick(&["-20.25", "5.5", "10.125"])),
		format!("{}", rng.pick(&["20.5", "33.3", "45"])),
		format!("{}", rng.pick(&["50.5", "60.25", "70"])),
	];
	if brk.armed && brk.kind == "array-length" {
		brk.armed = false;
		match rng.below(3) {
			0 => {
				v.pop();
			}
			1 => v.push("1".into()),
			_ => v.clear(),
		}
	} else if brk.armed && brk.kind == "array-number" {
		brk.armed = false;
		let i = rng.below(4) as usize;
		v[i] = rng.pick(BAD_F).to_string();
	}
	let items: Vec<String> = v.iter().map(|x| q(rng, x)).collect();
	format!("[{}]", items.join(if rng.chance(1, 2) { "," } else { " , " }))
}

fn read_op(rng: &mut Rng, brk: &mut Brk, depth: usize, want_pbf: bool) -> (String, String) {
	let pick = if depth > 1 { rng.below(4) } else { rng.below(2) };
	let unknown = brk.armed && brk.kind == "unknown-read" && (depth <= 1 || rng.chance(1, 2));
	let mut extra = String::new();
	if brk.armed && brk.kind == "unknown-key" && rng.chance(1, 2) {
		brk.armed = false;
		extra = format!(" {}={}", rng.pick(&["mni", "filenam", "formt", "zoom", "x"]), rng.pick(&["1", "\"a b\"", "[1,2]"]));
	}
	let name = |brk: &mut Brk, rng: &mut Rng, n: &str| -> String {
		if unknown && brk.armed {
			brk.armed = false;
			rng.pick(&["from_nowhere", "from_containe", "From_debug", "filter_zoom", "from_debug2", "x"]).to_string()
		} else {
			n.to_string()
		}
	};
	match pick {
		0 => {
			let n = name(brk, rng, "from_container");
			if brk.armed && brk.kind == "missing-required" && rng.chance(1, 2) {
				brk.armed = false;
				return (format!("{n}{extra}"), "pbf".into());
			}
			if brk.armed && brk.kind == "duplicate-scalar" && rng.chance(1, 2) {
				brk.armed = false;
				return (format!("{n} filename=a.versatiles filename=b.versatiles{extra}"), "pbf".into());
			}
			{
				let f = *rng.pick(&["a.versatiles", "dir/b c.mbtiles", "x"]);
				(format!("{n} filename={}{extra}", q(rng, f)), "pbf".into())
			}
		}
		1 => {
			let n = name(brk, rng, "from_debug");
			let f = if want_pbf { *rng.pick(&["pbf", "PBF", ".pbf"]) } else { *rng.pick(FORMATS) };
			let canon = match f.to_lowercase().trim_matches('.') {
				"jpeg" => "jpg".to_string(),
				x => x.to_string(),
			};
			if brk.armed && brk.kind == "missing-required" {
				brk.armed = false;
				return (format!("{n} fast=true{extra}"), canon);
			}
			let mut s = format!("{n} format={}", q(rng, f));
			if brk.armed && brk.kind == "bad-bool" {
				brk.armed = false;
				let v = *rng.pick(BAD_B);
				s += &format!(" fast={}", q(rng, v));
			} else if brk.armed && brk.kind == "duplicate-scalar" {
				brk.armed = false;
				s += " fast=true fast=true";
			} else if rng.chance(1, 2) {
				let v = *rng.pick(GOOD_B);
				s += &format!(" fast={}", q(rng, v));
			}
			(s + &extra, canon)
		}
		p => {
			let merged = p == 3;
			let n = name(brk, rng, if merged { "from_vectortiles_merged" } else { "from_overlayed" });
			let mut cnt = rng.range(2, 3);
			if brk.armed && brk.kind == "too-few-sources" {
				brk.armed = false;
				cnt = rng.below(2);
			}
			let first_fmt_pbf = want_pbf || merged || rng.chance(2, 3);
			let mut fmt = String::new();
			let mut parts = vec![];
			for i in 0..cnt {
				let (t, f) = pipeline_text(rng, brk, depth - 1, if i == 0 { first_fmt_pbf } else { fmt == "pbf" }, if i == 0 { None } else { Some(fmt.clone()) });
				if i == 0 {
					fmt = f;
				}
				parts.push(t);
			}
			if cnt == 0 && rng.chance(1, 2) {
				return (format!("{n}{extra}"), "pbf".into());
			}
			(format!("{n}{extra} [ {} ]", parts.join(", ")), fmt)
		}
	}
}

fn tran_op(rng: &mut Rng, brk: &mut Brk, fmt: &str) -> String {
	let unknown = brk.armed && brk.kind == "unknown-transform";
	let pick = rng.below(if fmt == "pbf" { 3 } else { 2 });
	let mut extra = String::new();
	if brk.armed && brk.kind == "unknown-key" {
		brk.armed = false;
		extra = format!(" {}={}", rng.pick(&["mni", "maxx", "bboxx", "zoom", "Min"]), rng.pick(&["1", "\"a b\"", "[1,2,3,4]"]));
	}
	let name = |brk: &mut Brk, rng: &mut Rng, n: &str| -> String {
		if unknown {
			brk.armed = false;
			rng.pick(&["filter_nothing", "filter_zoo", "from_debug", "from_container", "Filter_zoom", "filter-zoom"]).to_string()
		} else {
			n.to_string()
		}
	};
	match pick {
		0 => {
			let n = name(brk, rng, "filter_zoom");
			let mut s = n;
			let bad = brk.armed && brk.kind == "bad-number";
			let which_bad = rng.below(2);
			let mut any = false;
			for (i, k) in ["min", "max"].iter().enumerate() {
				if (bad && which_bad == i as u64) || rng.chance(2, 3) {
					let v = if bad && which_bad == i as u64 { *rng.pick(BAD_U8) } else { *rng.pick(GOOD_U8) };
					s += &format!(" {k}={}", q(rng, v));
					any = true;
				}
			}
			if bad {
				brk.armed = false;
			}
			if brk.armed && brk.kind == "duplicate-scalar" {
				brk.armed = false;
				s += " min=1 min=2";
			}
			let _ = any;
			s + &extra
		}
		1 => {
			let n = name(brk, rng, "filter_bbox");
			if brk.armed && brk.kind == "missing-required" {
				brk.armed = false;
				return format!("{n}{extra}");
			}
			format!("{n} bbox={}{extra}", bbox_text(rng, brk))
		}
		_ => {
			let n = name(brk, rng, "vectortiles_update_properties");
			let mut fields = vec![
				("data_source_path", "data.csv".to_string()),
				("layer_name", "mock".to_string()),
				("id_field_tiles", "x".to_string()),
				("id_field_data", "id".to_string()),
			];
			if brk.armed && brk.kind == "missing-required" {
				brk.armed = false;
				fields.remove(rng.below(4) as usize);
			}
			let mut s = n;
			for (k, v) in fields {
				s += &format!(" {k}={}", q(rng, &v));
			}
			for k in ["replace_properties", "remove_non_matching", "include_id"] {
				if brk.armed && brk.kind == "bad-bool" {
					brk.armed = false;
					let v = *rng.pick(BAD_B);
					s += &format!(" {k}={}", q(rng, v));
				} else if rng.chance(1, 3) {
					let v = *rng.pick(GOOD_B);
					s += &format!(" {k}={}", q(rng, v));
				}
			}
			s + &extra
		}
	}
}

/// returns (text, tile format)
fn pipeline_text(rng: &mut Rng, brk: &mut Brk, depth: usize, want_pbf: bool, force_fmt: Option<String>) -> (String, String) {
	let want_pbf = want_pbf || force_fmt.as_deref() == Some("pbf");
	let (mut s, fmt) = if let Some(f) = force_fmt.filter(|f| f != "pbf") {
		// non-vector source of a fixed format
		(format!("from_debug format={f}"), f)
	} else {
		read_op(rng, brk, depth, want_pbf)
	};
	for _ in 0..rng.below(3) {
		s += if rng.chance(1, 2) { " | " } else { "|" };
		s += &tran_op(rng, brk, &fmt);
	}
	(s, fmt)
}

const BREAKS: &[&str] = &[
	"unknown-read", "unknown-transform", "missing-required", "bad-number", "bad-bool", "array-length", "array-number",
	"duplicate-scalar", "unknown-key", "too-few-sources",
];

pub(crate) fn emit_build(out: &mut Out, rt: &tokio::runtime::Runtime, dir: &Path, text: &str, expected: Option<&str>, kind: &str) {
	let real = real_build(rt, dir, text);
	let case = format!("C18 build {}", hs(text));
	out.case(&case, &real, true);
	out.count(&format!("build_{kind}"));
	out.count(&format!("build_verdict_{real}"));
	match expected {
		Some(e) if e != real => {
			out.oracle(
				false,
				&format!("C18 build {kind}: {:?} must be {} but operation_from_vpl gives {}", trunc(text, 160), if e == "ok" { "accepted" } else { "rejected with an error" }, real),
				json!({"kind": "build", "defect": kind, "impl": real}),
				json!({"case": case, "text": text, "expected": e}),
			);
		}
		_ => out.oracle(true, "", json!(null), json!(null)),
	}
}

// ------------------------------------------------------------------------------------------------

/// `C18 deep <n> <open|closed>`: the real parser on `a[a[a[…` (n levels) in a child process.
/// The property demands a pipeline (closed) or an error (open); a dead child is a failure.
fn deep_probe(out: &mut Out, dir: &Path, n: usize, open: bool) {
	let case = format!("C18 deep {n} {}", if open { "open" } else { "closed" });
	let mut cmd = std::process::Command::new(std::env::current_exe().unwrap());
	cmd.args(["C18", "--out"]).arg(dir).args(["deep", "real", &n.to_string()]);
	if open {
		cmd.arg("open");
	}
	let o = cmd.output().unwrap();
	let stdout = String::from_utf8_lossy(&o.stdout).to_string();
	let want = if open || n > 64 { "err" } else { "ok" };
	let alive = o.status.success() && stdout.contains(&format!("deep real {n}: {want}"));
	out.eval(&case, true);
	out.count(if alive { "deep_probe_answered" } else { "deep_probe_process_died" });
	if alive {
		out.oracle(true, "", json!(null), json!(null));
	} else {
		let died = !o.status.success();
		out.oracle(
			false,
			&format!(
				"C18 deep-nesting: parse_vpl on {n} nested source lists ({}) {} instead of returning {}",
				if open { "never closed: text outside the syntax" } else if n > 64 { "closed, beyond the nesting limit of 64" } else { "well-formed" },
				if died { "kills the process (stack overflow in the recursive nom parser)" } else { "gives the wrong verdict" },
				if open || n > 64 { "an error" } else { "the pipeline" }
			),
			json!({"kind": if died { "stack-overflow" } else { "deep-wrong-verdict" }, "open": open}),
			json!({"case": case, "status": format!("{:?}", o.status), "stderr": trunc(&String::from_utf8_lossy(&o.stderr), 200)}),
		);
	}
}

fn replay_line(out: &mut Out, rt: &tokio::runtime::Runtime, dir: &Path, line: &str) {
	let t: Vec<&str> = line.split(' ').collect();
	if t.len() == 4 && t[0] == "C18" && t[1] == "deep" {
		deep_probe(out, dir, t[2].parse().unwrap(), t[3] == "open");
		return;
	}
	if t.len() == 4 && t[0] == "C18" && t[1] == "get" {
		if let Ok(text) = String::from_utf8(unhex(t[3])) {
			crate::c18x::emit_get(out, t[2], &text, None);
		}
		return;
	}
	if t.len() == 4 && t[0] == "C18" && t[1] == "path" {
		if let (Ok(d), Ok(f)) = (String::from_utf8(unhex(t[2])), String::from_utf8(unhex(t[3]))) {
			crate::c18x::emit_path(out, rt, &d, &f);
		}
		return;
	}
	if t.len() != 3 || t[0] != "C18" {
		return;
	}
	let Ok(text) = String::from_utf8(unhex(t[2])) else { return };
	match t[1] {
		"parse" => {
			let e = ref_parse(&text);
			emit_parse(out, &text, &e, "replay", true);
		}
		"build" => emit_build(out, rt, dir, &text, None, "replay"),
		"split" => emit_split(out, &text),
		"node" => emit_node(out, &text),
		"chain" => emit_chain(out, rt, dir, &text, None),
		_ => {}
	}
}

pub fn run(args: &Args) {
	quiet_panics();
	let mut out = Out::new(&args.out);
	out.rule = "parse: concrete syntax trees (depth ≤ 4, width ≤ 4; names/keys from the identifier alphabet; values with spaces, quotes, backslashes, brackets, commas, unicode, empty) × layout styles (tight / single spaces / free whitespace incl. tabs and line breaks; bare / quoted / mixed; scalar / bracketed) → expected tree = the generating tree with repeated keys appended; every second written pipeline is also sent to the Lean side as syntax tree + layout (C18r): the model's `render` must produce the same text and `treeOf` the same tree as the harness; then 9 mutation classes of the rendered texts (delete/insert/replace a character, unbalance brackets, drop '=', break quotes/escapes, separators, truncation) judged by an independent recursive-descent reference parser; build: pipelines over the 7 real operations, well-formed or with exactly one planted defect (unknown operation, missing required parameter, mistyped number/boolean/array, duplicate scalar, unknown parameter, too few sources) → PipelineFactory::operation_from_vpl verdict; order: parse_vpl(text)?.split() (head, tail in text order) on valid and mutated texts, and pipelines whose transform stages carry unique markers (layer_name) → the nesting order of the stages in the Debug output of the operation that the factory actually builds (outermost first = reverse text order, sources in order) vs the order demanded by the text. non-trivial: parse texts whose tree has ≥ 1 parameter and (≥ 2 operations or a nested source), all their mutations that differ from the original, all build cases; distinct by case text".into();
	let rt = tokio::runtime::Builder::new_current_thread().enable_all().build().unwrap();
	let dir = args.out.join("c18fix");
	std::fs::create_dir_all(&dir).unwrap();
	std::fs::write(dir.join("data.csv"), "id,name,population\n1,Berlin,3500000\n2,Hamburg,1800000\n").unwrap();

	// `vth C18 --out D deep <real|ref> <n> [open]`: nesting probe (run as a child process: deep recursion may
	// exhaust the native stack of the parser, which aborts the process; outside the generated range depth ≤ 4)
	if args.extra.first().map(|s| s.as_str()) == Some("deep") {
		let n: usize = args.extra[2].parse().unwrap();
		let text = if args.extra.get(3).map(|s| s.as_str()) == Some("open") { "a[".repeat(n) } else { format!("{}b{}", "a[".repeat(n), "]".repeat(n)) };
		let verdict = if args.extra[1] == "real" {
			match parse_vpl(&text) {
				Ok(p) => {
					std::mem::forget(p); // dropping the tree recurses as well
					"ok"
				}
				Err(_) => "err",
			}
		} else {
			let r = ref_parse(&text);
			if r == "err" { "err" } else { "ok" }
		};
		println!("deep {} {n}: {verdict}", args.extra[1]);
		std::process::exit(0);
	}
	if let Some(p) = &args.replay {
		for line in std::fs::read_to_string(p).unwrap().lines() {
			replay_line(&mut out, &rt, &dir, line);
		}
		out.finish();
		return;
	}
	let mut rng = Rng::new(args.seed);

	// fixed texts: documentation examples, parser tests, boundary shapes
	let fixed: &[&str] = &[
		"from_container filename=\"world.versatiles\" | do_some_filtering | do_some_processing",
		"from_overlayed [\n   from_container filename=\"world.versatiles\",\n   from_container filename=\"europe.versatiles\" | filter_zoom min=5,\n   from_container filename=\"germany.versatiles\"\n]",
		"node1 key1=value1 [ child1 key2=value2 | child2 key3=\"value3\", child3 key4=value4 ] | node2",
		"a", " a ", "a k=\"\"", "a k=[]", "a k=[ ]", "a k=[\"\"]", "a k=v[b]", "a k=[1,2][b]", "a[]", "a [ ]", "a k=1 k=2 k=[3,4]",
		"a k=\"\\\\\\\"\\n\\t\"", "a\tk\n=\r\nv", "a k = [ \"x\" , y ]", "a [b|c,d]", "a[b[c[d]]]",
		"", " ", "a k", "a k=", "a k=\"", "a k=\"\\x\"", "a k=\"x", "a [", "a ]", "a [b", "a [b,]", "a [,b]", "a | | b", "a |", "| a", "a k=[1,]",
		"a k=[1 2]", "1a", "a 1=2", "a k==v", "a k=v w", "a k=v,w", "a [b] [c]", "a [b] k=v", "a k=é", "a k=\"é\"", "é", "a k=\"\"\"", "a k=\"a\"b=c",
	];
	for t in fixed {
		let e = ref_parse(t);
		emit_parse(&mut out, t, &e, if e == "err" { "fixed-invalid" } else { "fixed-valid" }, true);
	}

	let n = args.n(6000, 120000);
	let mut valid_texts: Vec<(String, bool)> = vec![];
	for i in 0..n {
		let st = Style { ws: rng.below(3), quote: rng.below(3), list: rng.below(3) };
		let depth = match rng.below(10) {
			0..=2 => 1,
			3..=5 => 2,
			6..=8 => 3,
			_ => 4,
		};
		let width = rng.range(1, 4);
		let p = gen_pipe(&mut rng, &st, depth, width);
		let mut text = String::new();
		p.render(&mut text);
		let tree = p.tree();
		let (nodes, props, srcs) = p.count();
		let nontrivial = props >= 1 && (nodes >= 2 || srcs >= 1);
		out.count(&format!("depth_{}", p.depth()));
		out.count(&format!("style_ws{}_q{}_l{}", st.ws, st.quote, st.list));
		out.count_n("nodes", nodes as u64);
		out.count_n("properties", props as u64);
		out.count_n("text_chars", text.chars().count() as u64);
		if text.contains("\"\"") {
			out.count("with_empty_quoted");
		}
		if text.contains('\\') {
			out.count("with_escape");
		}
		let expected = format!("ok {}", dump_tpipe(&tree));
		// the reference parser must agree with the generating tree, otherwise the oracle itself is wrong
		let r = ref_parse(&text);
		assert_eq!(r, expected, "harness bug: reference parser disagrees with the generating tree on {text:?}");
		emit_parse(&mut out, &text, &expected, "generated", nontrivial);
		// the written pipeline itself goes to the Lean side: its `render` must be this text, its `treeOf` this tree
		if i % 2 == 1 {
			let mut toks = vec![];
			p.encode(&mut toks);
			out.case(&format!("C18r {} {}", p.depth().saturating_sub(1), toks.join(",")), &format!("{} {}", hs(&text), dump_tpipe(&tree)), nontrivial);
			out.count("render_cases");
			out.oracle(true, "", json!(null), json!(null));
		}
		if i % 2 == 0 || valid_texts.len() < 2000 {
			valid_texts.push((text, nontrivial));
		}
	}
	// mutations
	let m = args.n(9000, 200000);
	for _ in 0..m {
		let (text, nt) = rng.pick(&valid_texts).clone();
		let (mt, class) = mutate(&mut rng, &text);
		let e = ref_parse(&mt);
		out.count(&format!("mutation_{class}_{}", if e == "err" { "invalid" } else { "valid" }));
		emit_parse(&mut out, &mt, &e, &format!("mut-{class}"), nt && mt != text);
	}
	// exhaustive tiny texts (thorough): all strings of length ≤ 4 over a 9-letter alphabet
	if args.thorough() {
		let alpha = ['a', '=', '"', '[', ']', ',', '|', ' ', '\\'];
		for len in 0..=5usize {
			let total = alpha.len().pow(len as u32);
			for idx in 0..total {
				let mut x = idx;
				let t: String = (0..len)
					.map(|_| {
						let c = alpha[x % alpha.len()];
						x /= alpha.len();
						c
					})
					.collect();
				let e = ref_parse(&t);
				emit_parse(&mut out, &t, &e, "exhaustive", len >= 3);
			}
		}
		out.notes.push("exhaustive part: every text of length ≤ 5 over the alphabet {a = \" [ ] , | space backslash}".into());
	}

	// the nesting limit (64 open brackets, value lists included): boundary texts through parser, model and reference
	for n in [1usize, 32, 62, 63, 64, 65, 66, 100, 300] {
		let nest = |inner: &str| format!("{}{}{}", "a [".repeat(n), inner, "]".repeat(n));
		for t in [
			nest("b"),
			nest("b k=[1,2]"),
			nest("b k=\"[[[\""),
			nest("b k=\"\\\"[[\" l=[]"),
			nest("b k=[] l=[\"]\"]"),
			format!("{}b", "a [".repeat(n)),
			format!("a{}", "]".repeat(n)),
			format!("a k=\"{}\"", "[".repeat(n)),
			format!("a{}", " k=[1]".repeat(n)),
			format!("from_overlayed [ {}", "from_overlayed [ ".repeat(n)),
		] {
			let e = ref_parse(&t);
			out.count(if ref_too_deep(&t) { "nesting_beyond_limit" } else { "nesting_within_limit" });
			emit_parse(&mut out, &t, &e, "nesting", true);
		}
	}
	// tricky lexical prefix + k nested source lists around the limit: the quote/escape tracking of the nesting
	// guard must agree with the lexer for every prefix (a guard that loses track of the quotes is bypassed)
	{
		let values: &[&str] = &[
			"\"C:\\\\\"", "\"\\\"\"", "\"\\\\\\\"\"", "\"[[[\"", "\"]]]\"", "\"\"", "\"a\\\"[\\\"b\"", "\"\\\\\\\\\"", "\"x\\\\\" y=\"[\"",
			"\"\\\\\" y=\"\\\"\" z=\"]\"", "\"\\n\\t\\\\\"", "[\"\\\\\",\"[\"]", "\"\\\\\\\\\\\"[\"", "plain",
		];
		for v in values {
			for k in [1usize, 63, 64, 65, 66] {
				let body = format!("{}b{}", "a [".repeat(k), "]".repeat(k));
				let open = format!("{}b", "a [".repeat(k));
				for t in [format!("p x={v} | {body}"), format!("p x={v} [{body}]"), format!("p x={v} | {open}"), format!("{body} | p x={v}")] {
					let e = ref_parse(&t);
					out.count(if e == "err" { "lexprefix_err" } else { "lexprefix_ok" });
					emit_parse(&mut out, &t, &e, "lexical-prefix", true);
				}
			}
		}
	}
	// nesting far beyond the limit (child process: before fix be686a0f the recursive parser exhausted the stack)
	for (n, open) in [(64, false), (64, true), (65, false), (1000, false), (1000, true), (100000, false), (100000, true)] {
		deep_probe(&mut out, &dir, n, open);
	}

	// build cases
	let b = args.n(1500, 20000);
	for i in 0..b {
		let broken = i % 3 != 0;
		let kind = if broken { *rng.pick(BREAKS) } else { "well-formed" };
		let mut brk = Brk { kind, armed: broken };
		let depth = rng.range(1, 3) as usize;
		let (text, _) = pipeline_text(&mut rng, &mut brk, depth, false, None);
		if broken && brk.armed {
			// the defect could not be planted in this shape (e.g. no number parameter present): counts as well-formed
			emit_build(&mut out, &rt, &dir, &text, Some("ok"), "well-formed");
		} else {
			emit_build(&mut out, &rt, &dir, &text, Some(if broken { "err" } else { "ok" }), kind);
		}
	}
	// order of the operations: what split() hands to the factory, and the chain that is built
	for t in ["a", "a|b", "a|b|c", "a|b|c|d", "a k=1|b k=2|c k=3|d k=4|e k=5", "a [x|y|z, u|v|w] | b | c", "", "a |"] {
		emit_split(&mut out, t);
	}
	for i in 0..args.n(400, 8000) {
		let (text, _) = rng.pick(&valid_texts).clone();
		if i % 4 == 0 {
			let (mt, _) = mutate(&mut rng, &text);
			emit_split(&mut out, &mt);
		} else {
			emit_split(&mut out, &text);
		}
	}
	for t in ["a", "a k=1 [b|c]", "a|b", "a|b|c", "", "a k", " a ", "a [b] | c"] {
		emit_node(&mut out, t);
	}
	for i in 0..args.n(300, 6000) {
		let (text, _) = rng.pick(&valid_texts).clone();
		if i % 3 == 0 {
			let (mt, _) = mutate(&mut rng, &text);
			emit_node(&mut out, &mt);
		} else {
			emit_node(&mut out, &text);
		}
	}
	let mut counter = 0usize;
	for (t, e) in [
		("from_debug format=pbf | vectortiles_update_properties data_source_path=data.csv id_field_data=id id_field_tiles=x layer_name=first | vectortiles_update_properties data_source_path=data.csv id_field_data=id id_field_tiles=x layer_name=second", vec!["second", "first"]),
		("from_debug format=pbf | vectortiles_update_properties data_source_path=data.csv id_field_data=id id_field_tiles=x layer_name=m1 | filter_zoom min=3 | vectortiles_update_properties data_source_path=data.csv id_field_data=id id_field_tiles=x layer_name=m2 | filter_zoom max=9", vec!["m2", "m1"]),
	] {
		emit_chain(&mut out, &rt, &dir, t, Some(e.into_iter().map(String::from).collect()));
	}
	for _ in 0..args.n(400, 6000) {
		let depth = rng.range(1, 3) as usize;
		let (text, exp) = chain_text(&mut rng, depth, &mut counter);
		emit_chain(&mut out, &rt, &dir, &text, Some(exp));
	}

	// systematic coverage of the mutation classes (CHECKLIST.md)
	{
		let sample: Vec<String> = (0..args.n(60, 600)).map(|_| { let d = rng.range(1, 3) as usize; chain_text(&mut rng, d, &mut counter).0 }).collect();
		crate::c18x::run_extra(&mut out, &rt, &dir, args, &sample);
	}

	// head/tail position and syntax errors through the factory
	for (t, e) in [
		("filter_zoom min=1", "err"),
		("from_debug format=pbf | from_debug format=pbf", "err"),
		("from_debug format=pbf fast=banana", "err"),
		("from_debug format=pbf fast=true", "ok"),
		("from_debug format=\"\"", "err"),
		("from_debug format=pbf |", "err"),
		("from_debug format=pbf | filter_zoom min=[1,2]", "err"),
		("from_debug format=pbf | filter_zoom min=[]", "err"),
		("from_debug format=pbf | filter_zoom min=[3]", "ok"),
		("from_debug format=pbf | filter_zoom mni=3", "err"),
		("from_debug format=pbf | filter_bbox bbox=[1,2,3]", "err"),
		("from_debug format=pbf | filter_bbox bbox=[1.5,2.5,3.5,4.5]", "ok"),
		("from_debug format=pbf | filter_bbox bbox=[1.5,2.5,3.5,x]", "err"),
		("", "err"),
	] {
		emit_build(&mut out, &rt, &dir, t, Some(e), "fixed");
	}
	out.finish();
}
