//! C17 – TileJSON part (model streams C17t/C17u, containers, served tiles.json).
use crate::common::*;

pub fn replay_line(out: &mut Out, line: &str) {
	out.notes.push(format!("unknown replay line {line}"));
}

pub fn run(_args: &Args, _out: &mut Out, _rng: &mut Rng) {}
