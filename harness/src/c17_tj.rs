//! C17 – TileJSON part tied to the Lean model (`VtModel/TileJson.lean`):
//!   `C17t <tree>`                       → `ok <tree of as_object(from_object(obj))>` | `err`
//!   `C17u <tree> <w,s,e,n|-> <zmin|-> <zmax|->` → document after limit_bbox / limit_min_zoom / limit_max_zoom
//!   `C17m <treeA> <treeB>`              → `merge`
//! (numbers inside trees: hex of `f64::to_string`; in answers: f64 bit patterns)
//! Direct oracles: from_object(as_object(t)) == t, TileJSON::try_from(t.as_string()) == t,
//! update_from_pyramid only narrows, default.merge(t) == t.
use super::{gen_f64, gen_string, hexs, parse_tree, tree, NumStyle};
use crate::common::*;
use serde_json::json;
use std::collections::BTreeMap;
use versatiles_core::json::{JsonArray, JsonObject, JsonValue};
use versatiles_core::tilejson::TileJSON;
use versatiles_core::types::{GeoBBox, TileBBox, TileBBoxPyramid};

fn num(x: f64) -> JsonValue {
	JsonValue::Number(x)
}
fn s(x: &str) -> JsonValue {
	JsonValue::String(x.to_string())
}

fn gen_key(rng: &mut Rng) -> String {
	match rng.below(8) {
		0 => rng.pick(&["name", "description", "attribution", "version", "scheme", "legend", "template", "type", "format"]).to_string(),
		1 => rng.pick(&["tiles", "data", "grids"]).to_string(),
		2 => rng.pick(&["minzoom", "maxzoom", "fillzoom"]).to_string(),
		3 => "tilejson".to_string(),
		// neighbours of the typed keys in the map order
		4 => rng.pick(&["bound", "boundsa", "bounds ", "centeR", "center0", "vector_layer", "vector_layers2", "a", "z", "", "\u{10ffff}"]).to_string(),
		_ => {
			let k = gen_string(rng);
			if k == "bounds" || k == "center" || k == "vector_layers" {
				"x".into()
			} else {
				k
			}
		}
	}
}

fn gen_byte(rng: &mut Rng) -> f64 {
	match rng.below(6) {
		0 => 0.0,
		1 => 255.0,
		2 => rng.below(31) as f64,
		_ => rng.below(256) as f64,
	}
}

fn gen_bbox(rng: &mut Rng) -> [f64; 4] {
	let w = (rng.below(3_400_000) as f64) / 1e4 - 180.0;
	let s = (rng.below(1_600_000) as f64) / 1e4 - 85.0;
	let e = (w + (rng.below(400_000) as f64 + 1.0) / 1e4).min(180.0);
	let n = (s + (rng.below(400_000) as f64 + 1.0) / 1e4).min(85.05);
	match rng.below(8) {
		0 => [-180.0, -90.0, 180.0, 90.0],
		1 => [gen_f64(rng), gen_f64(rng), gen_f64(rng), gen_f64(rng)],
		_ => [w, s, e, n],
	}
}

fn gen_layer(rng: &mut Rng) -> JsonValue {
	let mut m = BTreeMap::new();
	m.insert("id".to_string(), s(&if rng.chance(3, 4) { format!("layer{}", rng.below(4)) } else { gen_string(rng) }));
	if rng.chance(4, 5) {
		let mut f = BTreeMap::new();
		for _ in 0..rng.below(4) {
			f.insert(if rng.chance(1, 2) { format!("f{}", rng.below(5)) } else { gen_string(rng) }, s(&if rng.chance(1, 2) { "String".into() } else { gen_string(rng) }));
		}
		m.insert("fields".to_string(), JsonValue::Object(JsonObject(f)));
	}
	if rng.chance(1, 2) {
		m.insert("description".to_string(), s(&gen_string(rng)));
	}
	if rng.chance(1, 2) {
		m.insert("minzoom".to_string(), num(gen_byte(rng)));
	}
	if rng.chance(1, 2) {
		m.insert("maxzoom".to_string(), num(gen_byte(rng)));
	}
	JsonValue::Object(JsonObject(m))
}

/// a JSON object that `from_object` should accept (`wild = false`) or may reject (`wild = true`)
pub fn gen_doc_object(rng: &mut Rng, wild: bool) -> JsonObject {
	let mut m: BTreeMap<String, JsonValue> = BTreeMap::new();
	for _ in 0..rng.below(7) {
		let k = gen_key(rng);
		let v = match rng.below(if wild { 12 } else { 9 }) {
			0..=3 => s(&gen_string(rng)),
			4..=5 => JsonValue::Array(JsonArray((0..rng.below(4)).map(|_| s(&gen_string(rng))).collect())),
			6..=8 => num(gen_byte(rng)),
			9 => num(*rng.pick(&[-1.0, -0.5, 255.5, 256.0, 3.7, 254.999, 1e300, -0.0, 0.99])),
			10 => JsonValue::Array(JsonArray(vec![s("a"), num(1.0)])),
			_ => rng.pick(&[JsonValue::Null, JsonValue::Boolean(true), JsonValue::Object(JsonObject::default())]).clone(),
		};
		m.insert(k, v);
	}
	if rng.chance(1, 2) {
		let b = gen_bbox(rng);
		let mut xs: Vec<JsonValue> = b.iter().map(|x| num(*x)).collect();
		if wild && rng.chance(1, 4) {
			match rng.below(3) {
				0 => {
					xs.pop();
				}
				1 => xs.push(num(1.0)),
				_ => xs[1] = s("x"),
			}
		}
		m.insert("bounds".into(), JsonValue::Array(JsonArray(xs)));
	}
	if rng.chance(1, 2) {
		let z = if wild { *rng.pick(&[0.0, 7.0, 30.0, 255.0, 256.0, 300.5, -1.0, 12.7]) } else { rng.below(31) as f64 };
		let mut xs = vec![num((rng.below(3_600_000) as f64) / 1e4 - 180.0), num((rng.below(1_700_000) as f64) / 1e4 - 85.0), num(z)];
		if wild && rng.chance(1, 4) {
			xs.pop();
		}
		m.insert("center".into(), JsonValue::Array(JsonArray(xs)));
	}
	if rng.chance(1, 2) {
		let mut ls: Vec<JsonValue> = (0..rng.below(4)).map(|_| gen_layer(rng)).collect();
		if wild && rng.chance(1, 4) && !ls.is_empty() {
			ls[0] = match rng.below(4) {
				0 => s("x"),
				1 => JsonValue::Object(JsonObject(BTreeMap::from([("fields".to_string(), JsonValue::Object(JsonObject::default()))]))), // no id
				2 => JsonValue::Object(JsonObject(BTreeMap::from([("id".to_string(), num(1.0))]))),
				_ => JsonValue::Object(JsonObject(BTreeMap::from([("id".to_string(), s("q")), ("fields".to_string(), JsonValue::Object(JsonObject(BTreeMap::from([("k".to_string(), num(1.0))]))))]))),
			};
		}
		m.insert("vector_layers".into(), JsonValue::Array(JsonArray(ls)));
	}
	JsonObject(m)
}

fn doc_tree(o: &JsonObject) -> String {
	tree(&JsonValue::Object(o.clone()), NumStyle::Text)
}
fn show_tj(t: &TileJSON) -> String {
	format!("ok {}", tree(&JsonValue::Object(t.as_object()), NumStyle::Bits))
}

fn rich(o: &JsonObject) -> bool {
	let mut n = 0;
	for k in ["bounds", "center", "vector_layers"] {
		if o.0.contains_key(k) {
			n += 1;
		}
	}
	if o.0.values().any(|v| matches!(v, JsonValue::Array(_))) {
		n += 1;
	}
	if o.0.values().any(|v| matches!(v, JsonValue::Number(_))) {
		n += 1;
	}
	n >= 2
}

/// strict equality of two TileJSON values through their objects (numbers by bits)
fn same_tj(a: &TileJSON, b: &TileJSON) -> bool {
	super::same(&JsonValue::Object(a.as_object()), &JsonValue::Object(b.as_object())) && a == b
}

fn emit_t(out: &mut Out, o: &JsonObject) {
	let line = format!("C17t {}", doc_tree(o));
	let r = catch(|| TileJSON::from_object(o));
	let ans = match &r {
		Ok(Ok(t)) => show_tj(t),
		Ok(Err(_)) => "err".into(),
		Err(_) => "panic".into(),
	};
	out.case(&line, &ans, rich(o) && ans != "err");
	out.count(&format!("tj_from_object_{}", ans.split(' ').next().unwrap()));
	if let Ok(Ok(t)) = &r {
		// direct oracle: the object mapping and the text mapping hand back the same document
		let back = catch(|| TileJSON::from_object(&t.as_object()));
		let ok1 = matches!(&back, Ok(Ok(u)) if same_tj(t, u));
		out.oracle(ok1, "C17 tilejson: from_object(as_object(t)) != t", json!({"kind": "tj-object-roundtrip"}), json!({"case": line, "given": t.as_string()}));
		let text = t.as_string();
		let back2 = catch(|| TileJSON::try_from(text.as_str()));
		let ok2 = matches!(&back2, Ok(Ok(u)) if same_tj(t, u));
		out.oracle(ok2, "C17 tilejson: try_from(as_string(t)) != t", json!({"kind": "tj-text-roundtrip"}), json!({"case": line, "text": trunc(&text, 400)}));
		// default.merge(t) == t (what the tar and directory readers do with the stored document)
		let merged = catch(|| {
			let mut d = TileJSON::default();
			d.merge(t).map(|_| d)
		});
		let ok3 = matches!(&merged, Ok(Ok(u)) if same_tj(t, u));
		out.oracle(ok3, "C17 tilejson: default.merge(t) != t", json!({"kind": "tj-merge-default"}), json!({"case": line, "given": t.as_string()}));
		// accepted keys keep their meaning: every key of the input object is a key of the document
		let obj = t.as_object();
		let lost: Vec<&String> = o.0.keys().filter(|k| obj.get(k).is_none() && !(k.as_str() == "vector_layers" && t.vector_layers.0.is_empty())).collect();
		out.oracle(lost.is_empty(), "C17 tilejson: accepted key missing from the document", json!({"kind": "tj-key-lost"}), json!({"case": line, "lost": lost}));
	}
}

/// `C17x <hex text>`: `TileJSON::try_from(&str)` on a text (document texts in canonical and free layout, damaged
/// texts, JSON that is not an object)
fn emit_x(out: &mut Out, text: &str) {
	let line = format!("C17x {}", hex(text.as_bytes()));
	let r = catch(|| TileJSON::try_from(text));
	let ans = match &r {
		Ok(Ok(t)) => show_tj(t),
		Ok(Err(_)) => "err".into(),
		Err(_) => "panic".into(),
	};
	out.case(&line, &ans, ans != "err");
	out.count(&format!("tj_try_from_{}", ans.split(' ').next().unwrap()));
	if r.is_err() {
		out.oracle(false, "C17 tilejson: TileJSON::try_from panicked on a text", json!({"kind": "tj-text-panic"}), json!({"case": line}));
	}
}

/// document texts with the number lexeme `n` (verbatim) in each numeric position
pub fn border_docs(n: &str) -> Vec<String> {
	vec![
		format!(r#"{{"minzoom":{n}}}"#),
		format!(r#"{{"maxzoom":{n},"fillzoom":{n}}}"#),
		format!(r#"{{"bounds":[{n},-{n},{n},{n}]}}"#),
		format!(r#"{{"bounds":[-10,-10,10,10],"center":[1.5,{n},{n}]}}"#),
		format!(r#"{{"center":[0,0,{n}],"minzoom":3}}"#),
		format!(r#"{{"vector_layers":[{{"id":"l","fields":{{}},"minzoom":{n},"maxzoom":{n}}}]}}"#),
		format!(r#"{{"count":{n},"list":["{n}"],"text":"{n}"}}"#),
	]
}

/// document texts with the string `t` in every textual position
pub fn trap_docs(t: &str) -> Vec<String> {
	let q = JsonValue::String(t.to_string()).stringify();
	let q2 = JsonValue::String(format!("a{t}b")).stringify();
	vec![
		format!(r#"{{{q}:{q},{q2}:[{q},{q2}]}}"#),
		format!(r#"{{"name":{q2},"description":{q},"attribution":{q}}}"#),
		format!(r#"{{"vector_layers":[{{"id":{q},"description":{q2},"fields":{{{q}:{q2},{q2}:{q}}}}},{{"id":{q2},"fields":{{}}}}]}}"#),
	]
}

fn bbox_arg(b: &Option<[f64; 4]>) -> String {
	match b {
		None => "-".into(),
		Some(b) => b.iter().map(|x| hexs(x.to_string().as_bytes())).collect::<Vec<_>>().join(","),
	}
}
fn z_arg(z: Option<u8>) -> String {
	z.map_or("-".into(), |z| z.to_string())
}

fn get_bounds(t: &TileJSON) -> Option<[f64; 4]> {
	t.bounds.map(|b| b.as_array())
}
fn get_byte(t: &TileJSON, k: &str) -> Option<u8> {
	match t.as_object().get(k) {
		Some(JsonValue::Number(n)) => Some(*n as u8),
		_ => None,
	}
}

/// oracle for "only narrows": written from the statement, not from the code
fn narrowed_ok(before: &TileJSON, after: &TileJSON, bbox: &Option<[f64; 4]>, zmin: Option<u8>, zmax: Option<u8>) -> Result<(), String> {
	let (ob, oa) = (before.as_object(), after.as_object());
	for (k, v) in ob.0.iter() {
		if k == "bounds" || k == "minzoom" || k == "maxzoom" {
			continue;
		}
		match oa.get(k) {
			Some(w) if super::same(v, w) => {}
			_ => return Err(format!("key {k:?} changed or lost")),
		}
	}
	for k in oa.0.keys() {
		if ob.get(k).is_none() && !(k == "bounds" && bbox.is_some()) && !(k == "minzoom" && zmin.is_some()) && !(k == "maxzoom" && zmax.is_some()) {
			return Err(format!("key {k:?} appeared"));
		}
	}
	match (get_bounds(before), bbox, get_bounds(after)) {
		(None, None, None) => {}
		(Some(b), None, Some(a)) if a.iter().zip(b.iter()).all(|(x, y)| x.to_bits() == y.to_bits()) => {}
		(None, Some(c), Some(a)) if a.iter().zip(c.iter()).all(|(x, y)| x.to_bits() == y.to_bits()) => {}
		(Some(b), Some(c), Some(a)) => {
			// intersection: lower edges = the larger, upper edges = the smaller
			let want = [b[0].max(c[0]), b[1].max(c[1]), b[2].min(c[2]), b[3].min(c[3])];
			if !a.iter().zip(want.iter()).all(|(x, y)| x == y) {
				return Err(format!("bounds {a:?}, expected intersection {want:?}"));
			}
		}
		(x, y, z) => return Err(format!("bounds before {x:?} coverage {y:?} after {z:?}")),
	}
	let old_min = get_byte(before, "minzoom");
	let want_min = match (old_min, zmin) {
		(Some(m), Some(z)) => Some(m.max(z)),
		(None, Some(z)) => Some(z),
		(m, None) => m,
	};
	if zmin.is_some() && get_byte(after, "minzoom") != want_min {
		return Err(format!("minzoom {:?}, expected {want_min:?}", get_byte(after, "minzoom")));
	}
	let old_max = get_byte(before, "maxzoom");
	let want_max = match (old_max, zmax) {
		(Some(m), Some(z)) => Some(m.min(z)),
		(None, Some(z)) => Some(z),
		(m, None) => m,
	};
	if zmax.is_some() && get_byte(after, "maxzoom") != want_max {
		return Err(format!("maxzoom {:?}, expected {want_max:?}", get_byte(after, "maxzoom")));
	}
	Ok(())
}

fn emit_u(out: &mut Out, o: &JsonObject, bbox: Option<[f64; 4]>, zmin: Option<u8>, zmax: Option<u8>) {
	let line = format!("C17u {} {} {} {}", doc_tree(o), bbox_arg(&bbox), z_arg(zmin), z_arg(zmax));
	let Ok(Ok(t0)) = catch(|| TileJSON::from_object(o)) else {
		out.case(&line, "err", false);
		return;
	};
	let r = catch(|| {
		let mut t = t0.clone();
		if let Some(b) = bbox {
			t.limit_bbox(GeoBBox(b[0], b[1], b[2], b[3]));
		}
		if let Some(z) = zmin {
			t.limit_min_zoom(z);
		}
		if let Some(z) = zmax {
			t.limit_max_zoom(z);
		}
		t
	});
	match r {
		Ok(t) => {
			out.case(&line, &show_tj(&t), true);
			match narrowed_ok(&t0, &t, &bbox, zmin, zmax) {
				Ok(()) => out.oracle(true, "", json!(null), json!(null)),
				Err(m) => out.oracle(false, &format!("C17 narrowing: {m}"), json!({"kind": "tj-narrow", "what": m.split(' ').next().unwrap_or("")}), json!({"case": line, "before": t0.as_string(), "after": t.as_string()})),
			}
		}
		Err(m) => {
			out.case(&line, "panic", true);
			out.oracle(false, &format!("C17 narrowing: panic {m}"), json!({"kind": "tj-narrow", "what": "panic"}), json!({"case": line}));
		}
	}
}

fn emit_m(out: &mut Out, a: &JsonObject, b: &JsonObject) {
	let line = format!("C17m {} {}", doc_tree(a), doc_tree(b));
	let (Ok(Ok(ta)), Ok(Ok(tb))) = (catch(|| TileJSON::from_object(a)), catch(|| TileJSON::from_object(b))) else {
		out.case(&line, "err", false);
		return;
	};
	let r = catch(|| {
		let mut t = ta.clone();
		t.merge(&tb).map(|_| t)
	});
	let ans = match &r {
		Ok(Ok(t)) => show_tj(t),
		Ok(Err(_)) => "err".into(),
		Err(_) => "panic".into(),
	};
	out.case(&line, &ans, true);
}

/// `update_from_pyramid` of the real code = the three limit calls with the pyramid's own summary
fn pyramid_oracle(out: &mut Out, rng: &mut Rng, o: &JsonObject) {
	let Ok(Ok(t0)) = catch(|| TileJSON::from_object(o)) else { return };
	let mut p = TileBBoxPyramid::new_empty();
	let z0 = rng.range(0, 10) as u8;
	let z1 = (z0 + rng.below(4) as u8).min(12);
	if rng.chance(9, 10) {
		for z in z0..=z1 {
			let n = 1u32 << z;
			let x = rng.below(n as u64) as u32;
			let y = rng.below(n as u64) as u32;
			let x2 = (x + rng.below(3) as u32).min(n - 1);
			let y2 = (y + rng.below(3) as u32).min(n - 1);
			p.include_bbox(&TileBBox::new(z, x, y, x2, y2).unwrap());
		}
	}
	let bbox = p.get_geo_bbox().map(|b| b.as_array());
	let (zmin, zmax) = (p.get_zoom_min(), p.get_zoom_max());
	let r = catch(|| {
		let mut t = t0.clone();
		t.update_from_pyramid(&p);
		t
	});
	let key = format!("C17 pyramid {} {:?} {:?} {:?}", doc_tree(o), bbox, zmin, zmax);
	out.eval(&key, true);
	out.count("tj_update_from_pyramid");
	match r {
		Ok(t) => match narrowed_ok(&t0, &t, &bbox, zmin, zmax) {
			Ok(()) => out.oracle(true, "", json!(null), json!(null)),
			Err(m) => out.oracle(false, &format!("C17 narrowing: update_from_pyramid {m}"), json!({"kind": "tj-narrow", "what": m.split(' ').next().unwrap_or("")}), json!({"case": format!("C17u {} {} {} {}", doc_tree(o), bbox_arg(&bbox), z_arg(zmin), z_arg(zmax)), "before": t0.as_string(), "after": t.as_string()})),
		},
		Err(m) => out.oracle(false, &format!("C17 narrowing: update_from_pyramid panic {m}"), json!({"kind": "tj-narrow", "what": "panic"}), json!({"case": key})),
	}
}

pub fn replay_line(out: &mut Out, line: &str) {
	let t: Vec<&str> = line.split(' ').collect();
	let obj = |s: &str| match parse_tree(s) {
		Some(JsonValue::Object(o)) => Some(o),
		_ => None,
	};
	let bb = |s: &str| -> Option<Option<[f64; 4]>> {
		if s == "-" {
			return Some(None);
		}
		let v: Vec<f64> = s.split(',').filter_map(|h| String::from_utf8(unhex(h)).ok()?.parse().ok()).collect();
		(v.len() == 4).then(|| Some([v[0], v[1], v[2], v[3]]))
	};
	let zz = |s: &str| -> Option<u8> { s.parse().ok() };
	match t.as_slice() {
		["C17t", tr] => match obj(tr) {
			Some(o) => emit_t(out, &o),
			None => out.notes.push(format!("unreadable replay line {line}")),
		},
		["C17x", h] => match String::from_utf8(unhex(h)) {
			Ok(t) => emit_x(out, &t),
			Err(_) => out.notes.push(format!("unreadable replay line {line}")),
		},
		["C17u", tr, b, z0, z1] => match (obj(tr), bb(b)) {
			(Some(o), Some(b)) => emit_u(out, &o, b, zz(z0), zz(z1)),
			_ => out.notes.push(format!("unreadable replay line {line}")),
		},
		["C17m", a, b] => match (obj(a), obj(b)) {
			(Some(a), Some(b)) => emit_m(out, &a, &b),
			_ => out.notes.push(format!("unreadable replay line {line}")),
		},
		_ => out.notes.push(format!("unknown replay line {line}")),
	}
}

pub fn run(args: &Args, out: &mut Out, rng: &mut Rng) {
	// boundary documents
	emit_t(out, &JsonObject::default());
	for k in ["bounds", "center", "vector_layers", "minzoom", "tilejson", "x"] {
		for v in [JsonValue::Null, num(1.0), s("x"), JsonValue::Array(JsonArray(vec![])), JsonValue::Array(JsonArray(vec![num(1.0), num(2.0), num(3.0)])), JsonValue::Array(JsonArray(vec![num(1.0), num(2.0), num(3.0), num(4.0)])), JsonValue::Object(JsonObject::default())] {
			emit_t(out, &JsonObject(BTreeMap::from([(k.to_string(), v)])));
		}
	}
	// byte range of generic numbers, center zoom and layer zooms: the literals 0 / 255 and their neighbours
	for x in [-1.0, -0.0, 0.0, 0.5, 1.0, 30.0, 31.0, 254.0, 254.5, 255.0, 255.000001, 255.5, 256.0, 257.0, 1e3, 65535.0, 65536.0, 4294967295.0, 1e300] {
		emit_t(out, &JsonObject(BTreeMap::from([("minzoom".to_string(), num(x))])));
		emit_t(out, &JsonObject(BTreeMap::from([("maxzoom".to_string(), num(x)), ("q".to_string(), num(x))])));
		emit_t(out, &JsonObject(BTreeMap::from([("center".to_string(), JsonValue::Array(JsonArray(vec![num(1.0), num(2.0), num(x)])))])));
		let layer = JsonValue::Object(JsonObject(BTreeMap::from([("id".to_string(), s("l")), ("minzoom".to_string(), num(x)), ("maxzoom".to_string(), num(x))])));
		emit_t(out, &JsonObject(BTreeMap::from([("vector_layers".to_string(), JsonValue::Array(JsonArray(vec![layer])))])));
		for z in [0u8, 1, 30, 31, 254, 255] {
			let o = JsonObject(BTreeMap::from([("minzoom".to_string(), num(x)), ("maxzoom".to_string(), num(x))]));
			emit_u(out, &o, None, Some(z), Some(z));
		}
	}
	for t in ["", "{}", " { } ", "[]", "null", "1", "\"x\"", "{\"a\":1", "{\"bounds\":[1,2,3,4],\"bounds\":[5,6,7,8]}", "{\"a\":\"x\",\"a\":\"y\"}", "\u{feff}{}", "{\"a\":{}}", "{\"a\":null}", "{\"tilejson\":\"2.0.0\"}", "{\"tilejson\":7}", "{}x", "{\"vector_layers\":[{\"id\":\"a\"},{\"id\":\"a\",\"fields\":{\"f\":\"g\"}}]}"] {
		emit_x(out, t);
	}
	// checklist 13: the shared number borders, written as text, in every numeric field of a document
	for nb in crate::c19_gen::NUM_BORDERS {
		for doc in border_docs(nb) {
			emit_x(out, &doc);
		}
	}
	// checklist 12: the shared Unicode traps as keys, values, list items, layer ids, field names, descriptions
	for t in crate::c19_gen::UNICODE_TRAPS {
		for doc in trap_docs(t) {
			emit_x(out, &doc);
			if let Ok(JsonValue::Object(o)) = JsonValue::parse_str(&doc) {
				emit_t(out, &o);
			}
		}
	}
	let n = args.n(1500, 20000);
	for i in 0..n {
		let o = gen_doc_object(rng, i % 3 == 2);
		emit_t(out, &o);
		if i % 3 == 0 {
			// the text level: canonical text, free layout, damaged
			let v = JsonValue::Object(o.clone());
			emit_x(out, &v.stringify());
			let mut free = String::new();
			super::variant_text(rng, &v, &mut free);
			emit_x(out, &free);
			let m = super::mutate(rng, free.as_bytes());
			if let Ok(ms) = String::from_utf8(m) {
				emit_x(out, &ms);
			}
		}
		if i % 3 != 2 {
			let bbox = if rng.chance(4, 5) { Some(gen_bbox(rng)).filter(|b| b.iter().all(|x| *x != 0.0 || x.is_sign_positive())) } else { None };
			let zmin = if rng.chance(4, 5) { Some(rng.below(20) as u8) } else { None };
			let zmax = if rng.chance(4, 5) { Some(rng.below(31) as u8) } else { None };
			emit_u(out, &o, bbox, zmin, zmax);
			pyramid_oracle(out, rng, &o);
			if i % 6 == 0 {
				let o2 = gen_doc_object(rng, false);
				// several sources merged, in both orders, and a third one on top
				emit_m(out, &o, &o2);
				emit_m(out, &o2, &o);
				emit_m(out, &o, &o);
			}
		}
	}
}
