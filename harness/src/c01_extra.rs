//! C01 – two more input classes for "writing then reading returns the same tiles – or the write fails":
//!
//!  * write faults (checklist class 2): the versatiles and PMTiles writers (the two that go through `DataWriterTrait`;
//!    the other three answer "not implemented" there) write into a `DataWriterTrait` whose n-th operation fails once,
//!    whose large operations fail, or which fails from the n-th operation on.  Oracle: the write returns Err or panics,
//!    or the bytes open and deliver every source tile.
//!  * source metadata that COLLIDES with what a writer derives itself (class 4): a source TileJSON carrying `format`,
//!    `type`, `compression`, `minzoom`, `maxzoom`, `bounds`, `center`, `name`, `scheme`, `json`, `tilejson`, `tiles`
//!    with plausible but wrong values (values of another tile format).  Oracle: the re-opened container declares the
//!    format / compression the tiles really have and delivers them.
use crate::c01::Set;
use crate::c16::{self, Ctx, Intent, OpenRes};
use crate::common::*;
use crate::indep_formats::*;
use serde_json::json;
use versatiles_container::{DirectoryTilesWriter, MBTilesWriter, PMTilesWriter, TarTilesWriter, TilesWriterTrait, VersaTilesWriter};
use versatiles_core::io::{DataWriterBlob, DataWriterTrait};
use versatiles_core::tilejson::TileJSON;
use versatiles_core::types::*;

#[derive(Clone, Copy, Debug)]
enum Policy {
	Never,
	NthOnce(usize),
	LargerThan(usize),
	FromNth(usize),
}
impl Policy {
	fn show(self) -> String {
		match self {
			Policy::Never => "never".into(),
			Policy::NthOnce(n) => format!("once:{n}"),
			Policy::LargerThan(k) => format!("larger:{k}"),
			Policy::FromNth(n) => format!("from:{n}"),
		}
	}
}
/// forwards to a `DataWriterBlob`; the chosen operations fail and write nothing
struct FaultyWriter {
	inner: DataWriterBlob,
	policy: Policy,
	count: usize,
	faults: usize,
}
impl FaultyWriter {
	fn new(policy: Policy) -> FaultyWriter {
		FaultyWriter { inner: DataWriterBlob::new().unwrap(), policy, count: 0, faults: 0 }
	}
	fn fails(&mut self, size: usize) -> bool {
		let i = self.count;
		self.count += 1;
		let f = match self.policy {
			Policy::Never => false,
			Policy::NthOnce(n) => i == n,
			Policy::LargerThan(k) => size > k,
			Policy::FromNth(n) => i >= n,
		};
		if f {
			self.faults += 1;
		}
		f
	}
}
impl DataWriterTrait for FaultyWriter {
	fn append(&mut self, blob: &Blob) -> anyhow::Result<ByteRange> {
		if self.fails(blob.len() as usize) {
			anyhow::bail!("injected write fault (append of {} bytes)", blob.len());
		}
		self.inner.append(blob)
	}
	fn write_start(&mut self, blob: &Blob) -> anyhow::Result<()> {
		if self.fails(blob.len() as usize) {
			anyhow::bail!("injected write fault (write_start)");
		}
		self.inner.write_start(blob)
	}
	fn get_position(&mut self) -> anyhow::Result<u64> {
		self.inner.get_position()
	}
	fn set_position(&mut self, position: u64) -> anyhow::Result<()> {
		if self.fails(0) {
			anyhow::bail!("injected write fault (set_position)");
		}
		self.inner.set_position(position)
	}
}

fn small_set(rng: &mut Rng) -> TileMap {
	let mut t = TileMap::new();
	let n = rng.range(2, 9) as usize;
	let z = rng.range(1, 10) as u8;
	let m = (1u64 << z) as u64;
	for i in 0..n {
		let (x, y) = (rng.below(m.min(300)) as u32, rng.below(m.min(300)) as u32);
		let len = *rng.pick(&[1usize, 3, 40, 999, 1000, 1500, 5000]);
		t.insert((z, x, y), (0..len).map(|k| ((k * 7 + i * 13) % 251) as u8).collect());
	}
	// a second level and a duplicate payload
	t.insert((z - 1, 0, 0), vec![9, 9, 9]);
	t.insert((z, 0, 0), vec![9, 9, 9]);
	t
}

/// one write through a faulty writer; returns (write outcome, faults fired, operations seen, verdict)
fn fault_run(ctx: &Ctx, target: char, fmt: Fmt, comp: Comp, set: &Set, policy: Policy) -> (&'static str, usize, usize, Option<(&'static str, String)>) {
	let mut src = set.mem_source(fmt, comp);
	let mut w = FaultyWriter::new(policy);
	let r = catch(|| {
		if target == 'v' {
			ctx.rt.block_on(VersaTilesWriter::write_to_writer(&mut src, &mut w))
		} else {
			ctx.rt.block_on(PMTilesWriter::write_to_writer(&mut src, &mut w))
		}
	});
	let outcome = match &r {
		Ok(Ok(())) => "ok",
		Ok(Err(_)) => "err",
		Err(_) => "panic",
	};
	if outcome != "ok" {
		return (outcome, w.faults, w.count, None);
	}
	let bytes = w.inner.as_slice().to_vec();
	let qs: Vec<Coord> = set.tiles.keys().copied().collect();
	let res = if target == 'v' { c16::run_v(&ctx.rt, &bytes, &qs) } else { c16::run_p(&ctx.rt, &bytes, &qs) };
	let mut intent = Intent::from_tiles(if target == 'v' { "versatiles" } else { "pmtiles" }, fmt, comp, &set.tiles);
	// what the container advertises may be larger than the tiles' boxes: only containment is required here
	let verdict = match &res {
		OpenRes::Ok(o) => {
			intent.cover_max = o.cover.clone();
			c16::judge(&intent, &qs, &res)
		}
		_ => c16::judge(&intent, &qs, &res),
	};
	(outcome, w.faults, w.count, verdict)
}

pub fn fault_cases(ctx: &mut Ctx, rng: &mut Rng, args: &Args) {
	for round in 0..args.n(4, 20) {
		let set = Set::exact(small_set(rng));
		for target in ['v', 'p'] {
			let (fmt, comp) = if round % 2 == 0 { (Fmt::Png, Comp::None) } else { (Fmt::Pbf, Comp::Gzip) };
			// number of operations of an undisturbed write
			let (o0, _, n_ops, v0) = fault_run(ctx, target, fmt, comp, &set, Policy::Never);
			if o0 != "ok" || v0.is_some() {
				ctx.out.count("fault_baseline_not_ok");
				continue;
			}
			let mut policies: Vec<Policy> = (0..n_ops).map(Policy::NthOnce).collect();
			if policies.len() > 40 {
				let step = policies.len() / 40 + 1;
				policies = policies.into_iter().step_by(step).collect();
			}
			policies.extend([Policy::LargerThan(0), Policy::LargerThan(100), Policy::LargerThan(1200), Policy::FromNth(n_ops / 2), Policy::FromNth(n_ops.saturating_sub(1)), Policy::FromNth(n_ops.saturating_sub(2))]);
			for policy in policies {
				let (outcome, faults, _, verdict) = fault_run(ctx, target, fmt, comp, &set, policy);
				let line = format!("C01f {target} {} {} {} {}", policy.show(), fmt.name(), comp.name(), set.tiles.len());
				ctx.out.eval(&line, faults > 0);
				ctx.out.count(&format!("fault_{target}_write_{outcome}{}", if faults == 0 { "_no_fault_fired" } else { "" }));
				let ok = outcome != "ok" || verdict.is_none();
				let msg = verdict.map(|(k, m)| format!("{k}: {m}")).unwrap_or_default();
				ctx.out.oracle(
					ok,
					&format!("C01 silent-write-fault {}: {faults} operation(s) of the DataWriterTrait failed ({}), write_to_writer returned Ok, but the container does not deliver every source tile ({msg})", if target == 'v' { "versatiles" } else { "pmtiles" }, policy.show()),
					json!({"kind": "silent-write-fault", "container": if target == 'v' { "versatiles" } else { "pmtiles" }}),
					json!({"case": line, "policy": policy.show(), "faults_fired": faults, "message": msg, "tiles": set.tiles.iter().map(|((z, x, y), p)| format!("{z}/{x}/{y}:{}", p.len())).collect::<Vec<_>>()}),
				);
			}
		}
	}
}

/// a TileJSON whose keys collide with what the writers derive from the source parameters; `wrong` = a format name that
/// is NOT the source's
fn colliding_tilejson(wrong: &str, variant: usize) -> Option<TileJSON> {
	let docs = [
		format!(r#"{{"tilejson":"2.0.0","format":"{wrong}","type":"overlay","compression":"gzip","minzoom":9,"maxzoom":11,"bounds":[10,10,20,20],"center":[15,15,10],"name":"collide","scheme":"tms","json":"{{\"vector_layers\":[]}}","tiles":["http://example.org/{{z}}/{{x}}/{{y}}.{wrong}"],"description":"d","version":"9.9.9","license":"l","author":"a","attribution":"x"}}"#),
		format!(r#"{{"format":"{wrong}","name":"n"}}"#),
		format!(r#"{{"format":"{wrong}","compression":"br","type":"baselayer","tile_format":"{wrong}","tile_type":"vector","tile_schema":"other","minzoom":0,"maxzoom":0}}"#),
		format!(r#"{{"tilejson":"1.0.0","format":"image/{wrong}","scheme":"tms","bounds":[-1,-1,1,1],"center":[0,0,0]}}"#),
	];
	TileJSON::try_from(docs[variant % docs.len()].as_str()).ok()
}

pub fn tilejson_collision_cases(ctx: &mut Ctx, rng: &mut Rng, args: &Args) {
	let combos: [(Fmt, Comp); 6] = [(Fmt::Jpg, Comp::None), (Fmt::Png, Comp::None), (Fmt::Webp, Comp::None), (Fmt::Pbf, Comp::Gzip), (Fmt::Pbf, Comp::Brotli), (Fmt::Png, Comp::Gzip)];
	let wrongs = ["pbf", "mvt", "png", "jpg", "webp", "jpeg", "geojson", "avif"];
	let mut k = 0usize;
	for round in 0..args.n(2, 8) {
		let tiles = small_set(rng);
		let set = Set::exact(tiles.clone());
		for target in ["versatiles", "pmtiles", "mbtiles", "tar", "directory"] {
			for (fmt, comp) in combos {
				let expressible = match target {
					"mbtiles" => matches!((fmt, comp), (Fmt::Jpg, Comp::None) | (Fmt::Png, Comp::None) | (Fmt::Webp, Comp::None) | (Fmt::Pbf, Comp::Gzip)),
					"pmtiles" => fmt.pm_type().is_some(),
					_ => true,
				};
				if !expressible {
					continue;
				}
				k += 1;
				let wrong = wrongs.iter().cycle().skip(k).find(|w| **w != fmt.name() && !(fmt == Fmt::Jpg && **w == "jpeg")).unwrap();
				let Some(tj) = colliding_tilejson(wrong, k + round) else {
					ctx.out.count("collision_tilejson_rejected_by_parser");
					continue;
				};
				let mut src = set.mem_source(fmt, comp).with_tilejson(tj);
				let ext = match target {
					"versatiles" => ".versatiles",
					"pmtiles" => ".pmtiles",
					"mbtiles" => ".mbtiles",
					"tar" => ".tar",
					_ => "",
				};
				let path = ctx.scratch.fresh(ext);
				let w = catch(|| match target {
					"versatiles" => ctx.rt.block_on(VersaTilesWriter::write_to_path(&mut src, &path)),
					"pmtiles" => ctx.rt.block_on(PMTilesWriter::write_to_path(&mut src, &path)),
					"mbtiles" => ctx.rt.block_on(MBTilesWriter::write_to_path(&mut src, &path)),
					"tar" => ctx.rt.block_on(TarTilesWriter::write_to_path(&mut src, &path)),
					_ => ctx.rt.block_on(DirectoryTilesWriter::write_to_path(&mut src, &path)),
				});
				let line = format!("C01j {target} {} {} wrong={wrong} variant={}", fmt.name(), comp.name(), (k + round) % 4);
				ctx.out.eval(&line, true);
				ctx.out.count(&format!("collision_{target}"));
				let qs: Vec<Coord> = tiles.keys().copied().collect();
				let verdict: Option<(&'static str, String)> = match w {
					Err(p) => Some(("panic", format!("writer panicked: {}", trunc(&p, 160)))),
					Ok(Err(e)) => Some(("write-failed", format!("writer returned Err: {}", trunc(&format!("{e:#}"), 160)))),
					Ok(Ok(())) => {
						let res = match target {
							"versatiles" => c16::run_v(&ctx.rt, &std::fs::read(&path).unwrap_or_default(), &qs),
							"pmtiles" => c16::run_p(&ctx.rt, &std::fs::read(&path).unwrap_or_default(), &qs),
							"mbtiles" => c16::run_m(&ctx.rt, &path, &qs),
							"tar" => c16::run_t(&ctx.rt, &path, &qs),
							_ => c16::run_d(&ctx.rt, &path, &qs),
						};
						let mut intent = Intent::from_tiles(match target { "versatiles" => "versatiles", "pmtiles" => "pmtiles", "mbtiles" => "mbtiles", "tar" => "tar", _ => "directory" }, fmt, comp, &tiles);
						if let OpenRes::Ok(o) = &res {
							intent.cover_max = o.cover.clone();
						}
						c16::judge(&intent, &qs, &res)
					}
				};
				c16::rm(&path);
				match verdict {
					None => ctx.out.oracle(true, "", json!(null), json!(null)),
					Some((kind, msg)) => ctx.out.oracle(
						false,
						&format!("C01 metadata-collision {target} {kind}: source TileJSON with its own format = {wrong:?} (tiles are {} / {}): {msg}", fmt.name(), comp.name()),
						json!({"kind": "metadata-collision", "container": target, "failure": kind}),
						json!({"case": line, "message": msg}),
					),
				}
			}
		}
	}
}
