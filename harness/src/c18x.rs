//! C18 – systematic coverage of the mutation classes of /verif/CHECKLIST.md (called from c18::run).
//!  class 1  literals and limits: lengths, u8 / f64 / array-length / format / boolean tables at their borders
//!  class 2  faults: the reader callback fails, the CSV file is missing
//!  class 3  payload classes of the CSV file (empty, one byte, header only, duplicates …): never a panic
//!  class 4  every operation × every parameter state (absent / good / mistyped / duplicated / list / empty list), pairwise
//!  class 5  reuse: one factory and one parsed pipeline built twice; different base directories (`C18 path`)
//!  class 9  syntactic freedoms: every insertion piece at every character position of base texts
//!  class 10 two paths: the documentation of the registered operations vs the model's table (`C18 docs`) and vs what
//!           builds; operation_from_vpl vs parse_vpl + build_pipeline
//!  (6 order: `C18 chain`/`C18 split` in c18.rs; 7 HTTP, 8 tile coordinates: not applicable to VPL texts)
use crate::c18::*;
use crate::common::*;
use serde_json::json;
use std::path::Path;
use std::sync::{Arc, Mutex};
use versatiles_pipeline::{parse_vpl, PipelineFactory};

fn parse_case(out: &mut Out, t: &str, kind: &str) {
	let e = ref_parse(t);
	out.count(&format!("x_{kind}_{}", if e == "err" { "invalid" } else { "valid" }));
	emit_parse(out, t, &e, kind, true);
}

// ---------------------------------------------------------------- class 1
const U8S: &[&str] = &["0", "1", "30", "31", "32", "127", "128", "254", "255", "256", "257", "999", "+0", "+255", "+256", "00000255", "0256", "-0", "-1", "255.0", "2e1", "", "0x1f", "１"];
const F64S: &[&str] = &[
	"0", "-0", "1", "-1", "180", "180.0", "180.00001", "179.99999", "-180", "-180.00001", "90", "90.00001", "-90", "-90.5", "1e2", "1.8e2", "1.81e2", "1e3", "-1e3",
	"inf", "-inf", "+inf", "nan", "NaN", "Infinity", "-infinity", "+1", "1.", ".5", "5e-1", "1e400", "-1e400", "0x10", "1_0", "", " 1", "1 ", "1e", "e1", ".", "+", "-", "1.5.5", "１",
];

fn geo_ok(v: &[&str]) -> bool {
	// direct oracle: the standard library's parser and the documented rule of a geographic box
	let f: Vec<Option<f64>> = v.iter().map(|x| x.parse::<f64>().ok()).collect();
	if v.len() != 4 || f.iter().any(|x| x.is_none()) {
		return false;
	}
	let f: Vec<f64> = f.into_iter().map(|x| x.unwrap()).collect();
	f[0] >= -180.0 && f[1] >= -90.0 && f[2] <= 180.0 && f[3] <= 90.0 && f[0] <= f[2] && f[1] <= f[3]
}

fn qv(v: &str) -> String {
	if is_bare(v) {
		v.to_string()
	} else {
		format!("\"{}\"", v.replace('\\', "\\\\").replace('"', "\\\""))
	}
}

fn limits(out: &mut Out, rt: &tokio::runtime::Runtime, dir: &Path, args: &Args) {
	// lengths: no limit exists in the code – the borders of typical buffer sizes must behave like every other length
	let mut lens = vec![1usize, 2, 63, 64, 65, 255, 256, 257, 1000, 4096];
	if args.thorough() {
		lens.push(65536);
	}
	for l in lens {
		let id = format!("a{}", "b".repeat(l - 1));
		let ws = " \t\n".repeat(l.div_ceil(3));
		for t in [
			id.clone(),
			format!("a {id}=1"),
			format!("a k={}", "x".repeat(l)),
			format!("a k=\"{}\"", "y z".repeat(l.div_ceil(3))),
			format!("a{ws}k{ws}={ws}v{ws}"),
			format!("a k=[{}]", vec!["1"; l.min(4096)].join(",")),
			format!("a{}", " k=1".repeat(l.min(4096))),
			vec!["a"; l.min(4096)].join("|"),
			format!("a [{}]", vec!["b"; l.min(4096)].join(",")),
		] {
			parse_case(out, &t, "length");
		}
	}
	// u8 parameters (zoom levels): every border of the type and of the zoom range, both parameters, also reversed
	for a in U8S {
		for b in ["", "0", "31", "255", "256"] {
			let mut t = format!("from_debug format=pbf | filter_zoom min={}", qv(a));
			if !b.is_empty() {
				t += &format!(" max={}", qv(b));
			}
			let ok = a.parse::<u8>().is_ok() && (b.is_empty() || b.parse::<u8>().is_ok());
			emit_build(out, rt, dir, &t, Some(if ok { "ok" } else { "err" }), "limit-u8");
			let t2 = format!("from_debug format=pbf | filter_zoom max={}", qv(a));
			emit_build(out, rt, dir, &t2, Some(if a.parse::<u8>().is_ok() { "ok" } else { "err" }), "limit-u8");
		}
	}
	// f64 forms and the geographic limits at each of the four positions; array lengths 0,1,2,3,4,5,8 and a scalar
	let base = ["-10.5", "-20.25", "20.5", "50.5"];
	for (i, _) in base.iter().enumerate() {
		for f in F64S {
			let mut v = base.to_vec();
			v[i] = f;
			let t = format!("from_debug format=pbf | filter_bbox bbox=[{}]", v.iter().map(|x| qv(x)).collect::<Vec<_>>().join(","));
			emit_build(out, rt, dir, &t, Some(if geo_ok(&v) { "ok" } else { "err" }), "limit-f64");
		}
	}
	for v in [vec!["10", "20", "5", "30"], vec!["10", "20", "30", "15"], vec!["10", "20", "10", "20"], vec!["-180", "-90", "180", "90"], vec!["-180", "-90", "-180", "-90"], vec!["180", "90", "180", "90"]] {
		let t = format!("from_debug format=pbf | filter_bbox bbox=[{}]", v.join(","));
		emit_build(out, rt, dir, &t, Some(if geo_ok(&v) { "ok" } else { "err" }), "limit-f64");
	}
	for n in [0usize, 1, 2, 3, 4, 5, 8] {
		let t = format!("from_debug format=pbf | filter_bbox bbox=[{}]", vec!["1"; n].join(","));
		emit_build(out, rt, dir, &t, Some(if n == 4 { "ok" } else { "err" }), "limit-array");
	}
	emit_build(out, rt, dir, "from_debug format=pbf | filter_bbox bbox=1", Some("err"), "limit-array");
	emit_build(out, rt, dir, "from_debug format=pbf | filter_bbox bbox=[1,1,1,1] bbox=[1,1,1,1]", Some("err"), "limit-array");
	emit_build(out, rt, dir, "from_debug format=pbf | filter_bbox bbox=[1,1] bbox=[1,1]", Some("ok"), "limit-array"); // repeated keys append: four values
	// the table of tile formats and the table of boolean words, with the documented trimming / case folding
	for f in ["avif", "bin", "geojson", "jpeg", "jpg", "json", "pbf", "png", "svg", "topojson", "webp", "gif", "pbf2", "pb", "", "tiff", "mvt"] {
		for (v, known) in [(f.to_string(), true), (f.to_uppercase(), true), (format!(".{f}"), true), (format!(" {f} "), true), (format!("{f}."), true), (format!("x{f}"), false), (format!("{f}x"), false)] {
			let ok = known && ["avif", "bin", "geojson", "jpeg", "jpg", "json", "pbf", "png", "svg", "topojson", "webp"].contains(&f);
			emit_build(out, rt, dir, &format!("from_debug format={}", qv(&v)), Some(if ok { "ok" } else { "err" }), "limit-format");
		}
	}
	for w in ["1", "true", "yes", "ok", "0", "false", "no", "on", "off", "2", "t", "f", "y", "n", "", "tru", "truee", "nope", "okay", "00", "01"] {
		for v in [w.to_string(), w.to_uppercase(), format!(" {w} "), format!("\t{w}\n"), format!("{w}!")] {
			let core = v.trim().to_lowercase();
			let ok = ["1", "true", "yes", "ok", "0", "false", "no"].contains(&core.as_str());
			emit_build(out, rt, dir, &format!("from_debug format=pbf fast={}", qv(&v)), Some(if ok { "ok" } else { "err" }), "limit-bool");
		}
	}
	// many sibling sources through the factory: flat, not nested – 63/64/65/200 children, each with its own value list
	for op in ["from_overlayed", "from_vectortiles_merged"] {
		for n in [63usize, 64, 65, 200] {
			let t = format!("{op} [{}]", vec!["from_debug format=pbf"; n].join(","));
			emit_build(out, rt, dir, &t, Some("ok"), "limit-sources");
			let t = format!("{op} [{}]", vec!["from_debug format=pbf | filter_bbox bbox=[1,2,3,4] | filter_zoom min=[1]"; n].join(" , "));
			emit_build(out, rt, dir, &t, Some("ok"), "limit-sources");
		}
	}
	// number of sources: 0, 1 are too few; 2, 3, 9 fine
	for op in ["from_overlayed", "from_vectortiles_merged"] {
		for n in [0usize, 1, 2, 3, 9] {
			let t = format!("{op} [{}]", vec!["from_debug format=pbf"; n].join(","));
			emit_build(out, rt, dir, &t, Some(if n >= 2 { "ok" } else { "err" }), "limit-sources");
		}
	}
}

// ---------------------------------------------------------------- class 4
#[derive(Clone, Copy, PartialEq, Debug)]
enum St {
	Absent,
	Good,
	Bad,
	Dup,
	List2,
	Empty,
}
#[derive(Clone, Copy, PartialEq)]
enum Ty {
	Str,
	Bool,
	U8,
	F4,
}
struct Field {
	name: &'static str,
	ty: Ty,
	required: bool,
	good: &'static str,
}

fn field_text(f: &Field, st: St) -> String {
	let bad = match f.ty {
		Ty::Str => "[a,b]", // a string is never mistyped; two values are
		Ty::Bool => "banana",
		Ty::U8 => "300",
		Ty::F4 => "[1,2,x,4]",
	};
	match st {
		St::Absent => String::new(),
		St::Good => format!(" {}={}", f.name, f.good),
		St::Bad => format!(" {}={}", f.name, bad),
		St::Dup => format!(" {}={} {}={}", f.name, f.good, f.name, f.good),
		St::List2 => {
			if f.ty == Ty::F4 {
				format!(" {}=[1,2] {}=[3,4]", f.name, f.name)
			} else {
				format!(" {}=[{},{}]", f.name, f.good, f.good)
			}
		}
		St::Empty => format!(" {}=[]", f.name),
	}
}
/// the documented rule: required parameters exactly once and well typed, optional ones at most once and well typed
fn field_ok(f: &Field, st: St) -> bool {
	match st {
		St::Absent => !f.required,
		St::Good => true,
		St::Bad | St::Dup | St::Empty => false,
		St::List2 => f.ty == Ty::F4, // the four numbers may come in two lists under the same key
	}
}

fn option_interplay(out: &mut Out, rt: &tokio::runtime::Runtime, dir: &Path) {
	let ops: Vec<(&str, bool, Vec<Field>)> = vec![
		("from_container", true, vec![Field { name: "filename", ty: Ty::Str, required: true, good: "x.versatiles" }]),
		("from_debug", true, vec![Field { name: "format", ty: Ty::Str, required: true, good: "pbf" }, Field { name: "fast", ty: Ty::Bool, required: false, good: "true" }]),
		("filter_zoom", false, vec![Field { name: "min", ty: Ty::U8, required: false, good: "3" }, Field { name: "max", ty: Ty::U8, required: false, good: "9" }]),
		("filter_bbox", false, vec![Field { name: "bbox", ty: Ty::F4, required: true, good: "[1,2,3,4]" }]),
		(
			"vectortiles_update_properties",
			false,
			vec![
				Field { name: "data_source_path", ty: Ty::Str, required: true, good: "data.csv" },
				Field { name: "layer_name", ty: Ty::Str, required: true, good: "mock" },
				Field { name: "id_field_tiles", ty: Ty::Str, required: true, good: "x" },
				Field { name: "id_field_data", ty: Ty::Str, required: true, good: "id" },
				Field { name: "replace_properties", ty: Ty::Bool, required: false, good: "true" },
				Field { name: "remove_non_matching", ty: Ty::Bool, required: false, good: "false" },
				Field { name: "include_id", ty: Ty::Bool, required: false, good: "yes" },
			],
		),
	];
	let states = [St::Absent, St::Good, St::Bad, St::Dup, St::List2, St::Empty];
	for (op, read, fields) in &ops {
		let wrap = |body: String| if *read { body } else { format!("from_debug format=pbf | {body}") };
		// pairwise: every pair of parameters in every pair of states, the others well-formed; reversed order too
		let n = fields.len();
		let pairs: Vec<(usize, usize)> = if n == 1 { vec![(0, 0)] } else { (0..n).flat_map(|i| (i + 1..n).map(move |j| (i, j))).collect() };
		for (i, j) in pairs {
			for si in states {
				for sj in states {
					if i == j && si != sj {
						continue;
					}
					let mut parts: Vec<(String, bool)> = vec![];
					for (k, f) in fields.iter().enumerate() {
						let st = if k == i { si } else if k == j { sj } else { St::Good };
						parts.push((field_text(f, st), field_ok(f, st)));
					}
					let ok = parts.iter().all(|p| p.1);
					let fwd: String = parts.iter().map(|p| p.0.as_str()).collect();
					let rev: String = parts.iter().rev().map(|p| p.0.as_str()).collect();
					emit_build(out, rt, dir, &wrap(format!("{op}{fwd}")), Some(if ok { "ok" } else { "err" }), "interplay");
					if n > 1 {
						emit_build(out, rt, dir, &wrap(format!("{op}{rev}")), Some(if ok { "ok" } else { "err" }), "interplay");
					}
				}
			}
		}
		// an undeclared parameter next to a complete set; a parameter of another operation
		let all: String = fields.iter().map(|f| field_text(f, St::Good)).collect();
		for extra in ["zoom=1", "Min=1", "filenam=x", "bbox2=[1,2,3,4]", "sources=x", "name=a"] {
			emit_build(out, rt, dir, &wrap(format!("{op}{all} {extra}")), Some("err"), "interplay-unknown");
			emit_build(out, rt, dir, &wrap(format!("{op} {extra}{all}")), Some("err"), "interplay-unknown");
		}
	}
	// interacting parameters: reversed zoom range is not an error of the text (an empty selection)
	for (a, b) in [("5", "3"), ("31", "0"), ("255", "0"), ("0", "0"), ("31", "31")] {
		emit_build(out, rt, dir, &format!("from_debug format=pbf | filter_zoom min={a} max={b}"), Some("ok"), "interplay");
	}
	// operations with sources: parameters are undeclared; sources given to operations that take none are ignored by
	// the code (model and code compared, the documentation does not say)
	for op in ["from_overlayed", "from_vectortiles_merged"] {
		emit_build(out, rt, dir, &format!("{op} x=1 [from_debug format=pbf, from_debug format=pbf]"), Some("err"), "interplay-unknown");
		emit_build(out, rt, dir, &format!("{op} [from_debug format=pbf, from_debug format=pbf] | filter_zoom min=1 | filter_bbox bbox=[1,2,3,4]"), Some("ok"), "interplay");
	}
	for t in ["from_debug format=pbf [from_debug format=pbf]", "from_debug format=pbf | filter_zoom min=1 [from_debug format=pbf]", "from_container filename=x [ ]"] {
		emit_build(out, rt, dir, t, None, "interplay-sources-ignored");
	}
}

// ---------------------------------------------------------------- class 9
fn freedoms(out: &mut Out, args: &Args) {
	let bases = ["a k=v l=\"w x\" m=[1,\"2\"] [b n=1|c,d]|e", "from_overlayed [\n from_container filename=\"a b\",\n from_debug format=pbf | filter_zoom min=5\n]"];
	let pieces: &[&str] = if args.thorough() {
		&[" ", "\t", "\n", "\r\n", ",", "|", "=", "[", "]", "[]", "\"", "\"\"", "\\", "#c", "//c\n", "/*c*/", ";", "'", "k=1", " k=1", "x", "1", ".", "-", "é", "\u{a0}", "\u{feff}", "\u{0}"]
	} else {
		&[" ", "\n", ",", "|", "=", "[", "]", "\"", "\"\"", "\\", "#c", "//c\n", "/*c*/", ";", " k=1", "x", "\u{a0}", "\u{feff}"]
	};
	for b in bases {
		let cs: Vec<char> = b.chars().collect();
		for i in 0..=cs.len() {
			for p in pieces {
				let t: String = cs[..i].iter().collect::<String>() + p + &cs[i..].iter().collect::<String>();
				parse_case(out, &t, "freedom-insert");
			}
			if i < cs.len() {
				// delete, and double, the character at this position
				let mut d = cs.clone();
				d.remove(i);
				parse_case(out, &d.iter().collect::<String>(), "freedom-delete");
				let mut d = cs.clone();
				d.insert(i, cs[i]);
				parse_case(out, &d.iter().collect::<String>(), "freedom-double");
			}
		}
	}
	// quotes where only identifiers may stand, trailing separators in every list, comments (the language has none)
	for t in [
		"\"a\"", "\"a\" k=v", "a \"k\"=v", "a k =v", "a k= v", "a k = v", "a k\n=\nv", "a[b]", "a[ b ]", "a [b,]", "a [b|]", "a [b|,c]", "a [,]", "a [|]", "a k=[1,]", "a k=[,1]", "a k=[,]", "a k=[1,,2]",
		"a k=[1 2]", "a k=[[1]]", "a k=[1,[2]]", "a k=v,", "a k=v|", "a|", "|a", "a||b", "a|\n|b", "a # c", "a // c", "a /* c */", "# c\na", "a k=v # c", "a k=\"v\" l=\"#\"", "a k='v'", "a k=`v`", "a k=v;", "a;b",
		"a k=\"v\"\"w\"", "a k=\"v\" \"w\"", "a k=v w=", "a k=\"\\u0041\"", "a k=\"\\r\"", "a k=\"\\0\"", "a k=\"\\'\"", "a k=\"\\\\n\"", "a k=\"\n\"", "a k=\"\t\"", "a k=\"\r\"", "a\u{a0}k=v", "a\u{2028}k=v", "a\u{b}k=v", "a\u{c}k=v", "\u{feff}a",
		"A", "a1", "a-", "a_", "a-b_c1", "_a", "-a", "a.b", "a k=.", "a k=-", "a k=_", "a k=..", "a k=-.-", "a k.l=v", "a k-l=v", "a k_l=v", "a 1k=v", "a K=v", "a é=v", "a k=é", "é k=v",
	] {
		parse_case(out, t, "freedom-fixed");
	}
}

// ---------------------------------------------------------------- class 10
/// the operation table as the documentation of the registered factories states it
fn docs_table(docs: &str) -> (String, Vec<(bool, String, Vec<(String, String, bool)>, bool)>) {
	let mut ops: Vec<(bool, String, Vec<(String, String, bool)>, bool)> = vec![];
	let mut read = true;
	for line in docs.lines() {
		let l = line.trim();
		if l.starts_with("# READ") {
			read = true;
		} else if l.starts_with("# TRANSFORM") {
			read = false;
		} else if let Some(n) = l.strip_prefix("## ") {
			if n.chars().all(|c| c.is_ascii_alphanumeric() || c == '_') {
				ops.push((read, n.to_string(), vec![], false));
			}
		} else if l.starts_with("### Sources") {
			if let Some(o) = ops.last_mut() {
				o.3 = true;
			}
		} else if l.starts_with("* ") && l.contains('`') {
			// `* **`name`: Type (required)**…` or `* *`name`: Type (optional…)*…`
			let parts: Vec<&str> = l.split('`').collect();
			if parts.len() >= 3 {
				let name = parts[1].to_string();
				let rest = parts[2].trim_start_matches(':').trim();
				let ty: String = rest.chars().take_while(|c| *c != '(' && *c != '*').collect::<String>().trim().to_string();
				let required = rest.contains("(required)");
				if let Some(o) = ops.last_mut() {
					o.2.push((name, ty, required));
				}
			}
		}
	}
	let canon = ops
		.iter()
		.map(|(r, n, fs, s)| {
			let mut items: Vec<String> = fs.iter().map(|(f, t, q)| format!("{f}:{t}:{}", if *q { "req" } else { "opt" })).collect();
			if *s {
				items.push("sources".into());
			}
			format!("{}:{n}({})", if *r { "read" } else { "transform" }, items.join(","))
		})
		.collect::<Vec<_>>()
		.join(" ");
	(canon, ops)
}

fn good_value(op: &str, field: &str, ty: &str) -> String {
	match (op, field, ty) {
		(_, "format", _) => "pbf".into(),
		(_, "data_source_path", _) => "data.csv".into(),
		(_, "id_field_data", _) => "id".into(),
		(_, _, "Boolean") => "true".into(),
		(_, _, "u8") | (_, _, "u32") => "7".into(),
		(_, _, "f32") => "1.5".into(),
		(_, _, t) if t.starts_with("[f64") => "[1,2,3,4]".into(),
		_ => "x".into(),
	}
}

fn two_paths(out: &mut Out, rt: &tokio::runtime::Runtime, dir: &Path) {
	let f = factory(dir);
	let (canon, ops) = docs_table(&f.get_docs());
	out.case("C18 docs", &canon, true);
	out.count("docs_table");
	let ok = ops.len() >= 7 && ops.iter().any(|o| o.1 == "from_container") && ops.iter().any(|o| o.1 == "filter_zoom");
	out.oracle(ok, "C18 docs: the documentation of the registered operations could not be read", json!({"kind": "docs-unreadable"}), json!({"case": "C18 docs", "docs_table": canon}));
	// everything the documentation lists builds with its documented parameters, and with nothing else
	for (read, name, fields, sources) in &ops {
		let src = if *sources { " [from_debug format=pbf, from_debug format=pbf]" } else { "" };
		let wrap = |body: String| if *read { body } else { format!("from_debug format=pbf | {body}") };
		let req: String = fields.iter().filter(|f| f.2).map(|f| format!(" {}={}", f.0, good_value(name, &f.0, &f.1))).collect();
		let all: String = fields.iter().map(|f| format!(" {}={}", f.0, good_value(name, &f.0, &f.1))).collect();
		emit_build(out, rt, dir, &wrap(format!("{name}{req}{src}")), Some("ok"), "docs-required-only");
		emit_build(out, rt, dir, &wrap(format!("{name}{all}{src}")), Some("ok"), "docs-all");
		for f in fields.iter().filter(|f| !f.2) {
			emit_build(out, rt, dir, &wrap(format!("{name}{req} {}={}{src}", f.0, good_value(name, &f.0, &f.1))), Some("ok"), "docs-one-optional");
		}
		for f in fields.iter().filter(|f| f.2) {
			let without: String = fields.iter().filter(|g| g.2 && g.0 != f.0).map(|g| format!(" {}={}", g.0, good_value(name, &g.0, &g.1))).collect();
			emit_build(out, rt, dir, &wrap(format!("{name}{without}{src}")), Some("err"), "docs-required-missing");
		}
		emit_build(out, rt, dir, &wrap(format!("{name}{all} undocumented=1{src}")), Some("err"), "docs-undocumented");
		// the same name in the other position (read ↔ transform) is unknown there
		let other = if *read { format!("from_debug format=pbf | {name}{all}{src}") } else { format!("{name}{all}{src}") };
		emit_build(out, rt, dir, &other, Some("err"), "docs-wrong-position");
	}
}

/// operation_from_vpl(text) vs build_pipeline(parse_vpl(text)) — and both twice on the same factory (class 5)
fn same_twice(out: &mut Out, rt: &tokio::runtime::Runtime, dir: &Path, texts: &[String]) {
	let f = factory(dir);
	for t in texts {
		let r = catch(|| {
			rt.block_on(async {
				// the Debug text itself is not comparable (it prints HashMaps): stage order, parameters and TileJSON are
				let show = |o: Box<dyn versatiles_pipeline::OperationTrait>| format!("{:?} {:?} {}", debug_markers(&format!("{o:?}")), o.get_parameters(), o.get_tilejson().as_string());
				let a = f.operation_from_vpl(t).await.map(show).map_err(|_| ());
				let b = f.operation_from_vpl(t).await.map(show).map_err(|_| ());
				let (c, d) = match parse_vpl(t) {
					Ok(p) => (f.build_pipeline(p.clone()).await.map(show).map_err(|_| ()), f.build_pipeline(p).await.map(show).map_err(|_| ())),
					Err(_) => (Err(()), Err(())),
				};
				(a, b, c, d)
			})
		});
		out.eval(&format!("C18 twice {}", hs(t)), true);
		out.count("same_twice");
		let ok = matches!(&r, Ok((a, b, c, d)) if a == b && a == c && a == d);
		out.oracle(
			ok,
			&format!("C18 reuse: {:?} built twice on one factory / through operation_from_vpl and parse_vpl+build_pipeline gives different operations", trunc(t, 160)),
			json!({"kind": "reuse-differs", "panic": r.is_err()}),
			json!({"case": format!("C18 build {}", hs(t)), "text": t}),
		);
	}
}

// ---------------------------------------------------------------- classes 2, 3, 5: directories, files, the reader callback
fn recording_factory(dir: &Path, seen: Arc<Mutex<Vec<String>>>) -> PipelineFactory {
	use futures::future::BoxFuture;
	use versatiles_container::{MockTilesReader, MockTilesReaderProfile};
	use versatiles_core::types::TilesReaderTrait;
	PipelineFactory::default(
		dir,
		Box::new(move |filename: String| -> BoxFuture<'static, anyhow::Result<Box<dyn TilesReaderTrait>>> {
			seen.lock().unwrap().push(filename);
			Box::pin(async { Ok(Box::new(MockTilesReader::new_mock_profile(MockTilesReaderProfile::Pbf)?) as Box<dyn TilesReaderTrait>) })
		}),
	)
}

/// `C18 path <dir> <file>`: the path the reader callback receives for `from_container filename=<file>` under base dir <dir>
pub(crate) fn emit_path(out: &mut Out, rt: &tokio::runtime::Runtime, dir: &str, file: &str) {
	let seen = Arc::new(Mutex::new(vec![]));
	let text = format!("from_container filename=\"{}\"", file.replace('\\', "\\\\").replace('"', "\\\""));
	let r = catch(|| rt.block_on(async { recording_factory(Path::new(dir), seen.clone()).operation_from_vpl(&text).await.map(|_| ()) }));
	let got = seen.lock().unwrap().clone();
	let real = match (&r, got.as_slice()) {
		(Ok(Ok(())), [p]) => hs(p),
		(Err(_), _) => "panic".into(),
		_ => "err".into(),
	};
	let case = format!("C18 path {} {}", hs(dir), hs(file));
	out.case(&case, &real, true);
	out.count("path_cases");
	// direct oracle: "relative to the path of the VPL file" – an absolute name stands for itself
	let expected = if file.starts_with('/') {
		file.to_string()
	} else if dir.is_empty() {
		file.to_string()
	} else if dir.ends_with('/') {
		format!("{dir}{file}")
	} else {
		format!("{dir}/{file}")
	};
	if real == hs(&expected) {
		out.oracle(true, "", json!(null), json!(null));
	} else {
		out.oracle(
			false,
			&format!("C18 path: from_container filename={file:?} under base directory {dir:?} opens {:?}, not {expected:?}", String::from_utf8_lossy(&unhex(&real))),
			json!({"kind": "reader-path", "relative_dir": !dir.starts_with('/') && !dir.is_empty(), "absolute_file": file.starts_with('/')}),
			json!({"case": case, "impl": real, "expected": hs(&expected)}),
		);
	}
}

fn dirs_and_files(out: &mut Out, rt: &tokio::runtime::Runtime, dir: &Path) {
	for d in ["", "rel", "rel/", "rel/sub", "./rel", "../up", "/abs", "/abs/", "/abs/deep/er", "/"] {
		for f in ["x.versatiles", "sub/x.mbtiles", "./x", "../x", "/root/x.versatiles", "a b.pmtiles", "ä.tar"] {
			emit_path(out, rt, d, f);
		}
	}
	// the CSV file of vectortiles_update_properties is looked up under the base directory; payload classes of that file
	let t = "from_debug format=pbf | vectortiles_update_properties data_source_path=data.csv layer_name=mock id_field_tiles=x id_field_data=id";
	let cases: Vec<(&str, Option<&[u8]>, Option<&str>)> = vec![
		("csv-ok", Some(b"id,name\n1,Berlin\n2,Hamburg\n"), Some("ok")),
		("csv-missing-file", None, Some("err")),
		("csv-no-id-column", Some(b"key,name\n1,Berlin\n"), Some("err")),
		("csv-empty", Some(b""), None),
		("csv-one-byte", Some(b"i"), None),
		("csv-header-only", Some(b"id,name\n"), Some("ok")),
		("csv-header-no-newline", Some(b"id,name"), None),
		("csv-duplicate-ids", Some(b"id,name\n1,a\n1,b\n1,a\n"), Some("ok")),
		("csv-crlf", Some(b"id,name\r\n1,a\r\n"), Some("ok")),
		("csv-quoted", Some(b"\"id\",\"name\"\n\"1\",\"a,b\"\n"), Some("ok")),
		("csv-short-row", Some(b"id,name\n1\n"), None),
		("csv-long-row", Some(b"id,name\n1,a,b\n"), None),
		("csv-not-utf8", Some(b"id,name\n1,\xff\xfe\n"), None),
		("csv-nul", Some(b"id,name\n1,\x00\n"), None),
		("csv-big", None, Some("ok")),
	];
	for (name, content, expect) in cases {
		let d = dir.join(format!("x_{name}"));
		std::fs::create_dir_all(&d).unwrap();
		if name == "csv-big" {
			let mut s = String::from("id,name\n");
			for i in 0..20000 {
				s += &format!("{i},name{i}\n");
			}
			std::fs::write(d.join("data.csv"), s).unwrap();
		} else if let Some(c) = content {
			std::fs::write(d.join("data.csv"), c).unwrap();
		}
		let real = real_build(rt, &d, t);
		out.eval(&format!("C18 csv {name}"), true);
		out.count(&format!("csv_{real}"));
		let ok = real != "panic" && expect.map_or(true, |e| e == real);
		out.oracle(
			ok,
			&format!("C18 csv: building vectortiles_update_properties over the data file class {name} gives {real}{}", expect.map_or(String::new(), |e| format!(", expected {e}"))),
			json!({"kind": "csv-payload", "class": name, "impl": real}),
			json!({"case": format!("C18 build {}", hs(t)), "fixture": name}),
		);
	}
	// the reader callback fails (class 2): the failure must surface as an error of the whole pipeline, from every depth
	for t in [
		"from_container filename=missing.versatiles",
		"from_container filename=missing.versatiles | filter_zoom min=1",
		"from_overlayed [from_debug format=pbf, from_container filename=missing.versatiles]",
		"from_vectortiles_merged [from_overlayed [from_container filename=missing.versatiles, from_debug format=pbf], from_debug format=pbf]",
		"from_container filename=present.versatiles",
	] {
		emit_build(out, rt, dir, t, Some(if t.contains("missing") { "err" } else { "ok" }), "callback-fails");
	}
}

// ---------------------------------------------------------------- typed getters with values (`C18 get`)
fn show_f(v: f64) -> String {
	if v.fract() == 0.0 && v.abs() < 16777216.0 {
		format!("{}", v as i64)
	} else {
		"x".into()
	}
}

/// `C18 get <type> <hex(text)>`: the typed getter of `VPLNode` on parameter `k` of the single operation of the text
pub(crate) fn emit_get(out: &mut Out, ty: &str, text: &str, expected: Option<String>) {
	use versatiles_pipeline::VPLNode;
	fn g<T>(r: anyhow::Result<Option<T>>, sh: impl Fn(T) -> String) -> String {
		match r {
			Ok(Some(v)) => format!("val {}", sh(v)),
			Ok(None) => "none".into(),
			Err(_) => "err".into(),
		}
	}
	let real = match catch(|| {
		let n: VPLNode = match parse_vpl(text) {
			Ok(mut p) if p.len() == 1 => p.pop().unwrap(),
			_ => return "bad-text".to_string(),
		};
		match ty {
			"string" => g(n.get_property_string("k"), |v| hs(&v)),
			"string_req" => g(n.get_property_string_req("k").map(Some), |v| hs(&v)),
			"bool" => g(n.get_property_bool_req("k").map(Some), |v| v.to_string()),
			"u8" => g(n.get_property_number::<u8>("k"), |v| v.to_string()),
			"u8_req" => g(n.get_property_number_req::<u8>("k").map(Some), |v| v.to_string()),
			"u32" => g(n.get_property_number::<u32>("k"), |v| v.to_string()),
			"f32" => g(n.get_property_number::<f32>("k"), |v| show_f(v as f64)),
			"array4" => g(n.get_property_number_array4::<f64>("k"), |v| v.iter().map(|x| show_f(*x)).collect::<Vec<_>>().join(",")),
			"array4_req" => g(n.get_property_number_array4_req::<f64>("k").map(Some), |v| v.iter().map(|x| show_f(*x)).collect::<Vec<_>>().join(",")),
			_ => "bad-type".into(),
		}
	}) {
		Ok(s) => s,
		Err(_) => "panic".into(),
	};
	let case = format!("C18 get {ty} {}", hs(text));
	out.case(&case, &real, true);
	out.count(&format!("get_{ty}_{}", real.split(' ').next().unwrap_or("")));
	match expected {
		Some(e) if e != real => out.oracle(
			false,
			&format!("C18 typed value: the {ty} parameter of {:?} decodes to {real}, the text says {e}", trunc(text, 120)),
			json!({"kind": "typed-value", "type": ty, "impl": real.split(' ').next().unwrap_or("")}),
			json!({"case": case, "text": text, "expected": e}),
		),
		_ => out.oracle(true, "", json!(null), json!(null)),
	}
}

fn typed_values(out: &mut Out) {
	let node = |v: &str| format!("a k={}", qv(v));
	// integers: every border of the type; the expectation comes from the standard library's parser of that type
	let ints = [
		"0", "1", "9", "10", "99", "100", "127", "128", "254", "255", "256", "257", "999", "65535", "65536", "4294967294", "4294967295", "4294967296", "4294967297", "99999999999999999999",
		"18446744073709551615", "18446744073709551616", "+0", "+255", "+256", "+4294967295", "+4294967296", "-0", "-1", "-255", "00", "0255", "0256", "00004294967295", "00004294967296", "", " 1", "1 ",
		"1.0", "1e0", "0x1", "1_0", "٣", "+", "-", "++1", "+-1", "1+",
	];
	for v in ints {
		emit_get(out, "u8", &node(v), Some(v.parse::<u8>().map_or("err".into(), |x| format!("val {x}"))));
		emit_get(out, "u8_req", &node(v), Some(v.parse::<u8>().map_or("err".into(), |x| format!("val {x}"))));
		emit_get(out, "u32", &node(v), Some(v.parse::<u32>().map_or("err".into(), |x| format!("val {x}"))));
	}
	// floats: forms, whole numbers up to 2^24 compared by value, f32 overflow; expectation from the standard library
	let floats = [
		"0", "-0", "1", "-1", "1.0", "1.", ".5", "0.5", "5e-1", "1e0", "1e1", "1E1", "1e+1", "0.1e1", "10e-1", "180", "16777215", "16777216", "-16777215", "3.4e38", "3.5e38", "-3.5e38", "1e39", "1e400",
		"inf", "-inf", "+inf", "infinity", "Infinity", "INF", "nan", "NaN", "-nan", "+1", "+.5", "", ".", "e1", "1e", "1e+", "1.2.3", "0x10", "1_0", " 1", "1 ", "1,5", "--1", "+-1", "١",
	];
	for v in floats {
		let e32 = v.parse::<f32>().map_or("err".into(), |x| format!("val {}", show_f(x as f64)));
		emit_get(out, "f32", &node(v), Some(e32));
		for i in 0..4 {
			let mut a = ["1", "2", "3", "4"];
			a[i] = v;
			let ok: Vec<Option<f64>> = a.iter().map(|x| x.parse::<f64>().ok()).collect();
			let e = if ok.iter().all(|x| x.is_some()) { format!("val {}", ok.iter().map(|x| show_f(x.unwrap())).collect::<Vec<_>>().join(",")) } else { "err".into() };
			let t = format!("a k=[{}]", a.iter().map(|x| qv(x)).collect::<Vec<_>>().join(","));
			emit_get(out, "array4", &t, Some(e.clone()));
			emit_get(out, "array4_req", &t, Some(e));
		}
	}
	// booleans: the documented words (trimmed, any case); everything else is an error; absent is false
	for w in ["1", "true", "yes", "ok", "0", "false", "no", "TRUE", "False", " yes ", "	no
", "on", "off", "2", "", "t", "truee", "nope", "10", "01", "tru e"] {
		let core = w.trim().to_lowercase();
		let e = if ["1", "true", "yes", "ok"].contains(&core.as_str()) { "val true" } else if ["0", "false", "no"].contains(&core.as_str()) { "val false" } else { "err" };
		emit_get(out, "bool", &node(w), Some(e.into()));
	}
	// strings: every text comes back unchanged
	let long = "xyz ".repeat(300);
	for v in ["", "x", " ", "a b", "\"", "\\", "\\\"", "\n", "\t", "line\nbreak", "[1,2]", "k=v", "é日本🗺", "\u{0}", long.as_str(), "true", "255"] {
		emit_get(out, "string", &node(v), Some(format!("val {}", hs(v))));
		emit_get(out, "string_req", &node(v), Some(format!("val {}", hs(v))));
	}
	// presence and arity for every getter: absent, one-element list, two values, repeated key, empty list
	for ty in ["string", "string_req", "bool", "u8", "u8_req", "u32", "f32", "array4", "array4_req"] {
		let arr = ty.starts_with("array4");
		let required = ty.ends_with("_req");
		let one = if ty == "bool" { "val true" } else if ty.starts_with("string") { "val 31" } else { "val 1" };
		emit_get(out, ty, "a", Some(if ty == "bool" { "val false".into() } else if required { "err".into() } else { "none".into() }));
		emit_get(out, ty, "a j=1", Some(if ty == "bool" { "val false".into() } else if required { "err".into() } else { "none".into() }));
		emit_get(out, ty, "a k=[1]", Some(if arr { "err".into() } else { one.into() }));
		emit_get(out, ty, "a k=[1,1]", Some("err".into()));
		emit_get(out, ty, "a k=1 k=1", Some("err".into()));
		emit_get(out, ty, "a k=[]", Some("err".into()));
		emit_get(out, ty, "a k=[1,2,3,4]", Some(if arr { "val 1,2,3,4".into() } else { "err".into() }));
		emit_get(out, ty, "a k=[1,2] k=[3,4]", Some(if arr { "val 1,2,3,4".into() } else { "err".into() }));
		emit_get(out, ty, "a k=1 k=2 k=3 k=4", Some(if arr { "val 1,2,3,4".into() } else { "err".into() }));
		emit_get(out, ty, "a k=[1,2,3,4,5]", Some("err".into()));
		emit_get(out, ty, "a k=[1,2,3]", Some("err".into()));
	}
}

// ---------------------------------------------------------------- counter confusion: sequential ≠ nested brackets
fn sequential_brackets(out: &mut Out, args: &Args) {
	let mut ns = vec![1usize, 63, 64, 65, 200, 2000];
	if args.thorough() {
		ns.push(20000);
	}
	for n in ns {
		let sib = |x: &str| vec![x; n].join(",");
		for t in [
			format!("a{}", " k=[1]".repeat(n)),                 // many list-valued parameters
			format!("a{}", " k=[]".repeat(n)),                  // many empty lists
			format!("a{}", " k=[ \"]\" , \"[\" ]".repeat(n)),       // lists of quoted brackets
			vec!["a[]"; n].join("|"),                          // open-close at depth 1, n times
			vec!["a [ ]"; n].join(" | "),
			format!("a [{}]", sib("b[]")),                      // open-close at depth 2 (siblings in one list)
			format!("a [{}]", sib("b [c]")),
			format!("a [{}]", sib("b k=[1] [c l=[2]]")),        // depth 3 everywhere, never more
			format!("a [{}]", sib("b")),                        // many siblings, one pair
			format!("a q=\"{}\" k=[1]", "[".repeat(n)),         // brackets inside quotes do not count
			format!("a q=\"{}\" [b]", "]".repeat(n)),
			format!("a q=\"\\\"{}\" [b [c]]", "[".repeat(n)),     // … also behind an escaped quote
			format!("a{} [b]", " q=\"[\"".repeat(n)),           // many quoted openers in sequence
			format!("a{} [b]", " q=\"[\\\\\"".repeat(n)),         // each ending in an escaped backslash
		] {
			parse_case(out, &t, "sequential");
		}
	}
}

// ---------------------------------------------------------------- class 11: fallbacks
fn fallbacks(out: &mut Out, rt: &tokio::runtime::Runtime, dir: &Path) {
	// parse_value tries quoted, then bare, then list: a broken first form must not be rescued by a later one
	for t in [
		"a k=\"x", "a k=\"x\\q\"", "a k=\"x\\", "a k=x\"y\"", "a k=\"x\"y", "a k=\"x\"[1]", "a k=x[1", "a k=[1", "a k=[\"1]", "a k=[1\"]", "a k=[x y]", "a k=[\"x\" \"y\"]", "a k=[\"x\"y]", "a k=[x\"y\"]",
		"a k=\"\"x", "a k=\"\"\"\"", "a k=[\"\"\"\"]", "a k=", "a k= |b", "a k=,", "a k=]", "a k=[]]", "a k=[[]]", "a k=\\", "a k=\\n", "a k=n", "a k=\"\\n\"", "a k=\"n\"",
		// the optional source list: an opened list is never silently dropped
		"a [", "a [b", "a [b,", "a [b|", "a [b] ]", "a []", "a [ ] |b", "a [,]", "a [b c]", "a [b=c]", "a [ b k=1 [", "a k=1 [b] l=2",
		// the optional parameter list: a word that is not a parameter is never skipped
		"a b", "a b c=1", "a k=1 b", "a k=1 b [c]", "a 1", "a =1", "a k=1 =2",
	] {
		parse_case(out, t, "fallback-parse");
	}
	// scalar ↔ list coercion in the typed layer (one-element list = scalar; four scalars under one key = array)
	for (t, e) in [
		("from_debug format=[pbf]", "ok"),
		("from_debug format=[pbf,png]", "err"),
		("from_debug format=[]", "err"),
		("from_debug format=pbf fast=[true]", "ok"),
		("from_debug format=pbf fast=[]", "err"),
		("from_debug format=pbf fast=[true,true]", "err"),
		("from_debug format=pbf | filter_zoom min=[3] max=[\"5\"]", "ok"),
		("from_debug format=pbf | filter_bbox bbox=1 bbox=2 bbox=3 bbox=4", "ok"),
		("from_debug format=pbf | filter_bbox bbox=[1] bbox=[2,3] bbox=4", "ok"),
		("from_debug format=pbf | filter_bbox bbox=1", "err"),
		("from_debug format=pbf | filter_bbox bbox=[[1,2,3,4]]", "err"),
		("from_debug format=pbf | filter_bbox bbox=\"[1,2,3,4]\"", "err"),
		("from_debug format=pbf | filter_bbox bbox=\"1,2,3,4\"", "err"),
		("from_container filename=[a,b]", "err"),
		("from_container filename=[a]", "ok"),
		("from_container filename=\"\"", "ok"),
		("from_debug format=pbf | vectortiles_update_properties data_source_path=data.csv layer_name=\"\" id_field_tiles=\"\" id_field_data=id", "ok"),
		("from_debug format=pbf | vectortiles_update_properties data_source_path=\"\" layer_name=mock id_field_tiles=x id_field_data=id", "err"),
		("from_debug format=pbf | vectortiles_update_properties data_source_path=data.csv layer_name=mock id_field_tiles=x id_field_data=\"\"", "err"),
	] {
		emit_build(out, rt, dir, t, Some(e), "fallback-coercion");
	}
	// every boolean parameter of every operation through the whole word table (not only from_debug fast)
	for k in ["replace_properties", "remove_non_matching", "include_id"] {
		for w in ["1", "true", "yes", "ok", "0", "false", "no", "TRUE", " no ", "on", "off", "2", "", "banana"] {
			let core = w.trim().to_lowercase();
			let ok = ["1", "true", "yes", "ok", "0", "false", "no"].contains(&core.as_str());
			let t = format!("from_debug format=pbf | vectortiles_update_properties data_source_path=data.csv layer_name=mock id_field_tiles=x id_field_data=id {k}={}", qv(w));
			emit_build(out, rt, dir, &t, Some(if ok { "ok" } else { "err" }), "limit-bool");
		}
	}
	// defaults of optional parameters: leaving a parameter out is the same operation as writing its default,
	// and a different one from writing the opposite
	let f = factory(dir);
	let show = |t: &str| -> Result<String, ()> {
		catch(|| rt.block_on(async { f.operation_from_vpl(t).await.map(|o| format!("{:?} | {:?}", o.get_parameters(), debug_fields(&format!("{o:?}")))).map_err(|_| ()) })).unwrap_or(Err(()))
	};
	for (absent, default, other) in [
		("from_debug format=pbf", "from_debug format=pbf fast=false", Some("from_debug format=pbf fast=true")),
		("from_debug format=pbf", "from_debug format=pbf []", None),
		("from_debug format=pbf | filter_zoom", "from_debug format=pbf", None),
		("from_debug format=pbf | filter_zoom", "from_debug format=pbf | filter_zoom min=0 max=255", Some("from_debug format=pbf | filter_zoom min=1")),
		("from_debug format=pbf | filter_zoom max=5", "from_debug format=pbf | filter_zoom min=0 max=5", Some("from_debug format=pbf | filter_zoom min=5")),
		(
			"from_debug format=pbf | vectortiles_update_properties data_source_path=data.csv layer_name=mock id_field_tiles=x id_field_data=id",
			"from_debug format=pbf | vectortiles_update_properties data_source_path=data.csv layer_name=mock id_field_tiles=x id_field_data=id replace_properties=false remove_non_matching=0 include_id=no",
			Some("from_debug format=pbf | vectortiles_update_properties data_source_path=data.csv layer_name=mock id_field_tiles=x id_field_data=id replace_properties=true"),
		),
	] {
		let (a, d) = (show(absent), show(default));
		let o = other.map(|t| show(t));
		out.eval(&format!("C18 default {}", hs(absent)), true);
		out.count("default_cases");
		let ok = a.is_ok() && a == d && o.map_or(true, |o| o.is_ok() && o != a);
		out.oracle(
			ok,
			&format!("C18 default: {absent:?} must be the same operation as {default:?}{}", other.map_or(String::new(), |t| format!(" and differ from {t:?}"))),
			json!({"kind": "default-value"}),
			json!({"case": format!("C18 build {}", hs(absent)), "with_default": default}),
		);
	}
	// the data file is looked up under the directory of the VPL file – never in the current directory instead
	let t = "from_debug format=pbf | vectortiles_update_properties data_source_path=data.csv layer_name=mock id_field_tiles=x id_field_data=id";
	let cwd_dir = dir.join("x_cwd");
	let empty_dir = dir.join("x_nofile");
	std::fs::create_dir_all(&cwd_dir).unwrap();
	std::fs::create_dir_all(&empty_dir).unwrap();
	std::fs::write(cwd_dir.join("data.csv"), "id,name\n1,a\n").unwrap();
	if let Ok(old) = std::env::current_dir() {
		if std::env::set_current_dir(&cwd_dir).is_ok() {
			let abs_empty = std::fs::canonicalize(old.join(&empty_dir)).unwrap_or(empty_dir.clone());
			let r1 = real_build(rt, &abs_empty, t); // file only in the current directory: must not be found
			let r2 = real_build(rt, Path::new(""), t); // empty base directory = current directory: found
			let r3 = real_build(rt, Path::new("."), t);
			std::env::set_current_dir(&old).unwrap();
			out.eval("C18 cwd-fallback", true);
			out.count("cwd_fallback");
			out.oracle(
				r1 == "err" && r2 == "ok" && r3 == "ok",
				&format!("C18 fallback: data file present only in the current directory: base dir without the file gives {r1} (must be err), empty base dir {r2}, '.' {r3} (must be ok)"),
				json!({"kind": "cwd-fallback", "r1": r1}),
				json!({"case": format!("C18 build {}", hs(t))}),
			);
		}
	}
}

/// scalar fields printed by the Debug output of an operation that carry decoded parameters
fn debug_fields(d: &str) -> Vec<String> {
	["fast_compression: ", "replace_properties: ", "remove_non_matching: ", "include_id: "]
		.iter()
		.flat_map(|k| d.match_indices(k).map(|(i, _)| d[i..].chars().take_while(|c| *c != ',' && *c != '}').collect::<String>()).collect::<Vec<_>>())
		.collect()
}

// ---------------------------------------------------------------- class 12 Unicode traps, class 13 numbers as text
fn unicode_and_numbers(out: &mut Out, rt: &tokio::runtime::Runtime, dir: &Path, args: &Args) {
	use crate::c19_gen::{NUM_BORDERS, UNICODE_TRAPS};
	let mut traps: Vec<&str> = UNICODE_TRAPS.to_vec();
	traps.extend(["\u{a0}", "\u{2003}", "\u{3000}", "\u{85}", "\u{2028}", "\u{17f}", "\u{131}", "\u{3c2}", "\u{1c4}", "é", "日", "🗺", "\u{661}", "\u{ff11}", "\u{2460}", "\u{b2}", "\u{aa}", "\u{1d7d9}"]);
	for t in &traps {
		// in every syntactic position, before and after every delimiter the parser looks for
		for text in [
			format!("{t}"), format!("a{t}"), format!("{t}a"), format!("a {t}=1"), format!("a k{t}=1"), format!("a {t}k=1"), format!("a k={t}"), format!("a k=x{t}"), format!("a k={t}x"), format!("a k=[{t}]"),
			format!("a k=[1,{t}]"), format!("a k=[1{t},2]"), format!("a k=\"{t}\""), format!("a k=\"{t}\\\"{t}\""), format!("a k=\"\\{t}\""), format!("a k=\"{t}"), format!("a k=\"x\"{t}"), format!("a{t}|b"), format!("a|{t}b"),
			format!("a [{t}b]"), format!("a [b{t}]"), format!("a [b]{t}"), format!("a k=1{t}[b]"), format!("a k{t}=1"), format!("a k={t}1"), format!("a k=[1,{t}2]"), format!("a{t}k=1"), format!("a k=1{t}l=2"), format!("a k=1 {t}"),
			format!("a k=\"{t}\" l=\"{t}{t}\" [b m=\"{t}\"]"),
		] {
			parse_case(out, &text, "unicode");
		}
		// the typed layer folds case and trims: the documented semantics computed with the standard library
		for v in [format!("{t}true"), format!("true{t}"), format!("tr{t}ue"), format!("{t}"), format!("o{t}"), format!("{t}o"), format!("ye{t}"), format!("n{t}")] {
			let core = v.trim().to_lowercase();
			let e = if ["1", "true", "yes", "ok"].contains(&core.as_str()) { "val true" } else if ["0", "false", "no"].contains(&core.as_str()) { "val false" } else { "err" };
			emit_get(out, "bool", &format!("a k={}", qv(&v)), Some(e.into()));
			emit_get(out, "string", &format!("a k={}", qv(&v)), Some(format!("val {}", hs(&v))));
			emit_get(out, "u8", &format!("a k={}", qv(&format!("1{t}"))), Some(format!("1{t}").parse::<u8>().map_or("err".into(), |x| format!("val {x}"))));
			emit_get(out, "f32", &format!("a k={}", qv(&format!("{t}1"))), Some(format!("{t}1").parse::<f32>().map_or("err".into(), |x| format!("val {}", show_f(x as f64)))));
		}
		for v in [format!("{t}pbf"), format!("pbf{t}"), format!("p{t}bf"), format!("{t}"), format!(".pbf{t}."), format!("PN{t}"), format!("JPE{t}"), format!("b{t}n"), format!("{t}son")] {
			let low = v.to_lowercase();
			let core = low.trim_matches([' ', '.']);
			let ok = ["avif", "bin", "geojson", "jpeg", "jpg", "json", "pbf", "png", "svg", "topojson", "webp"].contains(&core);
			emit_build(out, rt, dir, &format!("from_debug format={}", qv(&v)), Some(if ok { "ok" } else { "err" }), "unicode-format");
		}
	}
	// error paths with multi-byte text: the report of a parse error quotes the input, so every byte alignment of
	// every length around typical report limits (1 KiB … 8 KiB) must end in an error, never in a panic
	let chars = ["é", "日", "🗺", "\u{2126}", "\u{0130}", "e\u{0301}", "\u{feff}"];
	let limits: &[usize] = if args.thorough() { &[64, 128, 255, 256, 512, 1000, 1024, 2000, 2048, 4000, 4096, 8192, 16384, 65536] } else { &[256, 1024, 2048, 4096, 8192] };
	for ch in chars {
		for lim in limits {
			for pad in 0..ch.len().max(2) + 1 {
				let n = lim / ch.len() + 4;
				let body = format!("{}{}", "x".repeat(pad), ch.repeat(n));
				for text in [
					format!("a k=\"{body}"),                      // unterminated string
					format!("a k=\"{body}\\q\""),                // bad escape at the end of a long multi-byte string
					format!("a k={body}"),                        // not a bare value
					format!("a {body}=1"),                        // not a key
					format!("a [b [c [d k=\"{body}\" ; ]]]"),      // error behind a long line, four contexts deep
					format!("a k=\"{body}\" l"),                  // missing '=' behind the long value
					format!("{body}"),                            // not a name
				] {
					parse_case(out, &text, "error-alignment");
				}
			}
		}
	}
	// class 13: every numeric argument with the shared border list
	for n in NUM_BORDERS {
		emit_get(out, "u8", &format!("a k={}", qv(n)), Some(n.parse::<u8>().map_or("err".into(), |x| format!("val {x}"))));
		emit_get(out, "u8_req", &format!("a k={}", qv(n)), Some(n.parse::<u8>().map_or("err".into(), |x| format!("val {x}"))));
		emit_get(out, "u32", &format!("a k={}", qv(n)), Some(n.parse::<u32>().map_or("err".into(), |x| format!("val {x}"))));
		emit_get(out, "f32", &format!("a k={}", qv(n)), Some(n.parse::<f32>().map_or("err".into(), |x| format!("val {}", show_f(x as f64)))));
		emit_get(out, "bool", &format!("a k={}", qv(n)), Some(match *n { "1" => "val true".into(), "0" => "val false".into(), _ => "err".into() }));
		for k in ["min", "max"] {
			emit_build(out, rt, dir, &format!("from_debug format=pbf | filter_zoom {k}={}", qv(n)), Some(if n.parse::<u8>().is_ok() { "ok" } else { "err" }), "num-borders");
		}
		for i in 0..4 {
			let mut v = ["-10.5", "-20.25", "20.5", "50.5"];
			v[i] = n;
			emit_get(out, "array4", &format!("a k=[{}]", v.iter().map(|x| qv(x)).collect::<Vec<_>>().join(",")), None);
			emit_build(out, rt, dir, &format!("from_debug format=pbf | filter_bbox bbox=[{}]", v.iter().map(|x| qv(x)).collect::<Vec<_>>().join(",")), Some(if geo_ok(&v) { "ok" } else { "err" }), "num-borders");
		}
		// counts written as text do not exist in VPL; a number as a name / key / string value is plain text
		parse_case(out, &format!("a k={n}"), "num-text");
		parse_case(out, &format!("{n}"), "num-text");
		parse_case(out, &format!("a {n}=1"), "num-text");
		emit_build(out, rt, dir, &format!("from_container filename={}", qv(n)), Some("ok"), "num-borders");
	}
}

pub fn run_extra(out: &mut Out, rt: &tokio::runtime::Runtime, dir: &Path, args: &Args, sample_texts: &[String]) {
	limits(out, rt, dir, args);
	option_interplay(out, rt, dir);
	freedoms(out, args);
	two_paths(out, rt, dir);
	same_twice(out, rt, dir, sample_texts);
	dirs_and_files(out, rt, dir);
	typed_values(out);
	sequential_brackets(out, args);
	fallbacks(out, rt, dir);
	unicode_and_numbers(out, rt, dir, args);
	out.notes.push("CHECKLIST classes: 1 limits (c18x::limits, nesting 63..66 in c18), 2 callback/CSV faults (dirs_and_files), 3 CSV payload classes (never a panic), 4 option_interplay (pairwise states per operation), 5 same_twice + `C18 path` base directories, 6 order: `C18 split`/`C18 chain`, 9 freedoms (every piece at every position), 10 docs table vs model vs builds, operation_from_vpl vs parse_vpl+build_pipeline; 1b counter confusion: sequential_brackets; 11 fallbacks (parse_value alternatives, optional lists, scalar/list coercion, defaults, current-directory); typed values: `C18 get`; 12 Unicode traps: UNICODE_TRAPS (+ Unicode spaces, digits, case-mapping oddities) in every syntactic position and before/after every delimiter, through the case-folding/trimming typed layer (bool words, tile formats) judged by std's to_lowercase/trim, and error-path texts with 2/3/4-byte characters at every byte alignment around 256…8192 bytes (never a panic); 13 NUM_BORDERS through every numeric argument (u8/u32/f32/[f64;4] getters, filter_zoom min/max, each position of filter_bbox) and as plain text in name/key/value position; 7 (HTTP) and 8 (tile coordinates) do not occur in VPL texts".into());
}
