//! C20 – LimitedCache: random / exhaustive operation histories on the real type.
//! case line: `C20 <cap> <ops>`; impl line: `<res>,…|len=<n>`
use crate::common::*;
use anyhow::anyhow;
use serde_json::json;
use std::collections::{HashMap, HashSet};
use versatiles_container::VersaTilesReader;
use versatiles_core::io::DataReaderBlob;
use versatiles_core::types::{LimitedCache, TileCoord3, TilesReaderTrait};

#[derive(Clone, Debug, PartialEq)]
pub enum Op {
	Add(u64, u64),
	Get(u64),
	Gos(u64, Option<u64>),
}

fn show(ops: &[Op]) -> String {
	if ops.is_empty() {
		return "-".into();
	}
	ops.iter()
		.map(|o| match o {
			Op::Add(k, v) => format!("a:{k}:{v}"),
			Op::Get(k) => format!("g:{k}"),
			Op::Gos(k, Some(v)) => format!("s:{k}:{v}"),
			Op::Gos(k, None) => format!("f:{k}"),
		})
		.collect::<Vec<_>>()
		.join(",")
}

pub fn parse_ops(s: &str) -> Vec<Op> {
	if s == "-" {
		return vec![];
	}
	s.split(',')
		.map(|t| {
			let p: Vec<&str> = t.split(':').collect();
			match p[0] {
				"a" => Op::Add(p[1].parse().unwrap(), p[2].parse().unwrap()),
				"g" => Op::Get(p[1].parse().unwrap()),
				"s" => Op::Gos(p[1].parse().unwrap(), Some(p[2].parse().unwrap())),
				"f" => Op::Gos(p[1].parse().unwrap(), None),
				_ => panic!("bad op {t}"),
			}
		})
		.collect()
}

fn debug_len(c: &LimitedCache<u64, u64>) -> u64 {
	let s = format!("{c:?}");
	let i = s.find("length: ").unwrap() + 8;
	s[i..].split(|ch: char| !ch.is_ascii_digit()).next().unwrap().parse().unwrap()
}

#[derive(Debug, Clone, PartialEq)]
pub enum Res {
	Val(u64),
	None,
	Err,
	Panic,
}

/// Runs a history on the real cache. Returns results, final length, and the first oracle failure (if any).
pub fn execute(cap: u64, ops: &[Op]) -> (Vec<Res>, u64, Option<(usize, String)>) {
	let mut res = vec![];
	let mut fail: Option<(usize, String)> = None;
	let r = catch(|| {
		let mut cache: LimitedCache<u64, u64> = LimitedCache::with_maximum_size((cap * 16) as usize);
		let mut stored: HashSet<(u64, u64)> = HashSet::new(); // every (k,v) ever offered for storage
		let mut used: Option<u64> = None; // key touched by the previous op
		let mut must_survive: Option<u64> = None; // key that has to be present now (recency law)
		let mut out = vec![];
		for (i, op) in ops.iter().enumerate() {
			let mut set_fail = |m: String| {
				if fail.is_none() {
					fail = Some((i, m));
				}
			};
			let r = match op {
				Op::Add(k, v) => {
					stored.insert((*k, *v));
					let r = cache.add(*k, *v);
					if !stored.contains(&(*k, r)) {
						set_fail(format!("add({k},{v}) returned {r}, never stored under {k}"));
					}
					must_survive = used.filter(|u| u != k);
					used = Some(*k);
					Res::Val(r)
				}
				Op::Get(k) => {
					let r = cache.get(k);
					if let Some(v) = r {
						if !stored.contains(&(*k, v)) {
							set_fail(format!("get({k}) returned {v}, never stored under {k}"));
						}
					}
					if must_survive == Some(*k) && r.is_none() {
						set_fail(format!("recency: key {k} was used immediately before the previous insertion and is gone"));
					}
					must_survive = None;
					used = r.map(|_| *k);
					r.map_or(Res::None, Res::Val)
				}
				Op::Gos(k, load) => {
					let mut called = false;
					let r = cache.get_or_set(k, || {
						called = true;
						load.ok_or(anyhow!("loader failed"))
					});
					match (&r, load) {
						(Ok(v), Some(l)) if called && v != l => set_fail(format!("get_or_set({k}) loader gave {l}, returned {v}")),
						(Ok(v), _) if !called && !stored.contains(&(*k, *v)) => {
							set_fail(format!("get_or_set({k}) hit returned {v}, never stored under {k}"))
						}
						(Ok(_), None) if called => set_fail(format!("get_or_set({k}) returned Ok although the loader failed")),
						(Err(_), Some(_)) => set_fail(format!("get_or_set({k}) failed although the loader succeeded")),
						(Err(_), None) if !called => set_fail(format!("get_or_set({k}) failed without calling the loader")),
						_ => {}
					}
					if called {
						if let Some(l) = load {
							stored.insert((*k, *l));
						}
					}
					if must_survive == Some(*k) && called {
						set_fail(format!("recency: key {k} was used immediately before the previous insertion and is gone"));
					}
					must_survive = if called && r.is_ok() { used.filter(|u| u != k) } else { None };
					used = r.as_ref().ok().map(|_| *k);
					match r {
						Ok(v) => Res::Val(v),
						Err(_) => Res::Err,
					}
				}
			};
			out.push(r);
			let len = debug_len(&cache);
			if len > cap {
				set_fail(format!("length {len} exceeds capacity {cap}"));
			}
		}
		(out, debug_len(&cache))
	});
	match r {
		Ok((o, len)) => {
			res = o;
			(res, len, fail)
		}
		Err(m) => {
			res.push(Res::Panic);
			(res, 0, Some((ops.len(), format!("panic: {m}"))))
		}
	}
}

fn show_res(rs: &[Res], len: u64) -> String {
	let v: Vec<String> = rs
		.iter()
		.map(|r| match r {
			Res::Val(v) => format!("v{v}"),
			Res::None => "none".into(),
			Res::Err => "err".into(),
			Res::Panic => "panic".into(),
		})
		.collect();
	format!("{}|len={}", v.join(","), len)
}

/// delta-debug a failing history: drop ops while it still fails with the same kind of message
fn shrink(cap: u64, ops: &[Op]) -> Vec<Op> {
	let kind = |m: &str| m.split(':').next().unwrap_or("").split(' ').next().unwrap_or("").to_string();
	let Some((at, msg)) = execute(cap, ops).2 else { return ops.to_vec() };
	let k0 = kind(&msg);
	let mut cur: Vec<Op> = ops[..(at + 1).min(ops.len())].to_vec();
	loop {
		let mut changed = false;
		let mut i = 0;
		while i < cur.len() {
			let mut t = cur.clone();
			t.remove(i);
			if let Some((_, m)) = execute(cap, &t).2 {
				if kind(&m) == k0 {
					cur = t;
					changed = true;
					continue;
				}
			}
			i += 1;
		}
		if !changed {
			break;
		}
	}
	cur
}

fn emit(out: &mut Out, cap: u64, ops: &[Op], seen_evict: &mut HashMap<u64, u64>) {
	let (rs, len, fail) = execute(cap, ops);
	// non-trivial: the history passes through at least one eviction (an insertion on a full cache)
	let adds = ops.iter().filter(|o| !matches!(o, Op::Get(_))).count() as u64;
	let nontrivial = adds > cap;
	if nontrivial {
		*seen_evict.entry(cap).or_insert(0) += 1;
	}
	out.case(&format!("C20 {cap} {}", show(ops)), &show_res(&rs, len), nontrivial);
	out.count(&format!("cap_{}", if cap <= 2 { cap.to_string() } else if cap <= 8 { "3-8".into() } else { "9-64".into() }));
	out.count_n("ops", ops.len() as u64);
	for r in &rs {
		out.count(match r {
			Res::Val(_) => "res_val",
			Res::None => "res_none",
			Res::Err => "res_err",
			Res::Panic => "res_panic",
		});
	}
	if let Some((at, msg)) = &fail {
		let small = shrink(cap, ops);
		let (srs, slen, sfail) = execute(cap, &small);
		let kind = if msg.starts_with("recency") { "recency" } else if msg.starts_with("length") { "capacity" } else if msg.starts_with("panic") { "panic" } else { "value" };
		out.oracle(
			false,
			&format!("C20 {kind}: {msg}"),
			json!({"kind": kind, "cap": cap}),
			json!({"case": format!("C20 {cap} {}", show(&small)), "impl": show_res(&srs, slen), "message": sfail.map(|f| f.1), "original_len": ops.len(), "failed_at": at}),
		);
	} else {
		out.oracle(true, "", json!(null), json!(null));
	}
}

fn gen_history(rng: &mut Rng, cap: u64, len: usize, functional: bool) -> Vec<Op> {
	let keys = rng.range(2, (cap + 3).min(10));
	let mut ops = Vec::with_capacity(len);
	let mut last_key = 0;
	while ops.len() < len {
		let k = if rng.chance(1, 4) { last_key } else { rng.below(keys) };
		let v = if functional { k * 100 + 7 } else { rng.below(5) + k * 10 };
		let op = match rng.below(10) {
			0..=3 => Op::Add(k, v),
			4..=6 => Op::Get(k),
			7..=8 => Op::Gos(k, Some(v)),
			_ => Op::Gos(k, None),
		};
		ops.push(op);
		last_key = k;
		// recency probe: use k, insert k', look k up again
		if rng.chance(1, 5) {
			let k2 = (k + 1 + rng.below(keys.max(2) - 1)) % keys.max(2);
			let v2 = if functional { k2 * 100 + 7 } else { rng.below(5) + k2 * 10 };
			ops.push(if rng.chance(1, 2) { Op::Add(k2, v2) } else { Op::Gos(k2, Some(v2)) });
			ops.push(Op::Get(k));
		}
	}
	ops
}


// ---------------------------------------------------------------------------------------------
// Reader-level transparency: the cache in front of the versatiles block tile indexes must not
// change what a lookup returns - a sequence of lookups on ONE opened reader (cache hits, also
// after failed loads) returns what each lookup returns on a freshly opened reader.

/// copy of a valid versatiles file in which the tile index of block `bi` has `drop` entries fewer
/// than the block's coverage (the block is re-appended at the end of the file, block index and
/// header are rewritten) - a container whose index loader must FAIL, every time
fn damage_tile_index(bytes: &[u8], bi: usize, drop: usize) -> Option<Vec<u8>> {
	use crate::indep_formats::{brotli_c, brotli_d, parse_versatiles};
	let parsed = parse_versatiles(bytes).ok()?;
	let rec = parsed.records.get(bi)?;
	let (off, bl, il) = (rec.offset as usize, rec.blobs_len as usize, rec.index_len as usize);
	let index = brotli_d(&bytes[off + bl..off + bl + il]).ok()?;
	if index.len() < 12 * (drop + 1) {
		return None;
	}
	let new_index = brotli_c(&index[..index.len() - 12 * drop]);
	let mut out = bytes.to_vec();
	let new_off = out.len();
	out.extend_from_slice(&bytes[off..off + bl]);
	out.extend_from_slice(&new_index);
	let mut raw_bi = vec![];
	for (i, r) in parsed.records.iter().enumerate() {
		let mut raw = r.raw.clone();
		if i == bi {
			raw[13..21].copy_from_slice(&(new_off as u64).to_be_bytes());
			raw[29..33].copy_from_slice(&(new_index.len() as u32).to_be_bytes());
		}
		raw_bi.extend_from_slice(&raw);
	}
	let cbi = brotli_c(&raw_bi);
	let bi_off = out.len();
	out.extend_from_slice(&cbi);
	out[50..58].copy_from_slice(&(bi_off as u64).to_be_bytes());
	out[58..66].copy_from_slice(&(cbi.len() as u64).to_be_bytes());
	Some(out)
}

fn lookup_verdict(r: Result<anyhow::Result<Option<versatiles_core::types::Blob>>, String>) -> String {
	match r {
		Ok(Ok(Some(b))) => format!("some:{}", hex(b.as_slice())),
		Ok(Ok(None)) => "none".into(),
		Ok(Err(_)) => "err".into(),
		Err(_) => "panic".into(),
	}
}

fn reader_transparency(args: &Args, out: &mut Out, rng: &mut Rng) {
	use crate::indep_formats::{encode_versatiles, Comp, Fmt, TileMap, VtChoices};
	let rt = tokio::runtime::Builder::new_multi_thread().worker_threads(2).enable_all().build().unwrap();
	let n = args.n(40, 400);
	for case in 0..n {
		// a small world: one or two levels, tiles on both sides of a block border at z >= 9
		let mut tiles: TileMap = TileMap::new();
		let z = *rng.pick(&[2u8, 3, 9, 10]);
		let (x0, y0) = if z >= 9 { (254u32, 254u32) } else { (0, 0) };
		let side = rng.range(2, 4) as u32;
		for y in y0..y0 + side {
			for x in x0..x0 + side {
				if rng.chance(5, 6) {
					let len = rng.range(1, 40) as usize;
					tiles.insert((z, x, y), rng.bytes(len));
				}
			}
		}
		if tiles.is_empty() {
			continue;
		}
		let mut ch = VtChoices::plain(Fmt::Bin, *rng.pick(&[Comp::None, Comp::Gzip]));
		ch.range_mode = rng.below(3) as u8;
		let valid = encode_versatiles(&tiles, &ch, rng).bytes;
		let damaged = rng.chance(2, 3);
		let bytes = if damaged {
			let nblocks = crate::indep_formats::parse_versatiles(&valid).map(|p| p.records.len()).unwrap_or(0);
			match damage_tile_index(&valid, rng.below(nblocks.max(1) as u64) as usize, rng.range(1, 2) as usize) {
				Some(b) => b,
				None => valid.clone(),
			}
		} else {
			valid.clone()
		};
		// probe sequence: every stored coordinate and some absent neighbours, several times, shuffled
		let mut probes: Vec<(u8, u32, u32)> = tiles.keys().cloned().collect();
		probes.push((z, x0 + side, y0));
		probes.push((z, x0, y0 + side));
		let mut seq = vec![];
		for _ in 0..3 {
			for p in &probes {
				if rng.chance(3, 4) {
					seq.push(*p);
				}
			}
		}
		if let Some(first) = seq.first().cloned() {
			seq.insert(1, first);
			seq.insert(2, first);
		}
		let open = || rt.block_on(VersaTilesReader::open_reader(Box::new(DataReaderBlob::from(bytes.clone()))));
		// fresh reader per lookup = what each call returns when it runs alone with an empty cache
		let fresh: Vec<String> = seq
			.iter()
			.map(|c| match catch(|| open()) {
				Ok(Ok(r)) => lookup_verdict(catch(|| rt.block_on(r.get_tile_data(&TileCoord3::new(c.1, c.2, c.0).unwrap())))),
				Ok(Err(_)) => "open-err".into(),
				Err(_) => "open-panic".into(),
			})
			.collect();
		// one reader for the whole sequence
		let shared: Vec<String> = match catch(|| open()) {
			Ok(Ok(r)) => seq.iter().map(|c| lookup_verdict(catch(|| rt.block_on(r.get_tile_data(&TileCoord3::new(c.1, c.2, c.0).unwrap()))))).collect(),
			Ok(Err(_)) => vec!["open-err".into(); seq.len()],
			Err(_) => vec!["open-panic".into(); seq.len()],
		};
		let errs = fresh.iter().filter(|v| *v == "err").count();
		let key = format!("C20r {case} z{z} damaged={damaged} {}", hex(&bytes[..bytes.len().min(64)]));
		out.eval(&key, damaged && errs > 0);
		out.count(if damaged { "reader_seq_damaged_container" } else { "reader_seq_valid_container" });
		out.count_n("reader_seq_lookups", seq.len() as u64);
		out.count_n("reader_seq_failed_loads", errs as u64);
		let bad = (0..seq.len()).find(|i| shared[*i] != fresh[*i]);
		match bad {
			None => out.oracle(true, "", json!(null), json!(null)),
			Some(i) => out.oracle(
				false,
				&format!("C20 reader-transparency: lookup #{i} of {:?} on a reader that served {} earlier lookups returns {} but a freshly opened reader returns {}", seq[i], i, trunc(&shared[i], 40), trunc(&fresh[i], 40)),
				json!({"kind": "reader_transparency", "damaged": damaged, "after_failed_load": fresh[..i].iter().any(|v| v == "err")}),
				json!({"container_hex": hex(&bytes), "sequence": seq, "shared": shared.iter().map(|s| trunc(s, 24)).collect::<Vec<_>>(), "fresh": fresh.iter().map(|s| trunc(s, 24)).collect::<Vec<_>>()}),
			),
		}
		if case < 2 {
			out.sample(json!({"reader_sequence": seq, "damaged": damaged, "fresh_verdicts": fresh.iter().map(|s| trunc(s, 16)).collect::<Vec<_>>()}));
		}
	}
}

pub fn run(args: &Args) {
	quiet_panics();
	let mut out = Out::new(&args.out);
	out.rule = "histories of add/get/get_or_set(ok|fail) on LimitedCache<u64,u64>; corpus first, then seeded random histories (≤10 keys, cap 1..64, with recency probes), thorough: all histories of length ≤5 over a 9-op alphabet for cap 1..3; plus reader-level transparency: lookup sequences (repeats, neighbours, after failed index loads) on ONE opened VersaTilesReader over valid and index-damaged containers vs the same lookups on freshly opened readers (oracle only); non-trivial = more insert-capable ops than the capacity (passes through an eviction); distinct by case text".into();
	let mut seen = HashMap::new();
	if let Some(p) = &args.replay {
		for line in std::fs::read_to_string(p).unwrap().lines() {
			let t: Vec<&str> = line.split(' ').collect();
			if t.len() == 3 && t[0] == "C20" {
				emit(&mut out, t[1].parse().unwrap(), &parse_ops(t[2]), &mut seen);
			}
		}
		out.finish();
		return;
	}
	let mut rng = Rng::new(args.seed);
	// boundary histories
	for cap in 1..=6u64 {
		emit(&mut out, cap, &[], &mut seen);
		let fill: Vec<Op> = (0..cap + 2).flat_map(|i| [Op::Add(i, i), Op::Get(i)]).collect();
		emit(&mut out, cap, &fill, &mut seen);
		// use k, then insert another key, then look k up
		let mut probe: Vec<Op> = (0..cap).map(|i| Op::Add(i, i)).collect();
		probe.extend([Op::Get(0), Op::Add(99, 1), Op::Get(0)]);
		emit(&mut out, cap, &probe, &mut seen);
	}
	let n = args.n(3000, 60000);
	for i in 0..n {
		let cap = match rng.below(10) {
			0 => 1,
			1 => 2,
			2..=6 => rng.range(3, 8),
			_ => rng.range(9, 64),
		};
		let len = if i % 50 == 0 { rng.range(200, 2000) } else { rng.range(1, 60) } as usize;
		let functional = rng.chance(1, 3);
		let ops = gen_history(&mut rng, cap, len, functional);
		emit(&mut out, cap, &ops, &mut seen);
	}
	if args.thorough() {
		// exhaustive: all histories of length ≤ 5 over keys {0,1,2}… kept small: ops alphabet of 9
		let alphabet: Vec<Op> = vec![
			Op::Add(0, 1), Op::Add(1, 2), Op::Add(2, 3), Op::Get(0), Op::Get(1), Op::Get(2),
			Op::Gos(0, Some(4)), Op::Gos(1, None), Op::Gos(2, Some(5)),
		];
		for cap in 1..=3u64 {
			for len in 1..=5usize {
				let total = alphabet.len().pow(len as u32);
				for idx in 0..total {
					let mut x = idx;
					let mut ops = Vec::with_capacity(len);
					for _ in 0..len {
						ops.push(alphabet[x % alphabet.len()].clone());
						x /= alphabet.len();
					}
					emit(&mut out, cap, &ops, &mut seen);
				}
			}
		}
		out.notes.push("exhaustive part: all 9^1..9^5 histories over a 9-op alphabet for cap 1,2,3".into());
	}
	reader_transparency(args, &mut out, &mut rng);
	out.extra.insert("histories_with_eviction_by_cap".into(), json!(seen.iter().map(|(k, v)| (k.to_string(), *v)).collect::<HashMap<_, _>>()));
	out.finish();
}
