//! C20 – LimitedCache: random / exhaustive operation histories on the real type.
//! case line: `C20 <cap> <ops>`; impl line: `<res>,…|len=<n>`
use crate::common::*;
use anyhow::anyhow;
use serde_json::json;
use std::collections::{HashMap, HashSet};
use versatiles_container::VersaTilesReader;
use versatiles_core::io::DataReaderBlob;
use versatiles_core::types::{LimitedCache, TileCoord3, TilesReaderTrait};

#[derive(Clone, Debug, PartialEq)]
pub enum Op {
	Add(u64, u64),
	Get(u64),
	Gos(u64, Option<u64>),
}

fn show(ops: &[Op]) -> String {
	if ops.is_empty() {
		return "-".into();
	}
	ops.iter()
		.map(|o| match o {
			Op::Add(k, v) => format!("a:{k}:{v}"),
			Op::Get(k) => format!("g:{k}"),
			Op::Gos(k, Some(v)) => format!("s:{k}:{v}"),
			Op::Gos(k, None) => format!("f:{k}"),
		})
		.collect::<Vec<_>>()
		.join(",")
}

pub fn parse_ops(s: &str) -> Vec<Op> {
	if s == "-" {
		return vec![];
	}
	s.split(',')
		.map(|t| {
			let p: Vec<&str> = t.split(':').collect();
			match p[0] {
				"a" => Op::Add(p[1].parse().unwrap(), p[2].parse().unwrap()),
				"g" => Op::Get(p[1].parse().unwrap()),
				"s" => Op::Gos(p[1].parse().unwrap(), Some(p[2].parse().unwrap())),
				"f" => Op::Gos(p[1].parse().unwrap(), None),
				_ => panic!("bad op {t}"),
			}
		})
		.collect()
}

fn debug_len(c: &LimitedCache<u64, u64>) -> u64 {
	c.verif_len() as u64
}

#[derive(Debug, Clone, PartialEq)]
pub enum Res {
	Val(u64),
	None,
	Err,
	Panic,
}

/// Runs a history on the real cache. Returns results, final length, and the first oracle failure (if any).
pub fn execute(cap: u64, ops: &[Op]) -> (Vec<Res>, u64, Option<(usize, String)>) {
	let mut res = vec![];
	let mut fail: Option<(usize, String)> = None;
	let r = catch(|| {
		let mut cache: LimitedCache<u64, u64> = LimitedCache::with_maximum_size((cap * 16) as usize);
		let mut stored: HashSet<(u64, u64)> = HashSet::new(); // every (k,v) ever offered for storage
		let mut used: Option<u64> = None; // key touched by the previous op
		let mut must_survive: Option<u64> = None; // key that has to be present now (recency law)
		let mut out = vec![];
		for (i, op) in ops.iter().enumerate() {
			let mut set_fail = |m: String| {
				if fail.is_none() {
					fail = Some((i, m));
				}
			};
			let r = match op {
				Op::Add(k, v) => {
					stored.insert((*k, *v));
					let r = cache.add(*k, *v);
					if !stored.contains(&(*k, r)) {
						set_fail(format!("add({k},{v}) returned {r}, never stored under {k}"));
					}
					must_survive = used.filter(|u| u != k);
					used = Some(*k);
					Res::Val(r)
				}
				Op::Get(k) => {
					let r = cache.get(k);
					if let Some(v) = r {
						if !stored.contains(&(*k, v)) {
							set_fail(format!("get({k}) returned {v}, never stored under {k}"));
						}
					}
					if must_survive == Some(*k) && r.is_none() {
						set_fail(format!("recency: key {k} was used immediately before the previous insertion and is gone"));
					}
					must_survive = None;
					used = r.map(|_| *k);
					r.map_or(Res::None, Res::Val)
				}
				Op::Gos(k, load) => {
					let mut called = false;
					let r = cache.get_or_set(k, || {
						called = true;
						load.ok_or(anyhow!("loader failed"))
					});
					match (&r, load) {
						(Ok(v), Some(l)) if called && v != l => set_fail(format!("get_or_set({k}) loader gave {l}, returned {v}")),
						(Ok(v), _) if !called && !stored.contains(&(*k, *v)) => {
							set_fail(format!("get_or_set({k}) hit returned {v}, never stored under {k}"))
						}
						(Ok(_), None) if called => set_fail(format!("get_or_set({k}) returned Ok although the loader failed")),
						(Err(_), Some(_)) => set_fail(format!("get_or_set({k}) failed although the loader succeeded")),
						(Err(_), None) if !called => set_fail(format!("get_or_set({k}) failed without calling the loader")),
						_ => {}
					}
					if called {
						if let Some(l) = load {
							stored.insert((*k, *l));
						}
					}
					if must_survive == Some(*k) && called {
						set_fail(format!("recency: key {k} was used immediately before the previous insertion and is gone"));
					}
					must_survive = if called && r.is_ok() { used.filter(|u| u != k) } else { None };
					used = r.as_ref().ok().map(|_| *k);
					match r {
						Ok(v) => Res::Val(v),
						Err(_) => Res::Err,
					}
				}
			};
			out.push(r);
			let len = debug_len(&cache);
			if len > cap {
				set_fail(format!("length {len} exceeds capacity {cap}"));
			}
		}
		(out, debug_len(&cache))
	});
	match r {
		Ok((o, len)) => {
			res = o;
			(res, len, fail)
		}
		Err(m) => {
			res.push(Res::Panic);
			(res, 0, Some((ops.len(), format!("panic: {m}"))))
		}
	}
}

fn show_res(rs: &[Res], len: u64) -> String {
	let v: Vec<String> = rs
		.iter()
		.map(|r| match r {
			Res::Val(v) => format!("v{v}"),
			Res::None => "none".into(),
			Res::Err => "err".into(),
			Res::Panic => "panic".into(),
		})
		.collect();
	format!("{}|len={}", v.join(","), len)
}

/// delta-debug a failing history: drop ops while it still fails with the same kind of message
fn shrink(cap: u64, ops: &[Op]) -> Vec<Op> {
	let kind = |m: &str| m.split(':').next().unwrap_or("").split(' ').next().unwrap_or("").to_string();
	let Some((at, msg)) = execute(cap, ops).2 else { return ops.to_vec() };
	let k0 = kind(&msg);
	let mut cur: Vec<Op> = ops[..(at + 1).min(ops.len())].to_vec();
	loop {
		let mut changed = false;
		let mut i = 0;
		while i < cur.len() {
			let mut t = cur.clone();
			t.remove(i);
			if let Some((_, m)) = execute(cap, &t).2 {
				if kind(&m) == k0 {
					cur = t;
					changed = true;
					continue;
				}
			}
			i += 1;
		}
		if !changed {
			break;
		}
	}
	cur
}

fn emit(out: &mut Out, cap: u64, ops: &[Op], seen_evict: &mut HashMap<u64, u64>) {
	let (rs, len, fail) = execute(cap, ops);
	// non-trivial: the history passes through at least one eviction (an insertion on a full cache)
	let adds = ops.iter().filter(|o| !matches!(o, Op::Get(_))).count() as u64;
	let nontrivial = adds > cap;
	if nontrivial {
		*seen_evict.entry(cap).or_insert(0) += 1;
	}
	out.case(&format!("C20 {cap} {}", show(ops)), &show_res(&rs, len), nontrivial);
	out.count(&format!("cap_{}", if cap <= 2 { cap.to_string() } else if cap <= 8 { "3-8".into() } else { "9-64".into() }));
	out.count_n("ops", ops.len() as u64);
	for r in &rs {
		out.count(match r {
			Res::Val(_) => "res_val",
			Res::None => "res_none",
			Res::Err => "res_err",
			Res::Panic => "res_panic",
		});
	}
	if let Some((at, msg)) = &fail {
		let small = shrink(cap, ops);
		let (srs, slen, sfail) = execute(cap, &small);
		let kind = if msg.starts_with("recency") { "recency" } else if msg.starts_with("length") { "capacity" } else if msg.starts_with("panic") { "panic" } else { "value" };
		out.oracle(
			false,
			&format!("C20 {kind}: {msg}"),
			json!({"kind": kind, "cap": cap}),
			json!({"case": format!("C20 {cap} {}", show(&small)), "impl": show_res(&srs, slen), "message": sfail.map(|f| f.1), "original_len": ops.len(), "failed_at": at}),
		);
	} else {
		out.oracle(true, "", json!(null), json!(null));
	}
}

fn gen_history(rng: &mut Rng, cap: u64, len: usize, functional: bool) -> Vec<Op> {
	let keys = rng.range(2, (cap + 3).min(10));
	let mut ops = Vec::with_capacity(len);
	let mut last_key = 0;
	while ops.len() < len {
		let k = if rng.chance(1, 4) { last_key } else { rng.below(keys) };
		let v = if functional { k * 100 + 7 } else { rng.below(5) + k * 10 };
		let op = match rng.below(10) {
			0..=3 => Op::Add(k, v),
			4..=6 => Op::Get(k),
			7..=8 => Op::Gos(k, Some(v)),
			_ => Op::Gos(k, None),
		};
		ops.push(op);
		last_key = k;
		// recency probe: use k, insert k', look k up again
		if rng.chance(1, 5) {
			let k2 = (k + 1 + rng.below(keys.max(2) - 1)) % keys.max(2);
			let v2 = if functional { k2 * 100 + 7 } else { rng.below(5) + k2 * 10 };
			ops.push(if rng.chance(1, 2) { Op::Add(k2, v2) } else { Op::Gos(k2, Some(v2)) });
			ops.push(Op::Get(k));
		}
	}
	ops
}


// ---------------------------------------------------------------------------------------------
// Reader-level transparency: the cache in front of the versatiles block tile indexes must not
// change what a lookup returns - a sequence of lookups on ONE opened reader (cache hits, also
// after failed loads) returns what each lookup returns on a freshly opened reader.

/// copy of a valid versatiles file in which the tile index of block `bi` has `drop` entries fewer
/// than the block's coverage (the block is re-appended at the end of the file, block index and
/// header are rewritten) - a container whose index loader must FAIL, every time
fn damage_tile_index(bytes: &[u8], bi: usize, drop: usize) -> Option<Vec<u8>> {
	use crate::indep_formats::{brotli_c, brotli_d, parse_versatiles};
	let parsed = parse_versatiles(bytes).ok()?;
	let rec = parsed.records.get(bi)?;
	let (off, bl, il) = (rec.offset as usize, rec.blobs_len as usize, rec.index_len as usize);
	let index = brotli_d(&bytes[off + bl..off + bl + il]).ok()?;
	if index.len() < 12 * (drop + 1) {
		return None;
	}
	let new_index = brotli_c(&index[..index.len() - 12 * drop]);
	let mut out = bytes.to_vec();
	let new_off = out.len();
	out.extend_from_slice(&bytes[off..off + bl]);
	out.extend_from_slice(&new_index);
	let mut raw_bi = vec![];
	for (i, r) in parsed.records.iter().enumerate() {
		let mut raw = r.raw.clone();
		if i == bi {
			raw[13..21].copy_from_slice(&(new_off as u64).to_be_bytes());
			raw[29..33].copy_from_slice(&(new_index.len() as u32).to_be_bytes());
		}
		raw_bi.extend_from_slice(&raw);
	}
	let cbi = brotli_c(&raw_bi);
	let bi_off = out.len();
	out.extend_from_slice(&cbi);
	out[50..58].copy_from_slice(&(bi_off as u64).to_be_bytes());
	out[58..66].copy_from_slice(&(cbi.len() as u64).to_be_bytes());
	Some(out)
}

fn lookup_verdict(r: Result<anyhow::Result<Option<versatiles_core::types::Blob>>, String>) -> String {
	match r {
		Ok(Ok(Some(b))) => format!("some:{}", hex(b.as_slice())),
		Ok(Ok(None)) => "none".into(),
		Ok(Err(_)) => "err".into(),
		Err(_) => "panic".into(),
	}
}

fn reader_transparency(args: &Args, out: &mut Out, rng: &mut Rng) {
	use crate::indep_formats::{encode_versatiles, Comp, Fmt, TileMap, VtChoices};
	let rt = tokio::runtime::Builder::new_multi_thread().worker_threads(2).enable_all().build().unwrap();
	let n = args.n(40, 400);
	for case in 0..n {
		// a small world: one or two levels, tiles on both sides of a block border at z >= 9
		let mut tiles: TileMap = TileMap::new();
		let z = *rng.pick(&[2u8, 3, 9, 10]);
		let (x0, y0) = if z >= 9 { (254u32, 254u32) } else { (0, 0) };
		let side = rng.range(2, 4) as u32;
		for y in y0..y0 + side {
			for x in x0..x0 + side {
				if rng.chance(5, 6) {
					let len = rng.range(1, 40) as usize;
					tiles.insert((z, x, y), rng.bytes(len));
				}
			}
		}
		if tiles.is_empty() {
			continue;
		}
		let mut ch = VtChoices::plain(Fmt::Bin, *rng.pick(&[Comp::None, Comp::Gzip]));
		ch.range_mode = rng.below(3) as u8;
		let valid = encode_versatiles(&tiles, &ch, rng).bytes;
		let damaged = rng.chance(2, 3);
		let bytes = if damaged {
			let nblocks = crate::indep_formats::parse_versatiles(&valid).map(|p| p.records.len()).unwrap_or(0);
			match damage_tile_index(&valid, rng.below(nblocks.max(1) as u64) as usize, rng.range(1, 2) as usize) {
				Some(b) => b,
				None => valid.clone(),
			}
		} else {
			valid.clone()
		};
		// probe sequence: every stored coordinate and some absent neighbours, several times, shuffled
		let mut probes: Vec<(u8, u32, u32)> = tiles.keys().cloned().collect();
		probes.push((z, x0 + side, y0));
		probes.push((z, x0, y0 + side));
		let mut seq = vec![];
		for _ in 0..3 {
			for p in &probes {
				if rng.chance(3, 4) {
					seq.push(*p);
				}
			}
		}
		if let Some(first) = seq.first().cloned() {
			seq.insert(1, first);
			seq.insert(2, first);
		}
		let open = || rt.block_on(VersaTilesReader::open_reader(Box::new(DataReaderBlob::from(bytes.clone()))));
		// fresh reader per lookup = what each call returns when it runs alone with an empty cache
		let fresh: Vec<String> = seq
			.iter()
			.map(|c| match catch(|| open()) {
				Ok(Ok(r)) => lookup_verdict(catch(|| rt.block_on(r.get_tile_data(&TileCoord3::new(c.1, c.2, c.0).unwrap())))),
				Ok(Err(_)) => "open-err".into(),
				Err(_) => "open-panic".into(),
			})
			.collect();
		// one reader for the whole sequence
		let shared: Vec<String> = match catch(|| open()) {
			Ok(Ok(r)) => seq.iter().map(|c| lookup_verdict(catch(|| rt.block_on(r.get_tile_data(&TileCoord3::new(c.1, c.2, c.0).unwrap()))))).collect(),
			Ok(Err(_)) => vec!["open-err".into(); seq.len()],
			Err(_) => vec!["open-panic".into(); seq.len()],
		};
		let errs = fresh.iter().filter(|v| *v == "err").count();
		let key = format!("C20r {case} z{z} damaged={damaged} {}", hex(&bytes[..bytes.len().min(64)]));
		out.eval(&key, damaged && errs > 0);
		out.count(if damaged { "reader_seq_damaged_container" } else { "reader_seq_valid_container" });
		out.count_n("reader_seq_lookups", seq.len() as u64);
		out.count_n("reader_seq_failed_loads", errs as u64);
		let bad = (0..seq.len()).find(|i| shared[*i] != fresh[*i]);
		match bad {
			None => out.oracle(true, "", json!(null), json!(null)),
			Some(i) => out.oracle(
				false,
				&format!("C20 reader-transparency: lookup #{i} of {:?} on a reader that served {} earlier lookups returns {} but a freshly opened reader returns {}", seq[i], i, trunc(&shared[i], 40), trunc(&fresh[i], 40)),
				json!({"kind": "reader_transparency", "damaged": damaged, "after_failed_load": fresh[..i].iter().any(|v| v == "err")}),
				json!({"container_hex": hex(&bytes), "sequence": seq, "shared": shared.iter().map(|s| trunc(s, 24)).collect::<Vec<_>>(), "fresh": fresh.iter().map(|s| trunc(s, 24)).collect::<Vec<_>>()}),
			),
		}
		if case < 2 {
			out.sample(json!({"reader_sequence": seq, "damaged": damaged, "fresh_verdicts": fresh.iter().map(|s| trunc(s, 16)).collect::<Vec<_>>()}));
		}
	}
}

/// The same law for the PMTiles reader's leaf-directory cache: lookup sequences on ONE opened reader over multi-level
/// PMTiles files (2 or 3 directory levels, small fan-out, so that different lookups need different leaves and the
/// same leaf repeatedly), some with a damaged leaf-directory section, compared with freshly opened readers.
fn pm_reader_transparency(args: &Args, out: &mut Out, rng: &mut Rng) {
	use crate::indep_formats::{encode_pmtiles, parse_pm_header, Comp, PmChoices, TileMap};
	use versatiles_container::PMTilesReader;
	let rt = tokio::runtime::Builder::new_multi_thread().worker_threads(2).enable_all().build().unwrap();
	let n = args.n(40, 400);
	for case in 0..n {
		let mut tiles: TileMap = TileMap::new();
		let z0 = *rng.pick(&[1u8, 2, 3, 5]);
		for z in z0..=z0 + rng.below(2) as u8 {
			let side = (1u32 << z).min(rng.range(2, 6) as u32);
			for y in 0..side {
				for x in 0..side {
					if rng.chance(4, 5) {
						let len = rng.range(1, 30) as usize;
						tiles.insert((z, x, y), rng.bytes(len));
					}
				}
			}
		}
		if tiles.len() < 4 {
			continue;
		}
		let mut ch = PmChoices::plain(1, 1);
		ch.icomp = *rng.pick(&[Comp::None, Comp::Gzip]);
		ch.levels = *rng.pick(&[2u8, 2, 3]);
		ch.fan_leaf = rng.range(2, 5) as usize;
		ch.fan_mid = rng.range(2, 3) as usize;
		ch.mixed_root = rng.chance(1, 3);
		ch.clustered = rng.chance(1, 2);
		let valid = encode_pmtiles(&tiles, &ch, rng).bytes;
		let damaged = rng.chance(2, 3);
		let mut bytes = valid.clone();
		if damaged {
			if let Ok(h) = parse_pm_header(&valid) {
				let (lo, ll) = (h.leaves.0 as usize, h.leaves.1 as usize);
				if ll > 0 && lo + ll <= bytes.len() {
					// damage a stretch inside the leaf-directory section (one or several leaves), not the root
					let at = lo + rng.below(ll as u64) as usize;
					let len = (rng.range(1, 12) as usize).min(lo + ll - at);
					for b in &mut bytes[at..at + len] {
						*b ^= (rng.below(255) + 1) as u8;
					}
				}
			}
		}
		let mut probes: Vec<(u8, u32, u32)> = tiles.keys().cloned().collect();
		probes.push((z0, (1u32 << z0) - 1, (1u32 << z0) - 1));
		probes.push((z0 + 2, 0, 0));
		let mut seq = vec![];
		for _ in 0..3 {
			for p in &probes {
				if rng.chance(2, 3) {
					seq.push(*p);
				}
			}
		}
		if let Some(first) = seq.first().cloned() {
			seq.insert(1, first);
			seq.insert(2, first);
		}
		let open = || rt.block_on(PMTilesReader::open_reader(Box::new(DataReaderBlob::from(bytes.clone()))));
		let look = |r: &PMTilesReader, c: &(u8, u32, u32)| lookup_verdict(catch(|| rt.block_on(r.get_tile_data(&TileCoord3::new(c.1, c.2, c.0).unwrap()))));
		let fresh: Vec<String> = seq
			.iter()
			.map(|c| match catch(|| open()) {
				Ok(Ok(r)) => look(&r, c),
				Ok(Err(_)) => "open-err".into(),
				Err(_) => "open-panic".into(),
			})
			.collect();
		let shared: Vec<String> = match catch(|| open()) {
			Ok(Ok(r)) => seq.iter().map(|c| look(&r, c)).collect(),
			Ok(Err(_)) => vec!["open-err".into(); seq.len()],
			Err(_) => vec!["open-panic".into(); seq.len()],
		};
		let errs = fresh.iter().filter(|v| *v == "err" || *v == "panic").count();
		let oks = fresh.iter().filter(|v| v.starts_with("some:")).count();
		let key = format!("C20p {case} z{z0} levels={} damaged={damaged} {}", ch.levels, hex(&bytes[bytes.len().saturating_sub(48)..]));
		out.eval(&key, oks > 0 && (!damaged || errs > 0));
		out.count(if damaged { "pm_reader_seq_damaged_container" } else { "pm_reader_seq_valid_container" });
		out.count_n("pm_reader_seq_lookups", seq.len() as u64);
		out.count_n("pm_reader_seq_failed_loads", errs as u64);
		out.count_n("pm_reader_seq_tiles_served", oks as u64);
		// on a valid container every stored tile must also come back with its bytes (the cache must not mix leaves up)
		let mut wrong: Option<usize> = None;
		if !damaged {
			wrong = (0..seq.len()).find(|i| match tiles.get(&seq[*i]) {
				Some(b) => shared[*i] != format!("some:{}", hex(b)),
				None => shared[*i] != "none",
			});
		}
		let bad = (0..seq.len()).find(|i| shared[*i] != fresh[*i]);
		match (bad, wrong) {
			(None, None) => out.oracle(true, "", json!(null), json!(null)),
			(Some(i), _) => out.oracle(
				false,
				&format!("C20 pm-reader-transparency: lookup #{i} of {:?} on a PMTiles reader that served {} earlier lookups returns {} but a freshly opened reader returns {}", seq[i], i, trunc(&shared[i], 40), trunc(&fresh[i], 40)),
				json!({"kind": "pm_reader_transparency", "damaged": damaged, "after_failed_load": fresh[..i].iter().any(|v| v == "err")}),
				json!({"container_hex": hex(&bytes), "sequence": seq, "shared": shared.iter().map(|s| trunc(s, 24)).collect::<Vec<_>>(), "fresh": fresh.iter().map(|s| trunc(s, 24)).collect::<Vec<_>>()}),
			),
			(None, Some(i)) => out.oracle(
				false,
				&format!("C20 pm-reader-value: lookup #{i} of {:?} on a valid multi-level PMTiles file returns {} instead of the stored tile", seq[i], trunc(&shared[i], 40)),
				json!({"kind": "pm_reader_value"}),
				json!({"container_hex": hex(&bytes), "sequence": seq}),
			),
		}
	}
}

// ---------- byte budget → capacity (`with_maximum_size`) ----------

fn any_debug_len<K: std::fmt::Debug, V: std::fmt::Debug>(c: &LimitedCache<K, V>) -> u64 {
	c.verif_len() as u64
}

/// Builds a cache with the given byte budget for the pair type (K, V), inserts `n` distinct keys and watches the
/// number of entries after every insertion. Answer as the model prints it.
fn budget_run<K, V>(bytes: u64, n: u64, mk: impl Fn(u64) -> (K, V) + std::panic::UnwindSafe) -> (String, Option<String>)
where
	K: Clone + std::fmt::Debug + Eq + std::hash::Hash + PartialEq,
	V: Clone + std::fmt::Debug,
{
	let per = (std::mem::size_of::<K>() + std::mem::size_of::<V>()) as u64;
	let r = catch(move || {
		let mut cache: LimitedCache<K, V> = LimitedCache::with_maximum_size(bytes as usize);
		let mut maxlen = any_debug_len(&cache);
		let mut fail = None;
		for i in 0..n {
			let (k, v) = mk(i);
			cache.add(k, v);
			let l = any_debug_len(&cache);
			maxlen = maxlen.max(l);
			if l * per > bytes && fail.is_none() {
				fail = Some(format!("after {} insertions the cache holds {l} entries of {per} bytes = {} bytes, budget {bytes}", i + 1, l * per));
			}
		}
		(maxlen, any_debug_len(&cache), fail)
	});
	match r {
		Ok((maxlen, len, fail)) => {
			let cap = if per == 0 { 0 } else { bytes / per };
			(format!("cap={cap} maxlen={maxlen} len={len}"), fail)
		}
		Err(_) => ("panic".into(), None),
	}
}

fn budget_case(out: &mut Out, ty: u8, bytes: u64, n: u64) {
	let (per, (ans, fail)) = match ty {
		0 => (2, budget_run::<u8, u8>(bytes, n.min(256), |i| (i as u8, i as u8))),
		1 => (3, budget_run::<u16, u8>(bytes, n, |i| (i as u16, i as u8))),
		2 => (6, budget_run::<u32, u16>(bytes, n, |i| (i as u32, i as u16))),
		3 => (16, budget_run::<u64, u64>(bytes, n, |i| (i, i))),
		4 => (24, budget_run::<u128, u64>(bytes, n, |i| (i as u128, i))),
		5 => (32, budget_run::<u64, [u8; 24]>(bytes, n, |i| (i, [i as u8; 24]))),
		6 => (0, budget_run::<(), ()>(bytes, n.min(1), |_| ((), ()))),
		// the two instantiations the readers use (versatiles block index cache, PMTiles leaf cache)
		7 => (
			(std::mem::size_of::<TileCoord3>() + std::mem::size_of::<std::sync::Arc<Vec<u8>>>()) as u64,
			budget_run::<TileCoord3, std::sync::Arc<Vec<u8>>>(bytes, n, |i| (TileCoord3::new((i % 1024) as u32, (i / 1024) as u32, 12).unwrap(), std::sync::Arc::new(vec![]))),
		),
		_ => (
			(std::mem::size_of::<versatiles_core::types::ByteRange>() + std::mem::size_of::<std::sync::Arc<Vec<u8>>>()) as u64,
			budget_run::<versatiles_core::types::ByteRange, std::sync::Arc<Vec<u8>>>(bytes, n, |i| (versatiles_core::types::ByteRange::new(i * 7, 7), std::sync::Arc::new(vec![]))),
		),
	};
	let n_eff = if ty == 0 { n.min(256) } else if ty == 6 { n.min(1) } else { n };
	let line = format!("C20b {bytes} {per} {n_eff}");
	let cap = if per == 0 { 0 } else { bytes / per };
	out.case(&line, &ans, ans != "panic" && n_eff > cap);
	out.count(&format!("budget_pair_{per}_bytes"));
	out.count(if ans == "panic" { "budget_panic" } else if n_eff > cap { "budget_overfull" } else { "budget_underfull" });
	// direct oracle: entries × pair size ≤ budget at every moment; the constructor refuses (panics) only when not even one pair fits
	if let Some(msg) = fail {
		out.oracle(false, &format!("C20 budget: {msg}"), json!({"kind": "budget", "pair_bytes": per}), json!({"case": line, "impl": ans}));
	} else if ans == "panic" && per != 0 && bytes >= per {
		out.oracle(false, "C20 budget: a cache whose budget holds at least one pair could not be built or used", json!({"kind": "budget_panic", "pair_bytes": per}), json!({"case": line, "impl": ans}));
	} else {
		out.oracle(true, "", json!(null), json!(null));
	}
}

fn budget_cases(args: &Args, out: &mut Out, rng: &mut Rng) {
	for ty in 0..9u8 {
		let per: u64 = [2, 3, 6, 16, 24, 32, 1, 20, 24][ty as usize];
		// around zero, around one pair, around k pairs ±1 byte
		let mut budgets = vec![0, 1, per.saturating_sub(1), per, per + 1, 2 * per - 1, 2 * per, 2 * per + 1];
		for _ in 0..args.n(6, 60) {
			let k = rng.range(1, 40);
			budgets.push(k * per + rng.below(per.max(1)));
			budgets.push(k * per);
			budgets.push((k * per).saturating_sub(1));
		}
		for b in budgets {
			let cap = b / per.max(1);
			for n in [0, cap.saturating_sub(1), cap, cap + 1, 2 * cap + 3] {
				budget_case(out, ty, b, n);
			}
		}
	}
}

pub fn run(args: &Args) {
	quiet_panics();
	let mut out = Out::new(&args.out);
	out.rule = "histories of add/get/get_or_set(ok|fail) on LimitedCache<u64,u64>; byte-budget cases (C20b): with_maximum_size for 9 pair types (2..32 bytes, zero-sized, the two reader instantiations) with budgets at k pairs -1/0/+1 byte and n distinct insertions around the capacity; corpus first, then seeded random histories (≤10 keys, cap 1..64, with recency probes), thorough: all histories of length ≤5 over a 9-op alphabet for cap 1..3; plus reader-level transparency: lookup sequences (repeats, neighbours, after failed index loads) on ONE opened VersaTilesReader over valid and index-damaged containers vs the same lookups on freshly opened readers (oracle only); the same for ONE PMTilesReader over independently encoded 2-/3-level PMTiles files (fan-out 2..5, mixed root, some with a damaged leaf section); non-trivial = more insert-capable ops than the capacity (passes through an eviction); distinct by case text".into();
	let mut seen = HashMap::new();
	if let Some(p) = &args.replay {
		for line in std::fs::read_to_string(p).unwrap().lines() {
			let t: Vec<&str> = line.split(' ').collect();
			if t.len() == 3 && t[0] == "C20" {
				emit(&mut out, t[1].parse().unwrap(), &parse_ops(t[2]), &mut seen);
			}
			if t.len() == 4 && t[0] == "C20b" {
				let per: u64 = t[2].parse().unwrap();
				let tys: Vec<u8> = match per { 2 => vec![0], 3 => vec![1], 6 => vec![2], 16 => vec![3], 24 => vec![4, 8], 32 => vec![5], 0 => vec![6], 20 => vec![7], _ => vec![] };
				for ty in tys {
					budget_case(&mut out, ty, t[1].parse().unwrap(), t[3].parse().unwrap());
				}
			}
		}
		out.finish();
		return;
	}
	let mut rng = Rng::new(args.seed);
	// boundary histories
	for cap in 1..=6u64 {
		emit(&mut out, cap, &[], &mut seen);
		let fill: Vec<Op> = (0..cap + 2).flat_map(|i| [Op::Add(i, i), Op::Get(i)]).collect();
		emit(&mut out, cap, &fill, &mut seen);
		// use k, then insert another key, then look k up
		let mut probe: Vec<Op> = (0..cap).map(|i| Op::Add(i, i)).collect();
		probe.extend([Op::Get(0), Op::Add(99, 1), Op::Get(0)]);
		emit(&mut out, cap, &probe, &mut seen);
	}
	let n = args.n(3000, 60000);
	for i in 0..n {
		let cap = match rng.below(10) {
			0 => 1,
			1 => 2,
			2..=6 => rng.range(3, 8),
			_ => rng.range(9, 64),
		};
		let len = if i % 50 == 0 { rng.range(200, 2000) } else { rng.range(1, 60) } as usize;
		let functional = rng.chance(1, 3);
		let ops = gen_history(&mut rng, cap, len, functional);
		emit(&mut out, cap, &ops, &mut seen);
	}
	if args.thorough() {
		// exhaustive: all histories of length ≤ 5 over keys {0,1,2}… kept small: ops alphabet of 9
		let alphabet: Vec<Op> = vec![
			Op::Add(0, 1), Op::Add(1, 2), Op::Add(2, 3), Op::Get(0), Op::Get(1), Op::Get(2),
			Op::Gos(0, Some(4)), Op::Gos(1, None), Op::Gos(2, Some(5)),
		];
		for cap in 1..=3u64 {
			for len in 1..=5usize {
				let total = alphabet.len().pow(len as u32);
				for idx in 0..total {
					let mut x = idx;
					let mut ops = Vec::with_capacity(len);
					for _ in 0..len {
						ops.push(alphabet[x % alphabet.len()].clone());
						x /= alphabet.len();
					}
					emit(&mut out, cap, &ops, &mut seen);
				}
			}
		}
		out.notes.push("exhaustive part: all 9^1..9^5 histories over a 9-op alphabet for cap 1,2,3".into());
	}
	budget_cases(args, &mut out, &mut rng);
	reader_transparency(args, &mut out, &mut rng);
	pm_reader_transparency(args, &mut out, &mut rng);
	out.extra.insert("histories_with_eviction_by_cap".into(), json!(seen.iter().map(|(k, v)| (k.to_string(), *v)).collect::<HashMap<_, _>>()));
	out.finish();
}
