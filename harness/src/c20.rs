//! C20 – LimitedCache: random / exhaustive operation histories on the real type.
//! case line: `C20 <cap> <ops>`; impl line: `<res>,…|len=<n>`
use crate::common::*;
use anyhow::anyhow;
use serde_json::json;
use std::collections::{HashMap, HashSet};
use versatiles_core::types::LimitedCache;

#[derive(Clone, Debug, PartialEq)]
pub enum Op {
	Add(u64, u64),
	Get(u64),
	Gos(u64, Option<u64>),
}

fn show(ops: &[Op]) -> String {
	if ops.is_empty() {
		return "-".into();
	}
	ops.iter()
		.map(|o| match o {
			Op::Add(k, v) => format!("a:{k}:{v}"),
			Op::Get(k) => format!("g:{k}"),
			Op::Gos(k, Some(v)) => format!("s:{k}:{v}"),
			Op::Gos(k, None) => format!("f:{k}"),
		})
		.collect::<Vec<_>>()
		.join(",")
}

pub fn parse_ops(s: &str) -> Vec<Op> {
	if s == "-" {
		return vec![];
	}
	s.split(',')
		.map(|t| {
			let p: Vec<&str> = t.split(':').collect();
			match p[0] {
				"a" => Op::Add(p[1].parse().unwrap(), p[2].parse().unwrap()),
				"g" => Op::Get(p[1].parse().unwrap()),
				"s" => Op::Gos(p[1].parse().unwrap(), Some(p[2].parse().unwrap())),
				"f" => Op::Gos(p[1].parse().unwrap(), None),
				_ => panic!("bad op {t}"),
			}
		})
		.collect()
}

fn debug_len(c: &LimitedCache<u64, u64>) -> u64 {
	let s = format!("{c:?}");
	let i = s.find("length: ").unwrap() + 8;
	s[i..].split(|ch: char| !ch.is_ascii_digit()).next().unwrap().parse().unwrap()
}

#[derive(Debug, Clone, PartialEq)]
pub enum Res {
	Val(u64),
	None,
	Err,
	Panic,
}

/// Runs a history on the real cache. Returns results, final length, and the first oracle failure (if any).
pub fn execute(cap: u64, ops: &[Op]) -> (Vec<Res>, u64, Option<(usize, String)>) {
	let mut res = vec![];
	let mut fail: Option<(usize, String)> = None;
	let r = catch(|| {
		let mut cache: LimitedCache<u64, u64> = LimitedCache::with_maximum_size((cap * 16) as usize);
		let mut stored: HashSet<(u64, u64)> = HashSet::new(); // every (k,v) ever offered for storage
		let mut used: Option<u64> = None; // key touched by the previous op
		let mut must_survive: Option<u64> = None; // key that has to be present now (recency law)
		let mut out = vec![];
		for (i, op) in ops.iter().enumerate() {
			let mut set_fail = |m: String| {
				if fail.is_none() {
					fail = Some((i, m));
				}
			};
			let r = match op {
				Op::Add(k, v) => {
					stored.insert((*k, *v));
					let r = cache.add(*k, *v);
					if !stored.contains(&(*k, r)) {
						set_fail(format!("add({k},{v}) returned {r}, never stored under {k}"));
					}
					must_survive = used.filter(|u| u != k);
					used = Some(*k);
					Res::Val(r)
				}
				Op::Get(k) => {
					let r = cache.get(k);
					if let Some(v) = r {
						if !stored.contains(&(*k, v)) {
							set_fail(format!("get({k}) returned {v}, never stored under {k}"));
						}
					}
					if must_survive == Some(*k) && r.is_none() {
						set_fail(format!("recency: key {k} was used immediately before the previous insertion and is gone"));
					}
					must_survive = None;
					used = r.map(|_| *k);
					r.map_or(Res::None, Res::Val)
				}
				Op::Gos(k, load) => {
					let mut called = false;
					let r = cache.get_or_set(k, || {
						called = true;
						load.ok_or(anyhow!("loader failed"))
					});
					match (&r, load) {
						(Ok(v), Some(l)) if called && v != l => set_fail(format!("get_or_set({k}) loader gave {l}, returned {v}")),
						(Ok(v), _) if !called && !stored.contains(&(*k, *v)) => {
							set_fail(format!("get_or_set({k}) hit returned {v}, never stored under {k}"))
						}
						(Ok(_), None) if called => set_fail(format!("get_or_set({k}) returned Ok although the loader failed")),
						(Err(_), Some(_)) => set_fail(format!("get_or_set({k}) failed although the loader succeeded")),
						(Err(_), None) if !called => set_fail(format!("get_or_set({k}) failed without calling the loader")),
						_ => {}
					}
					if called {
						if let Some(l) = load {
							stored.insert((*k, *l));
						}
					}
					if must_survive == Some(*k) && called {
						set_fail(format!("recency: key {k} was used immediately before the previous insertion and is gone"));
					}
					must_survive = if called && r.is_ok() { used.filter(|u| u != k) } else { None };
					used = r.as_ref().ok().map(|_| *k);
					match r {
						Ok(v) => Res::Val(v),
						Err(_) => Res::Err,
					}
				}
			};
			out.push(r);
			let len = debug_len(&cache);
			if len > cap {
				set_fail(format!("length {len} exceeds capacity {cap}"));
			}
		}
		(out, debug_len(&cache))
	});
	match r {
		Ok((o, len)) => {
			res = o;
			(res, len, fail)
		}
		Err(m) => {
			res.push(Res::Panic);
			(res, 0, Some((ops.len(), format!("panic: {m}"))))
		}
	}
}

fn show_res(rs: &[Res], len: u64) -> String {
	let v: Vec<String> = rs
		.iter()
		.map(|r| match r {
			Res::Val(v) => format!("v{v}"),
			Res::None => "none".into(),
			Res::Err => "err".into(),
			Res::Panic => "panic".into(),
		})
		.collect();
	format!("{}|len={}", v.join(","), len)
}

/// delta-debug a failing history: drop ops while it still fails with the same kind of message
fn shrink(cap: u64, ops: &[Op]) -> Vec<Op> {
	let kind = |m: &str| m.split(':').next().unwrap_or("").split(' ').next().unwrap_or("").to_string();
	let Some((at, msg)) = execute(cap, ops).2 else { return ops.to_vec() };
	let k0 = kind(&msg);
	let mut cur: Vec<Op> = ops[..(at + 1).min(ops.len())].to_vec();
	loop {
		let mut changed = false;
		let mut i = 0;
		while i < cur.len() {
			let mut t = cur.clone();
			t.remove(i);
			if let Some((_, m)) = execute(cap, &t).2 {
				if kind(&m) == k0 {
					cur = t;
					changed = true;
					continue;
				}
			}
			i += 1;
		}
		if !changed {
			break;
		}
	}
	cur
}

fn emit(out: &mut Out, cap: u64, ops: &[Op], seen_evict: &mut HashMap<u64, u64>) {
	let (rs, len, fail) = execute(cap, ops);
	// non-trivial: the history passes through at least one eviction (an insertion on a full cache)
	let adds = ops.iter().filter(|o| !matches!(o, Op::Get(_))).count() as u64;
	let nontrivial = adds > cap;
	if nontrivial {
		*seen_evict.entry(cap).or_insert(0) += 1;
	}
	out.case(&format!("C20 {cap} {}", show(ops)), &show_res(&rs, len), nontrivial);
	out.count(&format!("cap_{}", if cap <= 2 { cap.to_string() } else if cap <= 8 { "3-8".into() } else { "9-64".into() }));
	out.count_n("ops", ops.len() as u64);
	for r in &rs {
		out.count(match r {
			Res::Val(_) => "res_val",
			Res::None => "res_none",
			Res::Err => "res_err",
			Res::Panic => "res_panic",
		});
	}
	if let Some((at, msg)) = &fail {
		let small = shrink(cap, ops);
		let (srs, slen, sfail) = execute(cap, &small);
		let kind = if msg.starts_with("recency") { "recency" } else if msg.starts_with("length") { "capacity" } else if msg.starts_with("panic") { "panic" } else { "value" };
		out.oracle(
			false,
			&format!("C20 {kind}: {msg}"),
			json!({"kind": kind, "cap": cap}),
			json!({"case": format!("C20 {cap} {}", show(&small)), "impl": show_res(&srs, slen), "message": sfail.map(|f| f.1), "original_len": ops.len(), "failed_at": at}),
		);
	} else {
		out.oracle(true, "", json!(null), json!(null));
	}
}

fn gen_history(rng: &mut Rng, cap: u64, len: usize, functional: bool) -> Vec<Op> {
	let keys = rng.range(2, (cap + 3).min(10));
	let mut ops = Vec::with_capacity(len);
	let mut last_key = 0;
	while ops.len() < len {
		let k = if rng.chance(1, 4) { last_key } else { rng.below(keys) };
		let v = if functional { k * 100 + 7 } else { rng.below(5) + k * 10 };
		let op = match rng.below(10) {
			0..=3 => Op::Add(k, v),
			4..=6 => Op::Get(k),
			7..=8 => Op::Gos(k, Some(v)),
			_ => Op::Gos(k, None),
		};
		ops.push(op);
		last_key = k;
		// recency probe: use k, insert k', look k up again
		if rng.chance(1, 5) {
			let k2 = (k + 1 + rng.below(keys.max(2) - 1)) % keys.max(2);
			let v2 = if functional { k2 * 100 + 7 } else { rng.below(5) + k2 * 10 };
			ops.push(if rng.chance(1, 2) { Op::Add(k2, v2) } else { Op::Gos(k2, Some(v2)) });
			ops.push(Op::Get(k));
		}
	}
	ops
}

pub fn run(args: &Args) {
	quiet_panics();
	let mut out = Out::new(&args.out);
	out.rule = "histories of add/get/get_or_set(ok|fail) on LimitedCache<u64,u64>; corpus first, then seeded random histories (≤10 keys, cap 1..64, with recency probes), thorough: all histories of length ≤5 over 2 keys/2 values for cap 1..3; non-trivial = more insert-capable ops than the capacity (passes through an eviction); distinct by case text".into();
	let mut seen = HashMap::new();
	if let Some(p) = &args.replay {
		for line in std::fs::read_to_string(p).unwrap().lines() {
			let t: Vec<&str> = line.split(' ').collect();
			if t.len() == 3 && t[0] == "C20" {
				emit(&mut out, t[1].parse().unwrap(), &parse_ops(t[2]), &mut seen);
			}
		}
		out.finish();
		return;
	}
	let mut rng = Rng::new(args.seed);
	// boundary histories
	for cap in 1..=6u64 {
		emit(&mut out, cap, &[], &mut seen);
		let fill: Vec<Op> = (0..cap + 2).flat_map(|i| [Op::Add(i, i), Op::Get(i)]).collect();
		emit(&mut out, cap, &fill, &mut seen);
		// use k, then insert another key, then look k up
		let mut probe: Vec<Op> = (0..cap).map(|i| Op::Add(i, i)).collect();
		probe.extend([Op::Get(0), Op::Add(99, 1), Op::Get(0)]);
		emit(&mut out, cap, &probe, &mut seen);
	}
	let n = args.n(3000, 60000);
	for i in 0..n {
		let cap = match rng.below(10) {
			0 => 1,
			1 => 2,
			2..=6 => rng.range(3, 8),
			_ => rng.range(9, 64),
		};
		let len = if i % 50 == 0 { rng.range(200, 2000) } else { rng.range(1, 60) } as usize;
		let functional = rng.chance(1, 3);
		let ops = gen_history(&mut rng, cap, len, functional);
		emit(&mut out, cap, &ops, &mut seen);
	}
	if args.thorough() {
		// exhaustive: all histories of length ≤ 5 over keys {0,1,2}… kept small: ops alphabet of 9
		let alphabet: Vec<Op> = vec![
			Op::Add(0, 1), Op::Add(1, 2), Op::Add(2, 3), Op::Get(0), Op::Get(1), Op::Get(2),
			Op::Gos(0, Some(4)), Op::Gos(1, None), Op::Gos(2, Some(5)),
		];
		for cap in 1..=3u64 {
			for len in 1..=5usize {
				let total = alphabet.len().pow(len as u32);
				for idx in 0..total {
					let mut x = idx;
					let mut ops = Vec::with_capacity(len);
					for _ in 0..len {
						ops.push(alphabet[x % alphabet.len()].clone());
						x /= alphabet.len();
					}
					emit(&mut out, cap, &ops, &mut seen);
				}
			}
		}
		out.notes.push("exhaustive part: all 9^1..9^5 histories over a 9-op alphabet for cap 1,2,3".into());
	}
	out.extra.insert("histories_with_eviction_by_cap".into(), json!(seen.iter().map(|(k, v)| (k.to_string(), *v)).collect::<HashMap<_, _>>()));
	out.finish();
}
