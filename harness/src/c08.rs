//! C08 – from_overlayed returns the tile of the first listed source that has one.
//!
//! 2–4 sources (in-memory and real container files of every format, written / re-opened with the
//! real code) with disjoint / partially overlapping coverages, different zoom ranges and mixed
//! compressions, overlaid through `PipelineFactory::operation_from_vpl`, plain and nested inside /
//! around filters; also too few sources and mixed tile formats (build must be an error).
//! Direct oracle (from the statement): at every coordinate of the union at zoom ≤ 4, every tile
//! coordinate and its neighbours the overlay's tile is the tile of the first source (real reader
//! lookups, list order) that has one — same content once decoded from the declared compression,
//! identical bytes when the source's compression is the declared one — and absent iff no source has
//! one; the declared compression is the common compression or uncompressed; the advertised
//! coverage is the per-level bounding union of the sources' coverages; streams = lookups (C02
//! oracle) for boxes across the sources' coverage borders.
//! Model: the same lines through `vtdriver`.
use crate::c02::{coords_arg, gen_sources, geo_arg, overlay_orders, shape_boxes, shape_sources, zoom_arg};
use crate::common::*;
use crate::tsrc::*;
use serde_json::json;
use versatiles_core::types::*;

const RULE: &str = "2-4 PBF sources over a common pool of coordinates (random subsets: overlapping, disjoint and private tiles; dropped zoom levels; compressions drawn independently from none/gzip/brotli; kinds memory/versatiles/pmtiles/mbtiles/tar/directory), overlaid in list order, optionally with a filter below one source and a filter above the overlay; plus overlays of one source and of mixed tile formats (error expected). Coordinates: every tile coordinate of every source, neighbours, random coordinates up to zoom 31; boxes sampled across coverage and block borders, empty encodings, levels without tiles. non-trivial = at least two sources have a tile at one of the coordinates and at least one coordinate falls through to a later source (lookups) / box partially overlaps the union coverage or crosses a block border (streams)";

/// direct oracle for the plain overlay `L0,…,L(k-1),Ok`
fn check_overlay(rt: &tokio::runtime::Runtime, out: &mut Out, w: &World, k: usize, coords: &[TileCoord3]) {
	let rpn = format!("{},O{k}", (0..k).map(|i| format!("L{i}")).collect::<Vec<_>>().join(","));
	let env = w.env_string();
	let op = match build_op(rt, w, &rpn) {
		Ok(Ok(o)) => o,
		Ok(Err(e)) => {
			out.oracle(false, &format!("C08 overlay of {k} same-format sources failed to build: {}", trunc(&e, 160)), json!({"kind": "build_err"}), json!({"case": format!("C08 P {rpn} {env}")}));
			return;
		}
		Err(m) => {
			out.oracle(false, &format!("C08 overlay build panicked: {}", trunc(&m, 160)), json!({"kind": "build_panic"}), json!({"case": format!("C08 P {rpn} {env}")}));
			return;
		}
	};
	let readers: Vec<Box<dyn TilesReaderTrait>> = (0..k).filter_map(|i| catch(|| rt.block_on(async { w.reader(i).await })).ok().and_then(|r| r.ok())).collect();
	if readers.len() != k {
		return;
	}
	let params = op.get_parameters().clone();
	// declared compression
	let comps: Vec<TileCompression> = readers.iter().map(|r| r.get_parameters().tile_compression).collect();
	let want_comp = if comps.iter().all(|c| *c == comps[0]) { comps[0] } else { TileCompression::Uncompressed };
	out.eval(&format!("C08 comp {rpn} {env}"), comps.iter().any(|c| *c != comps[0]));
	out.oracle(
		params.tile_compression == want_comp,
		&format!("C08 declared compression {:?}, sources declare {:?}", params.tile_compression, comps),
		json!({"kind": "declared_compression"}),
		json!({"case": format!("C08 P {rpn} {env}")}),
	);
	// coverage = per-level bounding union
	let mut cov_ok = true;
	let mut cov_txt = String::new();
	for z in 0..32u8 {
		let mut u: Option<(u32, u32, u32, u32)> = None;
		for r in readers.iter() {
			let b = r.get_parameters().bbox_pyramid.get_level_bbox(z);
			if !b.is_empty() {
				u = Some(match u {
					None => (b.x_min, b.y_min, b.x_max, b.y_max),
					Some((a, b2, c, d)) => (a.min(b.x_min), b2.min(b.y_min), c.max(b.x_max), d.max(b.y_max)),
				});
			}
		}
		let g = params.bbox_pyramid.get_level_bbox(z);
		let same = match u {
			None => g.is_empty(),
			Some((a, b, c, d)) => !g.is_empty() && (g.x_min, g.y_min, g.x_max, g.y_max) == (a, b, c, d),
		};
		if !same && cov_ok {
			cov_ok = false;
			cov_txt = format!("level {z}: advertised {g:?}, union of the sources {u:?}");
		}
	}
	out.eval(&format!("C08 cover {rpn} {env}"), k >= 2);
	out.oracle(cov_ok, &format!("C08 coverage is not the union: {cov_txt}"), json!({"kind": "coverage_union"}), json!({"case": format!("C08 P {rpn} {env}")}));
	// lookups
	let mut fall = 0;
	let mut multi = 0;
	let mut fail: Option<(String, String, TileCoord3)> = None;
	for c in coords {
		let mut want: Option<(usize, Blob)> = None;
		let mut have = 0;
		let mut broken = false;
		for (i, r) in readers.iter().enumerate() {
			match catch(|| rt.block_on(async { r.get_tile_data(c).await })) {
				Ok(Ok(Some(b))) => {
					have += 1;
					if want.is_none() {
						want = Some((i, b));
					}
				}
				Ok(Ok(None)) => {}
				// a source that fails AFTER an earlier source delivered the tile does not matter;
				// when the first candidate itself fails the statement says nothing
				_ => {
					if want.is_none() {
						broken = true;
					}
				}
			}
		}
		if broken {
			continue;
		}
		if have >= 2 {
			multi += 1;
		}
		if matches!(want, Some((i, _)) if i > 0) {
			fall += 1;
		}
		let got = catch(|| rt.block_on(async { op.get_tile_data(c).await }));
		let f: Option<(&str, String)> = match (&got, &want) {
			(Err(m), _) => Some(("lookup_panic", format!("overlay lookup panicked: {}", trunc(m, 100)))),
			(Ok(Err(e)), _) => Some(("lookup_err", format!("overlay lookup failed: {e:#}"))),
			(Ok(Ok(None)), Some((i, _))) => Some(("tile_missing", format!("source {i} has a tile, the overlay returns none"))),
			(Ok(Ok(Some(_))), None) => Some(("tile_invented", "no source has a tile, the overlay returns one".to_string())),
			(Ok(Ok(Some(a))), Some((i, b))) => {
				// decoded independently of the code under test; the expected content also from the tile spec
				let da = indep_decompress(a.as_slice(), params.tile_compression).ok_or(());
				let db = indep_decompress(b.as_slice(), comps[*i]).ok_or(());
				let spec_raw = served_tiles(&w.specs[*i]).get(&(c.z, c.x, c.y)).map(|idv| make_blob(*idv));
				match (da, db) {
					(Ok(x), Ok(_)) if spec_raw.as_ref().map_or(false, |r| r.as_slice() != x.as_slice()) => {
						Some(("wrong_content", format!("the decoded tile ({} bytes) is not the stored tile of source {i} ({} bytes)", x.len(), spec_raw.map_or(0, |r| r.len()))))
					}
					(Ok(x), Ok(y)) if x.as_slice() == y.as_slice() => {
						if comps[*i] == params.tile_compression && a.as_slice() != b.as_slice() {
							Some(("bytes_changed", format!("source {i} already has the declared compression but the bytes differ")))
						} else {
							None
						}
					}
					(Err(_), _) => Some(("not_declared_compression", format!("the tile (taken from source {i}) cannot be decoded with the declared compression {:?}", params.tile_compression))),
					_ => Some(("wrong_tile", format!("the tile is not the tile of source {i}, the first source that has one"))),
				}
			}
			_ => None,
		};
		if let Some((kd, t)) = f {
			if fail.is_none() {
				fail = Some((kd.to_string(), t, *c));
			}
		}
	}
	let case = format!("C08 G {rpn} {env} {}", coords.iter().map(|c| format!("{},{},{}", c.x, c.y, c.z)).collect::<Vec<_>>().join(";"));
	out.eval(&case, multi > 0 && fall > 0);
	out.count_n("overlay_lookups", coords.len() as u64);
	out.count_n("overlay_fallthrough", fall);
	out.count_n("overlay_multi_source_coords", multi);
	match fail {
		None => out.oracle(true, "C08 overlay lookup", json!({}), json!({})),
		Some((kd, t, c)) => out.oracle(
			false,
			&format!("C08 overlay lookup at {c:?}: {t}"),
			json!({"kind": kd, "ops": sig_src(w, &rpn)}),
			json!({"case": format!("C08 G {rpn} {env} {},{},{}", c.x, c.y, c.z), "vpl": rpn_to_vpl(&rpn)}),
		),
	}
}

/// direct oracle: the advertised coverage of `overlay(children)` is, level by level, the bounding union of the
/// children's advertised coverages (least pyramid containing all of them; a level is empty iff it is empty in every child)
fn check_cover_union(rt: &tokio::runtime::Runtime, out: &mut Out, w: &World, children: &[String]) {
	let rpn = format!("{},O{}", children.join(","), children.len());
	let env = w.env_string();
	let op = match build_op(rt, w, &rpn) {
		Ok(Ok(o)) => o,
		_ => return,
	};
	let mut kids = vec![];
	for c in children {
		match build_op(rt, w, c) {
			Ok(Ok(o)) => kids.push(o),
			_ => return,
		}
	}
	let mut bad: Option<String> = None;
	let mut emptied = 0;
	for z in 0..32u8 {
		let mut u: Option<(u32, u32, u32, u32)> = None;
		for kd in kids.iter() {
			let b = kd.get_parameters().bbox_pyramid.get_level_bbox(z);
			if b.is_empty() {
				if (b.x_min, b.y_min, b.x_max, b.y_max) == (1, 1, 0, 0) {
					emptied += 1;
				}
				continue;
			}
			u = Some(match u {
				None => (b.x_min, b.y_min, b.x_max, b.y_max),
				Some((a, b2, c, d)) => (a.min(b.x_min), b2.min(b.y_min), c.max(b.x_max), d.max(b.y_max)),
			});
		}
		let g = op.get_parameters().bbox_pyramid.get_level_bbox(z);
		let same = match u {
			None => g.is_empty(),
			Some(t) => !g.is_empty() && (g.x_min, g.y_min, g.x_max, g.y_max) == t,
		};
		if !same && bad.is_none() {
			bad = Some(format!("level {z}: advertised {g:?}, bounding union of the sources' coverages {u:?}"));
		}
	}
	out.eval(&format!("C08 cover-union {rpn} {env}"), emptied > 0);
	out.count("cover_union_checks");
	out.count_n("cover_union_levels_emptied_by_a_filter", emptied);
	out.oracle(
		bad.is_none(),
		&format!("C08 coverage of an overlay of filtered sources is not the union: {}", bad.unwrap_or_default()),
		json!({"kind": "coverage_union_filtered"}),
		json!({"case": format!("C08 P {rpn} {env}"), "vpl": rpn_to_vpl(&rpn)}),
	);
}

fn coord_list(rng: &mut Rng, specs: &[SrcSpec]) -> Vec<TileCoord3> {
	let mut v: Vec<(u32, u32, u8)> = vec![];
	for s in coords_arg(rng, specs, 6).split(';') {
		let t: Vec<u32> = s.split(',').map(|x| x.parse().unwrap()).collect();
		v.push((t[0], t[1], t[2] as u8));
	}
	for s in specs {
		for (z, x, y) in s.tiles.keys() {
			let max = ((1u64 << z) - 1) as u32;
			v.push((x.saturating_sub(1), *y, *z));
			v.push((*x, (*y + 1).min(max), *z));
		}
	}
	v.sort();
	v.dedup();
	v.iter().map(|(x, y, z)| TileCoord3::new(*x, *y, *z).unwrap()).collect()
}

fn parse_coords(s: &str) -> Vec<TileCoord3> {
	s.split(';')
		.map(|s| {
			let v: Vec<u32> = s.split(',').map(|x| x.parse().unwrap()).collect();
			TileCoord3::new(v[0], v[1], v[2] as u8).unwrap()
		})
		.collect()
}

pub fn run(args: &Args) {
	quiet_panics();
	let rt = runtime();
	let mut out = Out::new(&args.out);
	let mut id = Ident::new();
	let scratch = args.out.join("scratch");
	std::fs::create_dir_all(&scratch).unwrap();
	out.rule = RULE.to_string();
	if let Some(f) = &args.replay {
		for line in std::fs::read_to_string(f).unwrap().lines() {
			let line = line.trim();
			if line.is_empty() || line.starts_with('#') {
				continue;
			}
			run_line(&rt, &mut out, &mut id, &scratch, line);
			let t: Vec<&str> = line.split(' ').collect();
			if t.len() >= 4 {
				let specs = parse_env(t[3]);
				let k = specs.len();
				let plain = format!("{},O{k}", (0..k).map(|i| format!("L{i}")).collect::<Vec<_>>().join(","));
				if t[2] == plain {
					let w = World::build(&rt, &scratch, &specs);
					if w.usable() {
						let coords = if t[1] == "G" && t.len() > 4 { parse_coords(t[4]) } else { coord_list(&mut Rng::new(1), &specs) };
						check_overlay(&rt, &mut out, &w, k, &coords);
					}
					w.cleanup();
				}
			}
		}
		let _ = std::fs::remove_dir_all(&scratch);
		out.finish();
		return;
	}
	let mut rng = Rng::new(args.seed);
	let mut next: u64 = 0;
	// overlays of 3-5 sources with L-shaped / framed / checkerboard / nested coverages inside one 32x32 sub-box, every rotation
	for _ in 0..args.n(4, 16) {
		let specs = shape_sources(&mut rng, &mut next);
		let w = World::build(&rt, &scratch, &specs);
		out.count("world_shapes");
		if w.usable() {
			let boxes = shape_boxes(&specs);
			for ord in overlay_orders(&mut rng, specs.len(), args.n(2, 6)) {
				let rpn = format!("{},O{}", ord.iter().map(|i| format!("L{i}")).collect::<Vec<_>>().join(","), ord.len());
				run_in_world(&rt, &mut out, &mut id, &w, "C08", "S", &rpn, &boxes_arg(&boxes));
			}
			let coords = coord_list(&mut rng, &specs);
			check_overlay(&rt, &mut out, &w, specs.len(), &coords);
		}
		w.cleanup();
	}
	for wi in 0..args.n(22, 120) {
		let mut specs = gen_sources(&mut rng, &mut next, 2, 4, 60);
		// every 5th world: an mbtiles file with placeholder rows (tile_data NULL / TEXT / INTEGER / REAL: not tiles) at the first
		// or a middle position; a later source covers those coordinates
		if wi % 5 == 2 {
			let j = if rng.chance(1, 2) { 0 } else { (specs.len() - 1) / 2 };
			specs[j].kind = format!("mbx{}", wi % 50);
			specs[j].comp = 1;
			specs[j].fail.clear();
			let last = specs.len() - 1;
			if last != j && conv_flags(&specs[last].kind).is_none() && base_kind(&specs[last].kind) != "mbtiles" {
				let ks: Vec<Key> = specs[j].tiles.keys().copied().collect();
				for c in ks {
					next += 1;
					specs[last].tiles.entry(c).or_insert(next);
				}
			}
			out.count("mbx_source_with_placeholder_rows");
		}
		// every fourth world: all sources share one compression (declared compression = common one)
		if wi % 4 == 3 {
			let c = specs[0].comp;
			for s in specs.iter_mut() {
				// an mbtiles file (also the mbx variants) with format pbf is gzip by convention: its compression is not free
				if (base_kind(&s.kind) != "mbtiles" && !base_kind(&s.kind).starts_with("mbx")) || c == 1 {
					s.comp = c;
				}
			}
		}
		let k = specs.len();
		// empty (0 bytes) and 1-byte tiles at every source position (first / middle / last), with and without a later
		// source that has a tile there: an earlier source's empty tile wins
		if wi % 2 == 0 {
			let mut pool: Vec<Key> = specs.iter().flat_map(|s| s.tiles.keys().copied().collect::<Vec<_>>()).collect();
			pool.sort();
			pool.dedup();
			for n in 0..6usize {
				let c = *rng.pick(&pool);
				let j = [0, k / 2, k - 1, 0, k - 1, k / 2][n] % k;
				if base_kind(&specs[j].kind) == "mbtiles" && specs[j].tiles.keys().next().map(|q| q.0) != Some(c.0) {
					continue;
				}
				if conv_flags(&specs[j].kind).is_some() {
					continue;
				}
				specs[j].tiles.insert(c, if n % 2 == 0 { EMPTY_ID } else { ONE_BYTE_BASE + 3 });
				// sometimes make sure a LATER source has a real tile there
				if j + 1 < k && rng.chance(1, 2) && base_kind(&specs[k - 1].kind) != "mbtiles" && conv_flags(&specs[k - 1].kind).is_none() {
					next += 1;
					specs[k - 1].tiles.entry(c).or_insert(next);
				}
				out.count(&format!("empty_or_1byte_tile_in_source_position_{}", if j == 0 { "first" } else if j == k - 1 { "last" } else { "middle" }));
			}
		}
		// a LATER source whose lookups fail exactly where an EARLIER source has the tile: lookup and stream must still
		// deliver the earlier source's tile (every odd world)
		let mut first_err_case: Option<(usize, Key)> = None;
		if wi % 2 == 1 {
			let j = 1 + rng.below(k as u64 - 1) as usize;
			if conv_flags(&specs[j].kind).is_none() {
				let mut covered: Vec<Key> = vec![];
				for s0 in specs.iter().take(j) {
					covered.extend(served_tiles(s0).keys().copied());
				}
				covered.sort();
				covered.dedup();
				let mut fail: Vec<Key> = covered.iter().filter(|_| rng.chance(1, 2)).copied().collect();
				if fail.is_empty() && !covered.is_empty() {
					fail.push(covered[0]);
				}
				specs[j].fail = fail;
				out.count("faulty_later_source");
				// one coordinate where the faulty source is the FIRST that could have the tile (outside the statement)
				if let Some(c) = specs[j].tiles.keys().find(|c| !covered.contains(c)).copied() {
					first_err_case = Some((j, c));
				}
			}
		}
		let w = World::build(&rt, &scratch, &specs);
		out.count("world");
		out.count(&format!("sources_{k}"));
		for s in specs.iter() {
			out.count(&format!("kind_{}", s.kind));
		}
		if !w.usable() {
			out.count("world_unusable");
			out.notes.push(format!("world unusable: {:?}", w.open_errors.iter().flatten().map(|e| trunc(e, 120)).collect::<Vec<_>>()));
			w.cleanup();
			continue;
		}
		let mut levels = levels_of(&specs);
		let zmax = *levels.keys().max().unwrap_or(&0);
		if zmax < 31 {
			levels.entry(zmax + 1).or_default();
		}
		let coords = coord_list(&mut rng, &specs);
		let coords_s = coords.iter().map(|c| format!("{},{},{}", c.x, c.y, c.z)).collect::<Vec<_>>().join(";");
		let plain = format!("{},O{k}", (0..k).map(|i| format!("L{i}")).collect::<Vec<_>>().join(","));
		check_overlay(&rt, &mut out, &w, k, &coords);
		let mut pipes = vec![plain.clone()];
		// a filter below one source and a filter above the overlay
		let j = rng.below(k as u64) as usize;
		let inner: Vec<String> = (0..k)
			.map(|i| if i == j { format!("L{i},{}", if rng.chance(1, 2) { zoom_arg(&mut rng, &levels) } else { geo_arg(&mut rng, &levels) }) } else { format!("L{i}") })
			.collect();
		pipes.push(format!("{},O{k},{}", inner.join(","), if rng.chance(1, 2) { zoom_arg(&mut rng, &levels) } else { geo_arg(&mut rng, &levels) }));
		// coverage union over children whose levels were emptied by filters (set_empty encoding (1,1,0,0), empty
		// intersections, new_empty levels): zoom filters cutting from below / above, a bbox filter far away
		{
			let zs: Vec<u8> = levels.iter().filter(|(_, v)| !v.is_empty()).map(|(z, _)| *z).collect();
			let zc = if zs.is_empty() { 3 } else { *rng.pick(&zs) };
			let far = format!("B{}:{}:{}:{}", 170.0f64.to_bits(), (-80.0f64).to_bits(), 179.0f64.to_bits(), (-70.0f64).to_bits());
			let variants: Vec<Vec<String>> = vec![
				(0..k).map(|i| if i % 2 == 0 { format!("L{i},Z{}:n", zc) } else { format!("L{i},Zn:{}", zc.saturating_sub(1)) }).collect(),
				(0..k).map(|i| if i == 0 { format!("L{i},Z{}:n", zc.saturating_add(1).min(31)) } else { format!("L{i},{far},Zn:{zc}") }).collect(),
				(0..k).map(|i| if i == k - 1 { format!("L{i},Z9:2") } else { format!("L{i},Zn:{zc}") }).collect(),
			];
			for ch in variants {
				check_cover_union(&rt, &mut out, &w, &ch);
				let rpn = format!("{},O{k}", ch.join(","));
				run_in_world(&rt, &mut out, &mut id, &w, "C08", "P", &rpn, "");
			}
		}
		// overlay of overlays
		if k >= 3 {
			pipes.push(format!("L0,L1,O2,{},O{}", (2..k).map(|i| format!("L{i}")).collect::<Vec<_>>().join(","), k - 1));
		}
		// a source overlaid with itself (the same file opened by two readers), an overlay that ends in from_debug
		if wi % 3 == 0 {
			pipes.push("L0,L0,O2".to_string());
			pipes.push(format!("{},D1,O{}", (0..k).map(|i| format!("L{i}")).collect::<Vec<_>>().join(","), k + 1));
		}
		// too few sources
		if wi % 5 == 0 {
			pipes.push("L0,O1".to_string());
		}
		for (pi, rpn) in pipes.iter().enumerate() {
			run_in_world(&rt, &mut out, &mut id, &w, "C08", "P", rpn, "");
			run_in_world(&rt, &mut out, &mut id, &w, "C08", "G", rpn, &coords_s);
			// with a faulty later source, a filter BELOW an earlier source may take its tile away and make the faulty source the
			// first candidate (lookup Err, stream falls through: outside the statement) – model line only there
			let sop = if w.has_faults() && pi == 1 { "s" } else { "S" };
			for (z, present) in levels.iter() {
				let boxes = gen_boxes(&mut rng, *z, present, 1, args.n(12, 30));
				run_in_world(&rt, &mut out, &mut id, &w, "C08", sop, rpn, &boxes_arg(&boxes));
			}
		}
		w.cleanup();
		// the FIRST source that could have the tile errs: recorded as the code behaves today (lookup Err, the stream falls
		// through to later sources / delivers nothing) – model lines without the oracle
		if let Some((j, c)) = first_err_case {
			let mut specs2 = specs.clone();
			specs2[j].fail.push(c);
			let w2 = World::build(&rt, &scratch, &specs2);
			if w2.usable() {
				out.count("first_candidate_errs_recorded");
				run_in_world(&rt, &mut out, &mut id, &w2, "C08", "G", &plain, &format!("{},{},{}", c.1, c.2, c.0));
				let max = ((1u64 << c.0) - 1) as u32;
				let b = format!("{}:{},{},{},{}", c.0, c.1.saturating_sub(1), c.2.saturating_sub(1), (c.1 + 1).min(max), (c.2 + 1).min(max));
				run_in_world(&rt, &mut out, &mut id, &w2, "C08", "s", &plain, &b);
			}
			w2.cleanup();
		}
		// mixed tile formats: the build must be an error
		if wi % 6 == 0 {
			let mut specs2 = specs.clone();
			specs2[1].fmt = 2;
			specs2[1].comp = 0;
			if base_kind(&specs2[1].kind) == "mbtiles" || base_kind(&specs2[0].kind) == "mbtiles" {
				specs2[1].kind = "mem".into();
			}
			let w2 = World::build(&rt, &scratch, &specs2);
			if w2.usable() {
				out.count("mixed_formats");
				run_in_world(&rt, &mut out, &mut id, &w2, "C08", "P", &plain, "");
			}
			w2.cleanup();
		}
	}
	out.notes.push("checklist: (1) 32x32 sub-box and 256-block borders: boxes sampled around tiles incl. multiples of 256 +-1; the systematic 31/32/33/63/64/65 widths at offsets 0/1/31 mod 32 run in C02 part C over overlays; (2) a LATER source that errs where an earlier source has the tile must not matter (FaultySource at non-first positions, fail sets inside what earlier sources cover: lookup and stream deliver the earlier tile); when the FIRST source that could have the tile errs the statement says nothing – recorded as the code behaves today (lookup Err, stream falls through) as model lines without the oracle; from_vectortiles_merged is left out (every source contributes); (3) payload classes via tsrc styles (duplicates, 999/1000/1001, two-layer, 500 KB repetitive); (4) filters below/above, overlay of overlays, overlay ending in from_debug; (5) a source overlaid with itself (same file, two readers), every 4th box streamed twice; (6) straggler sources (reverse completion order), concurrent streams on one operation; (8) levels up to 31 via gen_coords; (9) sources written by the independent versatiles encoder (vtx) and behind TilesConvertReader; (10) stream vs lookups, parameters vs delivered tiles, declared compression vs decodability, coverage union".to_string());
	let _ = std::fs::remove_dir_all(&scratch);
	out.finish();
}
