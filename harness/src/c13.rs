//! C13 – concurrent reads from one opened container return what sequential reads return.
//!
//! Three parts (see DESIGN §6 C13):
//! 1. `C13 iso …`   – checked tie: the harness re-executes itself under `strace -ff` as a child that
//!    performs `read_range` calls of the real `DataReaderFile` from several threads; the per-call
//!    syscall programs on the data file's descriptors are parsed and sent to the Lean model, which
//!    normalises them, evaluates `isolated`, compares them with the modelled program
//!    (`progReadRange`) and computes the bytes the program returns alone.
//! 2. `C13 sched …` – kernel model vs real kernel: programs in reference form and a schedule are
//!    executed one syscall at a time with real `dup`/`lseek`/`read`/`pread`/`close` on a real file
//!    (single thread, so the interleaving is exactly the schedule) and by the model.
//! 3. stress + direct oracle (no model line): one `DataReaderFile` / versatiles / pmtiles / tar
//!    reader shared by 2–16 OS threads and by tasks of a 16-worker tokio runtime; every result must
//!    equal the sequential result.  Replay line: `C13 stress <target> <exec> <threads> <calls> <mode> <seed>`.
use crate::common::*;
use crate::indep_formats;
use crate::memsrc::MemSource;
use serde_json::{json, Value};
use std::collections::HashMap;
use std::ffi::CString;
use std::path::{Path, PathBuf};
use std::sync::Arc;
use versatiles_container::{get_reader, write_to_filename};
use versatiles_core::io::{DataReaderFile, DataReaderTrait};
use versatiles_core::types::*;

/// same pattern as `VtModel.FileOffset.patByte`
pub fn pat_byte(p: u64) -> u8 {
	((p * 31 + p / 256 * 7 + p / 65536 * 13 + 5) % 256) as u8
}
fn pat_file(len: u64) -> Vec<u8> {
	(0..len).map(pat_byte).collect()
}

// ───────────────────────────── part 1: strace tie ─────────────────────────────

const TRACE_NAME: &str = "c13_trace_data.bin";
const TRACE_LEN: u64 = 40_000;
const MARK_BEGIN: i32 = 1_000_000;
const MARK_END: i32 = 2_000_000;

fn trace_requests(seed: u64, n: usize) -> Vec<(u64, u64)> {
	let mut rng = Rng::new(seed ^ 0xC13);
	let mut v = vec![(0, 1), (TRACE_LEN - 1, 1), (0, TRACE_LEN), (17, 0), (TRACE_LEN, 0), (TRACE_LEN - 3, 8), (TRACE_LEN, 4), (TRACE_LEN + 100, 2)];
	while v.len() < n {
		let len = match rng.below(10) {
			0 => rng.range(1, 4),
			1..=6 => rng.range(1, 64),
			7..=8 => rng.range(65, 5000),
			_ => rng.range(1, 30000),
		};
		let off = if rng.chance(1, 12) { rng.range(TRACE_LEN - 40, TRACE_LEN + 10) } else { rng.below(TRACE_LEN - 1) };
		v.push((off, len));
	}
	v.truncate(n);
	v
}

/// traced child: `vth C13 --out DIR --seed S trace-child <ncalls> <nthreads>`
fn trace_child(args: &Args) {
	let ncalls: usize = args.extra[1].parse().unwrap();
	let nthreads: usize = args.extra[2].parse().unwrap();
	let path = args.out.join(TRACE_NAME);
	let reader: Arc<Box<DataReaderFile>> = Arc::new(DataReaderFile::open(&path).unwrap());
	let reqs = Arc::new(trace_requests(args.seed, ncalls));
	let mut handles = vec![];
	for t in 0..nthreads {
		let reader = reader.clone();
		let reqs = reqs.clone();
		handles.push(std::thread::spawn(move || {
			let mut res = vec![];
			let mut id = t;
			while id < reqs.len() {
				let (off, n) = reqs[id];
				unsafe { libc::lseek(MARK_BEGIN + id as i32, 0, libc::SEEK_CUR) };
				let r = futures::executor::block_on(reader.read_range(&ByteRange::new(off, n)));
				unsafe { libc::lseek(MARK_END + id as i32, 0, libc::SEEK_CUR) };
				res.push((id, r.ok().map(|b| b.into_vec())));
				id += nthreads;
			}
			res
		}));
	}
	let mut lines: Vec<(usize, String)> = vec![];
	for h in handles {
		for (id, r) in h.join().unwrap() {
			lines.push((id, match r {
				Some(b) => hex(&b),
				None => "err".into(),
			}));
		}
	}
	lines.sort();
	let txt: String = lines.iter().map(|(id, r)| format!("{id} {r}\n")).collect();
	std::fs::write(args.out.join("trace_results.txt"), txt).unwrap();
}

struct TraceLine {
	name: String,
	args: String,
	ret: i64,
}

fn parse_strace_line(l: &str) -> Option<TraceLine> {
	let l = l.trim();
	let p = l.find('(')?;
	let name = l[..p].trim().to_string();
	if !name.chars().all(|c| c.is_ascii_alphanumeric() || c == '_') {
		return None;
	}
	// `name(args)<spaces>= ret …`
	let eq = l.rfind(" = ")?;
	let left = l[..eq].trim_end();
	if !left.ends_with(')') || left.len() - 1 < p {
		return None;
	}
	let args = left[p + 1..left.len() - 1].to_string();
	let ret: i64 = l[eq + 3..].split_whitespace().next()?.parse().ok()?;
	Some(TraceLine { name, args, ret })
}

fn first_int(s: &str) -> Option<i64> {
	s.split(',').next()?.trim().parse().ok()
}
fn last_ints(s: &str, k: usize) -> Option<Vec<i64>> {
	let toks: Vec<&str> = s.rsplitn(k + 1, ", ").collect();
	if toks.len() < k + 1 {
		return None;
	}
	let mut v: Vec<i64> = vec![];
	for t in toks[..k].iter().rev() {
		v.push(t.trim().parse().ok()?);
	}
	Some(v)
}

/// per-call raw programs from the per-thread strace files; returns (sfd, id → raw ops)
fn parse_trace(dir: &Path, prefix: &str) -> Result<(i64, HashMap<usize, Vec<String>>), String> {
	let mut files: Vec<PathBuf> = std::fs::read_dir(dir)
		.map_err(|e| e.to_string())?
		.filter_map(|e| e.ok().map(|e| e.path()))
		.filter(|p| p.file_name().and_then(|n| n.to_str()).is_some_and(|n| n.starts_with(prefix)))
		.collect();
	files.sort();
	if files.is_empty() {
		return Err("strace produced no output files".into());
	}
	let mut sfd: Option<i64> = None;
	let texts: Vec<String> = files.iter().map(|f| std::fs::read_to_string(f).unwrap_or_default()).collect();
	for t in &texts {
		for l in t.lines() {
			if let Some(tl) = parse_strace_line(l) {
				if tl.name == "openat" && tl.args.contains(TRACE_NAME) && tl.ret >= 0 && sfd.is_none() {
					sfd = Some(tl.ret);
				}
			}
		}
	}
	let sfd = sfd.ok_or("the data file's openat was not found in the trace")?;
	let mut progs: HashMap<usize, Vec<String>> = HashMap::new();
	for t in &texts {
		let mut cur: Option<usize> = None;
		let mut fds: Vec<i64> = vec![]; // descriptors on the data file created inside the current call
		for l in t.lines() {
			let Some(tl) = parse_strace_line(l) else { continue };
			let fd0 = first_int(&tl.args);
			if tl.name == "lseek" {
				if let Some(fd) = fd0 {
					if fd >= MARK_END as i64 {
						cur = None;
						continue;
					} else if fd >= MARK_BEGIN as i64 {
						let id = (fd - MARK_BEGIN as i64) as usize;
						cur = Some(id);
						fds.clear();
						progs.entry(id).or_default();
						continue;
					}
				}
			}
			let Some(id) = cur else { continue };
			let ops = progs.get_mut(&id).unwrap();
			let on_data = |fd: i64, fds: &Vec<i64>| fd == sfd || fds.contains(&fd);
			match tl.name.as_str() {
				"openat" if tl.args.contains(TRACE_NAME) && tl.ret >= 0 => {
					fds.push(tl.ret);
					ops.push(format!("o:{}", tl.ret));
				}
				"dup" | "dup2" | "dup3" => {
					if let Some(fd) = fd0 {
						if on_data(fd, &fds) && tl.ret >= 0 {
							fds.push(tl.ret);
							ops.push(format!("d:{fd}:{}", tl.ret));
						}
					}
				}
				"fcntl" => {
					if let Some(fd) = fd0 {
						if on_data(fd, &fds) && tl.args.contains("F_DUPFD") && tl.ret >= 0 {
							fds.push(tl.ret);
							ops.push(format!("d:{fd}:{}", tl.ret));
						}
					}
				}
				"lseek" => {
					if let Some(fd) = fd0 {
						if on_data(fd, &fds) {
							// SEEK_SET: the requested offset; other whence values: the resulting offset
							let off = if tl.args.contains("SEEK_SET") { tl.args.split(", ").nth(1).and_then(|s| s.parse::<i64>().ok()).unwrap_or(tl.ret) } else { tl.ret };
							ops.push(format!("l:{fd}:{}", off.max(0)));
						}
					}
				}
				"read" => {
					if let Some(fd) = fd0 {
						if on_data(fd, &fds) {
							let n = last_ints(&tl.args, 1).map(|v| v[0]).unwrap_or(0);
							ops.push(format!("r:{fd}:{n}"));
						}
					}
				}
				"pread64" => {
					if let Some(fd) = fd0 {
						if on_data(fd, &fds) {
							let v = last_ints(&tl.args, 2).unwrap_or(vec![0, 0]);
							ops.push(format!("p:{fd}:{}:{}", v[0], v[1]));
						}
					}
				}
				"close" => {
					if let Some(fd) = fd0 {
						if on_data(fd, &fds) {
							fds.retain(|x| *x != fd);
							ops.push(format!("c:{fd}"));
						}
					}
				}
				_ => {}
			}
		}
	}
	Ok((sfd, progs))
}

/// the program the model assumes for `read_range(off, n)` (mirrors `progReadRange`), in the
/// model's output syntax
fn modelled_prog(len: u64, off: u64, n: u64) -> String {
	if n == 0 || off + n > len {
		"-".into()
	} else {
		format!("p.s.{off}.{n}")
	}
}

fn strace_tie(args: &Args, out: &mut Out, ncalls: usize, nthreads: usize) {
	let data = pat_file(TRACE_LEN);
	std::fs::write(args.out.join(TRACE_NAME), &data).unwrap();
	let exe = std::env::current_exe().unwrap();
	let prefix = "c13_strace";
	let st = std::process::Command::new("strace")
		.arg("-ff")
		.arg("-s")
		.arg("0")
		.arg("-e")
		.arg("trace=read,pread64,lseek,dup,dup2,dup3,fcntl,close,openat")
		.arg("-o")
		.arg(args.out.join(prefix))
		.arg(&exe)
		.arg("C13")
		.arg("--out")
		.arg(&args.out)
		.arg("--seed")
		.arg(args.seed.to_string())
		.arg("trace-child")
		.arg(ncalls.to_string())
		.arg(nthreads.to_string())
		.stdout(std::process::Stdio::null())
		.stderr(std::process::Stdio::piped())
		.output();
	let fallback = |out: &mut Out, why: String| {
		out.notes.push(format!("strace tie NOT checked in this run ({why}); only the kernel-model schedules and the stress correspondence ran"));
		out.count("strace_unavailable");
	};
	let st = match st {
		Ok(s) => s,
		Err(e) => return fallback(out, format!("cannot start strace: {e}")),
	};
	if !st.status.success() {
		return fallback(out, format!("strace/child exited with {:?}: {}", st.status.code(), trunc(&String::from_utf8_lossy(&st.stderr), 200)));
	}
	let results = match std::fs::read_to_string(args.out.join("trace_results.txt")) {
		Ok(r) => r,
		Err(e) => return fallback(out, format!("child wrote no results: {e}")),
	};
	let (sfd, progs) = match parse_trace(&args.out, prefix) {
		Ok(x) => x,
		Err(e) => return fallback(out, e),
	};
	let reqs = trace_requests(args.seed, ncalls);
	let mut n_lines = 0;
	for l in results.lines() {
		let mut it = l.split(' ');
		let id: usize = it.next().unwrap().parse().unwrap();
		let res = it.next().unwrap();
		let (off, n) = reqs[id];
		let Some(raw) = progs.get(&id) else {
			return fallback(out, format!("call {id} not found in the trace"));
		};
		let rawtxt = if raw.is_empty() { "-".to_string() } else { raw.join(",") };
		let case = format!("C13 iso {sfd} {TRACE_LEN} {rawtxt} {off} {n}");
		let imp = format!("{} iso=true modelled=true out={res}", modelled_prog(TRACE_LEN, off, n));
		out.case(&case, &imp, n > 0);
		n_lines += 1;
		out.count(if n == 0 { "trace_call_empty" } else if off + n <= TRACE_LEN { "trace_call_inside" } else { "trace_call_beyond_eof" });
		// direct oracle: the call returns the bytes of its range (or fails when the range is not in the file)
		let expect = if off + n <= TRACE_LEN { hex(&data[off as usize..(off + n) as usize]) } else { "err".into() };
		out.oracle(res == expect, "C13 wrong-bytes: traced read_range returned other bytes than its range", json!({"kind": "wrong-bytes", "target": "DataReaderFile", "exec": "traced-threads"}), json!({"case": case, "returned": trunc(res, 200), "expected": trunc(&expect, 200), "threads": nthreads}));
	}
	out.extra.insert("strace_tie".into(), json!({"calls_traced": n_lines, "threads": nthreads, "reader_fd": sfd}));
	out.notes.push(format!("strace tie checked: {n_lines} read_range calls from {nthreads} threads traced (strace -ff), programs normalised and judged by the Lean model"));
	for e in std::fs::read_dir(&args.out).unwrap().flatten() {
		if e.file_name().to_string_lossy().starts_with(prefix) {
			let _ = std::fs::remove_file(e.path());
		}
	}
}

// ───────────────────────────── part 2: kernel model vs real kernel ─────────────────────────────

#[derive(Clone, Copy, Debug, PartialEq)]
enum Ref {
	Shared,
	Alias(usize),
	Own(usize),
}
#[derive(Clone, Debug)]
enum Sys {
	Dup(Ref),
	Open,
	Lseek(Ref, u64),
	Read(Ref, u64),
	Pread(Ref, u64, u64),
	Close(Ref),
}
fn show_ref(r: &Ref) -> String {
	match r {
		Ref::Shared => "s".into(),
		Ref::Alias(k) => format!("a{k}"),
		Ref::Own(k) => format!("o{k}"),
	}
}
fn show_sys(s: &Sys) -> String {
	match s {
		Sys::Dup(r) => format!("d.{}", show_ref(r)),
		Sys::Open => "o".into(),
		Sys::Lseek(r, o) => format!("l.{}.{o}", show_ref(r)),
		Sys::Read(r, n) => format!("r.{}.{n}", show_ref(r)),
		Sys::Pread(r, o, n) => format!("p.{}.{o}.{n}", show_ref(r)),
		Sys::Close(r) => format!("c.{}", show_ref(r)),
	}
}
fn show_prog(p: &[Sys]) -> String {
	if p.is_empty() {
		"-".into()
	} else {
		p.iter().map(show_sys).collect::<Vec<_>>().join(",")
	}
}
fn parse_ref(s: &str) -> Ref {
	match &s[..1] {
		"s" => Ref::Shared,
		"a" => Ref::Alias(s[1..].parse().unwrap()),
		_ => Ref::Own(s[1..].parse().unwrap()),
	}
}
fn parse_prog(s: &str) -> Vec<Sys> {
	if s == "-" {
		return vec![];
	}
	s.split(',')
		.map(|t| {
			let p: Vec<&str> = t.split('.').collect();
			match p[0] {
				"d" => Sys::Dup(parse_ref(p[1])),
				"o" => Sys::Open,
				"l" => Sys::Lseek(parse_ref(p[1]), p[2].parse().unwrap()),
				"r" => Sys::Read(parse_ref(p[1]), p[2].parse().unwrap()),
				"p" => Sys::Pread(parse_ref(p[1]), p[2].parse().unwrap(), p[3].parse().unwrap()),
				_ => Sys::Close(parse_ref(p[1])),
			}
		})
		.collect()
}
/// independent re-statement of the isolation rule
fn isolated(p: &[Sys]) -> bool {
	p.iter().all(|s| match s {
		Sys::Lseek(r, _) | Sys::Read(r, _) => matches!(r, Ref::Own(_)),
		Sys::Close(r) => *r != Ref::Shared,
		_ => true,
	})
}

struct Caller {
	alias: Vec<Option<i32>>,
	own: Vec<Option<i32>>,
	out: Vec<Option<Vec<u8>>>,
	pc: usize,
}
impl Caller {
	fn new() -> Self {
		Caller { alias: vec![], own: vec![], out: vec![], pc: 0 }
	}
	fn fd(&self, sfd: i32, r: &Ref) -> Option<i32> {
		match r {
			Ref::Shared => Some(sfd),
			Ref::Alias(k) => self.alias.get(*k).copied().flatten(),
			Ref::Own(k) => self.own.get(*k).copied().flatten(),
		}
	}
	/// one real syscall
	fn step(&mut self, sfd: i32, path: &CString, s: &Sys) {
		unsafe {
			match s {
				Sys::Dup(r) => {
					let new = self.fd(sfd, r).map(|fd| libc::fcntl(fd, libc::F_DUPFD_CLOEXEC, 3)).filter(|x| *x >= 0);
					match r {
						Ref::Own(_) => self.own.push(new),
						_ => self.alias.push(new),
					}
				}
				Sys::Open => {
					let fd = libc::open(path.as_ptr(), libc::O_RDONLY | libc::O_CLOEXEC);
					self.own.push(if fd >= 0 { Some(fd) } else { None });
				}
				Sys::Lseek(r, o) => {
					if let Some(fd) = self.fd(sfd, r) {
						libc::lseek(fd, *o as i64, libc::SEEK_SET);
					}
				}
				Sys::Read(r, n) => match self.fd(sfd, r) {
					None => self.out.push(None),
					Some(fd) => {
						let mut buf = vec![0u8; *n as usize];
						let k = libc::read(fd, buf.as_mut_ptr() as *mut libc::c_void, *n as usize);
						if k < 0 {
							self.out.push(None)
						} else {
							buf.truncate(k as usize);
							self.out.push(Some(buf))
						}
					}
				},
				Sys::Pread(r, o, n) => match self.fd(sfd, r) {
					None => self.out.push(None),
					Some(fd) => {
						let mut buf = vec![0u8; *n as usize];
						let k = libc::pread(fd, buf.as_mut_ptr() as *mut libc::c_void, *n as usize, *o as i64);
						if k < 0 {
							self.out.push(None)
						} else {
							buf.truncate(k as usize);
							self.out.push(Some(buf))
						}
					}
				},
				Sys::Close(r) => {
					if let Some(fd) = self.fd(sfd, r) {
						if *r != Ref::Shared {
							libc::close(fd);
						}
					}
					match r {
						Ref::Alias(k) if *k < self.alias.len() => self.alias[*k] = None,
						Ref::Own(k) if *k < self.own.len() => self.own[*k] = None,
						_ => {}
					}
				}
			}
		}
	}
	fn cleanup(&mut self) {
		for fd in self.alias.iter().chain(self.own.iter()).flatten() {
			unsafe { libc::close(*fd) };
		}
	}
}

fn show_out(o: &[Option<Vec<u8>>]) -> String {
	if o.is_empty() {
		"none".into()
	} else {
		o.iter().map(|x| x.as_ref().map_or("ebadf".to_string(), |b| hex(b))).collect::<Vec<_>>().join("+")
	}
}

/// executes the schedule with real syscalls; returns per-caller outputs
fn run_real(path: &CString, progs: &[Vec<Sys>], sched: &[usize]) -> Vec<Vec<Option<Vec<u8>>>> {
	let sfd = unsafe { libc::open(path.as_ptr(), libc::O_RDONLY | libc::O_CLOEXEC) };
	assert!(sfd >= 0);
	let mut cs: Vec<Caller> = progs.iter().map(|_| Caller::new()).collect();
	for &c in sched {
		if c < progs.len() && cs[c].pc < progs[c].len() {
			let pc = cs[c].pc;
			cs[c].step(sfd, path, &progs[c][pc]);
			cs[c].pc += 1;
		}
	}
	for c in cs.iter_mut() {
		c.cleanup();
	}
	unsafe { libc::close(sfd) };
	cs.into_iter().map(|c| c.out).collect()
}

fn emit_sched(out: &mut Out, dir: &Path, len: u64, progs: &[Vec<Sys>], sched: &[usize]) {
	let path = dir.join(format!("c13_sched_{len}.bin"));
	if !path.exists() {
		std::fs::write(&path, pat_file(len)).unwrap();
	}
	let cpath = CString::new(path.to_str().unwrap()).unwrap();
	let outs = run_real(&cpath, progs, sched);
	// sequential results on the real kernel: every call alone on a freshly opened reader
	let mut seq = true;
	for (c, p) in progs.iter().enumerate() {
		let mut solo: Vec<Vec<Sys>> = vec![vec![]; progs.len()];
		solo[c] = p.clone();
		let so = run_real(&cpath, &solo, &vec![c; p.len()]);
		if so[c] != outs[c] {
			seq = false;
		}
	}
	let all_iso = progs.iter().all(|p| isolated(p));
	let complete = progs.iter().enumerate().all(|(c, p)| sched.iter().filter(|x| **x == c).count() >= p.len());
	let line = format!(
		"C13 sched {len} {} {}",
		progs.iter().map(|p| show_prog(p)).collect::<Vec<_>>().join(";"),
		if sched.is_empty() { "-".into() } else { sched.iter().map(|c| c.to_string()).collect::<Vec<_>>().join(",") }
	);
	let imp = format!("{}|seq={seq}", progs.iter().zip(outs.iter()).map(|(p, o)| format!("iso={}:{}", isolated(p), show_out(o))).collect::<Vec<_>>().join(";"));
	// non-trivial: at least two calls whose steps really alternate
	let switches = sched.windows(2).filter(|w| w[0] != w[1]).count();
	let nontrivial = progs.iter().filter(|p| !p.is_empty()).count() >= 2 && switches >= 2;
	out.case(&line, &imp, nontrivial);
	out.count(if all_iso { "sched_all_isolated" } else { "sched_some_not_isolated" });
	if !seq {
		out.count("sched_real_kernel_race_reproduced");
	}
	// oracle (theorem `concurrent_eq_sequential` tested on the real kernel): isolated programs,
	// complete schedule ⇒ every call returns what it returns alone
	if all_iso && complete {
		out.oracle(seq, "C13 kernel-isolated: isolated programs interfered on the real kernel", json!({"kind": "kernel-isolated"}), json!({"case": line, "impl": imp}));
	}
}

fn gen_prog(rng: &mut Rng, len: u64, iso_only: bool) -> Vec<Sys> {
	let mut p = vec![];
	let mut alias: Vec<bool> = vec![]; // open?
	let mut own: Vec<bool> = vec![];
	let steps = rng.range(1, 7);
	for _ in 0..steps {
		let pick_ref = |rng: &mut Rng, alias: &Vec<bool>, own: &Vec<bool>, need_own: bool| -> Option<Ref> {
			let mut c: Vec<Ref> = vec![];
			if !need_own {
				c.push(Ref::Shared);
				c.extend(alias.iter().enumerate().filter(|(_, o)| **o).map(|(k, _)| Ref::Alias(k)));
			}
			c.extend(own.iter().enumerate().filter(|(_, o)| **o).map(|(k, _)| Ref::Own(k)));
			if c.is_empty() {
				None
			} else {
				Some(*rng.pick(&c))
			}
		};
		let off = rng.below(len + 4);
		let n = rng.range(0, 12);
		match rng.below(10) {
			0..=1 => {
				if let Some(r) = pick_ref(rng, &alias, &own, false) {
					match r {
						Ref::Own(_) => own.push(true),
						_ => alias.push(true),
					}
					p.push(Sys::Dup(r));
				}
			}
			2 => {
				own.push(true);
				p.push(Sys::Open);
			}
			3..=4 => {
				if let Some(r) = pick_ref(rng, &alias, &own, iso_only) {
					p.push(Sys::Lseek(r, off));
				}
			}
			5..=6 => {
				if let Some(r) = pick_ref(rng, &alias, &own, iso_only) {
					p.push(Sys::Read(r, n));
				}
			}
			7..=8 => {
				if let Some(r) = pick_ref(rng, &alias, &own, false) {
					p.push(Sys::Pread(r, off, n));
				}
			}
			_ => {
				if let Some(r) = pick_ref(rng, &alias, &own, false) {
					match r {
						Ref::Shared => {}
						Ref::Alias(k) => {
							alias[k] = false;
							p.push(Sys::Close(r));
						}
						Ref::Own(k) => {
							own[k] = false;
							p.push(Sys::Close(r));
						}
					}
				}
			}
		}
	}
	p
}

fn dup_seek_read(off: u64, n: u64) -> Vec<Sys> {
	vec![Sys::Dup(Ref::Shared), Sys::Lseek(Ref::Alias(0), off), Sys::Read(Ref::Alias(0), n), Sys::Close(Ref::Alias(0))]
}

fn random_schedule(rng: &mut Rng, progs: &[Vec<Sys>]) -> Vec<usize> {
	let mut left: Vec<usize> = progs.iter().map(|p| p.len()).collect();
	let mut s = vec![];
	while left.iter().any(|x| *x > 0) {
		let c = rng.below(progs.len() as u64) as usize;
		if left[c] > 0 {
			left[c] -= 1;
			s.push(c);
		} else if rng.chance(1, 6) {
			s.push(c); // a finished call being scheduled again is a no-op
		}
	}
	s
}

fn kernel_model_cases(args: &Args, out: &mut Out, rng: &mut Rng) {
	let dir = args.out.clone();
	// the model's witness (theorem dup_seek_read_race) on the real kernel, and the same requests with pread
	for (a, b, n) in [(0u64, 8u64, 4u64), (100, 3, 7), (250, 254, 4), (5, 5, 3)] {
		let progs = vec![dup_seek_read(a, n), dup_seek_read(b, n)];
		emit_sched(out, &dir, 256, &progs, &[0, 0, 1, 1, 0, 0, 1, 1]);
		emit_sched(out, &dir, 256, &progs, &[0, 0, 0, 0, 1, 1, 1, 1]);
		let progs = vec![vec![Sys::Pread(Ref::Shared, a, n)], vec![Sys::Pread(Ref::Shared, b, n)]];
		emit_sched(out, &dir, 256, &progs, &[1, 0]);
	}
	let n = args.n(1500, 20000);
	for i in 0..n {
		let len = *rng.pick(&[1u64, 16, 256, 300, 1000]);
		let callers = rng.range(1, 5) as usize;
		let iso_only = i % 3 != 0;
		let progs: Vec<Vec<Sys>> = (0..callers)
			.map(|_| match rng.below(8) {
				0 if !iso_only => dup_seek_read(rng.below(len), rng.range(1, 9)),
				1 => {
					let off = rng.below(len + 3);
					let k = rng.range(0, 9);
					// the pread loop of read_exact_at, also for ranges that end behind the file
					if k > 0 && off < len && off + k > len {
						vec![Sys::Pread(Ref::Shared, off, k), Sys::Pread(Ref::Shared, len, off + k - len)]
					} else {
						parse_prog(&modelled_prog(len, off, k))
					}
				}
				_ => gen_prog(rng, len, iso_only),
			})
			.collect();
		let sched = random_schedule(rng, &progs);
		emit_sched(out, &dir, len, &progs, &sched);
	}
}

// ───────────────────────────── part 3: stress + direct oracle ─────────────────────────────

#[derive(Clone, Debug)]
struct StressCfg {
	target: String, // file | versatiles | pmtiles | tar
	exec: String,   // threads | tokio
	threads: usize,
	calls: usize, // per thread/task
	mode: String, // disjoint | overlap
	seed: u64,
}
impl StressCfg {
	fn line(&self) -> String {
		format!("C13 stress {} {} {} {} {} {}", self.target, self.exec, self.threads, self.calls, self.mode, self.seed)
	}
}

#[derive(Debug)]
struct Fail {
	kind: &'static str, // wrong-bytes | error | panic
	detail: Value,
}

const STRESS_LEN: u64 = 5 * 1_048_576 + 123;
const MIB: u64 = 1_048_576;

fn gen_req(rng: &mut Rng, t: usize, threads: usize, mode: &str) -> (u64, u64) {
	if mode == "large" {
		// reads around and above 1 MiB (a size at which an implementation may switch to another path)
		let n = match rng.below(8) {
			0 => MIB - 1,
			1 => MIB,
			2 => MIB + 1,
			3 => rng.range(1, 64),
			_ => rng.range(MIB, 3 * MIB),
		};
		return (rng.below(STRESS_LEN - n + 1), n);
	}
	let n = match rng.below(100) {
		0 => rng.range(1, 200_000),
		1..=9 => rng.range(65, 8192),
		10..=12 => 0,
		_ => rng.range(1, 64),
	};
	let (lo, hi) = if mode == "disjoint" {
		let r = STRESS_LEN / threads as u64;
		(t as u64 * r, (t as u64 + 1) * r)
	} else {
		(0, STRESS_LEN)
	};
	let n = n.min(hi - lo);
	(lo + rng.below(hi - lo - n + 1), n)
}

fn check_file_result(data: &[u8], off: u64, n: u64, r: anyhow::Result<Blob>, t: usize) -> Option<Fail> {
	match r {
		Err(e) => Some(Fail { kind: "error", detail: json!({"thread": t, "offset": off, "length": n, "error": trunc(&e.to_string(), 120)}) }),
		Ok(b) => {
			let want = &data[off as usize..(off + n) as usize];
			if b.as_slice() == want {
				None
			} else {
				// whose bytes are these? look for the position the returned bytes come from
				let got = b.as_slice();
				let from = if got.len() >= 4 { (0..data.len().saturating_sub(got.len())).find(|p| &data[*p..*p + got.len()] == got) } else { None };
				Some(Fail {
					kind: "wrong-bytes",
					detail: json!({"thread": t, "offset": off, "length": n, "returned_len": got.len(), "returned": trunc(&hex(&got[..got.len().min(16)]), 40), "expected": trunc(&hex(&want[..want.len().min(16)]), 40), "returned_bytes_are_at_offset": from}),
				})
			}
		}
	}
}

fn stress_file(cfg: &StressCfg, path: &Path, data: &Arc<Vec<u8>>) -> (u64, Vec<Fail>, Vec<(u64, u64)>) {
	let reader: Arc<Box<DataReaderFile>> = Arc::new(DataReaderFile::open(path).unwrap());
	let mut fails = vec![];
	let mut total = 0u64;
	let mut sample = vec![];
	if cfg.exec == "threads" {
		let barrier = Arc::new(std::sync::Barrier::new(cfg.threads));
		let hs: Vec<_> = (0..cfg.threads)
			.map(|t| {
				let reader = reader.clone();
				let data = data.clone();
				let cfg = cfg.clone();
				let barrier = barrier.clone();
				std::thread::spawn(move || {
					let mut rng = Rng::new(cfg.seed.wrapping_mul(1000).wrapping_add(t as u64));
					let mut fails = vec![];
					let mut sample = vec![];
					barrier.wait();
					for i in 0..cfg.calls {
						let (off, n) = gen_req(&mut rng, t, cfg.threads, &cfg.mode);
						let r = futures::executor::block_on(reader.read_range(&ByteRange::new(off, n)));
						if let Some(f) = check_file_result(&data, off, n, r, t) {
							if fails.len() < 4 {
								fails.push(f);
							}
						}
						if i < 200 {
							sample.push((off, n));
						}
					}
					(cfg.calls as u64, fails, sample)
				})
			})
			.collect();
		for h in hs {
			match h.join() {
				Ok((c, f, s)) => {
					total += c;
					fails.extend(f);
					sample.extend(s);
				}
				Err(_) => fails.push(Fail { kind: "panic", detail: json!({}) }),
			}
		}
	} else {
		let rt = tokio::runtime::Builder::new_multi_thread().worker_threads(16).enable_all().build().unwrap();
		let res = rt.block_on(async {
			let hs: Vec<_> = (0..cfg.threads)
				.map(|t| {
					let reader = reader.clone();
					let data = data.clone();
					let cfg = cfg.clone();
					tokio::spawn(async move {
						let mut rng = Rng::new(cfg.seed.wrapping_mul(1000).wrapping_add(t as u64));
						let mut fails = vec![];
						let mut sample = vec![];
						for i in 0..cfg.calls {
							let (off, n) = gen_req(&mut rng, t, cfg.threads, &cfg.mode);
							let r = reader.read_range(&ByteRange::new(off, n)).await;
							if let Some(f) = check_file_result(&data, off, n, r, t) {
								if fails.len() < 4 {
									fails.push(f);
								}
							}
							if i < 200 {
								sample.push((off, n));
							}
							if i % 64 == 0 {
								tokio::task::yield_now().await;
							}
						}
						(cfg.calls as u64, fails, sample)
					})
				})
				.collect();
			let mut v = vec![];
			for h in hs {
				v.push(h.await);
			}
			v
		});
		for r in res {
			match r {
				Ok((c, f, s)) => {
					total += c;
					fails.extend(f);
					sample.extend(s);
				}
				Err(_) => fails.push(Fail { kind: "panic", detail: json!({}) }),
			}
		}
	}
	(total, fails, sample)
}

/// tile payload that identifies its coordinate
fn tile_bytes(c: &TileCoord3) -> Vec<u8> {
	let mut rng = Rng::new(((c.z as u64) << 56) ^ ((c.x as u64) << 28) ^ c.y as u64);
	let len = 20 + rng.below(1500) as usize;
	let mut v = format!("tile {}/{}/{} ", c.z, c.x, c.y).into_bytes();
	while v.len() < len {
		v.push(rng.next() as u8);
	}
	v
}

fn stress_source() -> MemSource {
	let mut tiles = vec![];
	for z in 0..=4u8 {
		for x in 0..(1u32 << z) {
			for y in 0..(1u32 << z) {
				let c = TileCoord3::new(x, y, z).unwrap();
				tiles.push((c, Blob::from(tile_bytes(&c))));
			}
		}
	}
	// several 256-blocks at zoom 10 so that the versatiles index cache sees many keys
	for i in 0..600u32 {
		let c = TileCoord3::new((i * 37) % 1024, (i * 91) % 1024, 10).unwrap();
		tiles.push((c, Blob::from(tile_bytes(&c))));
	}
	MemSource::new("c13", TileFormat::PBF, TileCompression::Uncompressed, tiles)
}

type Baseline = Arc<Vec<(TileCoord3, Option<Vec<u8>>)>>;
/// indices into the baseline, grouped by the leaf directory the tile lives in (pmtiles with leaves)
type Groups = Arc<Vec<Vec<usize>>>;

/// mode `leaves`: a caller mostly stays inside "its" leaf directory (neighbouring tiles), different
/// callers use different leaves; otherwise uniformly over all probes (present and absent)
fn pick_idx(rng: &mut Rng, t: usize, nb: u64, groups: &Groups, mode: &str) -> usize {
	if mode == "leaves" && !groups.is_empty() && !rng.chance(1, 8) {
		let g = &groups[t % groups.len()];
		g[rng.below(g.len() as u64) as usize]
	} else {
		rng.below(nb) as usize
	}
}

fn stress_container(cfg: &StressCfg, reader: Arc<Box<dyn TilesReaderTrait>>, base: &Baseline, groups: &Groups) -> (u64, Vec<Fail>, Vec<(u64, u64)>) {
	let check = |t: usize, i: usize, r: anyhow::Result<Option<Blob>>, base: &Baseline| -> Option<Fail> {
		let (c, want) = &base[i];
		match r {
			Err(e) => Some(Fail { kind: "error", detail: json!({"thread": t, "coord": format!("{}/{}/{}", c.z, c.x, c.y), "error": trunc(&e.to_string(), 120)}) }),
			Ok(got) => {
				let got = got.map(|b| b.into_vec());
				if &got == want {
					None
				} else {
					Some(Fail {
						kind: "wrong-bytes",
						detail: json!({"thread": t, "coord": format!("{}/{}/{}", c.z, c.x, c.y), "returned": got.map(|g| String::from_utf8_lossy(&g[..g.len().min(16)]).to_string()), "expected_len": want.as_ref().map(|w| w.len())}),
					})
				}
			}
		}
	};
	let mut fails = vec![];
	let mut total = 0;
	let mut sample = vec![];
	let nb = base.len() as u64;
	if cfg.exec == "threads" {
		let barrier = Arc::new(std::sync::Barrier::new(cfg.threads));
		let hs: Vec<_> = (0..cfg.threads)
			.map(|t| {
				let reader = reader.clone();
				let base = base.clone();
				let groups = groups.clone();
				let cfg = cfg.clone();
				let barrier = barrier.clone();
				std::thread::spawn(move || {
					let mut rng = Rng::new(cfg.seed.wrapping_mul(1000).wrapping_add(t as u64));
					let mut fails = vec![];
					let mut sample = vec![];
					barrier.wait();
					for k in 0..cfg.calls {
						let i = pick_idx(&mut rng, t, nb, &groups, &cfg.mode);
						let r = futures::executor::block_on(reader.get_tile_data(&base[i].0));
						if let Some(f) = check(t, i, r, &base) {
							if fails.len() < 4 {
								fails.push(f);
							}
						}
						if k < 200 {
							sample.push((i as u64, 0));
						}
					}
					(cfg.calls as u64, fails, sample)
				})
			})
			.collect();
		for h in hs {
			match h.join() {
				Ok((c, f, s)) => {
					total += c;
					fails.extend(f);
					sample.extend(s);
				}
				Err(_) => fails.push(Fail { kind: "panic", detail: json!({}) }),
			}
		}
	} else {
		let rt = tokio::runtime::Builder::new_multi_thread().worker_threads(16).enable_all().build().unwrap();
		let res = rt.block_on(async {
			let hs: Vec<_> = (0..cfg.threads)
				.map(|t| {
					let reader = reader.clone();
					let base = base.clone();
					let groups = groups.clone();
				let groups = groups.clone();
					let cfg = cfg.clone();
					tokio::spawn(async move {
						let mut rng = Rng::new(cfg.seed.wrapping_mul(1000).wrapping_add(t as u64));
						let mut fails = vec![];
						let mut sample = vec![];
						for k in 0..cfg.calls {
							let i = pick_idx(&mut rng, t, nb, &groups, &cfg.mode);
							let r = reader.get_tile_data(&base[i].0).await;
							if let Some(f) = check(t, i, r, &base) {
								if fails.len() < 4 {
									fails.push(f);
								}
							}
							if k < 200 {
								sample.push((i as u64, 0));
							}
							if k % 32 == 0 {
								tokio::task::yield_now().await;
							}
						}
						(cfg.calls as u64, fails, sample)
					})
				})
				.collect();
			let mut v = vec![];
			for h in hs {
				v.push(h.await);
			}
			v
		});
		for r in res {
			match r {
				Ok((c, f, s)) => {
					total += c;
					fails.extend(f);
					sample.extend(s);
				}
				Err(_) => fails.push(Fail { kind: "panic", detail: json!({}) }),
			}
		}
	}
	(total, fails, sample)
}


// ───────────── part 3b: rounds on freshly opened versatiles readers (cold caches): streams + lookups ─────────────

/// copy of a valid versatiles file in which the tile index of block record `bi` has `drop` entries
/// fewer than the block covers (same construction as in c20.rs): its index loader must FAIL, every time
fn damage_tile_index(bytes: &[u8], bi: usize, drop: usize) -> Option<Vec<u8>> {
	use crate::indep_formats::{brotli_c, brotli_d, parse_versatiles};
	let parsed = parse_versatiles(bytes).ok()?;
	let rec = parsed.records.get(bi)?;
	let (off, bl, il) = (rec.offset as usize, rec.blobs_len as usize, rec.index_len as usize);
	let index = brotli_d(&bytes[off + bl..off + bl + il]).ok()?;
	if index.len() < 12 * (drop + 1) {
		return None;
	}
	let new_index = brotli_c(&index[..index.len() - 12 * drop]);
	let mut out = bytes.to_vec();
	let new_off = out.len();
	out.extend_from_slice(&bytes[off..off + bl]);
	out.extend_from_slice(&new_index);
	let mut raw_bi = vec![];
	for (i, r) in parsed.records.iter().enumerate() {
		let mut raw = r.raw.clone();
		if i == bi {
			raw[13..21].copy_from_slice(&(new_off as u64).to_be_bytes());
			raw[29..33].copy_from_slice(&(new_index.len() as u32).to_be_bytes());
		}
		raw_bi.extend_from_slice(&raw);
	}
	let cbi = brotli_c(&raw_bi);
	let bi_off = out.len();
	out.extend_from_slice(&cbi);
	out[50..58].copy_from_slice(&(bi_off as u64).to_be_bytes());
	out[58..66].copy_from_slice(&(cbi.len() as u64).to_be_bytes());
	Some(out)
}

/// mode `streams`: on ONE long-lived reader, callers with an even number run bbox streams (the trait's default
/// stream for pmtiles / tar / directory: a sequence of lookups), the others run lookups bound to different leaf
/// directories at the same time.  Payloads are coordinate-stamped; every streamed (coordinate, blob) pair is
/// checked against the lone lookup of THAT coordinate, and every stream must deliver every stored tile of its box.
fn stress_container_streams(cfg: &StressCfg, reader: Arc<Box<dyn TilesReaderTrait>>, base: &Baseline, groups: &Groups) -> (u64, Vec<Fail>, Vec<(u64, u64)>) {
	let bymap: Arc<HashMap<(u8, u32, u32), Option<Vec<u8>>>> = Arc::new(base.iter().map(|(c, b)| ((c.z, c.x, c.y), b.clone())).collect());
	// boxes: per level the bounding box of the stored tiles (if it has at most 20000 coordinates) and its quarters
	let mut boxes: Vec<TileBBox> = vec![];
	for z in 0..=31u8 {
		let cs: Vec<&TileCoord3> = base.iter().filter(|(c, b)| c.z == z && b.is_some()).map(|(c, _)| c).collect();
		if cs.is_empty() {
			continue;
		}
		let (x0, x1) = (cs.iter().map(|c| c.x).min().unwrap(), cs.iter().map(|c| c.x).max().unwrap());
		let (y0, y1) = (cs.iter().map(|c| c.y).min().unwrap(), cs.iter().map(|c| c.y).max().unwrap());
		let (xm, ym) = ((x0 + x1) / 2, (y0 + y1) / 2);
		for (a, b, c, d) in [(x0, y0, x1, y1), (x0, y0, xm, ym), (xm, ym, x1, y1), (xm, y0, x1, ym)] {
			if let Ok(bb) = TileBBox::new(z, a, b, c, d) {
				if bb.count_tiles() <= 6_000 {
					boxes.push(bb);
				}
			}
		}
	}
	let boxes = Arc::new(boxes);
	let work = |t: usize, reader: Arc<Box<dyn TilesReaderTrait>>, base: Baseline, bymap: Arc<HashMap<(u8, u32, u32), Option<Vec<u8>>>>, boxes: Arc<Vec<TileBBox>>, groups: Groups, cfg: StressCfg| async move {
		let mut rng = Rng::new(cfg.seed.wrapping_mul(1000).wrapping_add(t as u64));
		let mut fails: Vec<Fail> = vec![];
		let mut n = 0u64;
		let nb = base.len() as u64;
		for _ in 0..cfg.calls {
			if t % 2 == 0 && !boxes.is_empty() {
				let bb = &boxes[rng.below(boxes.len() as u64) as usize];
				let got = reader.get_bbox_tile_stream(bb.clone()).await.collect().await;
				n += got.len() as u64 + 1;
				let mut seen = std::collections::HashSet::new();
				let mut mispaired = 0;
				let mut first: Option<String> = None;
				for (c, blob) in &got {
					seen.insert((c.z, c.x, c.y));
					if bymap.get(&(c.z, c.x, c.y)).and_then(|b| b.as_deref()) != Some(blob.as_slice()) {
						mispaired += 1;
						if first.is_none() {
							first = Some(format!("{}/{}/{} came with {:?}", c.z, c.x, c.y, String::from_utf8_lossy(&blob.as_slice()[..blob.len().min(16) as usize])));
						}
					}
				}
				let expected = bymap.iter().filter(|(k, v)| v.is_some() && k.0 == bb.level && bb.x_min <= k.1 && k.1 <= bb.x_max && bb.y_min <= k.2 && k.2 <= bb.y_max).count();
				if mispaired > 0 || seen.len() != expected || got.len() != expected {
					if fails.len() < 4 {
						fails.push(Fail { kind: "wrong-stream", detail: json!({"thread": t, "box": format!("{bb:?}"), "delivered": got.len(), "stored_in_box": expected, "pairs_differing_from_the_lone_lookup": mispaired, "first": first}) });
					}
				}
			} else {
				for _ in 0..200 {
					let i = pick_idx(&mut rng, t, nb, &groups, "leaves");
					let got = reader.get_tile_data(&base[i].0).await.ok().flatten().map(|b| b.into_vec());
					n += 1;
					if got != base[i].1 && fails.len() < 4 {
						let c = base[i].0;
						fails.push(Fail { kind: "wrong-bytes", detail: json!({"thread": t, "coord": format!("{}/{}/{}", c.z, c.x, c.y)}) });
					}
				}
			}
		}
		(n, fails)
	};
	let results: Vec<(u64, Vec<Fail>)> = if cfg.exec == "tokio" {
		let rt = tokio::runtime::Builder::new_multi_thread().worker_threads(16).enable_all().build().unwrap();
		rt.block_on(async {
			let hs: Vec<_> = (0..cfg.threads).map(|t| tokio::spawn(work(t, reader.clone(), base.clone(), bymap.clone(), boxes.clone(), groups.clone(), cfg.clone()))).collect();
			let mut v = vec![];
			for h in hs {
				v.push(h.await.unwrap_or((0, vec![Fail { kind: "panic", detail: json!({}) }])));
			}
			v
		})
	} else {
		let hs: Vec<_> = (0..cfg.threads)
			.map(|t| {
				let (reader, base, bymap, boxes, groups, cfg) = (reader.clone(), base.clone(), bymap.clone(), boxes.clone(), groups.clone(), cfg.clone());
				std::thread::spawn(move || futures::executor::block_on(work(t, reader, base, bymap, boxes, groups, cfg)))
			})
			.collect();
		hs.into_iter().map(|h| h.join().unwrap_or((0, vec![Fail { kind: "panic", detail: json!({}) }]))).collect()
	};
	let mut total = 0;
	let mut fails = vec![];
	for (n, f) in results {
		total += n;
		fails.extend(f);
	}
	(total, fails, vec![(cfg.threads as u64, cfg.calls as u64)])
}

type StreamResult = Vec<((u8, u32, u32), Vec<u8>)>;

/// a file on which every round opens a FRESH reader: the expected verdict of every probe is the
/// verdict of a reader that has done nothing else (`some:<hex>` / `none` / `err` / `panic`), the
/// expected result of every box is the stream run alone
struct RoundTarget {
	path: PathBuf,
	/// `Some((v|p, bytes))`: the reader is opened on an in-memory copy (`DataReaderBlob`) instead of the file
	blob: Option<(char, Arc<Vec<u8>>)>,
	probes: Vec<(TileCoord3, String)>,
	boxes: Vec<(TileBBox, StreamResult)>,
}

async fn open_round_reader(path: &Path, blob: &Option<(char, Arc<Vec<u8>>)>) -> anyhow::Result<Box<dyn TilesReaderTrait>> {
	use versatiles_container::{PMTilesReader, VersaTilesReader};
	use versatiles_core::io::DataReaderBlob;
	match blob {
		None => get_reader(path.to_str().unwrap()).await,
		Some(('v', b)) => Ok(Box::new(VersaTilesReader::open_reader(Box::new(DataReaderBlob::from(b.as_ref().clone()))).await?)),
		Some((_, b)) => Ok(Box::new(PMTilesReader::open_reader(Box::new(DataReaderBlob::from(b.as_ref().clone()))).await?)),
	}
}

fn verdict_of(r: Result<anyhow::Result<Option<Blob>>, String>) -> String {
	match r {
		Ok(Ok(Some(b))) => format!("some:{}", hex(b.as_slice())),
		Ok(Ok(None)) => "none".into(),
		Ok(Err(_)) => "err".into(),
		Err(_) => "panic".into(),
	}
}

async fn collect_stream(reader: &dyn TilesReaderTrait, bbox: &TileBBox) -> StreamResult {
	let mut v: StreamResult = reader.get_bbox_tile_stream(bbox.clone()).await.collect().await.into_iter().map(|(c, b)| ((c.z, c.x, c.y), b.into_vec())).collect();
	v.sort();
	v
}

fn blocks_source() -> MemSource {
	// 4 × 4 blocks at zoom 12 with a few tiny tiles each (next to the block borders and inside), zoom 3 complete
	let mut tiles = vec![];
	for bx in 0..4u32 {
		for by in 0..4u32 {
			for (dx, dy) in [(0u32, 0u32), (255, 255), (255, 0), (1, 254), (100, 37), (17, 200)] {
				let c = TileCoord3::new(bx * 256 + dx, by * 256 + dy, 12).unwrap();
				let mut b = tile_bytes(&c);
				b.truncate(24);
				tiles.push((c, Blob::from(b)));
			}
		}
	}
	for x in 0..8u32 {
		for y in 0..8u32 {
			let c = TileCoord3::new(x, y, 3).unwrap();
			let mut b = tile_bytes(&c);
			b.truncate(20);
			tiles.push((c, Blob::from(b)));
		}
	}
	MemSource::new("c13-blocks", TileFormat::PBF, TileCompression::Uncompressed, tiles)
}

fn round_targets(args: &Args, out: &mut Out, targets: &[&str]) -> HashMap<String, RoundTarget> {
	let mut m = HashMap::new();
	if !targets.iter().any(|t| *t == "versatiles-blocks" || *t == "versatiles-damaged") {
		return m;
	}
	let rt = tokio::runtime::Builder::new_current_thread().enable_all().build().unwrap();
	let path = args.out.join("c13_blocks.versatiles");
	let mut src = blocks_source();
	let coords = src.coords();
	if let Err(e) = rt.block_on(async { write_to_filename(&mut src, path.to_str().unwrap()).await }) {
		out.notes.push(format!("versatiles-blocks: could not write the container: {e}"));
		return m;
	}
	let mut probes_c = coords.clone();
	for i in 0..120u32 {
		probes_c.push(TileCoord3::new((i * 37 + 3) % 1024, (i * 91 + 7) % 1024, 12).unwrap());
	}
	// the expected verdict of a probe: a reader that does nothing else
	let fresh_verdicts = |p: &Path, one_reader: bool| -> Vec<(TileCoord3, String)> {
		rt.block_on(async {
			let mut v = vec![];
			let mut shared = if one_reader { get_reader(p.to_str().unwrap()).await.ok() } else { None };
			for c in &probes_c {
				let verdict = if one_reader {
					match &shared {
						Some(r) => verdict_of(Ok(r.get_tile_data(c).await)),
						None => "open-err".into(),
					}
				} else {
					match get_reader(p.to_str().unwrap()).await {
						Ok(r) => verdict_of(Ok(r.get_tile_data(c).await)),
						Err(_) => "open-err".into(),
					}
				};
				v.push((*c, verdict));
			}
			shared.take();
			v
		})
	};
	if targets.contains(&"versatiles-blocks") {
		let mut boxes = vec![];
		for (z, x0, y0, x1, y1) in [(12u8, 0u32, 0u32, 1023u32, 1023u32), (12, 200, 200, 300, 300), (12, 250, 0, 260, 1023), (12, 0, 255, 1023, 256), (12, 255, 255, 512, 512), (12, 500, 10, 800, 700), (12, 0, 0, 255, 255), (3, 0, 0, 7, 7), (12, 256, 256, 767, 767)] {
			let b = TileBBox::new(z, x0, y0, x1, y1).unwrap();
			let res = rt.block_on(async {
				let r = get_reader(path.to_str().unwrap()).await.unwrap();
				collect_stream(r.as_ref(), &b).await
			});
			boxes.push((b, res));
		}
		out.extra.insert("versatiles-blocks_setup".into(), json!({"tiles": coords.len(), "boxes": boxes.len(), "tiles_per_box": boxes.iter().map(|b| b.1.len()).collect::<Vec<_>>()}));
		out.oracle(boxes[0].1.len() >= 96, "C13 blocks-setup: the multi-block stream does not deliver the stored tiles when run alone", json!({"kind": "blocks-setup"}), json!({"delivered": boxes[0].1.len()}));
		m.insert("versatiles-blocks".to_string(), RoundTarget { path: path.clone(), blob: None, probes: fresh_verdicts(&path, true), boxes });
	}
	if targets.contains(&"versatiles-damaged") {
		let bytes = std::fs::read(&path).unwrap_or_default();
		match damage_tile_index(&bytes, 0, 1).or_else(|| damage_tile_index(&bytes, 1, 1)) {
			Some(d) => {
				let dpath = args.out.join("c13_damaged.versatiles");
				std::fs::write(&dpath, d).unwrap();
				// one FRESH reader per probe: a failed index load must not change any later answer
				let probes = fresh_verdicts(&dpath, false);
				let n_err = probes.iter().filter(|p| p.1 == "err").count();
				out.extra.insert("versatiles-damaged_setup".into(), json!({"probes": probes.len(), "probes_answered_err_by_a_fresh_reader": n_err}));
				out.oracle(n_err > 0, "C13 damaged-setup: no probe of the damaged container fails on a fresh reader", json!({"kind": "damaged-setup"}), json!({}));
				m.insert("versatiles-damaged".to_string(), RoundTarget { path: dpath, blob: None, probes, boxes: vec![] });
			}
			None => out.notes.push("versatiles-damaged: could not damage a tile index of the stress container".into()),
		}
	}
	m
}

/// tiny containers of every format (and in-memory copies for the blob-backed readers): in every round the
/// callers' FIRST operations on a freshly opened reader are released together by a barrier
fn first_targets(args: &Args, out: &mut Out, targets: &[&str]) -> HashMap<String, RoundTarget> {
	let mut m = HashMap::new();
	if !targets.iter().any(|t| t.starts_with("first-")) {
		return m;
	}
	let rt = tokio::runtime::Builder::new_current_thread().enable_all().build().unwrap();
	let mut tiles = vec![];
	for z in 0..=3u8 {
		for x in 0..(1u32 << z) {
			for y in 0..(1u32 << z) {
				let c = TileCoord3::new(x, y, z).unwrap();
				let mut b = tile_bytes(&c);
				b.truncate(18);
				tiles.push((c, Blob::from(b)));
			}
		}
	}
	for i in 0..24u32 {
		let c = TileCoord3::new(250 + i % 12, 254 + i / 12, 9).unwrap();
		let mut b = tile_bytes(&c);
		b.truncate(22);
		tiles.push((c, Blob::from(b)));
	}
	let boxes_def = [(3u8, 0u32, 0u32, 7u32, 7u32), (9, 248, 250, 262, 258)];
	for kind in ["versatiles", "pmtiles", "tar", "mbtiles", "dir"] {
		let path = if kind == "dir" { args.out.join("c13_first_dir") } else { args.out.join(format!("c13_first.{kind}")) };
		if kind == "dir" {
			let _ = std::fs::remove_dir_all(&path);
			std::fs::create_dir_all(&path).unwrap();
		} else {
			let _ = std::fs::remove_file(&path);
		}
		let mut src = MemSource::new("c13-first", TileFormat::PNG, TileCompression::Uncompressed, tiles.clone());
		let coords = src.coords();
		if let Err(e) = rt.block_on(async { write_to_filename(&mut src, path.to_str().unwrap()).await }) {
			out.notes.push(format!("first-{kind}: could not write the container: {e}"));
			continue;
		}
		let mut variants: Vec<(String, Option<(char, Arc<Vec<u8>>)>)> = vec![(format!("first-{kind}"), None)];
		if kind == "versatiles" || kind == "pmtiles" {
			let bytes = Arc::new(std::fs::read(&path).unwrap_or_default());
			variants.push((format!("first-{kind}-blob"), Some((kind.chars().next().unwrap(), bytes))));
		}
		for (name, blob) in variants {
			if !targets.contains(&name.as_str()) {
				continue;
			}
			let mut probes_c = coords.clone();
			for i in 0..30u32 {
				probes_c.push(TileCoord3::new((i * 7) % 32, (i * 11) % 32, 5).unwrap());
			}
			let r = rt.block_on(async {
				let reader = open_round_reader(&path, &blob).await?;
				let mut probes = vec![];
				for c in &probes_c {
					probes.push((*c, verdict_of(Ok(reader.get_tile_data(c).await))));
				}
				let mut boxes = vec![];
				for (z, x0, y0, x1, y1) in boxes_def {
					let b = TileBBox::new(z, x0, y0, x1, y1).unwrap();
					let fresh = open_round_reader(&path, &blob).await?;
					boxes.push((b.clone(), collect_stream(fresh.as_ref(), &b).await));
				}
				anyhow::Ok((probes, boxes))
			});
			match r {
				Ok((probes, boxes)) => {
					let present = probes.iter().filter(|p| p.1.starts_with("some")).count();
					out.oracle(present == coords.len() && boxes[0].1.len() == 64, "C13 first-setup: the tiny container does not read back on a fresh reader", json!({"kind": "first-setup", "target": name}), json!({"present": present, "stream": boxes[0].1.len()}));
					m.insert(name, RoundTarget { path: path.clone(), blob, probes, boxes });
				}
				Err(e) => out.notes.push(format!("{name}: could not open the container: {e}")),
			}
		}
	}
	m
}

/// rounds: a fresh reader (cold tile-index cache) shared by `threads` callers that mix bbox streams
/// (if the target has boxes) and lookups; every stream must equal the stream run alone, every
/// lookup verdict the verdict of a fresh reader
fn stress_rounds(cfg: &StressCfg, target: &RoundTarget) -> (u64, Vec<Fail>, Vec<(u64, u64)>) {
	let target_probes = Arc::new(target.probes.clone());
	let target_boxes = Arc::new(target.boxes.clone());
	// mode `first`: the callers' very first operations on the fresh reader, released together
	let first = cfg.mode == "first";
	let per_round: usize = if first { 1 } else { 6 };
	let rounds = if first { cfg.calls.max(1) } else { (cfg.calls / per_round).max(1) };
	let mut total = 0u64;
	let mut fails: Vec<Fail> = vec![];
	let mut sample = vec![];
	let rt_multi = if cfg.exec == "tokio" { Some(tokio::runtime::Builder::new_multi_thread().worker_threads(16).enable_all().build().unwrap()) } else { None };
	let opener = tokio::runtime::Builder::new_current_thread().enable_all().build().unwrap();
	for round in 0..rounds {
		let Ok(reader) = opener.block_on(open_round_reader(&target.path, &target.blob)) else {
			fails.push(Fail { kind: "error", detail: json!({"open": "failed"}) });
			break;
		};
		let reader: Arc<Box<dyn TilesReaderTrait>> = Arc::new(reader);
		let tbarrier = Arc::new(tokio::sync::Barrier::new(cfg.threads));
		let use_tbarrier = rt_multi.is_some();
		let work = move |t: usize, reader: Arc<Box<dyn TilesReaderTrait>>, probes: Arc<Vec<(TileCoord3, String)>>, boxes: Arc<Vec<(TileBBox, StreamResult)>>, seed: u64, tb: Arc<tokio::sync::Barrier>| async move {
			let mut rng = Rng::new(seed);
			let mut fails = vec![];
			let mut n = 0u64;
			if use_tbarrier {
				tb.wait().await;
			}
			for _ in 0..per_round {
				if !boxes.is_empty() && rng.chance(1, 2) {
					let bi = rng.below(boxes.len() as u64) as usize;
					let got = collect_stream(reader.as_ref().as_ref(), &boxes[bi].0).await;
					n += 1;
					if got != boxes[bi].1 {
						let wrong = got.iter().filter(|g| !boxes[bi].1.contains(g)).count();
						fails.push(Fail { kind: "wrong-stream", detail: json!({"thread": t, "box": format!("{:?}", boxes[bi].0), "delivered": got.len(), "expected": boxes[bi].1.len(), "items_not_in_the_sequential_result": wrong}) });
					}
				} else {
					for _ in 0..4 {
						let pi = rng.below(probes.len() as u64) as usize;
						let v = verdict_of(Ok(reader.get_tile_data(&probes[pi].0).await));
						n += 1;
						if v != probes[pi].1 {
							let c = probes[pi].0;
							fails.push(Fail { kind: "wrong-verdict", detail: json!({"thread": t, "coord": format!("{}/{}/{}", c.z, c.x, c.y), "returned": trunc(&v, 60), "fresh_reader": trunc(&probes[pi].1, 60)}) });
						}
					}
				}
			}
			(n, fails)
		};
		let seed0 = cfg.seed.wrapping_mul(7919).wrapping_add(round as u64 * 131);
		let results: Vec<(u64, Vec<Fail>)> = if let Some(rt) = &rt_multi {
			rt.block_on(async {
				let hs: Vec<_> = (0..cfg.threads).map(|t| tokio::spawn(work(t, reader.clone(), target_probes.clone(), target_boxes.clone(), seed0 + t as u64, tbarrier.clone()))).collect();
				let mut v = vec![];
				for h in hs {
					match h.await {
						Ok(x) => v.push(x),
						Err(_) => v.push((0, vec![Fail { kind: "panic", detail: json!({}) }])),
					}
				}
				v
			})
		} else {
			let barrier = Arc::new(std::sync::Barrier::new(cfg.threads));
			let hs: Vec<_> = (0..cfg.threads)
				.map(|t| {
					let (reader, probes, boxes, barrier, tb) = (reader.clone(), target_probes.clone(), target_boxes.clone(), barrier.clone(), tbarrier.clone());
					std::thread::spawn(move || {
						barrier.wait();
						futures::executor::block_on(work(t, reader, probes, boxes, seed0 + t as u64, tb))
					})
				})
				.collect();
			hs.into_iter().map(|h| h.join().unwrap_or((0, vec![Fail { kind: "panic", detail: json!({}) }]))).collect()
		};
		for (n, f) in results {
			total += n;
			for x in f {
				if fails.len() < 12 {
					fails.push(x);
				}
			}
		}
		if round < 50 {
			sample.push((round as u64, cfg.threads as u64));
		}
	}
	(total, fails, sample)
}

struct StressEnv {
	file_path: PathBuf,
	file_data: Arc<Vec<u8>>,
	containers: HashMap<String, (Arc<Box<dyn TilesReaderTrait>>, Baseline, Groups)>,
	rounds: HashMap<String, RoundTarget>,
}

fn stress_env(args: &Args, out: &mut Out, targets: &[&str]) -> StressEnv {
	let file_path = args.out.join("c13_stress_data.bin");
	let file_data = Arc::new(pat_file(STRESS_LEN));
	if targets.contains(&"file") {
		std::fs::write(&file_path, &*file_data).unwrap();
	}
	let mut containers = HashMap::new();
	let rt = tokio::runtime::Builder::new_current_thread().enable_all().build().unwrap();
	for ext in ["versatiles", "pmtiles", "tar", "mbtiles", "dir"] {
		if !targets.contains(&ext) {
			continue;
		}
		let path = if ext == "dir" { args.out.join("c13_stress_dir") } else { args.out.join(format!("c13_stress.{ext}")) };
		if ext == "dir" {
			let _ = std::fs::remove_dir_all(&path);
			std::fs::create_dir_all(&path).unwrap();
		} else {
			let _ = std::fs::remove_file(&path);
		}
		let mut src = stress_source();
		if ext == "mbtiles" {
			src.parameters.tile_format = TileFormat::PNG; // mbtiles stores uncompressed png/jpg/webp or gzipped pbf only
		}
		let coords = src.coords();
		let r = rt.block_on(async {
			write_to_filename(&mut src, path.to_str().unwrap()).await?;
			let reader = get_reader(path.to_str().unwrap()).await?;
			// sequential baseline: every tile of the source plus coordinates that are absent
			let mut base = vec![];
			let mut probe = coords.clone();
			for i in 0..200u32 {
				probe.push(TileCoord3::new((i * 53 + 1) % 1024, (i * 17 + 5) % 1024, 10).unwrap());
				probe.push(TileCoord3::new(i % 64, (i * 7) % 64, 6).unwrap());
			}
			for c in probe {
				let b = reader.get_tile_data(&c).await?;
				base.push((c, b.map(|b| b.into_vec())));
			}
			anyhow::Ok((reader, base))
		});
		match r {
			Ok((reader, base)) => {
				// sanity (not the property): the sequential reads return the source's tiles
				let wrong = base.iter().filter(|(c, b)| src.tiles.get(&(c.z, c.x, c.y)).map(|x| x.as_slice().to_vec()) != *b).count();
				if wrong > 0 {
					out.notes.push(format!("{ext}: {wrong} sequential reads differ from the source (container round trip is C01's subject; C13 compares concurrent with sequential reads)"));
				}
				out.count_n(&format!("baseline_tiles_{ext}"), base.iter().filter(|x| x.1.is_some()).count() as u64);
				containers.insert(ext.to_string(), (Arc::new(reader), Arc::new(base), Arc::new(vec![])));
			}
			Err(e) => out.notes.push(format!("{ext}: could not write/open the stress container: {e}")),
		}
	}
	// PMTiles files whose directory really has LEAF directories: the leaf path of get_tile_data and its
	// cache (`leaves_cache`) are only reached there.  (a) own writer: 130 × 130 = 16900 tiles at zoom 8
	// (> 16384 entries); (b) independently encoded files with forced 2 and 3 directory levels.
	for target in ["pmtiles-leaves", "pmtiles-indep2", "pmtiles-indep3"] {
		if !targets.contains(&target) {
			continue;
		}
		let path = args.out.join(format!("c13_{}.pmtiles", target.replace('-', "_")));
		let mut rng = Rng::new(args.seed ^ 0x1eaf);
		// coordinates in tile-id order and the size of one leaf (for the grouping)
		let (mut coords, fan): (Vec<TileCoord3>, usize) = if target == "pmtiles-leaves" {
			((0..130u32).flat_map(|x| (0..130u32).map(move |y| TileCoord3::new(x, y, 8).unwrap())).collect(), 400)
		} else {
			let mut set = std::collections::BTreeSet::new();
			while set.len() < 600 {
				let z = if rng.chance(1, 10) { 3 } else { 6 };
				set.insert((z as u8, rng.below(1 << z) as u32, rng.below(1 << z) as u32));
			}
			(set.into_iter().map(|(z, x, y)| TileCoord3::new(x, y, z).unwrap()).collect(), if target == "pmtiles-indep2" { 16 } else { 8 })
		};
		coords.sort_by_key(|c| indep_formats::tile_id(c.z, c.x, c.y).unwrap());
		let payload = |c: &TileCoord3| -> Vec<u8> {
			let mut b = tile_bytes(c);
			b.truncate(14 + ((c.x * 7 + c.y * 13) % 40) as usize);
			b
		};
		let written: Result<(), String> = if target == "pmtiles-leaves" {
			let mut src = MemSource::new("c13-leaves", TileFormat::PBF, TileCompression::Uncompressed, coords.iter().map(|c| (*c, Blob::from(payload(c)))).collect());
			rt.block_on(async { write_to_filename(&mut src, path.to_str().unwrap()).await }).map_err(|e| e.to_string())
		} else {
			let tiles: indep_formats::TileMap = coords.iter().map(|c| ((c.z, c.x, c.y), payload(c))).collect();
			let mut ch = indep_formats::PmChoices::plain(1, 1);
			ch.levels = if target == "pmtiles-indep2" { 2 } else { 3 };
			ch.fan_leaf = fan;
			ch.fan_mid = 4;
			let enc = indep_formats::encode_pmtiles(&tiles, &ch, &mut rng);
			out.extra.insert(format!("{target}_directories"), json!({"dirs": enc.n_dirs, "levels": enc.levels_used, "entries": enc.n_entries}));
			std::fs::write(&path, &enc.bytes).map_err(|e| e.to_string())
		};
		let r = written.and_then(|_| {
			rt.block_on(async {
				let reader = get_reader(path.to_str().unwrap()).await?;
				let mut base = vec![];
				for c in &coords {
					base.push((*c, reader.get_tile_data(c).await?.map(|b| b.into_vec())));
				}
				// absent coordinates (their ids fall between / behind the entries of some leaf)
				for i in 0..300u32 {
					let c = if target == "pmtiles-leaves" { TileCoord3::new(130 + i % 120, (i * 7) % 256, 8).unwrap() } else { TileCoord3::new((i * 5) % 32, (i * 11) % 32, 5).unwrap() };
					base.push((c, reader.get_tile_data(&c).await?.map(|b| b.into_vec())));
				}
				anyhow::Ok((reader, base))
			})
			.map_err(|e| format!("{e:#}"))
		});
		match r {
			Ok((reader, base)) => {
				let raw = std::fs::read(&path).unwrap_or_default();
				let leaf_len = if raw.len() >= 56 { u64::from_le_bytes(raw[48..56].try_into().unwrap()) } else { 0 };
				let wrong = coords.iter().zip(base.iter()).filter(|(c, b)| b.1.as_deref() != Some(&payload(c)[..])).count();
				out.extra.insert(format!("{target}_setup"), json!({"tiles": coords.len(), "leaf_directory_bytes": leaf_len, "file_bytes": raw.len(), "sequential_reads_differing_from_source": wrong}));
				// the set-up must really have leaf directories and the sequential reads must be the stored tiles
				out.oracle(leaf_len > 0 && wrong == 0, "C13 leaves-setup: the stress file has no leaf directories or does not read back sequentially", json!({"kind": "leaves-setup", "target": target}), json!({"leaf_directory_bytes": leaf_len, "wrong": wrong}));
				// callers are bound to leaves far apart: first, last, second, middle
				let n = coords.len();
				let leaf = |k: usize| -> Vec<usize> { (k * fan..((k + 1) * fan).min(n)).collect() };
				let nl = n.div_ceil(fan);
				let groups: Vec<Vec<usize>> = [0, nl - 1, 1, nl / 2].iter().map(|k| leaf(*k)).filter(|g| !g.is_empty()).collect();
				containers.insert(target.to_string(), (Arc::new(reader), Arc::new(base), Arc::new(groups)));
			}
			Err(e) => {
				out.notes.push(format!("{target}: could not build/open the stress container: {e}"));
				out.oracle(false, "C13 leaves-setup: the stress file could not be built or opened", json!({"kind": "leaves-setup", "target": target}), json!({"error": e}));
			}
		}
	}
	let mut rounds = round_targets(args, out, targets);
	rounds.extend(first_targets(args, out, targets));
	StressEnv { file_path, file_data, containers, rounds }
}

fn run_stress(out: &mut Out, env: &StressEnv, cfg: &StressCfg) {
	let (total, fails, sample) = if cfg.target == "file" && cfg.mode == "lowfd" {
		// descriptors are scarce: a lone read_range needs no new descriptor, so every concurrent one must succeed too
		let max_fd = std::fs::read_dir("/proc/self/fd").map(|d| d.filter_map(|e| e.ok()?.file_name().to_str()?.parse::<u64>().ok()).max().unwrap_or(64)).unwrap_or(64);
		let mut old = libc::rlimit { rlim_cur: 0, rlim_max: 0 };
		unsafe { libc::getrlimit(libc::RLIMIT_NOFILE, &mut old) };
		let low = libc::rlimit { rlim_cur: (max_fd + 8).min(old.rlim_max), rlim_max: old.rlim_max };
		unsafe { libc::setrlimit(libc::RLIMIT_NOFILE, &low) };
		let r = stress_file(cfg, &env.file_path, &env.file_data);
		unsafe { libc::setrlimit(libc::RLIMIT_NOFILE, &old) };
		out.extra.insert("low_descriptor_phase".into(), json!({"soft_limit": low.rlim_cur, "highest_descriptor_in_use": max_fd, "threads": cfg.threads}));
		r
	} else if cfg.target == "file" {
		stress_file(cfg, &env.file_path, &env.file_data)
	} else if let Some(t) = env.rounds.get(&cfg.target) {
		stress_rounds(cfg, t)
	} else {
		let Some((reader, base, groups)) = env.containers.get(&cfg.target) else { return };
		if cfg.mode == "streams" {
			stress_container_streams(cfg, reader.clone(), base, groups)
		} else {
			stress_container(cfg, reader.clone(), base, groups)
		}
	};
	out.evaluations += total.saturating_sub(sample.len() as u64);
	for (a, b) in &sample {
		out.eval(&format!("{}/{}/{}/{a}/{b}", cfg.target, cfg.exec, cfg.threads), cfg.threads >= 2);
	}
	out.count_n(&format!("stress_calls_{}_{}", cfg.target, cfg.exec), total);
	out.count(&format!("stress_cfg_threads_{}", cfg.threads));
	if fails.is_empty() {
		out.oracle(true, "", json!(null), json!(null));
	}
	let mut by_kind: HashMap<&str, Vec<&Fail>> = HashMap::new();
	for f in &fails {
		by_kind.entry(f.kind).or_default().push(f);
	}
	for (kind, fs) in by_kind {
		out.oracle(
			false,
			&format!("C13 {kind}: a concurrent call on one shared {} reader did not return what it returns alone", cfg.target),
			json!({"kind": kind, "target": if cfg.target == "file" { "DataReaderFile" } else { &cfg.target }, "exec": cfg.exec}),
			json!({"case": cfg.line(), "threads": cfg.threads, "calls_per_thread": cfg.calls, "mode": cfg.mode, "failing_calls": fs.len(), "first": fs.iter().take(3).map(|f| f.detail.clone()).collect::<Vec<_>>()}),
		);
	}
}

pub fn run(args: &Args) {
	if args.extra.first().map(|s| s.as_str()) == Some("trace-child") {
		return trace_child(args);
	}
	quiet_panics();
	let mut out = Out::new(&args.out);
	out.rule = "(1) `C13 iso`: read_range calls of the real DataReaderFile traced with strace -ff from 4 threads (ranges inside the file, empty, and beyond EOF); the observed per-call syscall program is normalised and judged by the Lean model (isolated? equal to the modelled program? bytes it returns alone) – non-trivial = the call issues at least one syscall. (2) `C13 sched`: 1–4 random well-formed syscall programs (dup/open/lseek/read/pread/close on shared, aliased and own descriptors, plus the two read_range variants) and a random schedule, executed step by step with real syscalls and by the model – non-trivial = at least two non-empty programs whose steps alternate at least twice. (3) stress, oracle only: one reader shared by 2–16 OS threads / 16–64 tasks on a 16-worker tokio runtime, random byte ranges (disjoint regions per thread or overlapping; 0 B – 200 KB, plus a phase of reads of 1 MiB−1 / 1 MiB / 1 MiB+1 / 1–3 MiB, 64 OS threads, and a phase under RLIMIT_NOFILE lowered to the descriptors in use + 8; position-dependent file bytes) resp. random tile coordinates (present and absent) on versatiles/pmtiles/tar files written by the real writers, and on PMTiles files WITH leaf directories (16900 tiles through the real writer; independently encoded files with 2 and 3 directory levels) where each caller mostly stays in one leaf and different callers use leaves far apart; rounds on FRESHLY opened versatiles readers (cold tile-index cache) in which the callers mix bbox streams spanning 1–16 blocks with lookups (each stream must equal the stream run alone), and lookups on a container with a damaged tile index (each verdict bytes/none/err must equal the verdict of a fresh reader); bbox streams running WHILE other callers look up tiles of other leaf directories on the same long-lived reader (pmtiles with leaves, 2- and 3-level independently encoded files, pmtiles, tar, directory, mbtiles, versatiles; every streamed (coordinate, blob) pair is checked against the lone lookup of that coordinate – payloads are coordinate-stamped –, and every stream must deliver every stored tile of its box); tiny containers of every format (versatiles, pmtiles, tar, mbtiles, directory on disk; versatiles and pmtiles also blob-backed) on which 2/4/16/64 callers make their FIRST lookups / streams on a freshly opened reader at the same moment (barrier), many rounds; every result is compared with the sequential result; distinct = by (target, executor, threads, request) over the first 200 requests of every thread".into();
	if let Some(p) = &args.replay {
		let lines: Vec<String> = std::fs::read_to_string(p).unwrap().lines().map(|s| s.to_string()).collect();
		let targets: Vec<&str> = lines.iter().filter(|l| l.starts_with("C13 stress ")).filter_map(|l| l.split(' ').nth(2)).collect();
		let env = stress_env(args, &mut out, &targets);
		for line in &lines {
			let t: Vec<&str> = line.split(' ').collect();
			if t.len() == 5 && t[1] == "sched" {
				let progs: Vec<Vec<Sys>> = t[3].split(';').map(parse_prog).collect();
				let sched: Vec<usize> = if t[4] == "-" { vec![] } else { t[4].split(',').map(|x| x.parse().unwrap()).collect() };
				emit_sched(&mut out, &args.out, t[2].parse().unwrap(), &progs, &sched);
			} else if t.len() == 8 && t[1] == "stress" {
				let cfg = StressCfg { target: t[2].into(), exec: t[3].into(), threads: t[4].parse().unwrap(), calls: t[5].parse().unwrap(), mode: t[6].into(), seed: t[7].parse().unwrap() };
				for rep in 0..3 {
					let mut c = cfg.clone();
					c.seed += rep * 7919;
					run_stress(&mut out, &env, &c);
				}
			} else if t.len() == 7 && t[1] == "iso" {
				// an observed program cannot be re-observed from its text: trace again (same seed ⇒ same requests)
				strace_tie(args, &mut out, 64, 4);
			}
		}
		out.finish();
		return;
	}
	let mut rng = Rng::new(args.seed);
	let t0 = std::time::Instant::now();
	let mut phases: Vec<(String, f64)> = vec![];
	strace_tie(args, &mut out, args.n(400, 3000), 4);
	phases.push(("strace".into(), t0.elapsed().as_secs_f64()));
	kernel_model_cases(args, &mut out, &mut rng);
	phases.push(("kernel-model".into(), t0.elapsed().as_secs_f64()));
	let env = stress_env(args, &mut out, &["file", "versatiles", "pmtiles", "tar", "mbtiles", "dir", "pmtiles-leaves", "pmtiles-indep2", "pmtiles-indep3", "versatiles-blocks", "versatiles-damaged", "first-versatiles", "first-versatiles-blob", "first-pmtiles", "first-pmtiles-blob", "first-tar", "first-mbtiles", "first-dir"]);
	phases.push(("setup".into(), t0.elapsed().as_secs_f64()));
	let file_calls = args.n(300_000, 6_000_000); // per configuration, split over the threads
	for (exec, threads) in [("threads", 2usize), ("threads", 4), ("threads", 8), ("threads", 16), ("tokio", 16), ("tokio", 64)] {
		for mode in ["overlap", "disjoint"] {
			let cfg = StressCfg { target: "file".into(), exec: exec.into(), threads, calls: file_calls / threads, mode: mode.into(), seed: rng.next() % 1_000_000 };
			run_stress(&mut out, &env, &cfg);
		}
	}
	// reads of 1 MiB and more from many callers; callers ≫ cores; scarce descriptors
	for (exec, threads, calls, mode) in [("threads", 16usize, 25usize, "large"), ("tokio", 32, 12, "large"), ("threads", 64, 2000, "overlap"), ("threads", 64, 1500, "lowfd")] {
		let cfg = StressCfg { target: "file".into(), exec: exec.into(), threads, calls, mode: mode.into(), seed: rng.next() % 1_000_000 };
		run_stress(&mut out, &env, &cfg);
	}
	phases.push(("file-stress".into(), t0.elapsed().as_secs_f64()));
	let tile_calls = args.n(64_000, 960_000);
	for target in ["versatiles", "pmtiles", "tar", "mbtiles", "dir"] {
		for (exec, threads) in [("threads", 2usize), ("threads", 16), ("tokio", 16), ("tokio", 48)] {
			let cfg = StressCfg { target: target.into(), exec: exec.into(), threads, calls: tile_calls / threads, mode: "overlap".into(), seed: rng.next() % 1_000_000 };
			run_stress(&mut out, &env, &cfg);
		}
	}
	phases.push(("container-stress".into(), t0.elapsed().as_secs_f64()));
	// leaf directories under contention: callers bound to different leaves (plus random / absent probes)
	for target in ["pmtiles-leaves", "pmtiles-indep2", "pmtiles-indep3"] {
		for (exec, threads) in [("threads", 2usize), ("threads", 8), ("tokio", 8), ("tokio", 32)] {
			let cfg = StressCfg { target: target.into(), exec: exec.into(), threads, calls: tile_calls / threads, mode: "leaves".into(), seed: rng.next() % 1_000_000 };
			run_stress(&mut out, &env, &cfg);
		}
	}
	// bbox streams WHILE other callers do lookups on the same reader (the default stream of pmtiles / tar /
	// directory is a sequence of lookups; cf. the pairing theorem of C14: an unordered buffer must keep each
	// result with its own coordinate)
	let stream_targets: &[&str] = if args.thorough() { &["pmtiles-leaves", "pmtiles-indep2", "pmtiles-indep3", "pmtiles", "tar", "dir", "mbtiles", "versatiles"] } else { &["pmtiles-leaves", "pmtiles-indep2", "pmtiles-indep3", "pmtiles", "tar", "dir"] };
	for target in stream_targets.iter().copied() {
		for (exec, threads, calls) in [("tokio", 8usize, 5usize), ("tokio", 24, 3), ("threads", 8, 3)] {
			let calls = if target == "pmtiles-leaves" { (calls + 1) / 2 } else { calls };
			let cfg = StressCfg { target: target.into(), exec: exec.into(), threads, calls: if args.thorough() { calls * 6 } else { calls }, mode: "streams".into(), seed: rng.next() % 1_000_000 };
			run_stress(&mut out, &env, &cfg);
		}
	}
	phases.push(("leaf-stress".into(), t0.elapsed().as_secs_f64()));
	// fresh readers per round: concurrent bbox streams over several blocks mixed with lookups; lookups on a
	// container with a damaged tile index (every verdict = the verdict of a fresh reader)
	for target in ["versatiles-blocks", "versatiles-damaged"] {
		let cfgs: &[(&str, usize)] = if target == "versatiles-blocks" || args.thorough() { &[("threads", 4), ("threads", 12), ("tokio", 8), ("tokio", 24)] } else { &[("threads", 4), ("tokio", 8)] };
		for &(exec, threads) in cfgs {
			let cfg = StressCfg { target: target.into(), exec: exec.into(), threads, calls: args.n(100, 2400), mode: "rounds".into(), seed: rng.next() % 1_000_000 };
			run_stress(&mut out, &env, &cfg);
		}
	}
	phases.push(("rounds".into(), t0.elapsed().as_secs_f64()));
	// the callers' FIRST operations on a freshly opened reader, released together (lazy initialisation races)
	for target in ["first-versatiles", "first-versatiles-blob", "first-pmtiles", "first-pmtiles-blob", "first-tar", "first-mbtiles", "first-dir"] {
		for (exec, threads) in [("threads", 2usize), ("threads", 4), ("threads", 16), ("threads", 64), ("tokio", 4), ("tokio", 16), ("tokio", 64)] {
			let cfg = StressCfg { target: target.into(), exec: exec.into(), threads, calls: args.n(if threads >= 64 { 15 } else { 40 }, 300), mode: "first".into(), seed: rng.next() % 1_000_000 };
			run_stress(&mut out, &env, &cfg);
		}
	}
	phases.push(("first-ops".into(), t0.elapsed().as_secs_f64()));
	out.extra.insert("phase_seconds_cumulative".into(), json!(phases));
	out.notes.push("checklist: (1) thresholds – ranges of 0 bytes, at / across the end of the file, reads of 1 MiB−1 / 1 MiB / 1 MiB+1 / up to 3 MiB, 16384-entry PMTiles files (leaf directories), 256-block borders in the multi-block versatiles file; (2) faults after open – containers with a damaged tile index (every verdict = a fresh reader's), ranges behind the end of the file in the strace tie; files replaced while open are outside the statement (the file is assumed unchanged); (3) payloads are opaque to the readers' concurrency behaviour: tiny (14 B) to 200 KB ranges and ≥ 1 MiB reads; (4) no options; (5) warm caches (long-lived shared readers) and cold caches (fresh reader per round), the same reader object reused across all phases; (6) 2–64 OS threads (≫ cores), 16–64 tasks on a 16-worker runtime, lookups and several multi-block streams on one reader at once, RLIMIT_NOFILE lowered to the descriptors in use + 8; (7) n.a.; (8) zoom 0–12, absent coordinates; (9) PMTiles files from the independent encoder with 2 and 3 directory levels; (10) concurrent result = sequential / fresh-reader result, byte for byte, for read_range, get_tile_data (incl. None / Err) and bbox streams; readers on real files on disk for versatiles, pmtiles, tar, mbtiles and directory".into());
	out.notes.push("level: proof about the model (every interleaving of syscall programs); the Linux kernel, libc, the OS scheduler and tokio are assumptions – a theorem cannot exhibit a race in the real OS, the stress runs only sample real schedules".into());
	out.finish();
}
