//! C01 – sparse tile sets at high zoom levels: two tiles in opposite corners of one level.
//!
//! The writers that walk the 256-blocks of the ADVERTISED level box (`iter_bbox_grid(256)` over the level bounding box,
//! collected into a Vec) need 2^(2z−16) block records for a corner-to-corner box: the write does not complete.  Each
//! attempt runs in a CHILD process (`vth C01child`) with an address-space limit (RLIMIT_AS) and a watchdog; the source
//! is sparse-friendly (its bbox stream filters its own two tiles, like an mbtiles source answering with one query), so
//! whatever explodes is the writer, not the source.
use crate::c16;
use crate::common::*;
use crate::indep_formats::*;
use crate::memsrc::MemSource;
use std::path::Path;
use versatiles_container::{DirectoryTilesReader, DirectoryTilesWriter, MBTilesReader, MBTilesWriter, PMTilesReader, PMTilesWriter, TarTilesReader, TarTilesWriter, TilesWriterTrait, VersaTilesReader, VersaTilesWriter};
use versatiles_core::types::*;

/// a source whose bbox stream costs O(own tiles), never O(box area)
#[derive(Debug)]
struct SparseSource {
	inner: MemSource,
	tiles: Vec<(TileCoord3, Blob)>,
}
#[async_trait::async_trait]
impl TilesReaderTrait for SparseSource {
	fn get_source_name(&self) -> &str {
		self.inner.get_source_name()
	}
	fn get_container_name(&self) -> &str {
		self.inner.get_container_name()
	}
	fn get_parameters(&self) -> &TilesReaderParameters {
		self.inner.get_parameters()
	}
	fn override_compression(&mut self, c: TileCompression) {
		self.inner.override_compression(c)
	}
	fn get_tilejson(&self) -> &versatiles_core::tilejson::TileJSON {
		self.inner.get_tilejson()
	}
	async fn get_tile_data(&self, coord: &TileCoord3) -> anyhow::Result<Option<Blob>> {
		self.inner.get_tile_data(coord).await
	}
	async fn get_bbox_tile_stream(&self, bbox: TileBBox) -> TileStream {
		TileStream::from_vec(self.tiles.iter().filter(|(c, _)| bbox.contains3(c)).cloned().collect())
	}
}

pub const TARGETS: [&str; 5] = ["versatiles", "pmtiles", "mbtiles", "tar", "directory"];

pub fn corner_tiles(z: u8) -> Vec<(Coord, Vec<u8>)> {
	let m = ((1u64 << z) - 1) as u32;
	vec![((z, 0, 0), vec![1, 2, 3]), ((z, m, m), vec![4, 5])]
}

/// `vth C01child --out <dir> <target> <zoom> <MiB> <seconds>`: prints `ok`, `lost <what>` or `err <message>`
pub fn child(args: &Args) {
	let target = args.extra.first().expect("target").clone();
	let z: u8 = args.extra.get(1).and_then(|s| s.parse().ok()).expect("zoom");
	let mib: u64 = args.extra.get(2).and_then(|s| s.parse().ok()).unwrap_or(1024);
	let secs: u64 = args.extra.get(3).and_then(|s| s.parse().ok()).unwrap_or(20);
	unsafe {
		let lim = libc::rlimit { rlim_cur: mib << 20, rlim_max: mib << 20 };
		libc::setrlimit(libc::RLIMIT_AS, &lim);
		let zero = libc::rlimit { rlim_cur: 0, rlim_max: 0 };
		libc::setrlimit(libc::RLIMIT_CORE, &zero);
	}
	std::thread::spawn(move || {
		std::thread::sleep(std::time::Duration::from_secs(secs));
		println!("timeout");
		std::process::exit(3);
	});
	let tiles: Vec<(TileCoord3, Blob)> = corner_tiles(z).into_iter().map(|((z, x, y), p)| (TileCoord3::new(x, y, z).unwrap(), Blob::from(p))).collect();
	let (fmt, comp) = (TileFormat::PNG, TileCompression::Uncompressed);
	let mut src = SparseSource { inner: MemSource::new("sparse", fmt, comp, tiles.clone()), tiles: tiles.clone() };
	std::fs::create_dir_all(&args.out).unwrap();
	let path = args.out.join(match target.as_str() {
		"versatiles" => "s.versatiles",
		"pmtiles" => "s.pmtiles",
		"mbtiles" => "s.mbtiles",
		"tar" => "s.tar",
		_ => "sdir",
	});
	c16::rm(&path);
	let rt = tokio::runtime::Builder::new_current_thread().enable_all().build().unwrap();
	let w = match target.as_str() {
		"versatiles" => rt.block_on(VersaTilesWriter::write_to_path(&mut src, &path)),
		"pmtiles" => rt.block_on(PMTilesWriter::write_to_path(&mut src, &path)),
		"mbtiles" => rt.block_on(MBTilesWriter::write_to_path(&mut src, &path)),
		"tar" => rt.block_on(TarTilesWriter::write_to_path(&mut src, &path)),
		_ => rt.block_on(DirectoryTilesWriter::write_to_path(&mut src, &path)),
	};
	if let Err(e) = w {
		println!("err write: {}", trunc(&format!("{e:#}"), 200));
		return;
	}
	// read back by single lookups only (a bulk read of the level box is the READERS' matter, C16/C02)
	let reader: anyhow::Result<Box<dyn TilesReaderTrait>> = match target.as_str() {
		"versatiles" => rt.block_on(VersaTilesReader::open_path(&path)).map(|r| Box::new(r) as Box<dyn TilesReaderTrait>),
		"pmtiles" => rt.block_on(PMTilesReader::open_path(&path)).map(|r| Box::new(r) as Box<dyn TilesReaderTrait>),
		"mbtiles" => MBTilesReader::open_path(&path).map(|r| Box::new(r) as Box<dyn TilesReaderTrait>),
		"tar" => TarTilesReader::open_path(&path).map(|r| Box::new(r) as Box<dyn TilesReaderTrait>),
		_ => DirectoryTilesReader::open_path(&path).map(|r| Box::new(r) as Box<dyn TilesReaderTrait>),
	};
	let reader = match reader {
		Ok(r) => r,
		Err(e) => {
			println!("err open: {}", trunc(&format!("{e:#}"), 200));
			return;
		}
	};
	for ((z, x, y), p) in corner_tiles(z) {
		match rt.block_on(reader.get_tile_data(&TileCoord3::new(x, y, z).unwrap())) {
			Ok(Some(b)) if b.as_slice() == p.as_slice() => {}
			Ok(Some(b)) => {
				println!("lost tile {z}/{x}/{y}: {} bytes instead of {}", b.len(), p.len());
				return;
			}
			Ok(None) => {
				println!("lost tile {z}/{x}/{y}: None");
				return;
			}
			Err(e) => {
				println!("lost tile {z}/{x}/{y}: Err {}", trunc(&format!("{e:#}"), 120));
				return;
			}
		}
	}
	println!("ok");
}

pub struct Attempt {
	pub target: &'static str,
	pub z: u8,
	/// ok | lost … | err … | timeout | killed by signal N (6 = abort after a failed allocation)
	pub verdict: String,
	pub ms: u128,
}

pub fn attempt(exe: &Path, out: &Path, target: &'static str, z: u8, mib: u64, secs: u64) -> Attempt {
	use std::os::unix::process::ExitStatusExt;
	let t0 = std::time::Instant::now();
	let dir = out.join(format!("sparse-{target}-{z}"));
	let o = std::process::Command::new(exe)
		.arg("C01child")
		.arg("--out")
		.arg(&dir)
		.arg(target)
		.arg(z.to_string())
		.arg(mib.to_string())
		.arg(secs.to_string())
		.stderr(std::process::Stdio::null())
		.output()
		.expect("spawn child");
	let _ = std::fs::remove_dir_all(&dir);
	let text = String::from_utf8_lossy(&o.stdout).trim().to_string();
	let verdict = if let Some(s) = o.status.signal() {
		format!("killed by signal {s}")
	} else if text.is_empty() {
		format!("exit {:?} without verdict", o.status.code())
	} else {
		text.lines().last().unwrap().to_string()
	};
	Attempt { target, z, verdict, ms: t0.elapsed().as_millis() }
}

pub const DEMO_ZOOM: u8 = 24;

fn tiles_label(z: u8) -> String {
	let m = (1u64 << z) - 1;
	format!("{z}/0/0+{z}/{m}/{m}")
}

/// oracle: the write completes inside the budget and both tiles read back
pub fn judge_attempt(ctx: &mut c16::Ctx, a: &Attempt, mib: u64, secs: u64) {
	let line = format!("C01s {} {}", a.target, a.z);
	ctx.out.eval(&line, true);
	ctx.out.count(&format!("sparse_{}_z{}_{}", a.target, a.z, a.verdict.split(' ').next().unwrap_or("?")));
	let ok = a.verdict == "ok";
	ctx.out.oracle(
		ok,
		&format!("C01 sparse-high-zoom {}: two tiles in opposite corners of level {} ({}): {} (budget {} MiB address space, {} s; child process)", a.target, a.z, tiles_label(a.z), a.verdict, mib, secs),
		serde_json::json!({"kind": "sparse-high-zoom", "container": a.target, "tiles": tiles_label(a.z)}),
		serde_json::json!({"case": line, "verdict": a.verdict, "ms": a.ms as u64, "budget_mib": mib, "budget_s": secs}),
	);
}

/// replay form `C01s <target> <zoom>` (harness only, never sent to the model)
pub fn replay(ctx: &mut c16::Ctx, t: &[&str]) -> Option<()> {
	let target = TARGETS.iter().find(|n| Some(**n) == t.get(1).copied())?;
	let z: u8 = t.get(2)?.parse().ok()?;
	if z > 31 {
		return None;
	}
	let exe = std::env::current_exe().ok()?;
	let out = ctx.scratch.fresh("-sparse");
	let a = attempt(&exe, &out, target, z, 1024, 20);
	let _ = std::fs::remove_dir_all(&out);
	judge_attempt(ctx, &a, 1024, 20);
	Some(())
}

pub fn run_cases(ctx: &mut c16::Ctx, args: &Args) {
	let exe = std::env::current_exe().unwrap();
	let out = ctx.scratch.fresh("-sparse");
	// every writer on a small corner-to-corner set, the per-level writers on the largest one
	let mut plan: Vec<(&'static str, u8)> = TARGETS.iter().map(|t| (*t, 12u8)).collect();
	plan.extend([("mbtiles", 31u8), ("tar", 31), ("directory", 31), ("mbtiles", DEMO_ZOOM), ("tar", DEMO_ZOOM), ("directory", DEMO_ZOOM)]);
	// the block-walking writers: 2^(2z−16) block records
	plan.extend([("versatiles", DEMO_ZOOM), ("pmtiles", DEMO_ZOOM)]);
	for (t, z) in plan {
		let a = attempt(&exe, &out, t, z, 1024, 20);
		judge_attempt(ctx, &a, 1024, 20);
	}
	if args.thorough() {
		// smallest zoom at which the two-tile set fails under 2 GiB / 60 s (recorded, not judged: the demonstration above is)
		for t in ["versatiles", "pmtiles"] {
			let mut first_fail = None;
			let mut log = vec![];
			for z in 12..=DEMO_ZOOM {
				let a = attempt(&exe, &out, t, z, 2048, 60);
				log.push(format!("z{z}: {} ({} ms)", a.verdict.split(' ').take(4).collect::<Vec<_>>().join(" "), a.ms));
				if a.verdict != "ok" {
					first_fail = Some(z);
					break;
				}
			}
			ctx.out.notes.push(format!("sparse corner-to-corner set, {t} writer, 2 GiB / 60 s: smallest failing zoom {first_fail:?}; {}", log.join(", ")));
		}
	}
	let _ = std::fs::remove_dir_all(&out);
}
