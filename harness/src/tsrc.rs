//! Shared machinery of C02 / C08 / C09: tile-set specs, real sources (in-memory and the five
//! container formats written with the REAL writers and re-opened with the REAL readers), pipelines
//! built through `PipelineFactory`, evaluation of streams / lookups under `catch_unwind` on a
//! multi-thread runtime, the direct oracle "stream = lookups inside the box", and the case-line
//! protocol of `lean/VtModel/PipeProto.lean`.
//!
//! case line: `<C02|C08|C09> <op> <pipe> <env> [<args>]` (see PipeProto.lean); the env entry has a
//! fifth field `kind` (mem|versatiles|pmtiles|mbtiles|tar|dir) that only the harness reads.
//! Harness-only lines (never sent to the model, used for replays of oracle failures):
//! `<Cxx> X <flip><swap> <env> <boxes>` – source 0 wrapped in `TilesConvertReader`.
use crate::common::*;
use crate::memsrc::MemSource;
use anyhow::Result;
use futures::future::BoxFuture;
use serde_json::{json, Value};
use std::collections::{BTreeMap, HashMap};
use std::path::{Path, PathBuf};
use std::sync::Arc;
use versatiles_container::{get_reader, write_to_filename, TilesConvertReader, TilesConverterParameters};
use versatiles_core::{
	types::*,
	utils::compress,
};
use versatiles_geometry::{
	vector_tile::{VectorTile, VectorTileLayer},
	GeoFeature, Geometry,
};
use versatiles_pipeline::{OperationTrait, PipelineFactory};

pub type Key = (u8, u32, u32); // z, x, y

pub fn comp_code(c: TileCompression) -> u32 {
	match c {
		TileCompression::Uncompressed => 0,
		TileCompression::Gzip => 1,
		TileCompression::Brotli => 2,
	}
}
pub fn comp_of(c: u32) -> TileCompression {
	match c {
		1 => TileCompression::Gzip,
		2 => TileCompression::Brotli,
		_ => TileCompression::Uncompressed,
	}
}
pub fn fmt_code(f: TileFormat) -> u32 {
	match f {
		TileFormat::PBF => 1,
		TileFormat::PNG => 2,
		TileFormat::JPG => 3,
		TileFormat::WEBP => 4,
		_ => 9,
	}
}
pub fn fmt_of(c: u32) -> TileFormat {
	match c {
		1 => TileFormat::PBF,
		2 => TileFormat::PNG,
		3 => TileFormat::JPG,
		4 => TileFormat::WEBP,
		_ => TileFormat::BIN,
	}
}

/// ids from here on denote the 1-byte payload `[id - ONE_BYTE_BASE]` (an "empty-ish" tile that is not a
/// vector tile; only used where nothing has to decode the payload)
pub const ONE_BYTE_BASE: u64 = 1 << 40;
/// the empty (0 bytes) payload
pub const EMPTY_ID: u64 = ONE_BYTE_BASE + 256;

/// raw size the single-feature tile of this id is padded to exactly: both sides of the 1000-byte
/// de-duplication threshold of the versatiles writer
/// tile whose stored bytes are NOT a fixed point of decode + re-encode: layer `L` (with the id feature)
/// is followed by layer `K` (one feature without an id) – re-encoding sorts the layers by name
pub fn two_layer(id: u64) -> bool {
	id % 43 == 7 && size_target(id).is_none() && id % 37 != 0 && id % 47 != 11
}
/// "decompression bomb"-like but legitimate tile: ~500 KB of one repeated character (brotli
/// compresses it by far more than 1032:1)
pub fn repetitive(id: u64) -> bool {
	id % 47 == 11 && id % 1009 != 0 && id % 37 != 0
}

pub fn size_target(id: u64) -> Option<usize> {
	// 1 MiB tiles: exactly 2^20 bytes (id 1009 itself: 2^20 - 1), so that 64 of them end exactly on /
	// one byte before the 64 MiB chunk limit of the versatiles reader
	if id % 1009 == 0 {
		return Some(if id == 1009 { (1 << 20) - 1 } else { 1 << 20 });
	}
	// the 32 KiB chunk gap of the versatiles reader: a skipped tile of exactly gap-1 / gap / gap+1 bytes
	match id % 53 {
		1 if id % 37 != 0 && !repetitive(id) => return Some(32767),
		2 if id % 37 != 0 && !repetitive(id) => return Some(32768),
		3 if id % 37 != 0 && !repetitive(id) => return Some(32769),
		_ => {}
	}
	if id % 37 == 0 || repetitive(id) {
		return None;
	}
	match id % 41 {
		1 => Some(999),
		2 => Some(1000),
		3 => Some(1001),
		_ => None,
	}
}

/// deterministic padding length of the tile with feature id `id`: most tiles are tiny, some exceed
/// the 1000-byte de-duplication threshold, a few exceed the 32 KiB chunk gap of the versatiles reader
pub fn pad_len(id: u64) -> usize {
	if let Some(t) = size_target(id) {
		thread_local! { static MEMO: std::cell::RefCell<HashMap<u64, usize>> = std::cell::RefCell::new(HashMap::new()); }
		if let Some(p) = MEMO.with(|m| m.borrow().get(&id).copied()) {
			return p;
		}
		let mut pad = t.saturating_sub(100).max(1);
		// exact fix-up (the loop above converges in one step unless a varint length changes)
		let mut l = vt_with_pad(&[(id, pad)], "L").len() as usize;
		let mut guard = 0;
		while l != t && guard < 2000 {
			if l < t {
				pad += t - l
			} else {
				pad -= l - t
			}
			l = vt_with_pad(&[(id, pad)], "L").len() as usize;
			guard += 1;
		}
		assert_eq!(l, t, "cannot pad tile {id} to {t} bytes");
		MEMO.with(|m| m.borrow_mut().insert(id, pad));
		return pad;
	}
	if repetitive(id) {
		return 500_000;
	}
	if id % 37 == 0 {
		// stays above the 32 KiB chunk gap of the versatiles reader also when gzip-compressed
		60_000
	} else if id % 5 == 0 {
		1_300
	} else {
		(id % 7) as usize * 3
	}
}

fn vt_with_pad(ids: &[(u64, usize)], layer: &str) -> Blob {
	let mut features = vec![];
	for (id, n) in ids {
		let mut f = GeoFeature::new(Geometry::new_point([1, 2]));
		f.set_property("id".to_string(), *id);
		if *n > 0 {
			let pad: String = if repetitive(*id) {
				"a".repeat(*n)
			} else {
				let mut r = Rng::new(*id);
				(0..*n).map(|_| (b'a' + r.below(26) as u8) as char).collect()
			};
			f.set_property("pad".to_string(), pad);
		}
		features.push(f);
	}
	let l = VectorTileLayer::from_features(layer.to_string(), features, 4096, 1).unwrap();
	let mut layers = vec![l];
	if ids.len() == 1 && layer == "L" && two_layer(ids[0].0) {
		let mut f = GeoFeature::new(Geometry::new_point([3, 4]));
		f.set_property("aux".to_string(), ids[0].0);
		layers.push(VectorTileLayer::from_features("K".to_string(), vec![f], 4096, 1).unwrap());
	}
	VectorTile::new(layers).to_blob().unwrap()
}

/// decompression that does not go through the code under test
pub fn indep_decompress(b: &[u8], comp: TileCompression) -> Option<Vec<u8>> {
	use std::io::Read;
	match comp {
		TileCompression::Uncompressed => Some(b.to_vec()),
		TileCompression::Gzip => {
			let mut out = vec![];
			flate2::read::GzDecoder::new(b).read_to_end(&mut out).ok()?;
			Some(out)
		}
		TileCompression::Brotli => {
			let mut out = vec![];
			brotli::Decompressor::new(b, 4096).read_to_end(&mut out).ok()?;
			Some(out)
		}
	}
}

/// raw (uncompressed) vector tile: layer `L`, one point feature per id with property `id`
pub fn make_vt(ids: &[u64], layer: &str) -> Blob {
	let v: Vec<(u64, usize)> = ids.iter().map(|id| (*id, pad_len(*id))).collect();
	vt_with_pad(&v, layer)
}

/// the raw payload of a stored tile
pub fn make_blob(id: u64) -> Blob {
	if id == EMPTY_ID {
		Blob::new_empty()
	} else if id >= ONE_BYTE_BASE {
		Blob::from(vec![(id - ONE_BYTE_BASE) as u8])
	} else {
		make_vt(&[id], "L")
	}
}

/// identify a delivered blob: decodable under the declared compression, feature ids of all layers
/// (layers sorted by name) → `a+b@c`; `?@c` when it cannot be decoded
pub struct Ident {
	memo: HashMap<(Vec<u8>, u32), String>,
}
impl Ident {
	pub fn new() -> Self {
		Ident { memo: HashMap::new() }
	}
	pub fn of(&mut self, blob: &Blob, comp: TileCompression) -> String {
		let key = (blob.as_slice().to_vec(), comp_code(comp));
		if let Some(s) = self.memo.get(&key) {
			return s.clone();
		}
		let s = format!("{}@{}", ident_raw(blob, comp).unwrap_or_else(|| "?".to_string()), comp_code(comp));
		self.memo.insert(key, s.clone());
		s
	}
}
fn ident_raw(blob: &Blob, comp: TileCompression) -> Option<String> {
	let r = catch(|| -> Option<String> {
		let raw = Blob::from(indep_decompress(blob.as_slice(), comp)?);
		if raw.len() == 0 {
			return Some(EMPTY_ID.to_string());
		}
		if raw.len() == 1 {
			return Some((ONE_BYTE_BASE + raw.as_slice()[0] as u64).to_string());
		}
		// raster tiles of from_debug carry no ids
		let r = raw.as_slice();
		if r.starts_with(&[0x89, b'P', b'N', b'G']) || r.starts_with(&[0xFF, 0xD8]) || r.starts_with(b"RIFF") {
			return Some(String::new());
		}
		let vt = VectorTile::from_blob(&raw).ok()?;
		let mut layers: Vec<&VectorTileLayer> = vt.layers.iter().collect();
		layers.sort_by(|a, b| a.name.cmp(&b.name));
		let mut ids = vec![];
		for l in layers {
			for f in l.features.iter() {
				let g = f.to_feature(l).ok()?;
				// features without an id (the auxiliary layer of two-layer tiles) do not identify anything
				if let Some(v) = g.properties.get("id") {
					ids.push(v.to_string());
				}
			}
		}
		Some(ids.join("+"))
	});
	r.ok().flatten()
}

#[derive(Clone, Debug, PartialEq)]
pub struct SrcSpec {
	pub fmt: u32,
	pub comp: u32,
	pub kind: String,
	pub tiles: BTreeMap<Key, u64>,
	/// fault injection: coordinates whose `get_tile_data` returns `Err` (the source is then wrapped in
	/// `FaultySource`, which serves boxes through the trait's default stream)
	pub fail: Vec<Key>,
}

/// A reader whose lookup fails for some coordinates (I/O error, vanished file, lost connection …) while all
/// other coordinates keep working.  `get_bbox_tile_stream` is the trait's default implementation.
#[derive(Debug)]
pub struct FaultySource {
	pub inner: Box<dyn TilesReaderTrait>,
	pub fail: std::collections::HashSet<Key>,
}
#[async_trait::async_trait]
impl TilesReaderTrait for FaultySource {
	fn get_source_name(&self) -> &str {
		self.inner.get_source_name()
	}
	fn get_container_name(&self) -> &str {
		"faulty"
	}
	fn get_parameters(&self) -> &TilesReaderParameters {
		self.inner.get_parameters()
	}
	fn override_compression(&mut self, c: TileCompression) {
		self.inner.override_compression(c)
	}
	fn get_tilejson(&self) -> &versatiles_core::tilejson::TileJSON {
		self.inner.get_tilejson()
	}
	async fn get_tile_data(&self, coord: &TileCoord3) -> Result<Option<Blob>> {
		if self.fail.contains(&(coord.z, coord.x, coord.y)) {
			anyhow::bail!("injected fault at {coord:?}")
		}
		self.inner.get_tile_data(coord).await
	}
}
pub fn wrap_faulty(r: Box<dyn TilesReaderTrait>, fail: &[Key]) -> Box<dyn TilesReaderTrait> {
	if fail.is_empty() {
		r
	} else {
		Box::new(FaultySource { inner: r, fail: fail.iter().copied().collect() })
	}
}

pub fn show_cover(p: &TileBBoxPyramid) -> String {
	let v: Vec<String> = p.iter_levels().map(show_box).collect();
	if v.is_empty() {
		"-".into()
	} else {
		v.join("/")
	}
}
pub fn show_box(b: &TileBBox) -> String {
	format!("{}:{},{},{},{}", b.level, b.x_min, b.y_min, b.x_max, b.y_max)
}
pub fn parse_box(s: &str) -> TileBBox {
	let (l, r) = s.split_once(':').unwrap();
	let v: Vec<u32> = r.split(',').map(|t| t.parse().unwrap()).collect();
	let z: u8 = l.parse().unwrap();
	let mut b = TileBBox::new_empty(z.min(31)).unwrap();
	b.level = z;
	b.x_min = v[0];
	b.y_min = v[1];
	b.x_max = v[2];
	b.y_max = v[3];
	b
}
pub fn show_tiles_spec(t: &BTreeMap<Key, u64>) -> String {
	if t.is_empty() {
		return "-".into();
	}
	t.iter().map(|((z, x, y), id)| format!("{x},{y},{z},{id}")).collect::<Vec<_>>().join("_")
}
pub fn parse_env(s: &str) -> Vec<SrcSpec> {
	s.split('!')
		.map(|e| {
			let f: Vec<&str> = e.split(';').collect();
			let mut tiles = BTreeMap::new();
			if f[3] != "-" {
				for t in f[3].split('_') {
					let v: Vec<u64> = t.split(',').map(|x| x.parse().unwrap()).collect();
					tiles.insert((v[2] as u8, v[0] as u32, v[1] as u32), v[3]);
				}
			}
			let mut fail = vec![];
			if let Some(fs) = f.get(5) {
				if *fs != "-" && !fs.is_empty() {
					for t in fs.split('_') {
						let v: Vec<u32> = t.split(',').map(|x| x.parse().unwrap()).collect();
						fail.push((v[2] as u8, v[0], v[1]));
					}
				}
			}
			SrcSpec { fmt: f[0].parse().unwrap(), comp: f[1].parse().unwrap(), kind: f.get(4).unwrap_or(&"mem").to_string(), tiles, fail }
		})
		.collect()
}

/// a realised world: the in-memory sources and, for file kinds, the written container
pub struct World {
	pub specs: Vec<SrcSpec>,
	pub mem: Vec<MemSource>,
	pub paths: Vec<Option<PathBuf>>, // absolute path of the written container
	pub covers: Vec<String>,
	pub dir: PathBuf,
	pub open_errors: Vec<Option<String>>,
}

static WORLD_NO: std::sync::atomic::AtomicU64 = std::sync::atomic::AtomicU64::new(0);

/// `kind` = `<base>[~<flip><swap>]`; base ∈ mem | versatiles | vtx (a versatiles file written by the
/// INDEPENDENT encoder with seeded layout freedoms) | pmtiles | mbtiles | tar | dir; the suffix wraps the
/// reader in `TilesConvertReader` with these flags
pub fn base_kind(kind: &str) -> &str {
	kind.trim_end_matches('^').split('~').next().unwrap()
}
pub fn conv_flags(kind: &str) -> Option<(bool, bool)> {
	kind.trim_end_matches('^').split_once('~').map(|(_, f)| (&f[0..1] == "1", &f[1..2] == "1"))
}
/// `…^`: the reader's lookups yield a coordinate-dependent number of times before answering (completion order of
/// concurrent lookups differs from their submission order) and boxes are served by the trait's DEFAULT stream
pub fn is_slow(kind: &str) -> bool {
	kind.ends_with('^')
}

/// lookups that stay pending for a while: `(x + 3y) % 7` yields (earlier coordinates of a row tend to answer later)
#[derive(Debug)]
pub struct SlowSource {
	pub inner: Box<dyn TilesReaderTrait>,
}
#[async_trait::async_trait]
impl TilesReaderTrait for SlowSource {
	fn get_source_name(&self) -> &str {
		self.inner.get_source_name()
	}
	fn get_container_name(&self) -> &str {
		"slow"
	}
	fn get_parameters(&self) -> &TilesReaderParameters {
		self.inner.get_parameters()
	}
	fn override_compression(&mut self, c: TileCompression) {
		self.inner.override_compression(c)
	}
	fn get_tilejson(&self) -> &versatiles_core::tilejson::TileJSON {
		self.inner.get_tilejson()
	}
	async fn get_tile_data(&self, coord: &TileCoord3) -> Result<Option<Blob>> {
		let n = 6 - ((coord.x as u64 + 3 * coord.y as u64) % 7).min(6);
		for _ in 0..n * 2 {
			tokio::task::yield_now().await;
		}
		self.inner.get_tile_data(coord).await
	}
}
pub fn wrap_slow(r: Box<dyn TilesReaderTrait>, kind: &str) -> Box<dyn TilesReaderTrait> {
	if is_slow(kind) {
		Box::new(SlowSource { inner: r })
	} else {
		r
	}
}
/// the coordinate at which a converter with these flags serves the source tile `(z, x, y)`
pub fn conv_coord(k: Key, flip: bool, swap: bool) -> Key {
	let (z, mut x, mut y) = k;
	if flip {
		y = (((1u64 << z) - 1) as u32) - y;
	}
	if swap {
		std::mem::swap(&mut x, &mut y);
	}
	(z, x, y)
}
/// storage class of the `tile_data` of this row in variant `variant`: 0 = BLOB (a tile); 1 TEXT, 2 NULL, 3 INTEGER,
/// 4 REAL (placeholder rows, not tiles: today's reader answers None and its stream skips them); 5 = zeroblob(7);
/// only variants >= 100 (oracle-only worlds) use class 5
pub fn mbx_class(k: &Key, variant: u64) -> u64 {
	let h = (k.1 as u64).wrapping_mul(2654435761).wrapping_add((k.2 as u64).wrapping_mul(40503)).wrapping_add(k.0 as u64 * 97).wrapping_add(variant * 131);
	let h = (h ^ (h >> 13)).wrapping_mul(0x9E3779B97F4A7C15) >> 20;
	if h % 4 != 0 {
		0
	} else {
		1 + (h / 4) % if variant >= 100 { 5 } else { 4 }
	}
}

/// An mbtiles file with the freedoms SQLite and the MBTiles spec leave open, seeded by `variant`:
/// `tiles` as a plain table / a VIEW over map + images / WITHOUT ROWID / with extra columns, with or without an index,
/// columns declared `integer`/`blob` or without a type, rows in random order, and for a few rows `tile_data` stored as
/// TEXT / NULL / INTEGER / REAL / zeroblob instead of a BLOB.  (Duplicate rows for one coordinate are left out: the spec's
/// unique index forbids them and lookup-first-row vs stream-all-rows then differ by construction.)
pub fn write_mbx(path: &Path, tiles: &BTreeMap<Key, Blob>, fmt: u32, comp: u32, variant: u64) -> Result<String> {
	let _ = std::fs::remove_file(path);
	let mut r = Rng::new(variant.wrapping_mul(7919) + 13);
	let conn = rusqlite::Connection::open(path)?;
	let schema = variant % 5;
	let typed = r.chance(3, 4);
	let (ti, tb) = if typed { ("integer", "blob") } else { ("", "") };
	conn.execute_batch("CREATE TABLE metadata (name text, value text);")?;
	match schema {
		1 => conn.execute_batch(&format!(
			"CREATE TABLE map (zoom_level {ti}, tile_column {ti}, tile_row {ti}, tile_id text);
			 CREATE TABLE images (tile_data {tb}, tile_id text);
			 CREATE VIEW tiles AS SELECT map.zoom_level AS zoom_level, map.tile_column AS tile_column, map.tile_row AS tile_row, images.tile_data AS tile_data FROM map JOIN images ON images.tile_id = map.tile_id;"
		))?,
		2 => conn.execute_batch("CREATE TABLE tiles (zoom_level integer, tile_column integer, tile_row integer, tile_data blob, PRIMARY KEY (zoom_level, tile_column, tile_row)) WITHOUT ROWID;")?,
		3 => conn.execute_batch(&format!("CREATE TABLE tiles (extra1 text, zoom_level {ti}, tile_column {ti}, tile_row {ti}, tile_data {tb}, extra2 integer);"))?,
		_ => conn.execute_batch(&format!("CREATE TABLE tiles (zoom_level {ti}, tile_column {ti}, tile_row {ti}, tile_data {tb});"))?,
	}
	if r.chance(1, 2) && schema != 2 {
		if schema == 1 {
			conn.execute_batch("CREATE UNIQUE INDEX map_index ON map (zoom_level, tile_column, tile_row);")?;
		} else {
			conn.execute_batch("CREATE UNIQUE INDEX tile_index ON tiles (zoom_level, tile_column, tile_row);")?;
		}
	}
	let mut rows: Vec<(&Key, &Blob)> = tiles.iter().collect();
	// random order
	for i in (1..rows.len()).rev() {
		let j = r.below(i as u64 + 1) as usize;
		rows.swap(i, j);
	}
	let mut classes = String::new();
	for (n, (k, b)) in rows.iter().enumerate() {
		let _ = n;
		let row = ((1u64 << k.0) - 1 - k.2 as u64) as u32;
		let class = mbx_class(k, variant);
		classes.push(char::from(b'0' + class as u8));
		use rusqlite::types::Value as V;
		let data: V = match class {
			1 => V::Text(String::from_utf8_lossy(b.as_slice()).chars().take(20).collect::<String>() + "text"),
			2 => V::Null,
			3 => V::Integer(42),
			4 => V::Real(1.5),
			5 => V::Blob(vec![0u8; 7]),
			6 => V::Blob(vec![]),
			_ => V::Blob(b.as_slice().to_vec()),
		};
		match schema {
			1 => {
				let idv = format!("t{n}");
				conn.execute("INSERT INTO map VALUES (?1, ?2, ?3, ?4)", rusqlite::params![k.0, k.1, row, idv])?;
				conn.execute("INSERT INTO images VALUES (?1, ?2)", rusqlite::params![data, idv])?;
			}
			3 => {
				conn.execute("INSERT INTO tiles VALUES ('x', ?1, ?2, ?3, ?4, 5)", rusqlite::params![k.0, k.1, row, data])?;
			}
			_ => {
				conn.execute("INSERT INTO tiles VALUES (?1, ?2, ?3, ?4)", rusqlite::params![k.0, k.1, row, data])?;
			}
		}
	}
	let format = match (fmt, comp) {
		(1, _) => "pbf",
		(2, _) => "png",
		(3, _) => "jpg",
		_ => "webp",
	};
	conn.execute("INSERT INTO metadata VALUES ('format', ?1)", [format])?;
	if r.chance(3, 4) {
		conn.execute_batch("INSERT INTO metadata VALUES ('name', 'x'); INSERT INTO metadata VALUES ('type', 'baselayer'); INSERT INTO metadata VALUES ('version', '3.0');")?;
	}
	Ok(format!("schema={schema} typed={typed} classes={classes}"))
}

/// the tiles of a source spec at the coordinates at which the (possibly converter-wrapped) leaf serves them
pub fn served_tiles(s: &SrcSpec) -> BTreeMap<Key, u64> {
	// only what the leaf really serves: placeholder rows (tile_data not a BLOB) of an mbx file are not tiles, and a
	// zero-length payload reads back as "no tile" from uncompressed versatiles / pmtiles containers
	let mut tiles = s.tiles.clone();
	let bk = base_kind(&s.kind);
	if s.comp == 0 && (bk == "versatiles" || bk == "pmtiles" || bk == "vtx") {
		tiles.retain(|_, v| *v != EMPTY_ID);
	}
	if bk.starts_with("mbx") {
		let variant: u64 = bk[3..].parse().unwrap_or(0);
		tiles.retain(|k, _| mbx_class(k, variant) == 0 || mbx_class(k, variant) == 5);
	}
	match conv_flags(&s.kind) {
		None => tiles,
		Some((flip, swap)) => tiles.iter().map(|(k, v)| (conv_coord(*k, flip, swap), *v)).collect(),
	}
}
pub fn wrap_conv(r: Box<dyn TilesReaderTrait>, kind: &str) -> Result<Box<dyn TilesReaderTrait>> {
	match conv_flags(kind) {
		None => Ok(r),
		Some((flip, swap)) => {
			let mut cp = TilesConverterParameters::new_default();
			cp.flip_y = flip;
			cp.swap_xy = swap;
			Ok(Box::new(TilesConvertReader::new_from_reader(r, cp)?))
		}
	}
}

pub fn ext_of(kind: &str) -> &str {
	if kind.starts_with("mbx") {
		return ".mbtiles";
	}
	match base_kind(kind) {
		"vtx" => ".versatiles",
		"versatiles" => ".versatiles",
		"pmtiles" => ".pmtiles",
		"mbtiles" => ".mbtiles",
		"tar" => ".tar",
		_ => "",
	}
}

impl World {
	/// write the sources (REAL writers) below `scratch`; a source whose container cannot be
	/// written / re-opened keeps `open_errors[i] = Some(..)`
	pub fn build(rt: &tokio::runtime::Runtime, scratch: &Path, specs: &[SrcSpec]) -> World {
		let no = WORLD_NO.fetch_add(1, std::sync::atomic::Ordering::SeqCst);
		let dir = std::fs::canonicalize(scratch).unwrap().join(format!("w{no}"));
		std::fs::create_dir_all(&dir).unwrap();
		std::fs::write(dir.join("data.csv"), "id,extra\n1,one\n2,two\n3,three\n").unwrap();
		let mut w = World { specs: specs.to_vec(), mem: vec![], paths: vec![], covers: vec![], dir: dir.clone(), open_errors: vec![] };
		for (i, s) in specs.iter().enumerate() {
			let comp = comp_of(s.comp);
			let tiles: Vec<(TileCoord3, Blob)> = s
				.tiles
				.iter()
				.map(|((z, x, y), id)| (TileCoord3::new(*x, *y, *z).unwrap(), compress(make_blob(*id), &comp).unwrap()))
				.collect();
			let mem = MemSource::new(&format!("s{i}"), fmt_of(s.fmt), comp, tiles);
			let mut path = None;
			let mut err = None;
			let mut cover = show_cover(&mem.parameters.bbox_pyramid);
			let bk = base_kind(&s.kind).to_string();
			let kind_full = s.kind.clone();
			if bk != "mem" || conv_flags(&s.kind).is_some() {
				let p = dir.join(format!("s{i}{}", ext_of(&s.kind)));
				if bk == "dir" {
					std::fs::create_dir_all(&p).unwrap();
				}
				let ps = p.to_str().unwrap().to_string();
				let mut m2 = mem.clone();
				let m3 = mem.clone();
				let r = catch(|| {
					rt.block_on(async {
						if bk == "vtx" {
							// independent encoder: layout freedoms seeded by the tile set
							use crate::indep_formats as ind;
							let mut tm: ind::TileMap = BTreeMap::new();
							let mut h: u64 = 1469598103934665603;
							for (k, b) in m3.tiles.iter() {
								tm.insert(*k, b.as_slice().to_vec());
								h = (h ^ (k.1 as u64 * 31 + k.2 as u64 * 7 + k.0 as u64)).wrapping_mul(1099511628211);
							}
							let mut r = Rng::new(h);
							let fmt = ind::Fmt::from_name(match s.fmt { 1 => "pbf", 2 => "png", 3 => "jpg", 4 => "webp", _ => "bin" }).unwrap();
							let comp = [ind::Comp::None, ind::Comp::Gzip, ind::Comp::Brotli][s.comp as usize % 3];
							let mut ch = ind::VtChoices::plain(fmt, comp);
							ch.range_mode = r.below(3) as u8;
							ch.empty_block = r.chance(1, 3);
							ch.shuffle_blocks = r.chance(1, 2);
							ch.shuffle_index = false;
							ch.blob_order = r.below(4) as u8;
							ch.share = r.chance(1, 2);
							ch.max_gap = *r.pick(&[0usize, 0, 100, 40_000]);
							let enc = ind::encode_versatiles(&tm, &ch, &mut r);
							std::fs::write(&ps, &enc.bytes)?;
						} else if bk.starts_with("mbx") {
							let variant: u64 = bk[3..].parse().unwrap_or(0);
							write_mbx(Path::new(&ps), &m3.tiles, s.fmt, s.comp, variant)?;
						} else if bk != "mem" {
							write_to_filename(&mut m2, &ps).await?;
						}
						let rd: Box<dyn TilesReaderTrait> = if bk == "mem" { Box::new(m3.clone()) } else { get_reader(&ps).await? };
						let rd = wrap_conv(rd, &kind_full)?;
						Ok::<String, anyhow::Error>(show_cover(&rd.get_parameters().bbox_pyramid))
					})
				});
				match r {
					Ok(Ok(c)) => {
						cover = c;
						if bk != "mem" {
							path = Some(p);
						}
					}
					Ok(Err(e)) => err = Some(format!("error: {e:#}")),
					Err(m) => err = Some(format!("panic: {m}")),
				}
			}
			w.mem.push(mem);
			w.paths.push(path);
			w.covers.push(cover);
			w.open_errors.push(err);
		}
		w
	}
	pub fn env_string(&self) -> String {
		self
			.specs
			.iter()
			.enumerate()
			.map(|(i, s)| {
				// a zero-length stored payload reads back as "no tile" from versatiles and pmtiles containers (open
				// known finding C04-empty-tile-dropped, owned by C04): the model leaf is what the reader serves
				let mut tiles = s.tiles.clone();
				let bk = base_kind(&s.kind);
				if s.comp == 0 && (bk == "versatiles" || bk == "pmtiles" || bk == "vtx") {
					tiles.retain(|_, v| *v != EMPTY_ID);
				}
				// placeholder rows (tile_data not a BLOB) of an mbx file are not tiles
				if bk.starts_with("mbx") {
					let variant: u64 = bk[3..].parse().unwrap_or(0);
					tiles.retain(|k, _| mbx_class(k, variant) == 0 || mbx_class(k, variant) == 5);
				}
				// a converter leaf serves the source tile of (z,x,y) at the transformed coordinate
				if let Some((flip, swap)) = conv_flags(&s.kind) {
					tiles = tiles.into_iter().map(|(k, v)| (conv_coord(k, flip, swap), v)).collect();
				}
				let mut e = format!("{};{};{};{};{}", s.fmt, s.comp, self.covers[i], show_tiles_spec(&tiles), s.kind);
				if !s.fail.is_empty() {
					e += &format!(";{}", s.fail.iter().map(|(z, x, y)| format!("{x},{y},{z}")).collect::<Vec<_>>().join("_"));
				}
				e
			})
			.collect::<Vec<_>>()
			.join("!")
	}
	pub fn usable(&self) -> bool {
		self.open_errors.iter().all(|e| e.is_none())
	}
	/// a fresh real reader of source `i`
	pub async fn reader(&self, i: usize) -> Result<Box<dyn TilesReaderTrait>> {
		let r: Box<dyn TilesReaderTrait> = match &self.paths[i] {
			Some(p) => get_reader(p.to_str().unwrap()).await?,
			None => Box::new(self.mem[i].clone()),
		};
		let r = wrap_conv(r, &self.specs[i].kind)?;
		let r = wrap_slow(r, &self.specs[i].kind);
		Ok(wrap_faulty(r, &self.specs[i].fail))
	}
	pub fn has_faults(&self) -> bool {
		self.specs.iter().any(|s| !s.fail.is_empty())
	}
	pub fn factory(&self) -> PipelineFactory {
		let mem: Arc<Vec<MemSource>> = Arc::new(self.mem.clone());
		let paths: Arc<Vec<Option<PathBuf>>> = Arc::new(self.paths.clone());
		let fails: Arc<Vec<Vec<Key>>> = Arc::new(self.specs.iter().map(|s| s.fail.clone()).collect());
		let kinds: Arc<Vec<String>> = Arc::new(self.specs.iter().map(|s| s.kind.clone()).collect());
		let cb = Box::new(move |filename: String| -> BoxFuture<'static, Result<Box<dyn TilesReaderTrait>>> {
			let mem = mem.clone();
			let paths = paths.clone();
			let fails = fails.clone();
			let kinds = kinds.clone();
			Box::pin(async move {
				let base = Path::new(&filename).file_name().unwrap().to_str().unwrap().to_string();
				let i: usize = base.trim_start_matches('s').parse()?;
				anyhow::ensure!(i < mem.len(), "no such source");
				// opening a source is genuinely asynchronous: the future of an EARLIER listed source stays
				// pending longer than that of a later one (deterministic, no timers), so the completion order
				// of the opening futures is the reverse of the list order
				for _ in 0..(mem.len() - i) * 3 {
					tokio::task::yield_now().await;
				}
				let r = match &paths[i] {
					Some(p) => get_reader(p.to_str().unwrap()).await?,
					None => Box::new(mem[i].clone()) as Box<dyn TilesReaderTrait>,
				};
				let r = wrap_conv(r, &kinds[i])?;
				let r = wrap_slow(r, &kinds[i]);
				Ok(wrap_faulty(r, &fails[i]))
			})
		});
		PipelineFactory::default(&self.dir, cb)
	}
	pub fn cleanup(&self) {
		let _ = std::fs::remove_dir_all(&self.dir);
	}
}

/// pipeline in reverse polish notation (see PipeProto.lean) → VPL text
pub fn rpn_to_vpl(rpn: &str) -> Option<String> {
	let mut st: Vec<String> = vec![];
	for tok in rpn.split(',') {
		let (h, rest) = tok.split_at(1);
		match h {
			"L" => st.push(format!("from_container filename=\"s{rest}\"")),
			"D" if rest.starts_with('x') => {
				st.push(match rest {
					"xk1" => "from_debug Format=pbf".to_string(),
					"xk2" => "from_debug format=pbf Fast=true".to_string(),
					"xk3" => "from_debug format=pbf fast_=true".to_string(),
					"xk4" => "from_debug format=pbf FORMAT=png".to_string(),
					_ => "from_container filename=\"s0\" FileName=\"s0\"".to_string(),
				});
			}
			"D" => {
				let fast = rest.ends_with('f');
				let code = rest.trim_end_matches('f');
				let name = match code {
					"1" => "pbf",
					"2" => "png",
					"3" => "jpg",
					"4" => "webp",
					_ => return None,
				};
				st.push(format!("from_debug format={name}{}", if fast { " fast=true" } else { "" }));
			}
			"U" if rest.starts_with('x') => {
				let p = st.pop()?;
				let bad = match rest {
					"xk1" => "Layer_Name=\"L\"",
					"xk2" => "layer_name=\"L\" layername=\"L\"",
					_ => "layer_name=\"L\" ID_FIELD_TILES=\"id\"",
				};
				st.push(format!("{p} | vectortiles_update_properties data_source_path=\"data.csv\" {bad} id_field_tiles=\"id\" id_field_data=\"id\""));
			}
			"U" => {
				let p = st.pop()?;
				st.push(format!(
					"{p} | vectortiles_update_properties data_source_path=\"data.csv\" layer_name=\"L\" id_field_tiles=\"id\" id_field_data=\"id\""
				));
			}
			"Z" => {
				let p = st.pop()?;
				let (a, b) = rest.split_once(':')?;
				if a.starts_with("xk") {
					// near-miss parameter names: other case, trailing underscore, prefix, next to the correct one, look-alike
					let bad = match a {
						"xk1" => "Max=3",
						"xk2" => "MIN=1",
						"xk3" => "min_=1",
						"xk4" => "mi=1",
						"xk5" => "min=1 Min=2",
						"xk6" => "max=9 maxx=3",
						_ => "m\u{456}n=1",
					};
					st.push(format!("{p} | filter_zoom {bad}"));
					continue;
				}
				let mut s = format!("{p} | filter_zoom");
				for (k, v) in [("min", a), ("max", b)] {
					match v {
						"n" => {}
						"x" => s += &format!(" {k}=abc"),
						"xf" => s += &format!(" {k}=1.5"),
						"xn" => s += &format!(" {k}=-1"),
						"xe" => s += &format!(" {k}=\"\""),
						v if v.starts_with('x') => s += &format!(" {k}=abc"),
						v => s += &format!(" {k}={v}"),
					}
				}
				st.push(s);
			}
			"B" => {
				let p = st.pop()?;
				if rest.starts_with('x') {
					// not four numbers
					let arg = match rest {
						"x0" => "bbox=[]".to_string(),
						"x1" => "bbox=[1]".to_string(),
						"x5" => "bbox=[0,0,20,20,50]".to_string(),
						"x8" => "bbox=[0,0,20,20,0,0,20,20]".to_string(),
						"xr" => "bbox=[0,0,20,20] bbox=[0,0,20,20]".to_string(),
						"xt" => "bbox=[0,0,20,20,abc]".to_string(),
						"xn" => "bbox=[0,0,abc,20]".to_string(),
						"xs" => "bbox=5".to_string(),
						"xk1" => "BBox=[0,0,20,20]".to_string(),
						"xk2" => "bbox=[0,0,20,20] BBox=[0,0,10,10]".to_string(),
						"xk3" => "bbox_=[0,0,20,20]".to_string(),
						"xk4" => "bb=[0,0,20,20]".to_string(),
						"xk5" => "bbox=[0,0,20,20] Bbox=[0,0,20,20]".to_string(),
						_ => "bbox=[1,2,3]".to_string(),
					};
					st.push(format!("{p} | filter_bbox {arg}"));
				} else {
					let v: Vec<String> = rest.split(':').map(|t| format!("\"{:?}\"", f64::from_bits(t.parse::<u64>().unwrap()))).collect();
					st.push(format!("{p} | filter_bbox bbox=[{}]", v.join(",")));
				}
			}
			"O" | "M" => {
				let k: usize = rest.parse().ok()?;
				if st.len() < k {
					return None;
				}
				let ps = st.split_off(st.len() - k);
				let name = if h == "O" { "from_overlayed" } else { "from_vectortiles_merged" };
				st.push(format!("{name} [ {} ]", ps.join(", ")));
			}
			_ => return None,
		}
	}
	if st.len() == 1 {
		st.pop()
	} else {
		None
	}
}

/// either kind of real tile source
pub enum Real {
	R(Box<dyn TilesReaderTrait>),
	O(Box<dyn OperationTrait>),
}
impl Real {
	pub fn params(&self) -> &TilesReaderParameters {
		match self {
			Real::R(r) => r.get_parameters(),
			Real::O(o) => o.get_parameters(),
		}
	}
	pub fn name(&self) -> String {
		match self {
			Real::R(r) => r.get_container_name().to_string(),
			Real::O(_) => "pipeline".to_string(),
		}
	}
	pub async fn stream(&self, b: TileBBox) -> Vec<(TileCoord3, Blob)> {
		match self {
			Real::R(r) => r.get_bbox_tile_stream(b).await.collect().await,
			Real::O(o) => o.get_tile_stream(b).await.collect().await,
		}
	}
	pub async fn lookup(&self, c: &TileCoord3) -> Result<Option<Blob>> {
		match self {
			Real::R(r) => r.get_tile_data(c).await,
			Real::O(o) => o.get_tile_data(c).await,
		}
	}
}

pub fn runtime() -> tokio::runtime::Runtime {
	tokio::runtime::Builder::new_multi_thread().worker_threads(4).enable_all().build().unwrap()
}

pub fn sort_tiles(v: &mut [(TileCoord3, Blob)]) {
	v.sort_by(|a, b| (a.0.x, a.0.y, a.0.z).cmp(&(b.0.x, b.0.y, b.0.z)));
}

pub fn show_stream(id: &mut Ident, comp: TileCompression, v: &[(TileCoord3, Blob)]) -> String {
	if v.is_empty() {
		return "-".into();
	}
	let mut v: Vec<(TileCoord3, Blob)> = v.to_vec();
	sort_tiles(&mut v);
	v.iter().map(|(c, b)| format!("{},{},{},{}", c.x, c.y, c.z, id.of(b, comp))).collect::<Vec<_>>().join("_")
}

/// what one box evaluation saw
pub struct BoxEval {
	pub stream: Result<Vec<(TileCoord3, Blob)>, String>, // Err = panic message
	pub failure: Option<(String, String)>,                // (kind, human text) of the direct oracle
	pub n_lookup_hits: usize,
	pub n_lookup_errs: usize,
	pub n_coords: u64,
}

/// real stream (collected, under catch_unwind, on the multi-thread runtime) versus real lookups over
/// `iter_coords`: same set, identical bytes, each once, nothing outside.
pub fn eval_box(rt: &tokio::runtime::Runtime, src: &Real, b: &TileBBox) -> BoxEval {
	eval_box_ex(rt, src, b, false)
}

/// `allow_err`: the source is known to fail for some coordinates (fault injection); a failing lookup then
/// counts as "no tile": the stream must deliver exactly the tiles whose lookup is `Ok(Some)`
pub fn eval_box_ex(rt: &tokio::runtime::Runtime, src: &Real, b: &TileBBox, allow_err: bool) -> BoxEval {
	eval_box_opts(rt, src, b, allow_err, true)
}

/// `check_cover = false`: a `TilesConvertReader` with a requested pyramid advertises the restricted pyramid but serves
/// every tile of its source by lookup and by stream (the restriction takes effect in the writers, which walk the advertised
/// pyramid) – for C02 only the agreement of stream and lookups matters there
pub fn eval_box_opts(rt: &tokio::runtime::Runtime, src: &Real, b: &TileBBox, allow_err: bool, check_cover: bool) -> BoxEval {
	let stream = catch(|| rt.block_on(async { src.stream(b.clone()).await }));
	let mut ev = BoxEval { stream, failure: None, n_lookup_hits: 0, n_lookup_errs: 0, n_coords: 0 };
	let coords: Vec<TileCoord3> = if b.is_empty() { vec![] } else { b.iter_coords().collect() };
	ev.n_coords = coords.len() as u64;
	let mut expect: BTreeMap<(u32, u32, u8), Blob> = BTreeMap::new();
	for c in coords.iter() {
		match catch(|| rt.block_on(async { src.lookup(c).await })) {
			Ok(Ok(Some(blob))) => {
				expect.insert((c.x, c.y, c.z), blob);
			}
			Ok(Ok(None)) => {}
			Ok(Err(_)) if allow_err => {
				ev.n_lookup_errs += 1;
			}
			Ok(Err(e)) => {
				ev.failure = Some(("lookup_err".into(), format!("lookup {c:?} failed: {e:#}")));
				return ev;
			}
			Err(m) => {
				ev.failure = Some(("lookup_panic".into(), format!("lookup {c:?} panicked: {}", trunc(&m, 120))));
				return ev;
			}
		}
	}
	ev.n_lookup_hits = expect.len();
	// the advertised coverage must contain everything that is delivered (by lookups and by the stream)
	if check_cover {
		let pyr = &src.params().bbox_pyramid;
		let mut outside: Option<(u32, u32, u8)> = expect.keys().find(|k| !pyr.contains_coord(&TileCoord3 { x: k.0, y: k.1, z: k.2 })).copied();
		if outside.is_none() {
			if let Ok(v) = &ev.stream {
				outside = v.iter().map(|(c, _)| (c.x, c.y, c.z)).find(|k| !pyr.contains_coord(&TileCoord3 { x: k.0, y: k.1, z: k.2 }));
			}
		}
		if let Some(k) = outside {
			ev.failure = Some(("outside_advertised_coverage".into(), format!("a tile is delivered at {k:?} although parameters().bbox_pyramid does not contain it")));
			return ev;
		}
	}
	// the same source object streamed a second time delivers the same tiles (every 4th box)
	if (b.x_min.wrapping_add(b.y_max).wrapping_add(b.level as u32)) % 4 == 0 {
		if let Ok(v1) = &ev.stream {
			let second = catch(|| rt.block_on(async { src.stream(b.clone()).await }));
			let same = match &second {
				Ok(v2) => {
					let mut a: Vec<(u32, u32, u8, &[u8])> = v1.iter().map(|(c, b)| (c.x, c.y, c.z, b.as_slice())).collect();
					let mut c: Vec<(u32, u32, u8, &[u8])> = v2.iter().map(|(c, b)| (c.x, c.y, c.z, b.as_slice())).collect();
					a.sort();
					c.sort();
					a == c
				}
				Err(_) => false,
			};
			if !same {
				ev.failure = Some(("second_stream_differs".into(), "streaming the same box a second time from the same source object gives a different result".to_string()));
				return ev;
			}
		}
	}
	match &ev.stream {
		Err(m) => ev.failure = Some(("stream_panic".into(), format!("stream panicked: {}", trunc(m, 160)))),
		Ok(v) => {
			let mut seen: BTreeMap<(u32, u32, u8), ()> = BTreeMap::new();
			for (c, blob) in v {
				let k = (c.x, c.y, c.z);
				if c.z != b.level || !b.contains3(c) {
					ev.failure = Some(("outside".into(), format!("stream delivered {c:?} outside the box")));
					break;
				}
				if seen.insert(k, ()).is_some() {
					ev.failure = Some(("duplicate".into(), format!("stream delivered {c:?} twice")));
					break;
				}
				match expect.get(&k) {
					None => {
						ev.failure = Some(("extra".into(), format!("stream delivered {c:?}, the lookup has no tile there")));
						break;
					}
					Some(e) if e.as_slice() != blob.as_slice() => {
						ev.failure = Some(("bytes_differ".into(), format!("stream and lookup bytes differ at {c:?}")));
						break;
					}
					_ => {}
				}
			}
			if ev.failure.is_none() && seen.len() != expect.len() {
				let miss = expect.keys().find(|k| !seen.contains_key(k)).unwrap();
				ev.failure = Some(("missing".into(), format!("stream lacks the tile at {miss:?} that the lookup returns")));
			}
		}
	}
	ev
}

/// a box is non-trivial when it partially overlaps the coverage or crosses a 256-block border
pub fn nontrivial_box(b: &TileBBox, cover: &TileBBoxPyramid) -> bool {
	if b.is_empty() || b.level > 31 {
		return false;
	}
	let crosses = (b.x_min >> 8) != (b.x_max >> 8) || (b.y_min >> 8) != (b.y_max >> 8);
	let c = cover.get_level_bbox(b.level);
	let partial = !c.is_empty() && c.overlaps_bbox(b).unwrap_or(false) && !(b.x_min >= c.x_min && b.x_max <= c.x_max && b.y_min >= c.y_min && b.y_max <= c.y_max);
	crosses || partial
}

pub fn build_op(rt: &tokio::runtime::Runtime, w: &World, rpn: &str) -> Result<Result<Box<dyn OperationTrait>, String>, String> {
	let vpl = match rpn_to_vpl(rpn) {
		Some(v) => v,
		None => return Ok(Err("bad rpn".into())),
	};
	let f = w.factory();
	catch(|| rt.block_on(async { f.operation_from_vpl(&vpl).await.map_err(|e| format!("{e:#}")) }))
}

/// Run one case line on the real code. Emits the model case (when the line has a model side), the
/// oracle verdicts and the counters.  `prop` = "C02" | "C08" | "C09".
pub fn run_line(rt: &tokio::runtime::Runtime, out: &mut Out, id: &mut Ident, scratch: &Path, line: &str) {
	let t: Vec<&str> = line.split(' ').collect();
	if t.len() < 4 {
		return;
	}
	if t[0] == "C02v" || t[0] == "C02m" {
		// `<stream> <op> <env> <index (recomputed)> <args>`
		if t.len() < 5 {
			return;
		}
		let specs = parse_env(t[2]);
		let w = World::build(rt, scratch, &specs);
		reader_line(rt, out, id, &w, t[0], t[1], t[4]);
		w.cleanup();
		return;
	}
	let specs = parse_env(t[3]);
	let w = World::build(rt, scratch, &specs);
	run_in_world(rt, out, id, &w, t[0], t[1], t[2], t.get(4).copied().unwrap_or(""));
	w.cleanup();
}

pub fn sig_src(w: &World, rpn: &str) -> String {
	// coarse description of what is under test: the operation letters and the leaf kinds
	let ops: String = rpn.split(',').map(|t| &t[..1]).filter(|h| *h != "L").collect(); // D = from_debug
	let mut kinds: Vec<&str> = w.specs.iter().map(|s| s.kind.as_str()).collect();
	kinds.sort();
	kinds.dedup();
	format!("{}[{}]", ops, kinds.join(","))
}

pub fn run_in_world(rt: &tokio::runtime::Runtime, out: &mut Out, id: &mut Ident, w: &World, prop: &str, op: &str, rpn: &str, args: &str) {
	if std::env::var("VTH_TRACE").is_ok() {
		eprintln!("  run {prop} {op} {rpn} {}", trunc(args, 3000));
	}
	let env = w.env_string();
	let mop = if op == "s" { "S" } else { op };
	let line = if args.is_empty() { format!("{prop} {mop} {rpn} {env}") } else { format!("{prop} {mop} {rpn} {env} {args}") };
	if !w.usable() {
		out.count("world_unusable");
		return;
	}
	if op == "Y" {
		// oracle only: whatever the lookups say, the stream must say the same; nothing may panic (source 0's reader)
		let rd = match catch(|| rt.block_on(async { w.reader(0).await })) {
			Ok(Ok(r)) => r,
			_ => {
				out.count("reader_open_failed");
				return;
			}
		};
		let src = Real::R(rd);
		for bs in args.split(';') {
			let b = parse_box(bs);
			let ev = eval_box(rt, &src, &b);
			out.eval(&format!("{prop} Y {rpn} {env} {bs}"), nontrivial_box(&b, &src.params().bbox_pyramid) || ev.n_lookup_hits > 0);
			out.count("oracle_only_reader_boxes");
			let ok = ev.failure.is_none();
			let (kind, text) = ev.failure.unwrap_or_default();
			out.oracle(ok, &format!("{prop} reader stream vs lookups: {text}"), json!({"kind": kind, "src": w.specs[0].kind.trim_end_matches(char::is_numeric)}), json!({"case": format!("{prop} Y {rpn} {env} {bs}")}));
		}
		return;
	}
	if op == "X" {
		// converter wrapper around source 0 (oracle only)
		let flip = &rpn[0..1] == "1";
		let swap = &rpn[1..2] == "1";
		let rd = match catch(|| rt.block_on(async { w.reader(0).await })) {
			Ok(Ok(r)) => r,
			_ => {
				out.count("reader_open_failed");
				return;
			}
		};
		let mut cp = TilesConverterParameters::new_default();
		cp.flip_y = flip;
		cp.swap_xy = swap;
		if rpn.len() > 2 && &rpn[2..3] == "r" {
			// restricted conversion: only the upper-left quarter of every level (and nothing of the lowest level) is requested
			let mut pyr = TileBBoxPyramid::new_empty();
			for z in 1..32u8 {
				let m = ((1u64 << z) - 1) as u32;
				pyr.set_level_bbox(TileBBox::new(z, 0, 0, m / 2, m / 2).unwrap());
			}
			cp.bbox_pyramid = Some(pyr);
		}
		let conv = match catch(|| TilesConvertReader::new_from_reader(rd, cp)) {
			Ok(Ok(c)) => c,
			_ => {
				out.count("converter_build_failed");
				return;
			}
		};
		let src = Real::R(Box::new(conv));
		for bs in args.split(';') {
			let b = parse_box(bs);
			let ev = eval_box_opts(rt, &src, &b, w.has_faults(), !rpn.ends_with('r'));
			out.count_n("lookups_failing_inside_a_box", ev.n_lookup_errs as u64);
			let nt = nontrivial_box(&b, &src.params().bbox_pyramid);
			out.eval(&format!("{prop} X {rpn} {env} {bs}"), nt);
			out.count(&format!("converter_flip{}_swap{}", flip as u8, swap as u8));
			let ok = ev.failure.is_none();
			let (kind, text) = ev.failure.unwrap_or_default();
			out.oracle(
				ok,
				&format!("{prop} converter stream vs lookups: {text}"),
				json!({"kind": kind, "src": "converter", "both_flags": flip && swap, "inner": w.specs[0].kind}),
				json!({"case": format!("{prop} X {rpn} {env} {bs}")}),
			);
		}
		return;
	}
	// op "V": the same pipeline through the REAL `PipelineReader` (container/pipeline/reader.rs): the VPL text is
	// written to a file next to the containers and opened with `get_reader`
	if op == "V" {
		if w.paths.iter().any(|p| p.is_none()) || w.has_faults() || w.specs.iter().any(|s| conv_flags(&s.kind).is_some()) {
			return;
		}
		let mut vpl = match rpn_to_vpl(rpn) {
			Some(v) => v,
			None => return,
		};
		for (i, p) in w.paths.iter().enumerate() {
			let name = p.as_ref().unwrap().file_name().unwrap().to_str().unwrap().to_string();
			vpl = vpl.replace(&format!("filename=\"s{i}\""), &format!("filename=\"{name}\""));
		}
		let vp = w.dir.join("pipe.vpl");
		std::fs::write(&vp, &vpl).unwrap();
		let line_s = format!("{prop} S {rpn} {env} {args}");
		let rd = match catch(|| rt.block_on(async { get_reader(vp.to_str().unwrap()).await })) {
			Ok(Ok(r)) => r,
			Ok(Err(_)) => {
				out.case(&line_s, "err", true);
				return;
			}
			Err(m) => {
				out.case(&line_s, "panic", true);
				out.oracle(false, &format!("{prop} PipelineReader open panicked: {}", trunc(&m, 120)), json!({"kind": "build_panic", "ops": sig_src(w, rpn), "via": "vpl-file"}), json!({"case": line_s, "vpl": vpl}));
				return;
			}
		};
		let src = Real::R(rd);
		let comp = src.params().tile_compression;
		let mut res = vec![];
		for bs in args.split(';') {
			let b = parse_box(bs);
			let ev = eval_box(rt, &src, &b);
			out.eval(&format!("{prop} V {rpn} {env} {bs}"), nontrivial_box(&b, &src.params().bbox_pyramid));
			res.push(match &ev.stream {
				Ok(v) => show_stream(id, comp, v),
				Err(_) => "panic".to_string(),
			});
			let ok = ev.failure.is_none();
			let (kind, text) = ev.failure.unwrap_or_default();
			out.oracle(ok, &format!("{prop} PipelineReader stream vs lookups: {text}"), json!({"kind": kind, "ops": sig_src(w, rpn), "via": "vpl-file"}), json!({"case": format!("{prop} V {rpn} {env} {bs}"), "vpl": vpl}));
		}
		out.count("pipeline_reader_lines");
		out.case(&line_s, &res.join("|"), true);
		return;
	}
	let built = build_op(rt, w, rpn);
	let opr = match built {
		Err(m) => {
			out.case(&line, "panic", true);
			out.count("build_panic");
			out.oracle(
				false,
				&format!("{prop} build panicked: {}", trunc(&m, 160)),
				json!({"kind": "build_panic", "ops": sig_src(w, rpn)}),
				json!({"case": line, "vpl": rpn_to_vpl(rpn)}),
			);
			return;
		}
		Ok(Err(_)) => {
			out.case(&line, "err", true);
			out.count("build_err");
			return;
		}
		Ok(Ok(o)) => o,
	};
	out.count("build_ok");
	let src = Real::O(opr);
	let comp = src.params().tile_compression;
	match op {
		"P" => {
			let p = src.params();
			let ans = format!("fmt={} comp={} cover={}", fmt_code(p.tile_format), comp_code(p.tile_compression), show_cover(&p.bbox_pyramid));
			out.case(&line, &ans, true);
		}
		"G" => {
			let mut res = vec![];
			for cs in args.split(';') {
				let v: Vec<u32> = cs.split(',').map(|x| x.parse().unwrap()).collect();
				let c = TileCoord3::new(v[0], v[1], v[2] as u8).unwrap();
				res.push(match catch(|| rt.block_on(async { src.lookup(&c).await })) {
					Ok(Ok(Some(b))) => id.of(&b, comp),
					Ok(Ok(None)) => "-".to_string(),
					Ok(Err(_)) => "err".to_string(),
					Err(_) => "panic".to_string(),
				});
			}
			out.count_n("lookups", res.len() as u64);
			let hits = res.iter().filter(|r| r.as_str() != "-").count();
			out.case(&line, &res.join("|"), hits > 0 && hits < res.len());
		}
		"S" | "s" => {
			// "s": model line only (what the code does today), without the stream-vs-lookups oracle
			let with_oracle = op == "S";
			let mut res = vec![];
			let mut any_nt = false;
			for bs in args.split(';') {
				let b = parse_box(bs);
				let ev = eval_box_ex(rt, &src, &b, w.has_faults());
				out.count_n("lookups_failing_inside_a_box", ev.n_lookup_errs as u64);
				let nt = nontrivial_box(&b, &src.params().bbox_pyramid) || ev.n_lookup_errs > 0;
				any_nt |= nt;
				out.eval(&format!("{prop} S {rpn} {env} {bs}"), nt);
				out.count(if b.is_empty() { "box_empty" } else if ev.n_lookup_hits == 0 { "box_no_tiles" } else if (ev.n_lookup_hits as u64) < ev.n_coords { "box_partial" } else { "box_full" });
				res.push(match &ev.stream {
					Ok(v) => show_stream(id, comp, v),
					Err(_) => "panic".to_string(),
				});
				let ok = ev.failure.is_none() || !with_oracle;
				let (kind, text) = ev.failure.unwrap_or_default();
				out.oracle(
					ok,
					&format!("{prop} stream vs lookups: {text}"),
					json!({"kind": kind, "ops": sig_src(w, rpn)}),
					json!({"case": format!("{prop} S {rpn} {env} {bs}"), "vpl": rpn_to_vpl(rpn)}),
				);
			}
			out.case(&line, &res.join("|"), any_nt);
			// several of these boxes at once on the same operation object
			let bx: Vec<TileBBox> = args.split(';').map(parse_box).filter(|b| !b.is_empty()).take(4).collect();
			if bx.len() >= 2 && line.len() % 3 == 0 {
				concurrent_streams(rt, out, &src, &bx, prop, &format!("{prop} S {rpn} {env} {}", boxes_arg(&bx)));
			}
		}
		_ => {}
	}
}

/// several streams on ONE source object at the same time must each equal the sequential result
pub fn concurrent_streams(rt: &tokio::runtime::Runtime, out: &mut Out, src: &Real, boxes: &[TileBBox], prop: &str, case: &str) {
	if boxes.len() < 2 {
		return;
	}
	let norm = |v: &Vec<(TileCoord3, Blob)>| -> Vec<(u32, u32, u8, Vec<u8>)> {
		let mut a: Vec<(u32, u32, u8, Vec<u8>)> = v.iter().map(|(c, b)| (c.x, c.y, c.z, b.as_slice().to_vec())).collect();
		a.sort();
		a
	};
	let seq = catch(|| rt.block_on(async {
		let mut r = vec![];
		for b in boxes {
			r.push(src.stream(b.clone()).await);
		}
		r
	}));
	let con = catch(|| rt.block_on(async { futures::future::join_all(boxes.iter().map(|b| src.stream(b.clone()))).await }));
	let ok = match (&seq, &con) {
		(Ok(a), Ok(b)) => a.iter().map(norm).collect::<Vec<_>>() == b.iter().map(norm).collect::<Vec<_>>(),
		_ => false,
	};
	out.eval(&format!("{prop} concurrent {case}"), true);
	out.count("concurrent_stream_groups");
	out.oracle(
		ok,
		&format!("{prop} concurrent streams: {} streams on one source object at the same time differ from the sequential results{}", boxes.len(), if con.is_err() { " (panic)" } else { "" }),
		json!({"kind": "concurrent_streams_differ", "src": src.name()}),
		json!({"case": case}),
	);
}

/// A stream of `b` on a reader while `n_tasks` other tasks keep calling `get_tile_data` on the SAME reader object (multi-thread
/// runtime): every streamed pair must be what a quiet lookup returns.
pub fn stream_under_lookup_load(rt: &tokio::runtime::Runtime, out: &mut Out, rd: Box<dyn TilesReaderTrait>, b: &TileBBox, probes: Vec<TileCoord3>, prop: &str, case: &str) {
	let rd: Arc<Box<dyn TilesReaderTrait>> = Arc::new(rd);
	let bb = b.clone();
	let r = catch(|| {
		rt.block_on(async {
			let stop = Arc::new(std::sync::atomic::AtomicBool::new(false));
			let mut hs = vec![];
			for t in 0..4usize {
				let rd = rd.clone();
				let stop = stop.clone();
				let probes = probes.clone();
				hs.push(tokio::spawn(async move {
					let mut i = t;
					while !stop.load(std::sync::atomic::Ordering::Relaxed) {
						let _ = rd.get_tile_data(&probes[i % probes.len()]).await;
						i += 3;
						tokio::task::yield_now().await;
					}
				}));
			}
			let rd2 = rd.clone();
			let sh = tokio::spawn(async move { rd2.get_bbox_tile_stream(bb).await.collect().await });
			let streamed = sh.await;
			stop.store(true, std::sync::atomic::Ordering::Relaxed);
			for h in hs {
				let _ = h.await;
			}
			let streamed = streamed.map_err(|e| e.to_string())?;
			// quiet lookups afterwards
			let mut bad = None;
			for (c, blob) in streamed.iter() {
				match rd.get_tile_data(c).await {
					Ok(Some(q)) if q.as_slice() == blob.as_slice() => {}
					_ => {
						bad = Some(*c);
						break;
					}
				}
			}
			Ok::<(usize, Option<TileCoord3>), String>((streamed.len(), bad))
		})
	});
	out.eval(&format!("{prop} load {case}"), true);
	out.count("streams_under_concurrent_lookup_load");
	let (ok, text) = match r {
		Ok(Ok((_, None))) => (true, String::new()),
		Ok(Ok((_, Some(c)))) => (false, format!("the tile streamed for {c:?} is not what a lookup of that coordinate returns")),
		Ok(Err(e)) => (false, format!("stream task failed: {}", trunc(&e, 100))),
		Err(m) => (false, format!("panic: {}", trunc(&m, 100))),
	};
	out.oracle(ok, &format!("{prop} stream while other tasks look tiles up on the same reader: {text}"), json!({"kind": "stream_under_lookup_load", "src": case.split(';').nth(4).unwrap_or("").split(' ').next().unwrap_or("")}), json!({"case": case}));
}

/// `Value` helper for samples
pub fn jstr(s: &str) -> Value {
	json!(trunc(s, 300))
}

// ---------------------------------------------------------------------------------------------
// generators shared by the three properties

/// random tile coordinates: 1–4 zoom levels (gaps allowed), clusters that may straddle a block
/// border (255/256), sparse fill
pub fn gen_coords(rng: &mut Rng, max_tiles: usize, allow_gaps: bool) -> Vec<Key> {
	let mut levels: Vec<u8> = vec![];
	let n_levels = rng.range(1, 4);
	if allow_gaps {
		while levels.len() < n_levels as usize {
			let z = if rng.chance(1, 6) { rng.range(15, 31) as u8 } else if rng.chance(1, 2) { rng.range(0, 4) as u8 } else { rng.range(5, 14) as u8 };
			if !levels.contains(&z) {
				levels.push(z);
			}
		}
	} else {
		let z0 = rng.range(0, 10) as u8;
		for i in 0..n_levels {
			levels.push(z0 + i as u8);
		}
	}
	levels.sort();
	let mut v = vec![];
	let per = (max_tiles / levels.len()).max(1);
	for z in levels {
		let size: u64 = 1u64 << z;
		let w = rng.range(1, 8).min(size);
		let h = rng.range(1, 8).min(size);
		let (x0, y0) = if z >= 9 && rng.chance(2, 3) {
			// straddle a block border
			let bx = rng.range(1, (size / 256) - 1).max(1) * 256;
			let by = rng.range(1, (size / 256) - 1).max(1) * 256;
			((bx - rng.range(0, w.min(3))).min(size - w), (by - rng.range(0, h.min(3))).min(size - h))
		} else {
			(rng.below(size - w + 1), rng.below(size - h + 1))
		};
		let dens = rng.range(3, 10);
		let mut n = 0;
		for y in y0..y0 + h {
			for x in x0..x0 + w {
				if n < per && rng.chance(dens, 10) {
					v.push((z, x as u32, y as u32));
					n += 1;
				}
			}
		}
		if n == 0 {
			v.push((z, x0 as u32, y0 as u32));
		}
	}
	v
}

/// boxes to request at level `z` given the tile coordinates present there
pub fn gen_boxes(rng: &mut Rng, z: u8, present: &[(u32, u32)], exhaustive_max_z: u8, n_sample: usize) -> Vec<TileBBox> {
	let mut v = vec![];
	let size: u64 = 1u64 << z;
	let max = (size - 1) as u32;
	// the empty encodings
	v.push(TileBBox::new_empty(z).unwrap());
	let mut e = TileBBox::new_empty(z).unwrap();
	e.set_empty();
	v.push(e);
	if z >= 1 {
		let mut e = TileBBox::new_empty(z).unwrap();
		e.x_min = max.min(1);
		e.x_max = 0;
		e.y_min = 0;
		e.y_max = max;
		v.push(e);
	}
	if z <= exhaustive_max_z {
		for x0 in 0..=max {
			for x1 in x0..=max {
				for y0 in 0..=max {
					for y1 in y0..=max {
						v.push(TileBBox::new(z, x0, y0, x1, y1).unwrap());
					}
				}
			}
		}
		return v;
	}
	// interesting ordinates
	let mut xs: Vec<u32> = vec![0, max];
	let mut ys: Vec<u32> = vec![0, max];
	for (x, y) in present {
		for d in [-2i64, -1, 0, 1, 2] {
			let a = *x as i64 + d;
			let b = *y as i64 + d;
			if a >= 0 && a <= max as i64 {
				xs.push(a as u32);
			}
			if b >= 0 && b <= max as i64 {
				ys.push(b as u32);
			}
		}
		for k in [(*x >> 8) << 8, ((*x >> 8) + 1) << 8] {
			for d in [-1i64, 0, 1] {
				let a = k as i64 + d;
				if a >= 0 && a <= max as i64 {
					xs.push(a as u32);
				}
			}
		}
		for k in [(*y >> 8) << 8, ((*y >> 8) + 1) << 8] {
			for d in [-1i64, 0, 1] {
				let a = k as i64 + d;
				if a >= 0 && a <= max as i64 {
					ys.push(a as u32);
				}
			}
		}
	}
	if present.is_empty() {
		xs.push(rng.below(size) as u32);
		ys.push(rng.below(size) as u32);
	}
	for _ in 0..n_sample {
		let mut x0 = *rng.pick(&xs);
		let mut x1 = *rng.pick(&xs);
		let mut y0 = *rng.pick(&ys);
		let mut y1 = *rng.pick(&ys);
		if x0 > x1 {
			std::mem::swap(&mut x0, &mut x1);
		}
		if y0 > y1 {
			std::mem::swap(&mut y0, &mut y1);
		}
		// keep the box small enough for the per-coordinate oracle
		if x1 - x0 > 40 {
			if rng.chance(1, 2) {
				x1 = x0 + rng.range(0, 40) as u32
			} else {
				x0 = x1 - rng.range(0, 40) as u32
			}
		}
		if y1 - y0 > 40 {
			if rng.chance(1, 2) {
				y1 = y0 + rng.range(0, 40) as u32
			} else {
				y0 = y1 - rng.range(0, 40) as u32
			}
		}
		v.push(TileBBox::new(z, x0, y0, x1, y1).unwrap());
	}
	v
}

pub fn boxes_arg(v: &[TileBBox]) -> String {
	v.iter().map(show_box).collect::<Vec<_>>().join(";")
}

/// levels worth asking: those with tiles, one neighbour level, one far level
pub fn levels_of(specs: &[SrcSpec]) -> BTreeMap<u8, Vec<(u32, u32)>> {
	let mut m: BTreeMap<u8, Vec<(u32, u32)>> = BTreeMap::new();
	for s in specs {
		for (z, x, y) in s.tiles.keys() {
			m.entry(*z).or_default().push((*x, *y));
		}
	}
	m
}

// ---------------------------------------------------------------------------------------------
// payload identity patterns

fn next_id(next: &mut u64) -> u64 {
	*next += 1;
	while *next % 1009 == 0 || repetitive(*next) || matches!(size_target(*next), Some(t) if t > 1001) {
		*next += 1;
	}
	*next
}
pub fn next_id_where(next: &mut u64, pred: fn(u64) -> bool) -> u64 {
	loop {
		*next += 1;
		if pred(*next) {
			return *next;
		}
	}
}
fn next_id_with_target(next: &mut u64) -> u64 {
	loop {
		*next += 1;
		// the small targets around the de-duplication threshold only (the 32 KiB / 1 MiB classes are assigned explicitly)
		if matches!(size_target(*next), Some(t) if t <= 1001) {
			return *next;
		}
	}
}

/// Assign payload ids (= byte-identical payloads for equal ids) to coordinates.
/// style 0: mostly distinct, every 7th a copy of an earlier tile (scattered copies, also across
///          blocks and levels); 1: all tiles identical (ocean); 2: runs of 2-6 adjacent copies;
/// 3: three payloads scattered over all coordinates; 4: copies of payloads sized 999/1000/1001 bytes
/// (both sides of the versatiles writer's de-duplication threshold), adjacent and scattered;
/// 5 (only where nothing decodes the payload): 1-byte payloads, many copies; 6 (same restriction): empty
/// (0 bytes) payloads mixed with a 1-byte and a normal one.
pub fn assign_ids_style(rng: &mut Rng, coords: &[Key], next: &mut u64, style: u64) -> BTreeMap<Key, u64> {
	let mut tiles = BTreeMap::new();
	let mut sorted: Vec<Key> = coords.to_vec();
	sorted.sort();
	match style {
		1 => {
			let idv = if rng.chance(1, 2) { next_id(next) } else { next_id_with_target(next) };
			for k in sorted {
				tiles.insert(k, idv);
			}
		}
		2 => {
			let mut i = 0;
			while i < sorted.len() {
				let run = rng.range(1, 6) as usize;
				let idv = if rng.chance(1, 4) { next_id_with_target(next) } else { next_id(next) };
				for k in sorted.iter().skip(i).take(run) {
					tiles.insert(*k, idv);
				}
				i += run;
			}
		}
		3 => {
			let pool = [next_id(next), next_id_with_target(next), next_id(next)];
			for k in sorted {
				tiles.insert(k, *rng.pick(&pool));
			}
		}
		4 => {
			let pool: Vec<u64> = (0..6).map(|_| next_id_with_target(next)).collect();
			let mut last = pool[0];
			for k in sorted {
				if !rng.chance(1, 2) {
					last = *rng.pick(&pool);
				}
				tiles.insert(k, last);
			}
		}
		6 => {
			let pool = [EMPTY_ID, EMPTY_ID, ONE_BYTE_BASE + 7, next_id(next)];
			for k in sorted {
				tiles.insert(k, *rng.pick(&pool));
			}
		}
		5 => {
			let pool = [ONE_BYTE_BASE, ONE_BYTE_BASE + 1, ONE_BYTE_BASE + 255, next_id(next)];
			for k in sorted {
				tiles.insert(k, *rng.pick(&pool));
			}
		}
		_ => {
			let mut used: Vec<u64> = vec![];
			for k in coords {
				let idv = if !used.is_empty() && rng.chance(1, 7) {
					*rng.pick(&used)
				} else if rng.chance(1, 5) {
					next_id_where(next, two_layer)
				} else {
					next_id(next)
				};
				used.push(idv);
				tiles.insert(*k, idv);
			}
		}
	}
	tiles
}

/// style for sources whose payloads must be decodable vector tiles (pipelines)
pub fn pick_style_vt(rng: &mut Rng) -> u64 {
	match rng.below(10) {
		0..=4 => 0,
		5 => 1,
		6 => 2,
		7 => 3,
		_ => 4,
	}
}

pub fn count_dups(out: &mut Out, tiles: &BTreeMap<Key, u64>) {
	let mut by_id: HashMap<u64, Vec<Key>> = HashMap::new();
	for (k, v) in tiles {
		by_id.entry(*v).or_default().push(*k);
	}
	let mut same_block = 0u64;
	let mut cross_block = 0u64;
	for (_, ks) in by_id.iter() {
		if ks.len() < 2 {
			continue;
		}
		let b0 = (ks[0].0, ks[0].1 >> 8, ks[0].2 >> 8);
		if ks.iter().all(|k| (k.0, k.1 >> 8, k.2 >> 8) == b0) {
			same_block += ks.len() as u64 - 1
		} else {
			cross_block += ks.len() as u64 - 1
		}
	}
	out.count_n("tiles_total", tiles.len() as u64);
	out.count_n("duplicate_payload_copies_within_one_block", same_block);
	out.count_n("duplicate_payload_copies_across_blocks_or_levels", cross_block);
	out.count_n("payloads_sized_999_1000_1001", tiles.values().filter(|v| **v < ONE_BYTE_BASE && size_target(**v).is_some()).count() as u64);
	out.count_n("payloads_1_byte", tiles.values().filter(|v| **v >= ONE_BYTE_BASE && **v != EMPTY_ID).count() as u64);
	out.count_n("payloads_empty_0_bytes", tiles.values().filter(|v| **v == EMPTY_ID).count() as u64);
}

// ---------------------------------------------------------------------------------------------
// reader models fed with the real container's index (streams C02v / C02m)

/// `stream` = "C02v" | "C02m", `op` = "S" (args: boxes) | "G" (args: coordinates); source 0 of the world
pub fn reader_line(rt: &tokio::runtime::Runtime, out: &mut Out, id: &mut Ident, w: &World, stream: &str, op: &str, args: &str) {
	use crate::indep_formats::{brotli_d, parse_versatiles};
	if !w.usable() || w.paths[0].is_none() || w.has_faults() || is_slow(&w.specs[0].kind) {
		return;
	}
	let path = w.paths[0].clone().unwrap();
	let env = w.env_string();
	let rd = match catch(|| rt.block_on(async { w.reader(0).await })) {
		Ok(Ok(r)) => r,
		_ => {
			out.count("reader_open_failed");
			return;
		}
	};
	let comp = rd.get_parameters().tile_compression;
	// what identifies a delivered blob, per coordinate
	let mut ident_of: HashMap<(u32, u32, u8), String> = HashMap::new();
	let mut file: Vec<u8> = vec![];
	let index_s: String;
	let mut shared = 0u64;
	if stream == "C02v" {
		file = std::fs::read(&path).unwrap();
		let p = match parse_versatiles(&file) {
			Ok(p) => p,
			Err(e) => {
				out.notes.push(format!("independent versatiles parser rejected the written file: {e}"));
				return;
			}
		};
		let mut blocks = vec![];
		for r in p.records.iter() {
			let (x0, y0, x1, y1) = r.block.global();
			let io = (r.offset + r.blobs_len) as usize;
			let raw = match brotli_d(&file[io..io + r.index_len as usize]) {
				Ok(v) => v,
				Err(_) => return,
			};
			let mut es = vec![];
			let mut seen: HashMap<(u64, u64), ()> = HashMap::new();
			for (i, e) in raw.chunks(12).enumerate() {
				let off = u64::from_be_bytes(e[0..8].try_into().unwrap()) + r.offset;
				let len = u32::from_be_bytes(e[8..12].try_into().unwrap()) as u64;
				es.push(format!("{off}:{len}"));
				if len > 0 {
					if seen.insert((off, len), ()).is_some() {
						shared += 1;
					}
					let w_ = (x1 - x0 + 1) as usize;
					let (x, y) = (x0 + (i % w_) as u32, y0 + (i / w_) as u32);
					ident_of.insert((x, y, r.block.z), format!("{off},{len}"));
				}
			}
			blocks.push(format!("{},{},{},{x0},{y0},{x1},{y1};{}", r.block.bx, r.block.by, r.block.z, if es.is_empty() { "-".to_string() } else { es.join("_") }));
		}
		index_s = if blocks.is_empty() { "-".to_string() } else { blocks.join("!") };
		out.count_n("versatiles_index_entries_sharing_a_range", shared);
		if op == "S" {
			// how many read chunks the reader has to form per (box, block): 64 MiB / 32 KiB rules applied
			// to the real index (reader.rs:310-335)
			for bs in args.split(';') {
				let b = parse_box(bs);
				if b.is_empty() {
					continue;
				}
				let mut per_block: HashMap<(u8, u32, u32), Vec<(u64, u64)>> = HashMap::new();
				for ((x, y, z), s) in ident_of.iter() {
					if *z == b.level && *x >= b.x_min && *x <= b.x_max && *y >= b.y_min && *y <= b.y_max {
						let (o, l) = s.split_once(',').unwrap();
						per_block.entry((*z, x >> 8, y >> 8)).or_default().push((o.parse().unwrap(), l.parse().unwrap()));
					}
				}
				for (_, mut v) in per_block {
					v.sort();
					let (mut c_off, mut c_len) = (v[0].0, 0u64);
					let mut chunks = 1u64;
					let mut by_gap = 0u64;
					let mut by_size = 0u64;
					for (o, l) in v {
						if c_off + (64 << 20) > o + l && c_off + c_len + (32 << 10) > o {
							c_len = c_len.max(o + l - c_off);
						} else {
							if !(c_off + (64 << 20) > o + l) {
								by_size += 1
							} else {
								by_gap += 1
							}
							chunks += 1;
							c_off = o;
							c_len = l;
						}
					}
					out.count_n("versatiles_read_chunks", chunks);
					out.count_n("versatiles_chunk_splits_by_32KiB_gap", by_gap);
					out.count_n("versatiles_chunk_splits_by_64MiB_size", by_size);
				}
			}
		}
	} else {
		let conn = match rusqlite::Connection::open_with_flags(&path, rusqlite::OpenFlags::SQLITE_OPEN_READ_ONLY) {
			Ok(c) => c,
			Err(_) => return,
		};
		let mut rows = vec![];
		{
			let mut st = conn.prepare("SELECT zoom_level, tile_column, tile_row, tile_data FROM tiles").unwrap();
			let it = st.query_map([], |r| Ok((r.get::<_, u32>(0)?, r.get::<_, u32>(1)?, r.get::<_, u32>(2)?, r.get::<_, Vec<u8>>(3)?))).unwrap();
			for r in it.flatten() {
				let s = id.of(&Blob::from(r.3), comp);
				let num = s.split('@').next().unwrap().to_string();
				rows.push(format!("{},{},{},{}", r.0, r.1, r.2, num));
			}
		}
		index_s = if rows.is_empty() { "-".to_string() } else { rows.join("_") };
	}
	let mut show = |id: &mut Ident, c: &TileCoord3, b: &Blob| -> String {
		if stream == "C02v" {
			match ident_of.get(&(c.x, c.y, c.z)) {
				Some(s) => {
					let (o, l) = s.split_once(',').unwrap();
					let (o, l): (usize, usize) = (o.parse().unwrap(), l.parse().unwrap());
					if o + l <= file.len() && &file[o..o + l] == b.as_slice() {
						s.clone()
					} else {
						"?".to_string()
					}
				}
				None => "?".to_string(),
			}
		} else {
			id.of(b, comp).split('@').next().unwrap().to_string()
		}
	};
	let line = format!("{stream} {op} {env} {index_s} {args}");
	let src = Real::R(rd);
	let mut res = vec![];
	if op == "S" {
		let mut nt = false;
		for bs in args.split(';') {
			let b = parse_box(bs);
			nt |= nontrivial_box(&b, &src.params().bbox_pyramid);
			match catch(|| rt.block_on(async { src.stream(b.clone()).await })) {
				Ok(mut v) => {
					sort_tiles(&mut v);
					res.push(if v.is_empty() { "-".to_string() } else { v.iter().map(|(c, b)| format!("{},{},{},{}", c.x, c.y, c.z, show(id, c, b))).collect::<Vec<_>>().join("_") });
				}
				Err(_) => res.push("panic".to_string()),
			}
		}
		out.case(&line, &res.join("|"), nt || shared > 0);
	} else {
		for cs in args.split(';') {
			let v: Vec<u32> = cs.split(',').map(|x| x.parse().unwrap()).collect();
			let c = TileCoord3::new(v[0], v[1], v[2] as u8).unwrap();
			res.push(match catch(|| rt.block_on(async { src.lookup(&c).await })) {
				Ok(Ok(Some(b))) => show(id, &c, &b),
				Ok(Ok(None)) => "-".to_string(),
				Ok(Err(_)) => "err".to_string(),
				Err(_) => "panic".to_string(),
			});
		}
		let hits = res.iter().filter(|r| r.as_str() != "-").count();
		out.case(&line, &res.join("|"), hits > 0 && hits < res.len());
	}
	out.count(&format!("reader_model_line_{stream}_{op}"));
}
