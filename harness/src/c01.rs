//! C01 – writer → reader round trip is lossless; written files follow the published layouts.
//!
//! A tile set (MemSource) is written with each REAL writer, then
//!  (a) opened with the REAL reader: declared format/compression, every non-empty input tile is returned
//!      byte-identically, `None` for every other coordinate of the advertised/source coverage grown by 1 and for
//!      absent zoom levels, coverage contains all non-empty tiles;
//!  (b) decoded with the INDEPENDENT strict decoder (`indep_formats`): exactly the input map, same format/compression;
//!  (c) emitted as `C01v/C01p/C01m/C01t/C01d` requests (formats_protocol.txt) for the Lean writer models, plus a
//!      `C16v`/`C16p` line (real reader on the real writer's bytes) for versatiles / pmtiles files.
//!
//! Harness-only replay form (never sent to the model): `C01x <target> <fmt> <comp> <levels> <tiles>`, target =
//! versatiles|pmtiles|mbtiles|tar|directory.  It keeps the source format even where the file cannot express it
//! (pmtiles type 0); oracle failures carry this form in `detail.case`.  On replay the protocol lines are accepted too
//! (C01p type 0 → bin).
//! Empty payloads in the source: every format's behaviour is recorded (`empty_*` counters), never judged.
use crate::c16::{self, answer, queries_str, rm, tab_str, tc, tf, Box4, Ctx, Look, OpenRes, Opened};
use crate::common::*;
use crate::indep_formats::*;
use crate::memsrc::MemSource;
use serde_json::json;
use std::collections::{BTreeMap, BTreeSet};
use versatiles_container::{DirectoryTilesWriter, MBTilesWriter, PMTilesWriter, TarTilesWriter, TilesWriterTrait, VersaTilesWriter};
use versatiles_core::io::DataWriterBlob;
use versatiles_core::types::*;

#[derive(Clone, Debug)]
pub struct Set {
	pub tiles: TileMap,
	pub levels: BTreeMap<u8, Box4>,
	/// order in which the source streams the tiles of a box: 0 = row-major (the trait's default stream),
	/// 1 = reversed, 2 = pseudo-randomly shuffled (checklist class 6: the writers must not depend on the order)
	pub order: u8,
}

/// `MemSource` with a bbox stream in another order
#[derive(Debug)]
pub struct OrderSource {
	inner: MemSource,
	order: u8,
}
#[async_trait::async_trait]
impl TilesReaderTrait for OrderSource {
	fn get_source_name(&self) -> &str {
		self.inner.get_source_name()
	}
	fn get_container_name(&self) -> &str {
		self.inner.get_container_name()
	}
	fn get_parameters(&self) -> &TilesReaderParameters {
		self.inner.get_parameters()
	}
	fn override_compression(&mut self, c: TileCompression) {
		self.inner.override_compression(c)
	}
	fn get_tilejson(&self) -> &versatiles_core::tilejson::TileJSON {
		self.inner.get_tilejson()
	}
	async fn get_tile_data(&self, coord: &TileCoord3) -> anyhow::Result<Option<Blob>> {
		self.inner.get_tile_data(coord).await
	}
	async fn get_bbox_tile_stream(&self, bbox: TileBBox) -> TileStream {
		if self.order == 0 {
			return self.inner.get_bbox_tile_stream(bbox).await;
		}
		let mut v: Vec<(TileCoord3, Blob)> = self.inner.get_bbox_tile_stream(bbox).await.collect().await;
		if self.order == 1 {
			v.reverse();
		} else {
			v.sort_by_key(|(c, _)| ((c.x as u64).wrapping_mul(0x9E37_79B9).wrapping_add((c.y as u64).wrapping_mul(0x85EB_CA6B))) % 1009);
		}
		TileStream::from_vec(v)
	}
}

impl Set {
	pub fn exact(tiles: TileMap) -> Set {
		let levels = c16::bbox_of(tiles.keys());
		Set { tiles, levels, order: 0 }
	}
	pub(crate) fn source(&self, fmt: Fmt, comp: Comp) -> OrderSource {
		OrderSource { inner: self.mem_source(fmt, comp), order: self.order }
	}
	pub(crate) fn mem_source(&self, fmt: Fmt, comp: Comp) -> MemSource {
		let v: Vec<(TileCoord3, Blob)> = self.tiles.iter().map(|((z, x, y), p)| (TileCoord3::new(*x, *y, *z).unwrap(), Blob::from(p.clone()))).collect();
		let mut pyr = TileBBoxPyramid::new_empty();
		for (z, b) in &self.levels {
			pyr.set_level_bbox(TileBBox::new(*z, b.0, b.1, b.2, b.3).unwrap());
		}
		MemSource::new("c01", tf(fmt), tc(comp), v).with_pyramid(pyr)
	}
	fn levels_str(&self) -> String {
		let mut s = format!("{}", self.levels.len());
		for (z, b) in &self.levels {
			s.push_str(&format!(" {z}:{},{},{},{}", b.0, b.1, b.2, b.3));
		}
		s
	}
	fn tiles_str(&self) -> String {
		let mut s = format!("{}", self.tiles.len());
		for ((z, x, y), p) in &self.tiles {
			s.push_str(&format!(" {z} {x} {y} {}", hexs(p)));
		}
		s
	}
	fn non_empty(&self) -> TileMap {
		self.tiles.iter().filter(|(_, p)| !p.is_empty()).map(|(c, p)| (*c, p.clone())).collect()
	}
	/// payload < 1000 bytes stored twice inside one 256×256 block
	fn dedup(&self) -> bool {
		let mut seen: BTreeSet<(u8, u32, u32, &Vec<u8>)> = BTreeSet::new();
		self.tiles.iter().any(|((z, x, y), p)| !p.is_empty() && p.len() < 1000 && !seen.insert((*z, x >> 8, y >> 8, p)))
	}
}

#[derive(Clone, Copy, Debug, PartialEq, Eq)]
pub enum Target {
	V,
	P,
	M,
	T,
	D,
}
impl Target {
	fn name(self) -> &'static str {
		match self {
			Target::V => "versatiles",
			Target::P => "pmtiles",
			Target::M => "mbtiles",
			Target::T => "tar",
			Target::D => "directory",
		}
	}
	fn from_name(s: &str) -> Option<Target> {
		[Target::V, Target::P, Target::M, Target::T, Target::D].into_iter().find(|t| t.name() == s)
	}
	/// can the target express this (format, compression) pair?
	fn accepts(self, f: Fmt, c: Comp) -> bool {
		match self {
			Target::P => f.pm_type().is_some(),
			Target::M => matches!((f, c), (Fmt::Jpg, Comp::None) | (Fmt::Png, Comp::None) | (Fmt::Webp, Comp::None) | (Fmt::Pbf, Comp::Gzip)),
			_ => true,
		}
	}
}

fn x_line(t: Target, f: Fmt, c: Comp, set: &Set) -> String {
	let o = if set.order == 0 { String::new() } else { format!(" o{}", set.order) };
	format!("C01x {} {} {} {} {}{o}", t.name(), f.name(), c.name(), set.levels_str(), set.tiles_str())
}

/// coordinates to look up: advertised ∪ source coverage grown by 1 (clipped), neighbours of all tiles, a few on absent levels
fn lookups(set: &Set, cover: &BTreeMap<u8, Box4>) -> Vec<Coord> {
	let mut s: BTreeSet<Coord> = set.tiles.keys().copied().collect();
	let mut boxes: Vec<(u8, Box4)> = cover.iter().map(|(z, b)| (*z, *b)).collect();
	boxes.extend(set.levels.iter().map(|(z, b)| (*z, *b)));
	let total: u64 = boxes.iter().map(|(_, b)| (b.2 - b.0 + 3) as u64 * (b.3 - b.1 + 3) as u64).sum();
	let step = (total / 40_000 + 1) as usize;
	let mut k = 0usize;
	for (z, b) in &boxes {
		let max = ((1u64 << z) - 1) as u32;
		for y in b.1.saturating_sub(1)..=(b.3.saturating_add(1)).min(max) {
			for x in b.0.saturating_sub(1)..=(b.2.saturating_add(1)).min(max) {
				k += 1;
				if k % step == 0 {
					s.insert((*z, x, y));
				}
			}
		}
	}
	for (z, x, y) in set.tiles.keys() {
		let n = 1i64 << z;
		for dx in -1i64..=1 {
			for dy in -1i64..=1 {
				let (a, b) = (*x as i64 + dx, *y as i64 + dy);
				if a >= 0 && b >= 0 && a < n && b < n {
					s.insert((*z, a as u32, b as u32));
				}
			}
		}
	}
	// absent zoom levels
	let zs: BTreeSet<u8> = cover.keys().chain(set.levels.keys()).copied().collect();
	if let (Some(a), Some(b)) = (zs.iter().next().copied(), zs.iter().next_back().copied()) {
		for z in a.saturating_sub(1)..=(b + 1).min(31) {
			if !zs.contains(&z) {
				let max = ((1u64 << z) - 1) as u32;
				for (_, x, y) in set.tiles.keys().take(5) {
					s.insert((z, (*x).min(max), (*y).min(max)));
				}
				s.insert((z, 0, 0));
			}
		}
	}
	s.into_iter().collect()
}

pub struct Outcome {
	/// protocol request/answer pairs for cases.txt / impl.txt
	pub lines: Vec<(String, String)>,
	pub failure: Option<(&'static str, String)>,
	pub counts: Vec<String>,
	pub leaves: bool,
	pub write_ok: bool,
}

fn judge_reader(set: &Set, fmt: Fmt, comp: Comp, target: Target, qs: &[Coord], res: &OpenRes, counts: &mut Vec<String>) -> Option<(&'static str, String)> {
	let o: &Opened = match res {
		OpenRes::Err(e) => return Some(("open-failed", format!("real reader cannot open the real writer's output: {}", trunc(e, 200)))),
		OpenRes::Panic(p) => return Some(("panic", format!("real reader panicked: {}", trunc(p, 200)))),
		OpenRes::Ok(o) => o,
	};
	// "the same declared tile format … wherever the target format can express them": the PMTiles v3 header has
	// tile types unknown/mvt/png/jpeg/webp/avif only; every other source format is written as type 0 (unknown),
	// which the reader declares as `bin`.
	let want_fmt = if target == Target::P && fmt.pm_type().is_none() {
		counts.push("pmtiles_format_not_expressible_declared_bin".to_string());
		"bin"
	} else {
		fmt.name()
	};
	if o.fmt != want_fmt || o.comp != comp.name() {
		return Some(("wrong-format", format!("source is {}/{} but the written container declares {}/{}", fmt.name(), comp.name(), o.fmt, o.comp)));
	}
	for (q, l) in qs.iter().zip(&o.looks) {
		match (set.tiles.get(q), l) {
			(_, Look::Panic) => return Some(("panic", format!("get_tile_data{q:?} panicked"))),
			(_, Look::Err) => return Some(("lookup-error", format!("get_tile_data{q:?} returned Err"))),
			(Some(p), Look::Some(b)) if p == b => {
				if p.is_empty() {
					counts.push(format!("empty_{}_read_some_empty", target.name()));
				}
			}
			(Some(p), Look::None) if p.is_empty() => counts.push(format!("empty_{}_read_none", target.name())),
			(Some(_), Look::None) => return Some(("lost-tile", format!("tile {q:?} of the source is missing in the written container"))),
			(Some(p), Look::Some(b)) => return Some(("wrong-payload", format!("tile {q:?}: wrote {} bytes, read {} bytes", p.len(), b.len()))),
			(None, Look::None) => {}
			(None, Look::Some(b)) => return Some(("extra-tile", format!("tile {q:?} is not in the source but the reader returns {} bytes", b.len()))),
		}
	}
	for ((z, x, y), p) in &set.tiles {
		if !p.is_empty() {
			match o.cover.get(z) {
				Some(b) if b.0 <= *x && *x <= b.2 && b.1 <= *y && *y <= b.3 => {}
				b => return Some(("coverage", format!("tile ({z},{x},{y}) outside the advertised coverage {b:?}"))),
			}
		}
	}
	// bulk path of the reader on the writer's output (get_bbox_tile_stream; boxes chosen by c16::stream_boxes)
	crate::c16::judge_streams(&set.tiles, &o.streams)
}

fn judge_indep(set: &Set, fmt: Fmt, comp: Comp, target: Target, d: Result<Decoded, String>, counts: &mut Vec<String>) -> Option<(&'static str, String)> {
	let d = match d {
		Err(e) => return Some(("indep-decode-failed", format!("independent decoder rejects the written file: {e}"))),
		Ok(d) => d,
	};
	for w in &d.warnings {
		let key: String = w.chars().take(48).map(|c| if c.is_ascii_alphanumeric() { c } else { '_' }).collect();
		counts.push(format!("layout_warning_{}_{key}", target.name()));
	}
	if !d.empties.is_empty() {
		counts.push(format!("empty_{}_stored_as_empty", target.name()));
	}
	if let Some(c) = d.empties.iter().find(|c| set.tiles.get(*c).map_or(true, |p| !p.is_empty())) {
		return Some(("indep-mismatch", format!("independent decoder finds an empty entry at {c:?} that is not an empty source tile")));
	}
	let want = set.non_empty();
	if d.tiles != want {
		let missing = want.keys().find(|k| !d.tiles.contains_key(*k));
		let extra = d.tiles.keys().find(|k| !want.contains_key(*k));
		let diff = want.iter().find(|(k, v)| d.tiles.get(*k).map_or(false, |w| w != *v)).map(|(k, _)| k);
		return Some(("indep-mismatch", format!("independent decoder recovers another map: missing {missing:?}, extra {extra:?}, different payload {diff:?}")));
	}
	let fexp = if target == Target::P && fmt.pm_type().is_none() { None } else { Some(fmt) };
	if d.format != fexp || d.compression != Some(comp) {
		return Some(("indep-mismatch", format!("independent decoder reads format/compression {:?}/{:?}, source {:?}/{:?}", d.format, d.compression, fmt, comp)));
	}
	// deviations from the published layout that do not lose tiles ("the written file also follows the format's
	// published layout"); judged last so that they never hide a lost / wrong tile of the same case
	if d.warnings.iter().any(|w| w.starts_with("clustered flag set")) {
		return Some(("layout-clustered-flag", "PMTiles header declares clustered = 1 but the tile data section is not in tile-id order (the writer stores tiles in block / stream order)".to_string()));
	}
	if d.warnings.iter().any(|w| w.starts_with("metadata has no `name` row")) {
		return Some(("layout-mbtiles-name", "MBTiles metadata table has no `name` row (MUST in MBTiles 1.3) when the source TileJSON has no name".to_string()));
	}
	None
}

fn sub_queries(set: &Set, qs: &[Coord]) -> Vec<Coord> {
	// for the C16v / C16p line: all source tiles (≤ 200) + ≤ 150 of the other lookups, evenly spread
	let mut v: Vec<Coord> = set.tiles.keys().take(200).copied().collect();
	let rest: Vec<&Coord> = qs.iter().filter(|q| !set.tiles.contains_key(*q)).collect();
	let step = rest.len() / 150 + 1;
	v.extend(rest.iter().step_by(step).map(|c| **c));
	v
}

/// write + oracles + protocol lines for one (target, format, compression, set)
pub fn run_case(ctx: &mut Ctx, target: Target, fmt: Fmt, comp: Comp, set: &Set) -> Outcome {
	let mut oc = Outcome { lines: vec![], failure: None, counts: vec![], leaves: false, write_ok: false };
	let mut src = set.source(fmt, comp);
	let accepted = target.accepts(fmt, comp);
	let rt = &ctx.rt;
	let proto_fail = |oc: &mut Outcome, req: Option<String>, what: &str| {
		if let Some(r) = req {
			oc.lines.push((r, what.to_string()));
		}
	};
	match target {
		Target::V | Target::P => {
			let w = catch(|| {
				let mut dw = DataWriterBlob::new()?;
				if target == Target::V {
					rt.block_on(VersaTilesWriter::write_to_writer(&mut src, &mut dw))?;
				} else {
					rt.block_on(PMTilesWriter::write_to_writer(&mut src, &mut dw))?;
				}
				Ok::<Vec<u8>, anyhow::Error>(dw.as_slice().to_vec())
			});
			let bytes = match w {
				Err(p) => {
					oc.failure = Some(("panic", format!("writer panicked: {}", trunc(&p, 200))));
					return oc;
				}
				Ok(Err(e)) => {
					if accepted {
						oc.failure = Some(("write-failed", format!("writer returned Err for an accepted pair: {e:#}")));
					} else {
						oc.counts.push(format!("write_rejected_{}", target.name()));
					}
					return oc;
				}
				Ok(Ok(b)) => b,
			};
			oc.write_ok = true;
			if !accepted {
				oc.counts.push(format!("write_unsupported_pair_written_{}", target.name()));
			}
			// checklist class 5: the same source written with `write_to_path` onto an EXISTING, LONGER file gives the same bytes
			if set.tiles.len() % 3 == 0 && bytes.len() < 250_000 {
				let path = ctx.scratch.fresh(if target == Target::V { ".versatiles" } else { ".pmtiles" });
				std::fs::write(&path, vec![0x5Au8; bytes.len() + 70_000]).unwrap();
				let mut src2 = set.source(fmt, comp);
				let w2 = catch(|| {
					if target == Target::V {
						ctx.rt.block_on(VersaTilesWriter::write_to_path(&mut src2, &path))
					} else {
						ctx.rt.block_on(PMTilesWriter::write_to_path(&mut src2, &path))
					}
				});
				let on_disk = std::fs::read(&path).unwrap_or_default();
				rm(&path);
				oc.counts.push(format!("preexisting_output_{}", target.name()));
				// the block index of a versatiles file is written in HashMap order: compare what the reader sees instead
				let same = match (&w2, target) {
					(Ok(Ok(())), Target::P) => on_disk == bytes,
					// (the compressed block index may differ by a few bytes with the record order; the old file must be truncated)
					(Ok(Ok(())), _) => on_disk.len().abs_diff(bytes.len()) <= 64 && {
						let qs: Vec<Coord> = set.tiles.keys().copied().collect();
						answer(&c16::run_v(&ctx.rt, &on_disk, &qs)) == answer(&c16::run_v(&ctx.rt, &bytes, &qs))
					},
					_ => false,
				};
				if !same {
					oc.failure = Some(("preexisting-output", format!("write_to_path onto an existing longer file: {} bytes on disk, {} bytes expected ({})", on_disk.len(), bytes.len(), match w2 { Ok(Ok(())) => "content differs".to_string(), Ok(Err(e)) => format!("Err {e:#}"), Err(p) => format!("panic {p}") })));
					return oc;
				}
			}
			// (a) real reader
			let open = |qs: &[Coord]| -> OpenRes {
				if target == Target::V {
					c16::run_v(rt, &bytes, qs)
				} else {
					c16::run_p(rt, &bytes, qs)
				}
			};
			let cover = match open(&[]) {
				OpenRes::Ok(o) => o.cover,
				_ => BTreeMap::new(),
			};
			let qs = lookups(set, &cover);
			let res = open(&qs);
			oc.failure = judge_reader(set, fmt, comp, target, &qs, &res, &mut oc.counts);
			// (b) independent decoder
			let dec = if target == Target::V { decode_versatiles(&bytes) } else { decode_pmtiles(&bytes, true) };
			if let Ok(d) = &dec {
				oc.leaves = d.info.get("depth").copied().unwrap_or(1) > 1;
			}
			let f2 = judge_indep(set, fmt, comp, target, dec, &mut oc.counts);
			if oc.failure.is_none() {
				oc.failure = f2;
			}
			// (c) protocol lines
			if target == Target::V {
				if let Ok(p) = parse_versatiles(&bytes) {
					let mut tab: Tab = vec![];
					let mut ctab: Tab = vec![];
					let mut recs: Vec<&VtRecord> = p.records.iter().collect();
					let mut ok = true;
					for r in &recs {
						let io = (r.offset + r.blobs_len) as usize;
						let c = bytes[io..io + r.index_len as usize].to_vec();
						match brotli_d(&c) {
							Ok(raw) => {
								tab.push((raw.clone(), c.clone()));
								ctab.push((c, raw));
							}
							Err(_) => ok = false,
						}
					}
					recs.sort_by_key(|r| (r.block.z, r.block.by, r.block.bx));
					let sorted: Vec<u8> = recs.iter().flat_map(|r| r.raw.clone()).collect();
					let cbi = bytes[p.bi_off as usize..(p.bi_off + p.bi_len) as usize].to_vec();
					tab.push((sorted.clone(), cbi.clone()));
					if let Ok(raw) = brotli_d(&cbi) {
						ctab.push((cbi, raw));
					}
					let meta = bytes[p.meta_off as usize..(p.meta_off + p.meta_len) as usize].to_vec();
					if p.meta_len > 0 && comp != Comp::None {
						if let Ok(m) = decompress(comp, &meta) {
							ctab.push((meta.clone(), m));
						}
					}
					if ok && p.bi_off >= 66 {
						let req = format!("C01v {} {} {} {} {} {} {} {} {} {}", fmt.vt_code(), comp.vt_code(), p.bbox[0], p.bbox[1], p.bbox[2], p.bbox[3], hexs(&meta), set.levels_str(), set.tiles_str(), tab_str(&tab));
						let ans = format!("ok {} {:016x} {} {}", bytes.len(), fnv64(&bytes[66..p.bi_off as usize]), hexs(&bytes[..66]), hexs(&sorted));
						if set.order != 0 {
							oc.counts.push("order_dependent_line_skipped_C01v".into());
						} else if req.len() <= c16::MAX_LINE {
							oc.lines.push((req, ans));
						} else {
							oc.counts.push("line_too_long_C01v".into());
						}
					}
					if bytes.len() <= 75_000 {
						let q2 = sub_queries(set, &qs);
						let line = format!("C16v {} {} {}", hexs(&bytes), tab_str(&ctab), queries_str(&q2));
						if line.len() <= c16::MAX_LINE {
							oc.lines.push((line, answer(&open(&q2))));
						}
					}
				}
			} else if let Ok(h) = parse_pm_header(&bytes) {
				let slice = |r: (u64, u64)| -> Option<Vec<u8>> { bytes.get(r.0 as usize..(r.0.checked_add(r.1)?) as usize).map(|s| s.to_vec()) };
				let mut tab: Tab = vec![];
				let mut ctab: Tab = vec![];
				let mut ok = true;
				if let (Some(croot), Some(leaves), Some(meta)) = (slice(h.root), slice(h.leaves), slice(h.meta)) {
					match gunzip(&croot) {
						Ok(raw) => {
							if let Ok(es) = parse_dir(&raw) {
								for e in es.iter().filter(|e| e.run == 0) {
									match leaves.get(e.off as usize..(e.off + e.len) as usize).map(|c| (c.to_vec(), gunzip(c))) {
										Some((c, Ok(r))) => {
											tab.push((r.clone(), c.clone()));
											ctab.push((c, r));
										}
										_ => ok = false,
									}
								}
							} else {
								ok = false;
							}
							tab.push((raw.clone(), croot.clone()));
							ctab.push((croot, raw));
						}
						Err(_) => ok = false,
					}
					if let Ok(m) = gunzip(&meta) {
						ctab.push((meta.clone(), m));
					}
					if ok {
						let req = format!(
							"C01p {} {} {} {} {} {} {} {} {} {} {} {} {}",
							h.ttype, h.tcomp, h.bounds[0], h.bounds[1], h.bounds[2], h.bounds[3], h.center.0, h.center.1, h.center.2, hexs(&meta), set.levels_str(), set.tiles_str(), tab_str(&tab)
						);
						let ans = format!("ok {} {:016x} {}", bytes.len(), fnv64(&bytes), hexs(&bytes[..127]));
						// the root-boundary sets (≈ 7000 tiny tiles) are compared with the Lean writer model as well
						if set.order != 0 {
							oc.counts.push("order_dependent_line_skipped_C01p".into());
						} else if req.len() <= c16::MAX_LINE || (req.len() <= 600_000 && set.tiles.len() < 12_000) {
							oc.lines.push((req, ans));
						} else {
							oc.counts.push("line_too_long_C01p".into());
						}
						if bytes.len() <= 75_000 {
							let q2 = sub_queries(set, &qs);
							let line = format!("C16p {} {} {}", hexs(&bytes), tab_str(&ctab), queries_str(&q2));
							if line.len() <= c16::MAX_LINE {
								oc.lines.push((line, answer(&open(&q2))));
							}
						}
					}
				}
			}
		}
		Target::M | Target::T | Target::D => {
			let ext = match target {
				Target::M => ".mbtiles",
				Target::T => ".tar",
				_ => "",
			};
			let path = ctx.scratch.fresh(ext);
			let req = match target {
				Target::M if accepted => Some(format!("C01m {} {} {}", fmt.name(), set.levels_str(), set.tiles_str())),
				Target::M => None,
				Target::T if set.order != 0 => None,
				Target::T => Some(format!("C01t {} {} {} {}", fmt.name(), comp.name(), set.levels_str(), set.tiles_str())),
				_ => Some(format!("C01d {} {} {} {}", fmt.name(), comp.name(), set.levels_str(), set.tiles_str())),
			}
			.filter(|r| r.len() <= c16::MAX_LINE);
			// checklist class 5: the output already exists – a longer file of garbage (mbtiles, tar), a directory that
			// already holds unrelated files (directory)
			if set.tiles.len() % 2 == 0 {
				oc.counts.push(format!("preexisting_output_{}", target.name()));
				match target {
					Target::D => {
						std::fs::create_dir_all(&path).unwrap();
						std::fs::write(path.join("README.txt"), b"not a tile").unwrap();
					}
					_ => std::fs::write(&path, vec![0xA5u8; 300_000]).unwrap(),
				}
			}
			let w = catch(|| match target {
				Target::M => rt.block_on(MBTilesWriter::write_to_path(&mut src, &path)),
				Target::T => rt.block_on(TarTilesWriter::write_to_path(&mut src, &path)),
				_ => rt.block_on(DirectoryTilesWriter::write_to_path(&mut src, &path)),
			});
			match w {
				Err(p) => {
					oc.failure = Some(("panic", format!("writer panicked: {}", trunc(&p, 200))));
					proto_fail(&mut oc, req, "panic");
					rm(&path);
					return oc;
				}
				Ok(Err(e)) => {
					if accepted {
						oc.failure = Some(("write-failed", format!("writer returned Err for an accepted pair: {e:#}")));
					} else {
						oc.counts.push(format!("write_rejected_{}", target.name()));
					}
					proto_fail(&mut oc, req, "err");
					rm(&path);
					return oc;
				}
				Ok(Ok(())) => {}
			}
			oc.write_ok = true;
			if !accepted {
				oc.counts.push(format!("write_unsupported_pair_written_{}", target.name()));
			}
			let open = |qs: &[Coord]| -> OpenRes {
				match target {
					Target::M => c16::run_m(rt, &path, qs),
					Target::T => c16::run_t(rt, &path, qs),
					_ => c16::run_d(rt, &path, qs),
				}
			};
			let cover = match open(&[]) {
				OpenRes::Ok(o) => o.cover,
				_ => BTreeMap::new(),
			};
			let qs = lookups(set, &cover);
			let res = open(&qs);
			oc.failure = judge_reader(set, fmt, comp, target, &qs, &res, &mut oc.counts);
			// the strict independent decoder knows nothing about the unrelated file of the pre-existing directory
			if target == Target::D {
				let _ = std::fs::remove_file(path.join("README.txt"));
			}
			let dec = match target {
				Target::M => decode_mbtiles(&path),
				Target::T => std::fs::read(&path).map_err(|e| e.to_string()).and_then(|b| decode_tar(&b)),
				_ => decode_dir(&path),
			};
			let f2 = judge_indep(set, fmt, comp, target, dec, &mut oc.counts);
			if oc.failure.is_none() {
				oc.failure = f2;
			}
			// protocol answer
			if let Some(req) = req {
				let ans: Result<String, String> = match target {
					Target::M => read_mbtiles_rows(&path).map(|rows| {
						let mut s = format!("ok {}", rows.len());
						for (z, c, r, d) in rows {
							s.push_str(&format!(" {z},{c},{r},{:016x}", fnv64(&d)));
						}
						s
					}),
					Target::T => std::fs::read(&path).map_err(|e| e.to_string()).and_then(|b| parse_tar(&b)).map(|es| {
						let names: Vec<Vec<u8>> = es.into_iter().filter(|e| e.typeflag == b'0' || e.typeflag == 0).map(|e| e.name).collect();
						let mut s = format!("ok {}", names.len());
						for n in names {
							s.push(' ');
							s.push_str(&hexs(&n));
						}
						s
					}),
					_ => list_dir(&path).map(|fs| {
						let mut names: Vec<Vec<u8>> = fs.into_iter().map(|(n, _)| n).map(|n| n.into_bytes()).collect();
						names.sort();
						let mut s = format!("ok {}", names.len());
						for n in names {
							s.push(' ');
							s.push_str(&hexs(&n));
						}
						s
					}),
				};
				match ans {
					Ok(a) => oc.lines.push((req, a)),
					Err(e) => {
						if oc.failure.is_none() {
							oc.failure = Some(("indep-decode-failed", format!("cannot list the written container: {e}")));
						}
					}
				}
			}
			rm(&path);
		}
	}
	oc
}

/// ddmin-style: drop chunks of tiles while `still_fails`
fn shrink(set: &Set, mut still_fails: impl FnMut(&Set) -> bool) -> Set {
	let mut cur = set.clone();
	let mut chunk = (cur.tiles.len() / 2).max(1);
	let mut budget = 120;
	// wall-clock cap: big sets (PMTiles leaf directories) take seconds per attempt
	let t0 = std::time::Instant::now();
	loop {
		let keys: Vec<Coord> = cur.tiles.keys().copied().collect();
		let mut changed = false;
		let mut i = 0;
		while i < keys.len() && budget > 0 {
			if t0.elapsed().as_secs() >= 20 {
				budget = 0;
				break;
			}
			if cur.tiles.len() <= 1 {
				break;
			}
			let mut t = cur.clone();
			for k in keys[i..(i + chunk).min(keys.len())].iter() {
				t.tiles.remove(k);
			}
			if !t.tiles.values().all(|p| p.is_empty()) && t.tiles.len() < cur.tiles.len() {
				budget -= 1;
				if still_fails(&t) {
					cur = t;
					changed = true;
				}
			}
			i += chunk;
		}
		if budget == 0 || (chunk == 1 && !changed) {
			break;
		}
		if !changed {
			chunk = (chunk / 2).max(1);
		}
	}
	// tighten the pyramid to the remaining tiles if the failure survives
	let exact = Set::exact(cur.tiles.clone());
	if exact.levels != cur.levels && t0.elapsed().as_secs() < 25 && still_fails(&exact) {
		cur = exact;
	}
	cur
}

pub fn emit_case(ctx: &mut Ctx, shrunk: &mut BTreeMap<String, u32>, target: Target, fmt: Fmt, comp: Comp, set: &Set, kind: &str) {
	let t_case = std::time::Instant::now();
	let oc = run_case(ctx, target, fmt, comp, set);
	ctx.out.count_n(&format!("ms_{kind}_{}", target.name()), t_case.elapsed().as_millis() as u64);
	let dedup = set.dedup();
	let nontrivial = set.tiles.len() >= 2 && oc.write_ok;
	ctx.out.count(&format!("container_{}", target.name()));
	ctx.out.count(&format!("set_{kind}"));
	ctx.out.count(&format!("pair_{}_{}_{}", target.name(), fmt.name(), comp.name()));
	if dedup {
		ctx.out.count("sets_with_dedup_candidates");
	}
	if oc.leaves {
		ctx.out.count("pmtiles_with_leaf_directories");
	}
	for c in &oc.counts {
		ctx.out.count(c);
	}
	if oc.lines.is_empty() {
		ctx.out.eval(&x_line(target, fmt, comp, set), nontrivial);
	}
	for (req, ans) in &oc.lines {
		ctx.out.case(req, ans, nontrivial);
		ctx.out.count(&format!("line_{}", req.split(' ').next().unwrap()));
	}
	match oc.failure {
		None => ctx.out.oracle(true, "", json!(null), json!(null)),
		Some((k, msg)) => {
			let sig = json!({"kind": k, "container": target.name(), "dedup": dedup, "leaves": oc.leaves});
			let n = shrunk.entry(sig.to_string()).or_insert(0);
			*n += 1;
			// layout deviations (known findings) need no minimisation
			let (small, msg) = if *n <= 2 && !k.starts_with("layout-") {
				let s = shrink(set, |t| run_case(ctx, target, fmt, comp, t).failure.map_or(false, |f| f.0 == k));
				let m = run_case(ctx, target, fmt, comp, &s).failure.map(|f| f.1).unwrap_or(msg);
				(s, m)
			} else {
				(set.clone(), msg)
			};
			ctx.out.oracle(
				false,
				&format!("C01 {} {k}: {msg}", target.name()),
				sig,
				json!({"case": trunc(&x_line(target, fmt, comp, &small), 1_000_000), "message": msg, "tiles": small.tiles.len(), "original_tiles": set.tiles.len(), "format": fmt.name(), "compression": comp.name()}),
			);
		}
	}
}

// ------------------------------------------------------------------------------------------ tile sets

fn clip(z: u8, v: u64) -> u32 {
	v.min((1u64 << z) - 1) as u32
}
fn widen(rng: &mut Rng, set: &mut Set) {
	for (z, b) in set.levels.iter_mut() {
		let max = ((1u64 << z) - 1) as u32;
		*b = (b.0.saturating_sub(rng.below(4) as u32), b.1.saturating_sub(rng.below(4) as u32), (b.2 + rng.below(4) as u32).min(max), (b.3 + rng.below(4) as u32).min(max));
	}
}
fn area(set: &Set) -> u64 {
	set.levels.values().map(|b| (b.2 - b.0 + 1) as u64 * (b.3 - b.1 + 1) as u64).sum()
}

pub fn gen_set(rng: &mut Rng, kind: &str) -> Set {
	let pool = c16::gen_pool(rng);
	let mut tiles = TileMap::new();
	match kind {
		"single" => {
			let z = rng.range(0, 14) as u8;
			tiles.insert((z, rng.below(1 << z) as u32, rng.below(1 << z) as u32), rng.bytes(rng.clone().range(1, 30) as usize));
		}
		"sparse" => {
			tiles = c16::gen_tiles(rng, false);
			// keep the boxes small: one cluster per level may be far from another one on the same level
			let mut per: BTreeMap<u8, Coord> = BTreeMap::new();
			tiles.retain(|c, _| {
				let a = per.entry(c.0).or_insert(*c);
				(c.1 as i64 - a.1 as i64).abs() < 40 && (c.2 as i64 - a.2 as i64).abs() < 40
			});
		}
		"dense" => {
			let z = rng.range(3, 7) as u8;
			let (w, h) = (rng.range(2, 8), rng.range(2, 6));
			let (x0, y0) = (rng.below((1 << z) - w + 1), rng.below((1 << z) - h + 1));
			for x in 0..w {
				for y in 0..h {
					tiles.insert((z, (x0 + x) as u32, (y0 + y) as u32), rng.pick(&pool).clone());
				}
			}
		}
		"additive" => {
			// many tiny tiles whose lengths are additively related (offset differences coincide with lengths), in a
			// dense box: the source streams row-major, PMTiles sorts by Hilbert id, so directory neighbours are
			// usually NOT neighbours in the file; the second variant straddles the 256 grid for versatiles
			let family = rng.below(5);
			let mut k = 0u64;
			let (a0, b0) = (rng.range(1, 7), rng.range(1, 9));
			let mut fib = (a0, b0);
			let mut next_len = |rng: &mut Rng| -> usize {
				k += 1;
				(match family {
					0 => rng.range(1, 6),
					1 => *rng.pick(&[10u64, 20, 30]),
					2 => (k % 7 + 1) * a0,
					3 => {
						let n = fib.0 + fib.1;
						fib = (fib.1, if n > 60 { a0 } else { n });
						fib.0
					}
					_ => *rng.pick(&[1u64, 2, 3, 5, 8, 13]),
				}) as usize
			};
			let z = if rng.chance(1, 3) { rng.range(9, 11) as u8 } else { rng.range(1, 6) as u8 };
			let side = (1u64 << z).min(rng.range(2, 16));
			let (x0, y0) = if z >= 9 { (256 - side / 2, 256 - (side / 2).min(3)) } else { (rng.below((1 << z) - side + 1), rng.below((1 << z) - side + 1)) };
			let h = if z >= 9 { side.min(6) } else { side };
			for x in 0..side {
				for y in 0..h {
					if z < 3 || rng.chance(9, 10) {
						let n = next_len(rng);
						tiles.insert((z, (x0 + x) as u32, (y0 + y) as u32), rng.bytes(n));
					}
				}
			}
		}
		"extreme" => {
			// checklist class 8: zoom 0 / 1 / 30 / 31, a small cluster in one corner of the level (the level box stays
			// small: the oracle enumerates the coverage)
			let z = *rng.pick(&[0u8, 1, 30, 31]);
			let m = ((1u64 << z) - 1) as u32;
			let (cx, cy) = *rng.pick(&[(0u32, 0u32), (m, m), (0, m), (m, 0)]);
			let inward = |c: u32, d: u32| if c == 0 { d.min(m) } else { c - d.min(m) };
			for (dx, dy) in [(0u32, 0u32), (1, 0), (0, 1), (1, 1)] {
				if (dx, dy) == (0, 0) || rng.chance(2, 3) {
					tiles.insert((z, inward(cx, dx), inward(cy, dy)), rng.pick(&pool).clone());
				}
			}
			if z > 0 && rng.chance(1, 2) {
				tiles.insert((0, 0, 0), vec![0x30]);
			}
		}
		"payloads" => {
			// checklist class 3: empty, one byte, identical duplicates within and across blocks, tar block sizes, a payload
			// larger than the small internal buffers
			let z = 9u8;
			let sizes = [0usize, 1, 1, 511, 512, 513, 70_000, 70_000, 2];
			for (i, n) in sizes.iter().enumerate() {
				let p: Vec<u8> = (0..*n).map(|k| (k % 253) as u8).collect();
				tiles.insert((z, 254 + (i as u32 % 4), 254 + (i as u32 / 4)), p);
			}
		}
		"zoomgap" => {
			let mut z = rng.range(0, 3) as u8;
			for _ in 0..rng.range(2, 4) {
				for _ in 0..rng.range(1, 5) {
					let c = (z, clip(z, 3 + rng.below(4)), clip(z, 2 + rng.below(4)));
					tiles.insert(c, rng.pick(&pool).clone());
				}
				z += rng.range(2, 4) as u8;
			}
		}
		"grid" => {
			let z = rng.range(9, 12) as u8;
			let edge = [254u64, 255, 256, 257, 511, 512];
			let horizontal = rng.chance(1, 2);
			let base = rng.below(1 << z);
			for _ in 0..rng.range(3, 14) {
				let a = *rng.pick(&edge);
				let b = base + rng.below(3);
				let c = if horizontal { (z, clip(z, a), clip(z, b)) } else { (z, clip(z, b), clip(z, a)) };
				tiles.insert(c, rng.pick(&pool).clone());
			}
			if rng.chance(1, 3) {
				// both axes across the grid
				for a in [255u32, 256] {
					for b in [255u32, 256] {
						tiles.insert((z, a, b), rng.pick(&pool).clone());
					}
				}
			}
		}
		"threshold" => {
			let z = rng.range(2, 11) as u8;
			let (x0, y0) = (rng.below(1 << z), rng.below(1 << z));
			let mut i = 0u64;
			for len in [999usize, 1000, 1001, 5, 999, 1000, 1001, 5, 1] {
				let p: Vec<u8> = (0..len).map(|k| (k * 7 + len) as u8).collect(); // equal for equal lengths
				tiles.insert((z, clip(z, x0 + i % 3), clip(z, y0 + i / 3)), p);
				i += 1;
			}
			if rng.chance(1, 2) {
				// same payloads again in a neighbouring block / level
				let p: Vec<u8> = (0..999usize).map(|k| (k * 7 + 999) as u8).collect();
				tiles.insert((z + 1, clip(z + 1, 2 * x0), clip(z + 1, 2 * y0)), p);
			}
		}
		"hundreds" => {
			let z = rng.range(5, 10) as u8;
			let (w, h) = (rng.range(12, 24), rng.range(10, 20));
			let (x0, y0) = (rng.below((1 << z) - w + 1), rng.below((1 << z) - h + 1));
			for x in 0..w {
				for y in 0..h {
					if rng.chance(4, 5) {
						let p = if rng.chance(1, 2) { rng.pick(&pool).clone() } else { rng.bytes(rng.clone().range(1, 20) as usize) };
						tiles.insert((z, (x0 + x) as u32, (y0 + y) as u32), p);
					}
				}
			}
		}
		"leaves" => {
			// > 16384 tiles: PMTiles needs leaf directories
			let z = 8u8;
			let (x0, y0) = (rng.below(100) as u32, rng.below(100) as u32);
			for x in 0..130u32 {
				for y in 0..130u32 {
					tiles.insert((z, x0 + x, y0 + y), vec![(x % 7) as u8, (y % 5) as u8, ((x * y) % 3) as u8]);
				}
			}
		}
		_ => unreachable!(),
	}
	if tiles.is_empty() || tiles.values().all(|p| p.is_empty()) {
		tiles.insert((1, 1, 0), vec![9, 9, 9]);
	}
	let mut set = Set::exact(tiles);
	if kind != "leaves" && rng.chance(1, 3) {
		widen(rng, &mut set);
	}
	if area(&set) > 30_000 && kind != "leaves" {
		set = Set::exact(set.tiles.into_iter().take(1).collect());
	}
	set
}

// ------------------------------------------------------------------------------------------ replay

fn parse_levels(t: &[&str]) -> Option<(BTreeMap<u8, Box4>, usize)> {
	let n: usize = t.first()?.parse().ok()?;
	let mut m = BTreeMap::new();
	for s in t.get(1..1 + n)? {
		let (z, b) = s.split_once(':')?;
		let v: Vec<u32> = b.split(',').map(|x| x.parse().ok()).collect::<Option<_>>()?;
		if v.len() != 4 {
			return None;
		}
		m.insert(z.parse().ok()?, (v[0], v[1], v[2], v[3]));
	}
	Some((m, 1 + n))
}
fn parse_tiles(t: &[&str]) -> Option<(TileMap, usize)> {
	let n: usize = t.first()?.parse().ok()?;
	let mut m = TileMap::new();
	for i in 0..n {
		let b = 1 + 4 * i;
		m.insert((t.get(b)?.parse().ok()?, t.get(b + 1)?.parse().ok()?, t.get(b + 2)?.parse().ok()?), unhexs(t.get(b + 3)?)?);
	}
	Some((m, 1 + 4 * n))
}
fn parse_set(t: &[&str]) -> Option<Set> {
	// optional trailing `o1` / `o2`: stream order of the source
	let (t, order) = match t.last() {
		Some(&"o1") => (&t[..t.len() - 1], 1u8),
		Some(&"o2") => (&t[..t.len() - 1], 2u8),
		_ => (t, 0u8),
	};
	let (levels, k) = parse_levels(t)?;
	let (tiles, _) = parse_tiles(&t[k..])?;
	// the pyramid must contain the tiles and be valid
	for (z, b) in &levels {
		if *z > 31 || b.0 > b.2 || b.1 > b.3 || (b.2 as u64) >= (1u64 << z) || (b.3 as u64) >= (1u64 << z) {
			return None;
		}
	}
	for (z, x, y) in tiles.keys() {
		let b = levels.get(z)?;
		if !(b.0 <= *x && *x <= b.2 && b.1 <= *y && *y <= b.3) {
			return None;
		}
	}
	Some(Set { tiles, levels, order })
}

fn replay_line(ctx: &mut Ctx, shrunk: &mut BTreeMap<String, u32>, line: &str) -> Option<()> {
	let t: Vec<&str> = line.split(' ').collect();
	let (target, fmt, comp, set) = match t[0] {
		"C16v" | "C16p" | "C16m" | "C16t" | "C16d" => return c16::replay_reader_line(ctx, "C01", line),
		"C01s" => return crate::c01_sparse::replay(ctx, &t),
		"GTR" | "GTW" => {
			let root = ctx.scratch.fresh("-getters");
			let a = crate::c01_getters::answer(&ctx.rt, &root, line, &mut None)?;
			c16::rm(&root);
			ctx.out.case(line, &a, a != "err");
			ctx.out.oracle(a != "panic", "C01 getters replay", json!({"kind": "getters"}), json!({"case": line, "answer": a}));
			return Some(());
		}
		"C01x" => (Target::from_name(t.get(1)?)?, Fmt::from_name(t.get(2)?)?, Comp::from_name(t.get(3)?)?, parse_set(t.get(4..)?)?),
		"C01v" => (Target::V, Fmt::from_vt_code(t.get(1)?.parse().ok()?)?, Comp::from_vt_code(t.get(2)?.parse().ok()?)?, parse_set(t.get(8..)?)?),
		"C01p" => (Target::P, Fmt::from_pm_type(t.get(1)?.parse().ok()?).unwrap_or(Fmt::Bin), Comp::from_pm_code(t.get(2)?.parse().ok()?)?, parse_set(t.get(11..)?)?),
		"C01m" => {
			let f = Fmt::from_name(t.get(1)?)?;
			(Target::M, f, c16::mb_comp(f), parse_set(t.get(2..)?)?)
		}
		"C01t" | "C01d" => (if t[0] == "C01t" { Target::T } else { Target::D }, Fmt::from_name(t.get(1)?)?, Comp::from_name(t.get(2)?)?, parse_set(t.get(3..)?)?),
		_ => return None,
	};
	emit_case(ctx, shrunk, target, fmt, comp, &set, "replay");
	Some(())
}

// ------------------------------------------------------------------------------------------ run

pub fn run(args: &Args) {
	if std::env::var_os("VTH_LOUD").is_none() {
		quiet_panics();
	}
	self_test().expect("independent Hilbert implementation self test");
	let mut ctx = c16::new_ctx(args, "c01-scratch");
	let mut shrunk: BTreeMap<String, u32> = BTreeMap::new();
	ctx.out.rule = "tile sets (single tile; sparse clusters; dense boxes; zoom gaps; both sides of the 256 grid at zoom 9–12 with x or y in {254,255,256,257,511,512}; duplicate payloads and sizes 999/1000/1001 around the de-duplication threshold; extreme coordinates (zoom 0/1/30/31 corners); payload classes (0, 1, 511-513, 70000 bytes, duplicates); every third set streamed by the source reversed or shuffled; outputs written over pre-existing longer files / non-empty directories; dense boxes of tiny tiles with additively related lengths (1..6, {10,20,30}, arithmetic progressions, Fibonacci-like) streamed row-major, i.e. not in tile-id order; a few hundred tiles; boundary-seeking sets (crate::boundary): PMTiles sets whose gzip-compressed root directory is exactly 16257, 16258, 16384, 16385 bytes long (budget 16384-127; more deltas in the thorough tier), PMTiles sets with exactly 16383 / 16384 / 16385 entries (thorough: also 16387, 20483, 24581 - counts that are no multiple of the number of leaf directories), MBTiles sets of 2000 / 2001 tiles (insert batch size); 130×130 = 16900 tiles at zoom 8 so that PMTiles needs leaf directories (one PMTiles case in the quick tier, five targets in the thorough tier); a third of the sets with a pyramid widened beyond the tiles) written with every real writer: the first set with ALL 30 (format, compression) pairs per target (incl. the pairs a target cannot express: Err is fine, a silent change is a failure), later sets with rotating pairs (versatiles 3, pmtiles 3, mbtiles 2, tar 2, directory 2 per set). Payloads are opaque bytes. A case is non-trivial when the set has ≥ 2 tiles and the writer succeeded; distinct by request text".into();
	ctx.out.notes.push("CHECKLIST 1 thresholds: payload 999/1000/1001 (de-dup), 256 grid both sides, PMTiles root 16257/16258/16384/16385 bytes by bisection on the real encoder, 16383/16384 entries, MBTiles batches 2000/2001, zoom 0/30/31; 2 faults: a source that errs is C02/C06's concern, here the writers' refusal of an empty pyramid is modelled (.err)".into());
	ctx.out.notes.push("CHECKLIST 3 payloads: empty, 1 byte, duplicates within/across blocks, > 64 KiB, additive tiny lengths; 5 pre-existing output (longer file / non-empty directory) for every writer; 6 source stream order reversed / shuffled; 8 extreme coordinates; 9 independent decoder on every written file; 10 real reader vs independent decoder vs Lean reader on the same bytes, Lean writer vs real file".into());
	ctx.out.notes.push("CHECKLIST 4 option interplay: the writers have no options beyond (format, compression) – all pairs are run; 7 HTTP variants: not applicable".into());
	if let Some(p) = &args.replay {
		for line in std::fs::read_to_string(p).unwrap().lines() {
			let line = line.trim_end();
			if !line.is_empty() && replay_line(&mut ctx, &mut shrunk, line).is_none() {
				ctx.out.count("malformed_line");
			}
		}
		ctx.scratch.done();
		ctx.out.finish();
		return;
	}
	let mut rng = Rng::new(args.seed);
	let pairs: Vec<(Fmt, Comp)> = ALL_FMT.iter().flat_map(|f| ALL_COMP.iter().map(move |c| (*f, *c))).collect();
	let pm_pairs: Vec<(Fmt, Comp)> = pairs.iter().copied().filter(|(f, _)| f.pm_type().is_some()).collect();
	let mb_pairs = [(Fmt::Jpg, Comp::None), (Fmt::Png, Comp::None), (Fmt::Webp, Comp::None), (Fmt::Pbf, Comp::Gzip)];
	// 1. full cross product on one small set with duplicates, an empty payload and a grid crossing
	let mut first = TileMap::new();
	for (c, p) in [((9u8, 255u32, 255u32), vec![1u8, 2, 3]), ((9, 256, 255), vec![1, 2, 3]), ((9, 256, 256), vec![4; 40]), ((9, 255, 256), vec![]), ((3, 5, 2), vec![7]), ((0, 0, 0), vec![8, 8])] {
		first.insert(c, p);
	}
	let first = Set::exact(first);
	for t in [Target::V, Target::P, Target::M, Target::T, Target::D] {
		for (f, c) in &pairs {
			emit_case(&mut ctx, &mut shrunk, t, *f, *c, &first, "first");
		}
	}
	// 1b. the smallest additive coincidence: zoom 1, row-major lengths 10, 20, 30 (10 + 20 = 30), Hilbert order differs
	{
		let mut t = TileMap::new();
		for (c, n) in [((1u8, 0u32, 0u32), 10usize), ((1, 1, 0), 20), ((1, 0, 1), 30), ((1, 1, 1), 7)] {
			t.insert(c, (0..n).map(|k| (k + n) as u8).collect());
		}
		let set = Set::exact(t);
		for (tg, f, c) in [(Target::P, Fmt::Png, Comp::None), (Target::P, Fmt::Pbf, Comp::Gzip), (Target::V, Fmt::Png, Comp::None)] {
			emit_case(&mut ctx, &mut shrunk, tg, f, c, &set, "additive");
		}
	}
	// 2. generated sets with rotating pairs
	let kinds_quick = ["single", "sparse", "dense", "additive", "zoomgap", "grid", "threshold", "extreme", "additive", "hundreds", "sparse", "payloads", "grid", "additive", "threshold", "extreme"];
	let n = args.n(80, 400);
	let mut rot = 0usize;
	// bin/check re-runs the harness with seed + 1000 / + 2000 (thorough tier) to search for a failing input after a
	// broken correspondence: such search runs (seed ≥ 1000) get a wall-clock budget so that the whole check stays short
	let t_start = std::time::Instant::now();
	let search_run = args.seed >= 1000;
	if search_run {
		ctx.out.notes.push("search run (seed ≥ 1000): generation stops after 25 s".into());
	}
	for i in 0..n {
		if search_run && t_start.elapsed().as_secs() >= 25 {
			break;
		}
		let kind = kinds_quick[i % kinds_quick.len()];
		let mut set = gen_set(&mut rng, kind);
		// every third set is streamed by the source in another order (reversed / shuffled)
		set.order = if i % 3 == 2 { 1 + (i / 3 % 2) as u8 } else { 0 };
		if set.order != 0 {
			ctx.out.count(&format!("source_stream_order_{}", set.order));
		}
		for k in 0..3 {
			let (f, c) = pairs[(rot + 7 * k) % pairs.len()];
			emit_case(&mut ctx, &mut shrunk, Target::V, f, c, &set, kind);
			let (f, c) = pm_pairs[(rot + 4 * k) % pm_pairs.len()];
			emit_case(&mut ctx, &mut shrunk, Target::P, f, c, &set, kind);
		}
		for k in 0..2 {
			let (f, c) = mb_pairs[(rot + k) % 4];
			emit_case(&mut ctx, &mut shrunk, Target::M, f, c, &set, kind);
			let (f, c) = pairs[(rot + 11 * k + 3) % pairs.len()];
			emit_case(&mut ctx, &mut shrunk, Target::T, f, c, &set, kind);
			let (f, c) = pairs[(rot + 13 * k + 5) % pairs.len()];
			emit_case(&mut ctx, &mut shrunk, Target::D, f, c, &set, kind);
		}
		rot += 1;
	}
	// boundary-seeking sets: the compressed PMTiles root directory is exactly at / just above the 16257-byte budget
	// (16384 - 127) and at / just above 16384 - the writer must switch to leaf directories, never touch the metadata
	if !search_run {
		let t0 = std::time::Instant::now();
		for (delta, tiles) in crate::boundary::pmtiles_root_boundary_sets(args.thorough()) {
			ctx.out.count(&format!("pmtiles_root_boundary_delta_{delta}"));
			let set = Set::exact(tiles);
			emit_case(&mut ctx, &mut shrunk, Target::P, Fmt::Png, Comp::Gzip, &set, "root-boundary");
		}
		ctx.out.extra.insert("pmtiles_root_boundary_seconds".into(), json!(t0.elapsed().as_secs_f64()));
	}
	// other count thresholds of the writers: PMTiles tries a single-level directory only below 16384 entries (leaf chunks
	// of 4096); MBTilesWriter inserts in batches of 2000 tiles (`for_each_buffered(2000, …)`)
	if !search_run {
		let grid = |n: usize, z: u8, w: u32| -> Set {
			let mut t = TileMap::new();
			for i in 0..n as u32 {
				t.insert((z, i % w, i / w), vec![(i % 251) as u8, (i / 251) as u8]);
			}
			Set::exact(t)
		};
		// counts that are no multiple of the number of leaves (n / 4096): a leaf split that rounds drops or repeats the remainder (seed C01-13)
		let pm: &[usize] = if args.thorough() { &[16383, 16384, 16385, 16387, 20483, 24581] } else { &[16383, 16384, 16385] };
		for n in pm {
			ctx.out.count(&format!("pmtiles_entry_count_{n}"));
			emit_case(&mut ctx, &mut shrunk, Target::P, Fmt::Webp, Comp::None, &grid(*n, 8, 128), "entry-count");
		}
		let mb: &[usize] = if args.thorough() { &[1999, 2000, 2001, 4000, 4001] } else { &[2000, 2001] };
		for n in mb {
			ctx.out.count(&format!("mbtiles_batch_{n}"));
			emit_case(&mut ctx, &mut shrunk, Target::M, Fmt::Png, Comp::None, &grid(*n, 7, 64), "batch");
		}
	}
	// getters.rs: dispatch of file names to readers / writers (streams GTR / GTW)
	if !search_run {
		let root = ctx.scratch.fresh("-getters");
		let mut r2 = rng.fork();
		crate::c01_getters::run(&mut ctx, &mut r2, &root);
		crate::c16::rm(&root);
	}
	// one set with > 16384 tiles in every tier: PMTiles leaf directories (root + leaves layout of the writer)
	{
		let set = gen_set(&mut rng, "leaves");
		emit_case(&mut ctx, &mut shrunk, Target::P, Fmt::Png, Comp::Gzip, &set, "leaves");
	}
	if args.thorough() && !search_run {
		for _ in 0..2 {
			let set = gen_set(&mut rng, "leaves");
			for (t, f, c) in [(Target::P, Fmt::Pbf, Comp::Gzip), (Target::P, Fmt::Png, Comp::None), (Target::V, Fmt::Pbf, Comp::Brotli), (Target::M, Fmt::Pbf, Comp::Gzip), (Target::T, Fmt::Webp, Comp::None)] {
				emit_case(&mut ctx, &mut shrunk, t, f, c, &set, "leaves");
			}
		}
	}
	// write faults below the writers (class 2) and source metadata colliding with what the writers derive (class 4)
	if !search_run {
		let mut r3 = rng.fork();
		crate::c01_extra::fault_cases(&mut ctx, &mut r3, args);
		crate::c01_extra::tilejson_collision_cases(&mut ctx, &mut r3, args);
	}
	// sparse tile sets at high zoom levels (child processes with an address-space limit)
	if !search_run {
		crate::c01_sparse::run_cases(&mut ctx, args);
	}
	ctx.scratch.done();
	ctx.out.finish();
}
