//! Counting global allocator (C19): wraps `System`; while a measurement window is open it records
//! the largest single request and the peak of live bytes allocated since the window was opened.
//! Outside a window the cost is one relaxed atomic load per (de)allocation, so the other
//! properties' harness modules are not affected.  All counters are process-wide atomics: the
//! C19 module runs its cases sequentially, so whatever any thread (tokio workers included)
//! allocates while a window is open is attributed to the case being measured.
use std::alloc::{GlobalAlloc, Layout, System};
use std::sync::atomic::{AtomicBool, AtomicIsize, AtomicUsize, Ordering::Relaxed};

pub struct Counting;

static ON: AtomicBool = AtomicBool::new(false);
static MAX_SINGLE: AtomicUsize = AtomicUsize::new(0);
static LIVE: AtomicIsize = AtomicIsize::new(0);
static PEAK: AtomicIsize = AtomicIsize::new(0);
static COUNT: AtomicUsize = AtomicUsize::new(0);

#[inline]
fn note_alloc(size: usize) {
	if ON.load(Relaxed) {
		MAX_SINGLE.fetch_max(size, Relaxed);
		let live = LIVE.fetch_add(size as isize, Relaxed) + size as isize;
		PEAK.fetch_max(live, Relaxed);
		COUNT.fetch_add(1, Relaxed);
	}
}
#[inline]
fn note_free(size: usize) {
	if ON.load(Relaxed) {
		LIVE.fetch_sub(size as isize, Relaxed);
	}
}

unsafe impl GlobalAlloc for Counting {
	unsafe fn alloc(&self, l: Layout) -> *mut u8 {
		note_alloc(l.size());
		System.alloc(l)
	}
	unsafe fn alloc_zeroed(&self, l: Layout) -> *mut u8 {
		note_alloc(l.size());
		System.alloc_zeroed(l)
	}
	unsafe fn dealloc(&self, p: *mut u8, l: Layout) {
		note_free(l.size());
		System.dealloc(p, l)
	}
	unsafe fn realloc(&self, p: *mut u8, l: Layout, new_size: usize) -> *mut u8 {
		// a growing realloc is a request for `new_size` bytes
		if ON.load(Relaxed) {
			MAX_SINGLE.fetch_max(new_size, Relaxed);
			let d = new_size as isize - l.size() as isize;
			let live = LIVE.fetch_add(d, Relaxed) + d;
			PEAK.fetch_max(live, Relaxed);
			COUNT.fetch_add(1, Relaxed);
		}
		System.realloc(p, l, new_size)
	}
}

#[derive(Clone, Copy, Debug, Default)]
pub struct Usage {
	/// largest single request (alloc / alloc_zeroed / realloc target size)
	pub max_single: usize,
	/// peak of (bytes allocated − bytes freed) since the window was opened (frees of older memory can make it start below 0)
	pub peak: usize,
	pub count: usize,
}

/// open a measurement window (resets the counters)
pub fn begin() {
	MAX_SINGLE.store(0, Relaxed);
	LIVE.store(0, Relaxed);
	PEAK.store(0, Relaxed);
	COUNT.store(0, Relaxed);
	ON.store(true, Relaxed);
}
/// close the window and return what was seen
pub fn end() -> Usage {
	ON.store(false, Relaxed);
	Usage { max_single: MAX_SINGLE.load(Relaxed), peak: PEAK.load(Relaxed).max(0) as usize, count: COUNT.load(Relaxed) }
}
/// run `f` inside a window
pub fn measure<T>(f: impl FnOnce() -> T) -> (T, Usage) {
	begin();
	let r = f();
	(r, end())
}
