//! C17 – JSON round trips and containers hand back the TileJSON they were given.
//!
//! Streams sent to the Lean model (`VtModel/Json.lean`, `VtModel/TileJson.lean`):
//!   `C17s <tree>`      → hex of `JsonValue::stringify`            (numbers carry `f64::to_string` text)
//!   `C17p <hex text>`  → `ok <tree>` | `err` | `panic`            (real `JsonValue::parse_str`; numbers as f64 bits)
//!   `C17t <tree>`      → TileJSON: `from_object` then `as_object` (`ok <tree>` | `err`)
//!   `C17u <tree> <w> <s> <e> <n> <zmin> <zmax>` → `update_from_pyramid`-style narrowing
//! Tree syntax (prefix form, `,` separated): N T F #<num> S<hex> A<n> … O<n> (K<hex> value)…
//!
//! Direct oracles (independent of the model): parse(stringify(v)) == v; serde_json accepts the text
//! with the same meaning; f64 lexical law; TileJSON object round trip; containers (versatiles,
//! pmtiles, tar, directory) return the metadata they were given with bounds/zoom only narrowed;
//! served tiles.json.
use crate::common::*;
use serde_json::json;
use std::collections::BTreeMap;
use versatiles_core::json::{JsonArray, JsonObject, JsonValue};

#[path = "c17_tj.rs"]
mod tj;
#[path = "c17_nd.rs"]
mod nd;
#[path = "c17_io.rs"]
mod io;

// ---------------------------------------------------------------------------------------------
// tree syntax
// ---------------------------------------------------------------------------------------------

#[derive(Clone, Copy, PartialEq)]
pub enum NumStyle {
	Text, // hex of `f64::to_string`
	Bits, // 16 hex digits of the bit pattern
}

pub fn hexs(b: &[u8]) -> String {
	let mut s = String::with_capacity(b.len() * 2);
	for x in b {
		s.push_str(&format!("{x:02x}"));
	}
	s
}

pub fn render(v: &JsonValue, style: NumStyle, out: &mut Vec<String>) {
	match v {
		JsonValue::Null => out.push("N".into()),
		JsonValue::Boolean(true) => out.push("T".into()),
		JsonValue::Boolean(false) => out.push("F".into()),
		JsonValue::Number(n) => out.push(match style {
			NumStyle::Text => format!("#{}", hexs(n.to_string().as_bytes())),
			NumStyle::Bits => format!("#{:016x}", n.to_bits()),
		}),
		JsonValue::String(s) => out.push(format!("S{}", hexs(s.as_bytes()))),
		JsonValue::Array(a) => {
			out.push(format!("A{}", a.0.len()));
			for x in &a.0 {
				render(x, style, out);
			}
		}
		JsonValue::Object(o) => {
			out.push(format!("O{}", o.0.len()));
			for (k, x) in o.0.iter() {
				out.push(format!("K{}", hexs(k.as_bytes())));
				render(x, style, out);
			}
		}
	}
}

pub fn tree(v: &JsonValue, style: NumStyle) -> String {
	let mut o = vec![];
	render(v, style, &mut o);
	o.join(",")
}

fn unhexs(s: &str) -> Option<Vec<u8>> {
	if s.len() % 2 != 0 {
		return None;
	}
	(0..s.len() / 2).map(|i| u8::from_str_radix(s.get(2 * i..2 * i + 2)?, 16).ok()).collect()
}

/// parse the tree syntax (numbers in Text style)
pub fn parse_tree(s: &str) -> Option<JsonValue> {
	let toks: Vec<&str> = s.split(',').collect();
	let mut i = 0;
	let v = parse_tree_at(&toks, &mut i, 0)?;
	if i == toks.len() {
		Some(v)
	} else {
		None
	}
}

fn parse_tree_at(t: &[&str], i: &mut usize, depth: usize) -> Option<JsonValue> {
	if depth > 3000 {
		return None;
	}
	let tok = *t.get(*i)?;
	*i += 1;
	let (h, r) = tok.split_at(1.min(tok.len()));
	Some(match h {
		"N" if r.is_empty() => JsonValue::Null,
		"T" if r.is_empty() => JsonValue::Boolean(true),
		"F" if r.is_empty() => JsonValue::Boolean(false),
		"#" => JsonValue::Number(String::from_utf8(unhexs(r)?).ok()?.parse::<f64>().ok()?),
		"S" => JsonValue::String(String::from_utf8(unhexs(r)?).ok()?),
		"A" => {
			let n: usize = r.parse().ok()?;
			let mut xs = vec![];
			for _ in 0..n {
				xs.push(parse_tree_at(t, i, depth + 1)?);
			}
			JsonValue::Array(JsonArray(xs))
		}
		"O" => {
			let n: usize = r.parse().ok()?;
			let mut m = BTreeMap::new();
			for _ in 0..n {
				let k = *t.get(*i)?;
				*i += 1;
				let k = String::from_utf8(unhexs(k.strip_prefix('K')?)?).ok()?;
				m.insert(k, parse_tree_at(t, i, depth + 1)?);
			}
			JsonValue::Object(JsonObject(m))
		}
		_ => return None,
	})
}

// ---------------------------------------------------------------------------------------------
// generators
// ---------------------------------------------------------------------------------------------

pub fn gen_char(rng: &mut Rng) -> char {
	let c = match rng.below(20) {
		0..=5 => rng.range(0x20, 0x7e) as u32,
		6 => *rng.pick(&[0x22u32, 0x5c, 0x2f]),
		7 => rng.range(0, 0x1f) as u32,
		8 => *rng.pick(&[0x08u32, 0x0c, 0x0a, 0x0d, 0x09, 0x00, 0x1f, 0x7f]),
		9 => rng.range(0x7f, 0xa0) as u32,
		10 => rng.range(0xa0, 0x7ff) as u32,
		11 | 12 => rng.range(0x800, 0xffff) as u32,
		13 => *rng.pick(&[0x2028u32, 0x2029, 0xfeff, 0xfffe, 0xffff, 0xd7ff, 0xe000, 0xfffd, 0x7ff, 0x800, 0x80, 0x9f]),
		14 | 15 => rng.range(0x10000, 0x10ffff) as u32,
		16 => *rng.pick(&[0x10000u32, 0x10ffff, 0x1f600, 0x1d11e]),
		_ => rng.range(0x61, 0x7a) as u32,
	};
	char::from_u32(c).unwrap_or('\u{fffd}') // surrogates are not scalar values
}

pub fn gen_string(rng: &mut Rng) -> String {
	let n = match rng.below(10) {
		0 => 0,
		1..=6 => rng.range(1, 8),
		7 | 8 => rng.range(9, 40),
		_ => rng.range(41, 120),
	};
	(0..n).map(|_| gen_char(rng)).collect()
}

pub fn gen_f64(rng: &mut Rng) -> f64 {
	loop {
		let x = match rng.below(16) {
			0 | 1 => rng.below(1000) as f64,
			2 => -(rng.below(1000) as f64),
			3 => *rng.pick(&[0.0, -0.0, 1.0, -1.0, f64::MAX, f64::MIN, f64::MIN_POSITIVE, 5e-324, 1e21, 1e-7, 1e22, 1e23, 9007199254740993.0, 0.1, 0.3, 1.0 / 3.0, 255.0, 256.0, 4294967296.0, 1.8446744073709552e19]),
			4 | 5 => f64::from_bits(rng.next()),
			6 => (rng.next() as i64) as f64,
			7 => (rng.below(2_000_000) as f64 - 1_000_000.0) / 1000.0,
			8 => 10f64.powi(rng.range(0, 616) as i32 - 308) * (1.0 + rng.below(9) as f64),
			9 => f64::from_bits(rng.below(1 << 52)),          // subnormals
			10 => (rng.below(360_000_000) as f64) / 1e6 - 180.0, // degrees
			11 => f64::from_bits(rng.next() & 0x800f_ffff_ffff_ffff | ((1023 + rng.below(80)) << 52)),
			12 => rng.below(1 << 53) as f64,
			13 => (rng.below(1 << 53) as f64) * 2f64.powi(rng.range(0, 200) as i32 - 100),
			_ => rng.below(31) as f64,
		};
		if x.is_finite() {
			return x;
		}
	}
}

pub fn gen_value(rng: &mut Rng, depth: u32) -> JsonValue {
	let leaf = depth == 0 || rng.chance(2, 5);
	if leaf {
		match rng.below(8) {
			0 => JsonValue::Null,
			1 => JsonValue::Boolean(rng.chance(1, 2)),
			2..=4 => JsonValue::Number(gen_f64(rng)),
			_ => JsonValue::String(gen_string(rng)),
		}
	} else if rng.chance(1, 2) {
		let n = match rng.below(6) {
			0 => 0,
			1 => 1,
			_ => rng.range(2, 5),
		};
		JsonValue::Array(JsonArray((0..n).map(|_| gen_value(rng, depth - 1)).collect()))
	} else {
		let n = match rng.below(6) {
			0 => 0,
			1 => 1,
			_ => rng.range(2, 5),
		};
		let mut m = BTreeMap::new();
		let mut prev: Option<String> = None;
		for _ in 0..n {
			// keys: random strings, near-duplicates (common prefix, differing in the last char) and the empty key
			let k = match (&prev, rng.below(5)) {
				(Some(p), 0) => format!("{p}{}", gen_char(rng)),
				(Some(p), 1) if !p.is_empty() => {
					let mut cs: Vec<char> = p.chars().collect();
					cs.pop();
					cs.push(gen_char(rng));
					cs.into_iter().collect()
				}
				_ => gen_string(rng),
			};
			prev = Some(k.clone());
			m.insert(k, gen_value(rng, depth - 1));
		}
		JsonValue::Object(JsonObject(m))
	}
}

fn depth_of(v: &JsonValue) -> u32 {
	match v {
		JsonValue::Array(a) => 1 + a.0.iter().map(depth_of).max().unwrap_or(0),
		JsonValue::Object(o) => 1 + o.0.values().map(depth_of).max().unwrap_or(0),
		_ => 0,
	}
}

fn needs_escape(c: char) -> bool {
	c == '"' || c == '\\' || c.is_control() || !c.is_ascii()
}

fn interesting(v: &JsonValue) -> bool {
	match v {
		JsonValue::String(s) => s.chars().any(needs_escape),
		JsonValue::Number(n) => n.fract() != 0.0 || n.abs() >= 1e15,
		JsonValue::Array(a) => a.0.iter().any(interesting),
		JsonValue::Object(o) => o.0.iter().any(|(k, x)| k.chars().any(needs_escape) || interesting(x)),
		_ => false,
	}
}

// ---------------------------------------------------------------------------------------------
// oracles
// ---------------------------------------------------------------------------------------------

/// strict equality of values (numbers by bit pattern)
pub fn same(a: &JsonValue, b: &JsonValue) -> bool {
	match (a, b) {
		(JsonValue::Null, JsonValue::Null) => true,
		(JsonValue::Boolean(x), JsonValue::Boolean(y)) => x == y,
		(JsonValue::Number(x), JsonValue::Number(y)) => x.to_bits() == y.to_bits(),
		(JsonValue::String(x), JsonValue::String(y)) => x == y,
		(JsonValue::Array(x), JsonValue::Array(y)) => x.0.len() == y.0.len() && x.0.iter().zip(&y.0).all(|(p, q)| same(p, q)),
		(JsonValue::Object(x), JsonValue::Object(y)) => {
			x.0.len() == y.0.len() && x.0.iter().zip(y.0.iter()).all(|((k, p), (l, q))| k == l && same(p, q))
		}
		_ => false,
	}
}

/// same meaning as seen by the standard parser (numbers compared as f64 values, `-0 == 0` allowed
/// because serde_json stores integral texts as integers)
fn same_serde(a: &JsonValue, b: &serde_json::Value) -> bool {
	use serde_json::Value as V;
	match (a, b) {
		(JsonValue::Null, V::Null) => true,
		(JsonValue::Boolean(x), V::Bool(y)) => x == y,
		(JsonValue::Number(x), V::Number(y)) => y.as_f64().map_or(false, |f| f == *x),
		(JsonValue::String(x), V::String(y)) => x == y,
		(JsonValue::Array(x), V::Array(y)) => x.0.len() == y.len() && x.0.iter().zip(y).all(|(p, q)| same_serde(p, q)),
		(JsonValue::Object(x), V::Object(y)) => x.0.len() == y.len() && x.0.iter().all(|(k, p)| y.get(k).map_or(false, |q| same_serde(p, q))),
		_ => false,
	}
}

/// `-?digits(.digits)?` – the lexical shape of `f64::to_string` for finite values the model relies on
fn num_lex_ok(s: &str) -> bool {
	let b = s.as_bytes();
	let mut i = 0;
	if i < b.len() && b[i] == b'-' {
		i += 1;
	}
	let d0 = i;
	while i < b.len() && b[i].is_ascii_digit() {
		i += 1;
	}
	if i == d0 {
		return false;
	}
	if i < b.len() && b[i] == b'.' {
		i += 1;
		let d1 = i;
		while i < b.len() && b[i].is_ascii_digit() {
			i += 1;
		}
		if i == d1 {
			return false;
		}
	}
	i == b.len()
}

fn first_bad_char(s: &str) -> Option<u32> {
	// smallest single character of `s` that does not survive on its own
	s.chars().find(|c| {
		let v = JsonValue::String(c.to_string());
		!matches!(catch(|| JsonValue::parse_str(&v.stringify())), Ok(Ok(ref w)) if same(&v, w))
	}).map(|c| c as u32)
}

fn collect_strings<'a>(v: &'a JsonValue, out: &mut Vec<&'a str>) {
	match v {
		JsonValue::String(s) => out.push(s),
		JsonValue::Array(a) => a.0.iter().for_each(|x| collect_strings(x, out)),
		JsonValue::Object(o) => o.0.iter().for_each(|(k, x)| {
			out.push(k);
			collect_strings(x, out)
		}),
		_ => {}
	}
}

fn collect_numbers(v: &JsonValue, out: &mut Vec<f64>) {
	match v {
		JsonValue::Number(n) => out.push(*n),
		JsonValue::Array(a) => a.0.iter().for_each(|x| collect_numbers(x, out)),
		JsonValue::Object(o) => o.0.values().for_each(|x| collect_numbers(x, out)),
		_ => {}
	}
}

pub fn show_parse(r: &Result<anyhow::Result<JsonValue>, String>) -> String {
	match r {
		Ok(Ok(v)) => format!("ok {}", tree(v, NumStyle::Bits)),
		Ok(Err(_)) => "err".into(),
		Err(_) => "panic".into(),
	}
}

/// S case + P case + direct oracles for one value
fn emit_value(out: &mut Out, v: &JsonValue) {
	let t = tree(v, NumStyle::Text);
	let text = match catch(|| v.stringify()) {
		Ok(s) => s,
		Err(m) => {
			out.case(&format!("C17s {t}"), "panic", true);
			out.oracle(false, &format!("C17 stringify panic: {m}"), json!({"kind": "stringify-panic"}), json!({"case": format!("C17s {t}")}));
			return;
		}
	};
	let nt = interesting(v) || depth_of(v) >= 2;
	out.case(&format!("C17s {t}"), &hex(text.as_bytes()), nt);
	let parsed = catch(|| JsonValue::parse_str(&text));
	out.case(&format!("C17p {}", hex(text.as_bytes())), &show_parse(&parsed), nt);
	out.count(&format!("depth_{}", depth_of(v).min(9)));
	out.count_n("text_bytes", text.len() as u64);

	// (a) round trip through the real parser.  Since /repo f7196604 documents nested deeper than
	// MAX_NESTING_DEPTH = 1024 are rejected by design (stack safety): for those the expected answer is Err.
	if depth_of(v) > 1024 {
		let ok = matches!(&parsed, Ok(Err(_)));
		out.count("deeper_than_limit");
		out.oracle(ok, "C17 nesting: a document nested deeper than 1024 must be rejected with an error", json!({"kind": "nesting", "how": if parsed.is_err() { "panic" } else { "accepted" }}), json!({"case": format!("C17p {}", hex(text.as_bytes())), "depth": depth_of(v)}));
		return;
	}
	let rt_ok = matches!(&parsed, Ok(Ok(w)) if same(v, w));
	if !rt_ok {
		let mut strs = vec![];
		collect_strings(v, &mut strs);
		let bad = strs.iter().find_map(|s| first_bad_char(s));
		let kind = match &parsed {
			Err(_) => "panic",
			Ok(Err(_)) => "rejected",
			Ok(Ok(_)) => "different",
		};
		let (sig, small) = match bad {
			Some(c) => {
				let sv = JsonValue::String(char::from_u32(c).unwrap().to_string());
				(json!({"kind": "roundtrip", "how": kind, "char_class": char_class(c)}), tree(&sv, NumStyle::Text))
			}
			None => (json!({"kind": "roundtrip", "how": kind, "char_class": "none"}), t.clone()),
		};
		out.oracle(false, &format!("C17 roundtrip: parse(stringify(v)) {kind}"), sig, json!({"case": format!("C17s {small}"), "text": trunc(&text, 300), "original": trunc(&t, 300)}));
	} else {
		out.oracle(true, "", json!(null), json!(null));
	}
	// (b) a standard parser accepts the text with the same meaning
	// (serde_json refuses nesting deeper than 128 by design; that is a limit of the reference, not of the text)
	match serde_json::from_str::<serde_json::Value>(&text) {
		_ if depth_of(v) > 120 => out.count("serde_skipped_deep"),
		Ok(sv) if same_serde(v, &sv) => out.oracle(true, "", json!(null), json!(null)),
		Ok(_) => out.oracle(false, "C17 standard-parser: serde_json reads a different value", json!({"kind": "serde", "how": "different"}), json!({"case": format!("C17s {t}"), "text": trunc(&text, 300)})),
		Err(e) => out.oracle(false, "C17 standard-parser: serde_json rejects stringify output", json!({"kind": "serde", "how": "rejected"}), json!({"case": format!("C17s {t}"), "text": trunc(&text, 300), "error": e.to_string()})),
	}
	// (c) the number law the Lean theorems assume (tested on the real f64 formatting/parsing)
	let mut nums = vec![];
	collect_numbers(v, &mut nums);
	for n in nums {
		let s = n.to_string();
		let ok = num_lex_ok(&s) && s.parse::<f64>().map_or(false, |m| m.to_bits() == n.to_bits());
		out.eval(&format!("numlaw {s}"), true);
		out.count("numlaw_checked");
		out.oracle(ok, "C17 number-law: f64::to_string is not `-?d+(.d+)?` or does not parse back to the same bits", json!({"kind": "numlaw"}), json!({"case": format!("C17s #{}", hexs(s.as_bytes())), "bits": format!("{:016x}", n.to_bits())}));
	}
}

fn char_class(c: u32) -> &'static str {
	match c {
		0x22 | 0x5c => "quote-backslash",
		0..=0x1f => "c0",
		0x7f => "del",
		0x80..=0x9f => "c1",
		0xa0..=0xffff => "bmp",
		_ if c >= 0x10000 => "astral",
		_ => "ascii",
	}
}

/// a text (not necessarily produced by stringify) through the real parser and the model;
/// oracle: when our parser accepts and serde_json accepts, the meaning is the same (numbers incl. exponents)
fn emit_text(out: &mut Out, text: &[u8], class: &str) {
	let parsed = match std::str::from_utf8(text) {
		Ok(s) => catch(|| JsonValue::parse_str(s)),
		Err(_) => return, // parse_str takes &str: not expressible
	};
	let line = show_parse(&parsed);
	out.case(&format!("C17p {}", hex(text)), &line, line != "err");
	out.count(&format!("text_{class}_{}", line.split(' ').next().unwrap()));
	// the parser's outcome on a &str is Ok or Err; a panic is never a legitimate answer (the model has no
	// panic outcome since /repo a22a8569) – report it with the text so that it can be replayed
	if let Err(m) = &parsed {
		out.oracle(false, "C17 parser: parse_str panicked on a text", json!({"kind": "parse-panic", "class": class}), json!({"case": format!("C17p {}", hex(text)), "panic": trunc(m, 200), "len": text.len()}));
	}
	if let (Ok(Ok(v)), Ok(sv)) = (&parsed, serde_json::from_slice::<serde_json::Value>(text)) {
		let ok = same_serde(v, &sv) || has_dup_keys(text);
		out.oracle(ok, "C17 standard-parser: text accepted by both parsers with different meaning", json!({"kind": "serde-text", "class": class}), json!({"case": format!("C17p {}", hex(text))}));
	}
}

fn has_dup_keys(_text: &[u8]) -> bool {
	// duplicate keys: both parsers keep the last one; nothing to exclude
	false
}

// ---------------------------------------------------------------------------------------------
// text variants
// ---------------------------------------------------------------------------------------------

fn ws(rng: &mut Rng) -> &'static str {
	if STRICT_LAYOUT.with(|c| c.get()) {
		return *rng.pick(&["", "", " ", "\t", "\n", "\r", "  \n"]);
	}
	*rng.pick(&["", "", " ", "\t", "\n", "\r", "\x0c", "  \n"])
}

thread_local! {
	/// only the freedoms RFC 8259 allows (no form feed as whitespace, no leading zeros) – for texts other writers may produce
	static STRICT_LAYOUT: std::cell::Cell<bool> = const { std::cell::Cell::new(false) };
}

/// `variant_text` restricted to valid JSON
fn variant_text_strict(rng: &mut Rng, v: &JsonValue, out: &mut String) {
	STRICT_LAYOUT.with(|c| c.set(true));
	variant_text(rng, v, out);
	STRICT_LAYOUT.with(|c| c.set(false));
}

/// re-serialise `v` with free layout choices: whitespace, `\uXXXX` escapes (upper/lower case),
/// `\/`, exponent notations for numbers
fn variant_text(rng: &mut Rng, v: &JsonValue, out: &mut String) {
	match v {
		JsonValue::Null => out.push_str("null"),
		JsonValue::Boolean(b) => out.push_str(if *b { "true" } else { "false" }),
		JsonValue::Number(n) => out.push_str(&match rng.below(5) {
			0 => format!("{n:e}"),
			1 => format!("{n:E}").replace("E", if rng.chance(1, 2) { "E+" } else { "E" }).replace("E+-", "E-"),
			2 if n.fract() == 0.0 && n.abs() < 1e15 => format!("{n}.0"),
			3 if *n >= 0.0 && !STRICT_LAYOUT.with(|c| c.get()) => format!("0{n}"),
			_ => n.to_string(),
		}),
		JsonValue::String(s) => variant_string(rng, s, out),
		JsonValue::Array(a) => {
			out.push('[');
			out.push_str(ws(rng));
			for (i, x) in a.0.iter().enumerate() {
				if i > 0 {
					out.push_str(ws(rng));
					out.push(',');
					out.push_str(ws(rng));
				}
				variant_text(rng, x, out);
			}
			out.push_str(ws(rng));
			out.push(']');
		}
		JsonValue::Object(o) => {
			out.push('{');
			for (i, (k, x)) in o.0.iter().enumerate() {
				if i > 0 {
					out.push_str(ws(rng));
					out.push(',');
				}
				out.push_str(ws(rng));
				variant_string(rng, k, out);
				out.push_str(ws(rng));
				out.push(':');
				out.push_str(ws(rng));
				variant_text(rng, x, out);
			}
			out.push_str(ws(rng));
			out.push('}');
		}
	}
}

fn variant_string(rng: &mut Rng, s: &str, out: &mut String) {
	out.push('"');
	for c in s.chars() {
		let cp = c as u32;
		if cp < 0x10000 && (c.is_control() || c == '"' || c == '\\' || rng.chance(1, 4)) {
			match (c, rng.below(3)) {
				('"', 0) => out.push_str("\\\""),
				('\\', 0) => out.push_str("\\\\"),
				('/', _) => out.push_str("\\/"),
				('\n', 0) => out.push_str("\\n"),
				(_, 1) => out.push_str(&format!("\\u{cp:04X}")),
				_ => out.push_str(&format!("\\u{cp:04x}")),
			}
		} else {
			out.push(c);
		}
	}
	out.push('"');
}

fn mutate(rng: &mut Rng, text: &[u8]) -> Vec<u8> {
	let mut t = text.to_vec();
	if t.is_empty() {
		return t;
	}
	match rng.below(8) {
		0 => {
			let n = rng.below(t.len() as u64) as usize;
			t.truncate(n);
		}
		1 => {
			let i = rng.below(t.len() as u64) as usize;
			t.remove(i);
		}
		2 => {
			let i = rng.below(t.len() as u64 + 1) as usize;
			t.insert(i, *rng.pick(b"[]{}\",:\\u0e+-. tfn\x7f"));
		}
		3 => {
			let i = rng.below(t.len() as u64) as usize;
			t[i] = *rng.pick(b"[]{}\",:\\u0e+-. x");
		}
		4 => {
			// a multi-byte character right before a cut (format_error's snapshot window)
			let i = rng.below(t.len() as u64 + 1) as usize;
			let mut u = t[..i.min(t.len())].to_vec();
			while std::str::from_utf8(&u).is_err() {
				u.pop();
			}
			u.extend_from_slice("é€😊".as_bytes());
			u.extend_from_slice(&b"aaaaaaaaaaaaaaaa"[..rng.range(0, 16) as usize]);
			u.push(*rng.pick(b"x]}\\"));
			t = u;
		}
		5 => {
			// `\u` followed by fewer than four hex digits / by a multi-byte character
			let i = rng.below(t.len() as u64 + 1) as usize;
			let mut u = t[..i.min(t.len())].to_vec();
			while std::str::from_utf8(&u).is_err() {
				u.pop();
			}
			u.extend_from_slice(b"\"\\u");
			u.extend_from_slice(*rng.pick(&[&b"12"[..], b"+041", b"-041", b"00e9", b"D834\\uDD1E", b"d800", b"dfff", b"12\xc3\xa9", b"1\xc3\xa9a", b"123\xc3\xa9", b"\xf0\x9f\x98\x8a", b"00G0", b"", b"004"]));
			u.extend_from_slice(b"\"");
			t = u;
		}
		6 => {
			// duplicate a span
			let i = rng.below(t.len() as u64) as usize;
			let j = (i + rng.range(1, 6) as usize).min(t.len());
			let span = t[i..j].to_vec();
			for (k, b) in span.into_iter().enumerate() {
				t.insert(j + k, b);
			}
		}
		_ => {
			t.extend_from_slice(*rng.pick(&[&b","[..], b" x", b"]", b"}", b" ", b"\"", b"1"]));
		}
	}
	t
}

const FIXED_TEXTS: &[&str] = &[
	"", " ", "null", "nul", "nulll", "true", "false", "tru", "[", "]", "{", "}", "[]", "{}", "[ ]", "{ }", "[1,]", "[,1]", "{\"a\":1,}", "{,}",
	"{\"a\":1,\"a\":2}", "{\"b\":1,\"a\":2,\"b\":3}", "{\"a\" 1}", "{\"a\":}", "{a:1}", "[1 2]", "[1,2", "\"abc", "\"a\\", "\"\\u12", "\"\\u123", "\"\\u1234",
	"\"\\u+123\"", "\"\\u-123\"", "\"\\u00e9\"", "\"\\u00E9\"", "\"\\ud834\\udd1e\"", "\"\\ud800\"", "\"\\x\"", "\"\\/\"", "\"\\b\\f\\n\\r\\t\"", "\"a\tb\"", "\"a\nb\"",
	"1", "-1", "+1", "01", "1.", ".5", "-.5", "1e5", "1E5", "1e+5", "1e-5", "1e", "1e+", "-", "--1", "1.5e3", "1.0", "-0", "-0.0", "0e0", "1e309", "-1e309", "1e-400",
	"123456789012345678901234567890", "0.1e1", "1.5E-7", "9007199254740993", "4.9e-324", "2.4703282292062327e-324", "2.4703282292062328e-324",
	"1.7976931348623158e308", "1.7976931348623159e308", "0.000000000000000000000000000000000000000000000001e48",
	"  [ 1 , 2 ]  ", "\u{c}1", "\u{b}1", "[1]x", "{\"a\":[1,{\"b\":null}]}", "\u{feff}1", "é", "[é]", "\"é\"", "\"aaaaaaaaaaaaaaé\"x",
	"\"aaaaaaaaaaaaaé\" x", "[\"aaaaaaaaaaaaé\" x", "[\"aaaaaaaaaaaaaaaaaaé\",x", "[\"😊aaaaaaaaaaaaaa\",x", "[\"😊aaaaaaaaaaaaa\",x", "[\"😊aaaaaaaaaaaa\",x", "[\"😊aaaaaaaaaaa\",x",
	"nan", "NaN", "inf", "Infinity", "-inf", "tRue", "t", "f", "n",
	// `\u` escapes at the edges of the code-point classes (controls, DEL/C1, surrogate block, BMP end)
	"\"\\u0000\"", "\"\\u001f\"", "\"\\u0020\"", "\"\\u007e\"", "\"\\u007f\"", "\"\\u0080\"", "\"\\u009f\"", "\"\\u00a0\"", "\"\\ud7ff\"", "\"\\ud800\"", "\"\\uD800\"",
	"\"\\udbff\"", "\"\\udc00\"", "\"\\udfff\"", "\"\\ue000\"", "\"\\ufffe\"", "\"\\uffff\"", "\"\\uFFFF\"", "\"\\u00e9\\u00E9\"", "\"\\ud83d\\ude00\"", "\"\\u10000\"",
];

// ---------------------------------------------------------------------------------------------

fn replay_line(out: &mut Out, line: &str) {
	let t: Vec<&str> = line.split(' ').collect();
	match t.as_slice() {
		["C17s", tr] => match parse_tree(tr) {
			Some(v) => emit_value(out, &v),
			None => out.notes.push(format!("unreadable replay line {line}")),
		},
		["C17p", h] => emit_text(out, &unhex(h), "replay"),
		["C17n", _] => nd::replay_line(out, line),
		_ if ["C17c", "C17h", "C17b", "C17r", "C17i"].contains(&t[0]) => io::replay_line(out, line),
		_ if ["C17t", "C17u", "C17m", "C17x"].contains(&t[0]) => tj::replay_line(out, line),
		_ => out.notes.push(format!("unknown replay line {line}")),
	}
}

pub fn run(args: &Args) {
	quiet_panics();
	let mut out = Out::new(&args.out);
	out.rule = "JSON: corpus, fixed boundary texts, then seeded random JsonValue trees (depth ≤ 8; strings over ASCII, quotes, backslash, C0/DEL/C1 controls, Latin-1, BMP, U+2028/9, non-BMP; finite f64 incl. subnormals, MAX, random bit patterns, powers of ten; near-duplicate keys) through the real stringify/parse_str (streams C17s, C17p), layout/escape/exponent variants and byte mutations of the produced texts (C17p); TileJSON: generated documents through from_object/as_object/update_from_pyramid (C17t, C17u), through the four container writers+readers and through GET /tiles/<id>/tiles.json of the built binary. non-trivial = value needs escaping / non-ASCII / non-integral number / nesting ≥ 2 (values), text accepted or panicking (texts), document with ≥ 2 of {bounds, center, vector_layers, list, byte} (TileJSON); distinct by case text".into();
	if let Some(p) = &args.replay {
		for line in std::fs::read_to_string(p).unwrap().lines() {
			if !line.trim().is_empty() {
				replay_line(&mut out, line.trim());
			}
		}
		out.finish();
		return;
	}
	let mut rng = Rng::new(args.seed);

	// every single character class on its own (cheap, exhaustive over the interesting ranges)
	for cp in (0u32..0x300).chain([0x7ff, 0x800, 0x2028, 0x2029, 0xd7ff, 0xe000, 0xfeff, 0xfffd, 0xfffe, 0xffff, 0x10000, 0x1f60a, 0x10ffff]) {
		if let Some(c) = char::from_u32(cp) {
			emit_value(&mut out, &JsonValue::String(c.to_string()));
		}
	}
	if args.thorough() {
		for cp in (0x300u32..0x110000).step_by(97) {
			if let Some(c) = char::from_u32(cp) {
				emit_value(&mut out, &JsonValue::String(format!("a{c}")));
			}
		}
	}
	// checklist 12/13: shared trap strings and number borders as plain values and texts
	for t in crate::c19_gen::UNICODE_TRAPS {
		emit_value(&mut out, &JsonValue::String(t.to_string()));
		emit_value(&mut out, &JsonValue::Object(JsonObject(BTreeMap::from([(t.to_string(), JsonValue::Array(JsonArray(vec![JsonValue::String(format!("{t}\"{t}\\{t}"))])))]))));
		let mut esc = String::from("\"");
		for c in t.chars().filter(|c| (*c as u32) < 0x10000) {
			esc.push_str(&format!("\\u{:04X}", c as u32));
		}
		esc.push('"');
		emit_text(&mut out, esc.as_bytes(), "trap");
	}
	for n in crate::c19_gen::NUM_BORDERS {
		for t in [n.to_string(), format!("-{n}"), format!("[{n},{n}]"), format!("{{\"k\":{n}}}"), format!("{n}.5"), format!("{n}e0"), format!("{n}E-2")] {
			emit_text(&mut out, t.as_bytes(), "border");
		}
	}
	for t in FIXED_TEXTS {
		emit_text(&mut out, t.as_bytes(), "fixed");
	}
	// lengths around the pre-allocated buffers of the string (32) and number (16) parsers
	for n in [15usize, 16, 17, 31, 32, 33, 63, 64, 65] {
		emit_value(&mut out, &JsonValue::String("s".repeat(n)));
		emit_value(&mut out, &JsonValue::String("é".repeat(n)));
		emit_text(&mut out, format!("1{}", "0".repeat(n - 1)).as_bytes(), "fixed");
		emit_text(&mut out, format!("0.{}1", "0".repeat(n - 3)).as_bytes(), "fixed");
		emit_text(&mut out, format!("1e{}", "0".repeat(n - 3) + "5").as_bytes(), "fixed");
	}
	// deep nesting
	for d in [1usize, 8, 64, 300, 1023, 1024, 1025, 1100] {
		let mut v = JsonValue::Number(1.0);
		for i in 0..d {
			v = if i % 2 == 0 { JsonValue::Array(JsonArray(vec![v])) } else { JsonValue::Object(JsonObject(BTreeMap::from([("k".to_string(), v)]))) };
		}
		emit_value(&mut out, &v);
	}

	// MAX_NESTING_DEPTH = 1024 approached by every OTHER counter that could be confused with the depth: number of
	// siblings / empty arrays / empty objects / closed containers / strings / keys in a FLAT document (depth 1–3), and
	// open-close sequences at one level just below the limit
	for cnt in [1023usize, 1024, 1025, 1100, 3000] {
		let kinds: Vec<(&str, Box<dyn Fn(usize) -> JsonValue>)> = vec![
			("empty-arrays", Box::new(|_| JsonValue::Array(JsonArray(vec![])))),
			("empty-objects", Box::new(|_| JsonValue::Object(JsonObject::default()))),
			("arrays", Box::new(|i| JsonValue::Array(JsonArray(vec![JsonValue::Number(i as f64)])))),
			("objects", Box::new(|i| JsonValue::Object(JsonObject(BTreeMap::from([("k".to_string(), JsonValue::Number(i as f64))]))))),
			("strings", Box::new(|i| JsonValue::String(format!("s{i}")))),
			("mixed", Box::new(|i| match i % 4 {
				0 => JsonValue::Array(JsonArray(vec![])),
				1 => JsonValue::Object(JsonObject::default()),
				2 => JsonValue::Array(JsonArray(vec![JsonValue::Array(JsonArray(vec![]))])),
				_ => JsonValue::Null,
			})),
		];
		for (name, make) in &kinds {
			out.count(&format!("flat_{name}"));
			let items: Vec<JsonValue> = (0..cnt).map(|i| make(i)).collect();
			// as array elements, as object members, and one level further down
			if cnt > 1100 && !["empty-arrays", "mixed"].contains(name) {
				continue;
			}
			emit_value(&mut out, &JsonValue::Array(JsonArray(items.clone())));
			if cnt <= 1025 && ["empty-arrays", "empty-objects", "mixed"].contains(name) {
				let members: BTreeMap<String, JsonValue> = items.iter().enumerate().map(|(i, v)| (format!("k{i:04}"), v.clone())).collect();
				emit_value(&mut out, &JsonValue::Object(JsonObject(members)));
				emit_value(&mut out, &JsonValue::Array(JsonArray(vec![JsonValue::Object(JsonObject(BTreeMap::from([("a".to_string(), JsonValue::Array(JsonArray(items.clone())))])))])));
			}
		}
	}
	// siblings right below the limit: 1022 / 1023 wrappers around a few empty and non-empty containers
	for wrap in [1021usize, 1022, 1023] {
		let mut v = JsonValue::Array(JsonArray(vec![
			JsonValue::Array(JsonArray(vec![])),
			JsonValue::Object(JsonObject::default()),
			JsonValue::Array(JsonArray(vec![])),
			JsonValue::Array(JsonArray(vec![JsonValue::Null])),
			JsonValue::Object(JsonObject::default()),
		]));
		for i in 0..wrap - 1 {
			v = if i % 2 == 0 { JsonValue::Array(JsonArray(vec![v.clone(), JsonValue::Array(JsonArray(vec![])), JsonValue::Null])) } else { JsonValue::Object(JsonObject(BTreeMap::from([("a".to_string(), JsonValue::Object(JsonObject::default())), ("k".to_string(), v)]))) };
		}
		emit_value(&mut out, &v);
	}
	let n = args.n(2500, 40000);
	for i in 0..n {
		let depth = match i % 10 {
			0 => 0,
			1..=3 => 2,
			4..=6 => 4,
			7 | 8 => 6,
			_ => 8,
		};
		let v = gen_value(&mut rng, depth);
		emit_value(&mut out, &v);
		if i % 2 == 0 {
			let mut s = String::new();
			variant_text(&mut rng, &v, &mut s);
			emit_text(&mut out, s.as_bytes(), "variant");
			if i % 4 == 0 {
				let m = mutate(&mut rng, s.as_bytes());
				emit_text(&mut out, &m, "mutated");
				let m2 = mutate(&mut rng, v.stringify().as_bytes());
				emit_text(&mut out, &m2, "mutated");
			}
		}
	}
	// long malformed documents with multi-byte characters straddling ABSOLUTE byte offsets that matter to the
	// code around the parser (ring buffer 16·k, error-context cuts 256/1024, read buffer 4096/8192)
	for &off in &[15usize, 16, 17, 31, 32, 255, 256, 257, 511, 512, 1023, 1024, 1025, 4095, 4096, 4097, 8192] {
		for ch in ["é", "€", "😊"] {
			for back in 0..ch.len() {
				// (the Lean model's string loop is quadratic: beyond 1 KiB only one character and two positions, thorough: all)
				if off > 600 && !args.thorough() && (ch != "€" || back == 1) {
					continue;
				}
				// the character starts `back` bytes before `off`, so that it covers offset `off` (or ends right at it)
				let start = off.saturating_sub(back);
				for (head, tail) in [("[\"", "\", x"), ("{\"k\":\"", "\" 1}"), ("[\"", ""), ("  [1, \"", "\\u12")] {
					if start < head.len() {
						continue;
					}
					let mut t = String::from(head);
					while t.len() < start {
						t.push('a');
					}
					t.push_str(ch);
					t.push_str("bbbbbbbbbbbbbbbbbbbb");
					t.push_str(tail);
					emit_text(&mut out, t.as_bytes(), "offset");
					// and the same text completed to a valid document
					let mut ok = String::from("[\"");
					while ok.len() < start {
						ok.push('a');
					}
					ok.push_str(ch);
					ok.push_str("\"]");
					emit_text(&mut out, ok.as_bytes(), "offset");
				}
			}
		}
	}
	// numbers on their own (lexical law + exact decimal→binary64 of the model)
	for _ in 0..args.n(3000, 60000) {
		let x = gen_f64(&mut rng);
		emit_value(&mut out, &JsonValue::Number(x));
		if rng.chance(1, 3) {
			let s = match rng.below(3) {
				0 => format!("{x:e}"),
				1 => format!("{x:E}"),
				_ => format!("{}e{}", x, rng.range(0, 40) as i64 - 20),
			};
			emit_text(&mut out, s.as_bytes(), "number");
		}
	}

	io::run(args, &mut out, &mut rng);
	nd::run(args, &mut out, &mut rng);
	tj::run(args, &mut out, &mut rng);
	// CHECKLIST.md classes that cannot occur for this property (the others are covered, see the rule text / MANIFEST)
	out.notes.push("checklist 2 (faults after open): n.a. – every reader parses the metadata once in open(); get_tilejson() returns the in-memory document, there is no later I/O to fail (a torn or undecodable metadata blob at open is C12/C19 territory; try_from_blob_or_default then yields the default document)".into());
	out.notes.push("checklist 3 (payload classes): metadata is never empty (the document always has `tilejson`) and is not de-duplicated; covered: lengths 127 B … 64 KiB ±1 (1 MiB in the thorough tier), compressible and incompressible, in all containers".into());
	out.notes.push("checklist 6 (scheduling): the only concurrent code on this path is read_ndjson_stream (buffered, order-preserving) – compared item by item with read_ndjson_iter on every NDJSON input; container metadata is read synchronously".into());
	out.notes.push("checklist 11 (fallbacks): the readers' fallback is the default TileJSON when stored metadata does not parse; every container case demands that a document inside the model comes back with all its keys (never the default) – incl. bounds failing GeoBBox::check, free-layout texts from independent writers, size/boundary families; texts outside the model (BOM, nested unknown fields) are recorded, not judged".into());
	out.notes.push("checklist 12 (Unicode traps): c19_gen::UNICODE_TRAPS as string values, object keys, list items, layer ids / field names / descriptions, as \\uXXXX escapes, through stringify/parse (C17s/C17p), TileJSON (C17t/C17x), containers and tiles.json; multi-byte characters at every alignment of the 16-byte window, 256/1024 cuts and 4096/8192 buffers (offset family); NDJSON blank-line detection with Unicode white space".into());
	out.notes.push("checklist 13 (numbers as text): c19_gen::NUM_BORDERS verbatim as JSON texts (also negated, with fraction / exponent) and in every numeric TileJSON field (minzoom, maxzoom, fillzoom, bounds, center, layer zooms, generic) through parse → model → try_from → as_string → containers → tiles.json".into());
	out.finish();
}
