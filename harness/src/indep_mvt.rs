//! Independent Mapbox-Vector-Tile (2.1) / protobuf encoder and decoder.
//! Written from the MVT 2.1 specification and the protobuf encoding guide, NOT from the
//! versatiles code base: no de-duplication, no re-ordering, tables exactly as encoded.
//! Shared by C11, C10 (and usable by C19 for mutation seeds).
use crate::common::{hex, Rng};
use std::collections::BTreeMap;

#[derive(Clone, Debug, PartialEq)]
pub enum IValue {
	Str(Vec<u8>),
	Float([u8; 4]),
	Double([u8; 8]),
	/// `int_value` (field 4, int64 as two's-complement varint)
	Int(i64),
	/// `uint_value` (field 5)
	UInt(u64),
	/// `sint_value` (field 6, zig-zag)
	SInt(i64),
	Bool(bool),
}

/// semantic value: int64 and sint64 carry the same number
#[derive(Clone, Debug, PartialEq)]
pub enum SValue {
	Str(Vec<u8>),
	Float([u8; 4]),
	Double([u8; 8]),
	Int(i64),
	UInt(u64),
	Bool(bool),
}

impl IValue {
	pub fn sem(&self) -> SValue {
		match self {
			IValue::Str(s) => SValue::Str(s.clone()),
			IValue::Float(b) => SValue::Float(*b),
			IValue::Double(b) => SValue::Double(*b),
			IValue::Int(i) | IValue::SInt(i) => SValue::Int(*i),
			IValue::UInt(u) => SValue::UInt(*u),
			IValue::Bool(b) => SValue::Bool(*b),
		}
	}
}

impl SValue {
	pub fn dump(&self) -> String {
		match self {
			SValue::Str(s) => format!("s{}", hex(s)),
			SValue::Float(b) => format!("f{}", hex(b)),
			SValue::Double(b) => format!("d{}", hex(b)),
			SValue::Int(i) => format!("i{i}"),
			SValue::UInt(u) => format!("u{u}"),
			SValue::Bool(b) => (if *b { "b1" } else { "b0" }).to_string(),
		}
	}
	/// text a consumer would print for this value (decimal numbers, true/false, the string itself)
	pub fn display(&self) -> Vec<u8> {
		match self {
			SValue::Str(s) => s.clone(),
			SValue::Float(b) => f32::from_le_bytes(*b).to_string().into_bytes(),
			SValue::Double(b) => f64::from_le_bytes(*b).to_string().into_bytes(),
			SValue::Int(i) => i.to_string().into_bytes(),
			SValue::UInt(u) => u.to_string().into_bytes(),
			SValue::Bool(b) => b.to_string().into_bytes(),
		}
	}
}

#[derive(Clone, Debug, PartialEq, Default)]
pub struct IFeature {
	pub id: Option<u64>,
	pub tags: Vec<u32>,
	/// `None` = field absent (default UNKNOWN = 0)
	pub gtype: Option<u32>,
	/// packed geometry commands, kept as raw bytes (`None` = field absent)
	pub geom: Option<Vec<u8>>,
}

#[derive(Clone, Debug, PartialEq)]
pub struct ILayer {
	pub name: Vec<u8>,
	pub features: Vec<IFeature>,
	pub keys: Vec<Vec<u8>>,
	pub values: Vec<IValue>,
	/// `None` = field absent (default 4096)
	pub extent: Option<u32>,
	/// `None` = field absent (only legal for the default 1)
	pub version: Option<u32>,
}

#[derive(Clone, Debug, PartialEq, Default)]
pub struct ITile {
	pub layers: Vec<ILayer>,
}

/// how the encoder lays a message out (all variants are valid protobuf)
#[derive(Clone, Copy, Debug)]
pub struct Style {
	/// 0: name, features, keys, values, extent, version   1: version, name, extent, keys, values, features (mapnik-like)
	/// 2: name, keys, values, features, version, extent
	pub layer_order: u8,
	/// write default extent / version explicitly
	pub explicit_defaults: bool,
	/// pad some varints with a redundant continuation byte (non-minimal but valid)
	pub long_varints: bool,
	/// also pad field keys and the tag ids inside the packed field
	pub long_keys: bool,
	/// feature fields as geometry, type, tags, id instead of id, tags, type, geometry
	pub feature_reversed: bool,
}

pub const PLAIN: Style = Style { layer_order: 0, explicit_defaults: false, long_varints: false, long_keys: false, feature_reversed: false };

// ---------------------------------------------------------------- protobuf writer

pub fn put_varint(out: &mut Vec<u8>, mut v: u64) {
	loop {
		let b = (v & 0x7f) as u8;
		v >>= 7;
		if v == 0 {
			out.push(b);
			return;
		}
		out.push(b | 0x80);
	}
}
fn put_varint_long(out: &mut Vec<u8>, v: u64) {
	// one redundant byte: …|0x80, 0x00   (only when it still fits into ten bytes)
	let mut t = vec![];
	put_varint(&mut t, v);
	if t.len() < 10 {
		let n = t.len();
		t[n - 1] |= 0x80;
		t.push(0);
	}
	out.extend(t);
}
pub fn zigzag(v: i64) -> u64 {
	((v as u64) << 1) ^ (if v < 0 { u64::MAX } else { 0 })
}
pub fn unzigzag(v: u64) -> i64 {
	if v & 1 == 0 {
		(v / 2) as i64
	} else {
		-((v / 2) as i128) as i64 - 1
	}
}
fn key(out: &mut Vec<u8>, field: u32, wire: u8) {
	put_varint(out, ((field as u64) << 3) | wire as u64);
}
fn key_st(out: &mut Vec<u8>, field: u32, wire: u8, st: &Style) {
	if st.long_keys {
		put_varint_long(out, ((field as u64) << 3) | wire as u64)
	} else {
		key(out, field, wire)
	}
}
fn put_len(out: &mut Vec<u8>, field: u32, body: &[u8], st: &Style) {
	key_st(out, field, 2, st);
	if st.long_varints {
		put_varint_long(out, body.len() as u64)
	} else {
		put_varint(out, body.len() as u64)
	}
	out.extend_from_slice(body);
}
fn put_uint(out: &mut Vec<u8>, field: u32, v: u64, st: &Style) {
	key_st(out, field, 0, st);
	if st.long_varints {
		put_varint_long(out, v)
	} else {
		put_varint(out, v)
	}
}

pub fn encode_value(v: &IValue, st: &Style) -> Vec<u8> {
	let mut o = vec![];
	match v {
		IValue::Str(s) => put_len(&mut o, 1, s, st),
		IValue::Float(b) => {
			key(&mut o, 2, 5);
			o.extend_from_slice(b)
		}
		IValue::Double(b) => {
			key(&mut o, 3, 1);
			o.extend_from_slice(b)
		}
		IValue::Int(i) => put_uint(&mut o, 4, *i as u64, st),
		IValue::UInt(u) => put_uint(&mut o, 5, *u, st),
		IValue::SInt(i) => put_uint(&mut o, 6, zigzag(*i), st),
		IValue::Bool(b) => put_uint(&mut o, 7, *b as u64, st),
	}
	o
}

pub fn encode_feature(f: &IFeature, st: &Style) -> Vec<u8> {
	let id = |o: &mut Vec<u8>| {
		if let Some(id) = f.id {
			put_uint(o, 1, id, st);
		}
	};
	let tags = |o: &mut Vec<u8>| {
		if !f.tags.is_empty() {
			let mut p = vec![];
			for t in &f.tags {
				if st.long_keys {
					put_varint_long(&mut p, *t as u64)
				} else {
					put_varint(&mut p, *t as u64)
				}
			}
			put_len(o, 2, &p, st);
		}
	};
	let gtype = |o: &mut Vec<u8>| {
		if let Some(t) = f.gtype {
			put_uint(o, 3, t as u64, st);
		}
	};
	let geom = |o: &mut Vec<u8>| {
		if let Some(g) = &f.geom {
			put_len(o, 4, g, st);
		}
	};
	let mut o = vec![];
	if st.feature_reversed {
		geom(&mut o);
		gtype(&mut o);
		tags(&mut o);
		id(&mut o);
	} else {
		id(&mut o);
		tags(&mut o);
		gtype(&mut o);
		geom(&mut o);
	}
	o
}

pub fn encode_layer(l: &ILayer, st: &Style) -> Vec<u8> {
	let mut o = vec![];
	let name = |o: &mut Vec<u8>| put_len(o, 1, &l.name, st);
	let feats = |o: &mut Vec<u8>| {
		for f in &l.features {
			put_len(o, 2, &encode_feature(f, st), st)
		}
	};
	let keys = |o: &mut Vec<u8>| {
		for k in &l.keys {
			put_len(o, 3, k, st)
		}
	};
	let vals = |o: &mut Vec<u8>| {
		for v in &l.values {
			put_len(o, 4, &encode_value(v, st), st)
		}
	};
	let extent = |o: &mut Vec<u8>| match l.extent {
		Some(e) => put_uint(o, 5, e as u64, st),
		None if st.explicit_defaults => put_uint(o, 5, 4096, st),
		None => {}
	};
	let version = |o: &mut Vec<u8>| match l.version {
		Some(v) => put_uint(o, 15, v as u64, st),
		None if st.explicit_defaults => put_uint(o, 15, 1, st),
		None => {}
	};
	match st.layer_order {
		1 => {
			version(&mut o);
			name(&mut o);
			extent(&mut o);
			keys(&mut o);
			vals(&mut o);
			feats(&mut o);
		}
		2 => {
			name(&mut o);
			keys(&mut o);
			vals(&mut o);
			feats(&mut o);
			version(&mut o);
			extent(&mut o);
		}
		_ => {
			name(&mut o);
			feats(&mut o);
			keys(&mut o);
			vals(&mut o);
			extent(&mut o);
			version(&mut o);
		}
	}
	o
}

pub fn encode_tile(t: &ITile, st: &Style) -> Vec<u8> {
	let mut o = vec![];
	for l in &t.layers {
		put_len(&mut o, 3, &encode_layer(l, st), st);
	}
	o
}

// ---------------------------------------------------------------- protobuf reader

pub enum Wire<'a> {
	Varint(u64),
	Fixed64(&'a [u8]),
	Len(&'a [u8]),
	Fixed32(&'a [u8]),
}

pub fn get_varint(b: &[u8], pos: &mut usize) -> Option<u64> {
	let mut v: u64 = 0;
	for i in 0..10 {
		let x = *b.get(*pos)?;
		*pos += 1;
		if i == 9 && x > 1 {
			return None; // would not fit into 64 bits
		}
		v |= ((x & 0x7f) as u64) << (7 * i);
		if x & 0x80 == 0 {
			return Some(v);
		}
	}
	None
}

/// generic protobuf field iterator; `None` on malformed input
pub fn fields(b: &[u8]) -> Option<Vec<(u32, Wire<'_>)>> {
	let mut pos = 0;
	let mut out = vec![];
	while pos < b.len() {
		let k = get_varint(b, &mut pos)?;
		let field = u32::try_from(k >> 3).ok()?;
		let w = match k & 7 {
			0 => Wire::Varint(get_varint(b, &mut pos)?),
			1 => {
				let s = b.get(pos..pos.checked_add(8)?)?;
				pos += 8;
				Wire::Fixed64(s)
			}
			2 => {
				let n = usize::try_from(get_varint(b, &mut pos)?).ok()?;
				let s = b.get(pos..pos.checked_add(n)?)?;
				pos += n;
				Wire::Len(s)
			}
			5 => {
				let s = b.get(pos..pos.checked_add(4)?)?;
				pos += 4;
				Wire::Fixed32(s)
			}
			_ => return None,
		};
		out.push((field, w));
	}
	Some(out)
}

pub fn decode_value(b: &[u8]) -> Option<IValue> {
	let mut v = None;
	for (f, w) in fields(b)? {
		v = Some(match (f, w) {
			(1, Wire::Len(s)) => {
				std::str::from_utf8(s).ok()?;
				IValue::Str(s.to_vec())
			}
			(2, Wire::Fixed32(s)) => IValue::Float(s.try_into().ok()?),
			(3, Wire::Fixed64(s)) => IValue::Double(s.try_into().ok()?),
			(4, Wire::Varint(x)) => IValue::Int(x as i64),
			(5, Wire::Varint(x)) => IValue::UInt(x),
			(6, Wire::Varint(x)) => IValue::SInt(unzigzag(x)),
			(7, Wire::Varint(x)) => IValue::Bool(x != 0),
			_ => return None,
		});
	}
	v
}

pub fn decode_feature(b: &[u8]) -> Option<IFeature> {
	let mut f = IFeature::default();
	for (n, w) in fields(b)? {
		match (n, w) {
			(1, Wire::Varint(x)) => f.id = Some(x),
			(2, Wire::Len(s)) => {
				let mut pos = 0;
				let mut tags = vec![];
				while pos < s.len() {
					tags.push(u32::try_from(get_varint(s, &mut pos)?).ok()?);
				}
				f.tags = tags;
			}
			(3, Wire::Varint(x)) => f.gtype = Some(u32::try_from(x).ok()?),
			(4, Wire::Len(s)) => f.geom = Some(s.to_vec()),
			_ => return None,
		}
	}
	Some(f)
}

pub fn decode_layer(b: &[u8]) -> Option<ILayer> {
	let mut l = ILayer { name: vec![], features: vec![], keys: vec![], values: vec![], extent: None, version: None };
	let mut named = false;
	for (n, w) in fields(b)? {
		match (n, w) {
			(1, Wire::Len(s)) => {
				std::str::from_utf8(s).ok()?;
				l.name = s.to_vec();
				named = true;
			}
			(2, Wire::Len(s)) => l.features.push(decode_feature(s)?),
			(3, Wire::Len(s)) => {
				std::str::from_utf8(s).ok()?;
				l.keys.push(s.to_vec())
			}
			(4, Wire::Len(s)) => l.values.push(decode_value(s)?),
			(5, Wire::Varint(x)) => l.extent = Some(u32::try_from(x).ok()?),
			(15, Wire::Varint(x)) => l.version = Some(u32::try_from(x).ok()?),
			_ => return None,
		}
	}
	if named {
		Some(l)
	} else {
		None
	}
}

pub fn decode_tile(b: &[u8]) -> Option<ITile> {
	let mut t = ITile::default();
	for (n, w) in fields(b)? {
		match (n, w) {
			(3, Wire::Len(s)) => t.layers.push(decode_layer(s)?),
			_ => return None,
		}
	}
	Some(t)
}

// ---------------------------------------------------------------- semantic content

#[derive(Clone, Debug, PartialEq)]
pub struct SFeature {
	pub id: Option<u64>,
	pub gtype: u32,
	pub geom: Vec<u8>,
	/// `None`: a tag refers to a missing table entry / odd number of tags (not a valid tile)
	pub props: Option<BTreeMap<Vec<u8>, SValue>>,
	/// two tags of the feature resolve to the same key string
	pub dup_key: bool,
}
#[derive(Clone, Debug, PartialEq)]
pub struct SLayer {
	pub name: Vec<u8>,
	pub extent: u32,
	pub version: u32,
	pub feats: Vec<SFeature>,
}

pub fn sem_layer(l: &ILayer) -> SLayer {
	SLayer {
		name: l.name.clone(),
		extent: l.extent.unwrap_or(4096),
		version: l.version.unwrap_or(1),
		feats: l
			.features
			.iter()
			.map(|f| {
				let mut dup = false;
				let props = if f.tags.len() % 2 != 0 {
					None
				} else {
					let mut m = BTreeMap::new();
					let mut ok = true;
					for p in f.tags.chunks(2) {
						match (l.keys.get(p[0] as usize), l.values.get(p[1] as usize)) {
							(Some(k), Some(v)) => {
								if m.insert(k.clone(), v.sem()).is_some() {
									dup = true;
								}
							}
							_ => ok = false,
						}
					}
					if ok {
						Some(m)
					} else {
						None
					}
				};
				SFeature { id: f.id, gtype: f.gtype.unwrap_or(0), geom: f.geom.clone().unwrap_or_default(), props, dup_key: dup }
			})
			.collect(),
	}
}

pub fn sem_tile(t: &ITile) -> Vec<SLayer> {
	t.layers.iter().map(sem_layer).collect()
}

pub fn dump_props(p: &Option<BTreeMap<Vec<u8>, SValue>>) -> String {
	match p {
		None => "!".into(),
		Some(m) if m.is_empty() => "-".into(),
		Some(m) => m.iter().map(|(k, v)| format!("{}={}", hex(k), v.dump())).collect::<Vec<_>>().join("&"),
	}
}
pub fn dump_feature(f: &SFeature) -> String {
	format!("{},{},{},{}", f.id.map_or("-".to_string(), |i| i.to_string()), f.gtype, hex(&f.geom), dump_props(&f.props))
}
pub fn dump_layer(l: &SLayer) -> String {
	format!(
		"{}:{}:{}:{}",
		hex(&l.name),
		l.extent,
		l.version,
		if l.feats.is_empty() { ".".to_string() } else { l.feats.iter().map(dump_feature).collect::<Vec<_>>().join("/") }
	)
}
pub fn dump_layers(ls: &[SLayer]) -> String {
	if ls.is_empty() {
		"empty".into()
	} else {
		ls.iter().map(dump_layer).collect::<Vec<_>>().join("|")
	}
}
/// decode bytes with the independent decoder and dump the semantic content (`undecodable` if malformed)
pub fn dump_bytes(b: &[u8], sort: bool) -> String {
	match decode_tile(b) {
		None => "undecodable".into(),
		Some(t) => {
			let mut s = sem_tile(&t);
			if sort {
				s.sort_by(|a, b| a.name.cmp(&b.name));
			}
			dump_layers(&s)
		}
	}
}

// ---------------------------------------------------------------- generator

pub struct GenOpts {
	/// layer names to draw from
	pub names: Vec<Vec<u8>>,
	/// key strings to draw from (the id field first)
	pub keys: Vec<Vec<u8>>,
	/// values the id field takes
	pub id_values: Vec<IValue>,
	pub max_layers: u64,
	pub max_features: u64,
	/// allow tables with duplicates / unused entries / int64+sint64 twins
	pub messy_tables: bool,
	/// allow NaN payloads
	pub nan: bool,
}

const STRS: &[&str] = &["", "a", "b", "abc", "Berlin", "straße", "日本", "x y", "0", "12", "-3", "true", "1.5", "a,b", "q\"q", "🙂"];

pub fn gen_value(rng: &mut Rng, nan: bool) -> IValue {
	match rng.below(14) {
		0..=3 => IValue::Str(rng.pick(STRS).as_bytes().to_vec()),
		4 => IValue::Float((*rng.pick(&[0.5f32, 1.0, -2.25, 1e10, 3.0])).to_le_bytes()),
		5 => IValue::Double((*rng.pick(&[0.5f64, 1.0, -2.25, 1e300, 3.0, 0.1])).to_le_bytes()),
		6 => IValue::Int(*rng.pick(&[0i64, 1, -1, 5, 12, -3, i64::MAX, i64::MIN, 1 << 62, -(1 << 62), (1 << 62) - 1, -(1 << 62) - 1, 1 << 31])),
		7 => IValue::SInt(*rng.pick(&[0i64, 1, -1, 5, 12, -3, i64::MAX, i64::MIN, 1 << 62, -(1 << 62), (1 << 62) - 1, -(1 << 62) - 1, -(1 << 40)])),
		8 => IValue::UInt(*rng.pick(&[0u64, 1, 5, 12, 127, 128, 300, u64::MAX, 1 << 63, 1 << 32])),
		9 => IValue::Bool(rng.chance(1, 2)),
		10 => IValue::UInt(rng.below(20)),
		11 => IValue::SInt(rng.below(20) as i64 - 10),
		// bit patterns that `==` on floats cannot tell apart or never equates: ±0, NaN payloads, infinities, subnormals
		11 | 12 | 13 if nan => {
			if rng.chance(1, 2) {
				IValue::Float((*rng.pick(&[0x0000_0000u32, 0x8000_0000, 0x7fc0_0000, 0xffc0_0001, 0x7f80_0001, 0x7f80_0000, 0xff80_0000, 0x0000_0001, 0x8000_0001])).to_le_bytes())
			} else {
				IValue::Double((*rng.pick(&[0u64, 1 << 63, 0x7ff8_0000_0000_0000, 0xfff8_0000_0000_0001, 0x7ff0_0000_0000_0001, 0x7ff0_0000_0000_0000, 0xfff0_0000_0000_0000, 1, (1 << 63) | 1])).to_le_bytes())
			}
		}
		_ => IValue::Str(format!("v{}", rng.below(6)).into_bytes()),
	}
}

fn gen_geom(rng: &mut Rng) -> Option<Vec<u8>> {
	match rng.below(8) {
		0 => None,
		1 => Some(vec![]),
		2 => {
			let n = rng.range(1, 12) as usize;
			Some(rng.bytes(n))
		} // arbitrary bytes: geometry is opaque to the operations
		_ => {
			// MoveTo(1) x y [LineTo(n) …] [ClosePath]
			let mut g = vec![];
			put_varint(&mut g, 9);
			put_varint(&mut g, zigzag(rng.below(4096) as i64));
			put_varint(&mut g, zigzag(rng.below(4096) as i64 - 100));
			let n = rng.below(4);
			if n > 0 {
				put_varint(&mut g, (n << 3) | 2);
				for _ in 0..n * 2 {
					put_varint(&mut g, zigzag(rng.below(2000) as i64 - 1000));
				}
				if rng.chance(1, 2) {
					put_varint(&mut g, 15);
				}
			}
			Some(g)
		}
	}
}

/// One layer.  Every feature uses pairwise different key *strings* (MVT 2.1 §4.4 requires unique keys per
/// feature) but may reach them through either copy of a duplicated table entry.
pub fn gen_layer(rng: &mut Rng, o: &GenOpts, name: Vec<u8>) -> ILayer {
	let messy = o.messy_tables && rng.chance(2, 3);
	// key table
	let mut keys: Vec<Vec<u8>> = vec![];
	let nk = rng.range(0, o.keys.len() as u64);
	for i in 0..nk {
		keys.push(o.keys[i as usize].clone());
	}
	if messy {
		for _ in 0..rng.below(3) {
			if !keys.is_empty() {
				let k = rng.pick(&keys).clone(); // duplicate entry
				let at = rng.below(keys.len() as u64 + 1) as usize;
				keys.insert(at, k);
			}
		}
		if rng.chance(1, 3) {
			keys.insert(rng.below(keys.len() as u64 + 1) as usize, b"unused_key".to_vec());
		}
	}
	// value table
	let mut values: Vec<IValue> = vec![];
	for _ in 0..rng.range(0, 8) {
		values.push(if !o.id_values.is_empty() && rng.chance(1, 3) { rng.pick(&o.id_values).clone() } else { gen_value(rng, o.nan) });
	}
	if !messy {
		// a tidy encoder: no duplicates (by semantic value)
		let mut seen: Vec<SValue> = vec![];
		values.retain(|v| {
			if seen.contains(&v.sem()) {
				false
			} else {
				seen.push(v.sem());
				true
			}
		});
	} else {
		for _ in 0..rng.below(3) {
			if !values.is_empty() {
				let v = rng.pick(&values).clone();
				// exact duplicate, or the int64/sint64 twin of an integer
				let v = match v {
					IValue::Int(i) if rng.chance(1, 2) => IValue::SInt(i),
					IValue::SInt(i) if rng.chance(1, 2) => IValue::Int(i),
					v => v,
				};
				let at = rng.below(values.len() as u64 + 1) as usize;
				values.insert(at, v);
			}
		}
	}
	if o.nan && rng.chance(1, 2) {
		// both zeros of one float type in the same table (equal under `==`, different bits)
		if rng.chance(1, 2) {
			values.push(IValue::Float(0.0f32.to_le_bytes()));
			values.push(IValue::Float((-0.0f32).to_le_bytes()));
		} else {
			values.push(IValue::Double((-0.0f64).to_le_bytes()));
			values.push(IValue::Double(0.0f64.to_le_bytes()));
		}
	}
	let mut features = vec![];
	let nf = if rng.chance(1, 8) { 0 } else { rng.range(1, o.max_features) };
	for _ in 0..nf {
		let mut tags = vec![];
		if !keys.is_empty() && !values.is_empty() {
			let mut used: Vec<Vec<u8>> = vec![];
			for _ in 0..rng.below(5) {
				let ki = rng.below(keys.len() as u64) as usize;
				if used.contains(&keys[ki]) {
					continue;
				}
				used.push(keys[ki].clone());
				let idlike = keys[ki] == o.keys[0] || (!keys[ki].is_empty() && keys[ki].len() <= o.keys[0].len() + 1 && keys[ki].to_ascii_lowercase().starts_with(&o.keys[0].to_ascii_lowercase()[..1]));
				let vi = if idlike && !o.id_values.is_empty() && rng.chance(3, 4) {
					// the id field: prefer an id value if the table holds one
					let want = rng.pick(&o.id_values).sem();
					values.iter().position(|v| v.sem() == want).unwrap_or(rng.below(values.len() as u64) as usize)
				} else {
					rng.below(values.len() as u64) as usize
				};
				tags.push(ki as u32);
				tags.push(vi as u32);
			}
		}
		features.push(IFeature {
			id: match rng.below(6) {
				0 => None,
				1 => Some(u64::MAX),
				2 => Some(0),
				3 => Some(1 << 63),
				_ => Some(rng.below(1000)),
			},
			tags,
			gtype: match rng.below(6) {
				0 => None,
				1 => Some(0),
				n => Some((n % 3 + 1) as u32),
			},
			geom: gen_geom(rng),
		});
	}
	ILayer {
		name,
		features,
		keys,
		values,
		extent: match rng.below(5) {
			0 => Some(512),
			1 => Some(*rng.pick(&[0u32, 1, 256, 4095, 4096, 4097, 8192, u32::MAX - 1, u32::MAX])),
			_ => None,
		},
		version: match rng.below(4) {
			0 => Some(2),
			1 => Some(*rng.pick(&[0u32, 1, 2, 3, u32::MAX])),
			_ => None,
		},
	}
}

pub fn gen_tile(rng: &mut Rng, o: &GenOpts, unique_names: bool) -> ITile {
	let n = rng.range(0, o.max_layers);
	let mut layers = vec![];
	let mut used: Vec<Vec<u8>> = vec![];
	for _ in 0..n {
		let name = rng.pick(&o.names).clone();
		if unique_names && used.contains(&name) {
			continue;
		}
		used.push(name.clone());
		layers.push(gen_layer(rng, o, name));
	}
	ITile { layers }
}

pub fn gen_style(rng: &mut Rng) -> Style {
	Style { layer_order: rng.below(3) as u8, explicit_defaults: rng.chance(1, 4), long_varints: rng.chance(1, 8), long_keys: rng.chance(1, 10), feature_reversed: rng.chance(1, 4) }
}

// ---------------------------------------------------------------- threshold sweeps (sizes at varint-width borders)

/// layer whose name, one key, one string value and one geometry have exactly `len` bytes
pub fn sized_strings_layer(len: usize) -> ILayer {
	let s = |c: u8| vec![c; len];
	ILayer {
		name: s(b'n'),
		features: vec![IFeature { id: Some(len as u64), tags: vec![0, 0, 1, 1], gtype: Some(1), geom: Some(s(9)) }],
		keys: vec![s(b'k'), b"id".to_vec()],
		values: vec![IValue::Str(s(b'v')), IValue::UInt(len as u64)],
		extent: None,
		version: None,
	}
}

/// layer `name` with `n` keys `k<i>`, `n` values `UInt(i)` and `n` features (feature i: one pair (i, i));
/// one more feature carries `pairs` tag pairs using the highest table indices
pub fn sized_tables_layer(name: &str, n: usize, pairs: usize) -> ILayer {
	let mut features: Vec<IFeature> = (0..n).map(|i| IFeature { id: Some(i as u64), tags: vec![i as u32, i as u32], gtype: Some(1), geom: Some(vec![9, 2, 2]) }).collect();
	let pairs = pairs.min(n);
	if pairs > 0 {
		let tags: Vec<u32> = (n - pairs..n).flat_map(|i| [i as u32, (n - 1 - (i - (n - pairs))) as u32]).collect();
		features.push(IFeature { id: None, tags, gtype: Some(3), geom: None });
	}
	ILayer {
		name: name.as_bytes().to_vec(),
		features,
		keys: (0..n).map(|i| format!("k{i}").into_bytes()).collect(),
		values: (0..n).map(|i| IValue::UInt(i as u64)).collect(),
		extent: None,
		version: None,
	}
}
