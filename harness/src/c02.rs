//! C02 – bounding-box tile stream = single-tile lookups inside the box.
//!
//! Part A: one random tile set per world, served in memory and written with the REAL writers to
//! versatiles / pmtiles / mbtiles / tar / directory and re-opened with the REAL readers; every box
//! at zoom ≤ 2 (≤ 3 for the dense world), sampled boxes across block (255/256) and coverage
//! borders up to zoom 31, all empty encodings, levels without tiles; additionally the same readers
//! wrapped in `TilesConvertReader` with all four flip/swap pairs (oracle only).
//! Part B: 2–4 sources (mixed kinds / compressions) under generated pipelines built through
//! `PipelineFactory` (filter_zoom, filter_bbox, from_overlayed, from_vectortiles_merged,
//! vectortiles_update_properties; depth ≤ 3 quick / ≤ 5 thorough).
//! Oracle: real stream (collected under catch_unwind on a multi-thread runtime) vs real lookups.
//! Model: the same sources / pipeline / boxes through `vtdriver` (PipeProto.lean).
use crate::common::*;
use crate::tsrc::*;
use std::collections::BTreeMap;
use versatiles_core::types::TileBBox;

pub const RULE: &str = "random tile sets (1-4 zoom levels incl. gaps and levels >= 15, clusters straddling 256-block borders, sparse fill, duplicate and > 32 KiB payloads) served from memory and from versatiles/pmtiles/mbtiles/tar/directory containers written and re-opened with the real code, alone, inside TilesConvertReader (4 flag pairs) and inside generated pipelines; boxes: exhaustive at zoom <= 2 (<= 3 for the dense world), sampled around tiles/block borders/coverage borders up to zoom 31, three empty encodings per level, levels without tiles. non-trivial = box partially overlaps the advertised coverage or crosses a 256-block border";

pub fn pick_fmt_comp(rng: &mut Rng) -> (u32, u32) {
	match rng.below(20) {
		0..=7 => (1, 1),   // pbf gzip (mbtiles-capable)
		8..=11 => (2, 0),  // png uncompressed (mbtiles-capable)
		12..=15 => (1, 2), // pbf brotli
		_ => (1, 0),       // pbf uncompressed
	}
}

pub fn mbtiles_ok(fmt: u32, comp: u32) -> bool {
	(fmt == 1 && comp == 1) || (fmt >= 2 && fmt <= 4 && comp == 0)
}

/// levels to ask about: every level with tiles plus two levels without
fn ask_levels(rng: &mut Rng, specs: &[SrcSpec]) -> BTreeMap<u8, Vec<(u32, u32)>> {
	let mut m = levels_of(specs);
	let zmax = *m.keys().max().unwrap_or(&0);
	if zmax < 31 {
		m.entry(zmax + 1).or_default();
	}
	let z = rng.range(0, 31) as u8;
	m.entry(z).or_default();
	m
}

pub fn geo_arg(rng: &mut Rng, levels: &BTreeMap<u8, Vec<(u32, u32)>>) -> String {
	let g: [f64; 4] = match rng.below(10) {
		0 => [-180.0, -90.0, 180.0, 90.0],
		1 => {
			let x = rng.range(0, 3600) as f64 / 10.0 - 180.0;
			let y = rng.range(0, 1700) as f64 / 10.0 - 85.0;
			[x, y, x, y]
		}
		2 | 3 => {
			let x0 = rng.range(0, 3600) as f64 / 10.0 - 180.0;
			let y0 = rng.range(0, 1800) as f64 / 10.0 - 90.0;
			let x1 = (x0 + rng.range(0, 900) as f64 / 10.0).min(180.0);
			let y1 = (y0 + rng.range(0, 600) as f64 / 10.0).min(90.0);
			[x0, y0, x1, y1]
		}
		_ => {
			// a tile box around present tiles, mapped to geographic coordinates (edges lie exactly on tile borders)
			let zs: Vec<u8> = levels.iter().filter(|(_, v)| !v.is_empty()).map(|(z, _)| *z).collect();
			if zs.is_empty() {
				[-10.0, -10.0, 10.0, 10.0]
			} else {
				let z = *rng.pick(&zs);
				let v = &levels[&z];
				let (x, y) = *rng.pick(v);
				let max = ((1u64 << z) - 1) as u32;
				let x0 = x.saturating_sub(rng.range(0, 2) as u32);
				let y0 = y.saturating_sub(rng.range(0, 2) as u32);
				let x1 = (x + rng.range(0, 3) as u32).min(max);
				let y1 = (y + rng.range(0, 3) as u32).min(max);
				let gb = TileBBox::new(z, x0, y0, x1, y1).unwrap().as_geo_bbox();
				let mut g = [gb.0, gb.1, gb.2, gb.3];
				if rng.chance(1, 3) {
					// nudge an edge off the tile border
					let i = rng.below(4) as usize;
					g[i] += (rng.range(0, 20) as f64 - 10.0) * 1e-7;
					g[0] = g[0].max(-180.0);
					g[2] = g[2].min(180.0);
					g[1] = g[1].max(-90.0);
					g[3] = g[3].min(90.0);
					if g[0] > g[2] {
						g[2] = g[0]
					}
					if g[1] > g[3] {
						g[3] = g[1]
					}
				}
				g
			}
		}
	};
	format!("B{}:{}:{}:{}", g[0].to_bits(), g[1].to_bits(), g[2].to_bits(), g[3].to_bits())
}

pub fn zoom_arg(rng: &mut Rng, levels: &BTreeMap<u8, Vec<(u32, u32)>>) -> String {
	let zs: Vec<u8> = levels.keys().copied().collect();
	let one = |rng: &mut Rng| -> String {
		if rng.chance(1, 4) {
			"n".to_string()
		} else if !zs.is_empty() && rng.chance(3, 4) {
			((*rng.pick(&zs) as i64 + rng.range(0, 2) as i64 - 1).clamp(0, 40)).to_string()
		} else {
			rng.range(0, 33).to_string()
		}
	};
	let a = one(rng);
	let b = one(rng);
	format!("Z{a}:{b}")
}

/// random pipeline in reverse polish notation
pub fn gen_pipe(rng: &mut Rng, depth: u32, nsrc: usize, levels: &BTreeMap<u8, Vec<(u32, u32)>>) -> String {
	if depth == 0 || rng.chance(1, 5) {
		// every 8th leaf is a from_debug source (vector tiles for every coordinate of the pyramid)
		if rng.chance(1, 8) {
			return if rng.chance(1, 2) { "D1".to_string() } else { "D1f".to_string() };
		}
		return format!("L{}", rng.below(nsrc as u64));
	}
	match rng.below(10) {
		0..=2 => format!("{},{}", gen_pipe(rng, depth - 1, nsrc, levels), zoom_arg(rng, levels)),
		3..=4 => format!("{},{}", gen_pipe(rng, depth - 1, nsrc, levels), geo_arg(rng, levels)),
		5..=7 => {
			let k = rng.range(2, 4) as usize;
			let ps: Vec<String> = (0..k).map(|_| gen_pipe(rng, depth - 1, nsrc, levels)).collect();
			format!("{},O{k}", ps.join(","))
		}
		8 => {
			let k = rng.range(2, 3) as usize;
			let ps: Vec<String> = (0..k).map(|_| gen_pipe(rng, depth - 1, nsrc, levels)).collect();
			format!("{},M{k}", ps.join(","))
		}
		_ => format!("{},U", gen_pipe(rng, depth - 1, nsrc, levels)),
	}
}

/// 2–4 PBF sources over a common pool of coordinates: partially overlapping subsets, different
/// zoom ranges, mixed compressions and container kinds
pub fn gen_sources(rng: &mut Rng, next: &mut u64, kmin: u64, kmax: u64, max_tiles: usize) -> Vec<SrcSpec> {
	let pool = gen_coords(rng, max_tiles, true);
	let k = rng.range(kmin, kmax) as usize;
	let levels: Vec<u8> = {
		let mut l: Vec<u8> = pool.iter().map(|k| k.0).collect();
		l.dedup();
		l
	};
	let mut v = vec![];
	for _ in 0..k {
		let comp = rng.below(3) as u32;
		let mut kinds = vec!["mem", "mem", "mem", "versatiles", "versatiles", "vtx", "vtx", "pmtiles", "tar", "dir"];
		if comp == 1 {
			kinds.push("mbtiles");
			kinds.push("mbtiles");
		}
		let mut kind = rng.pick(&kinds).to_string();
		// every 8th source answers its lookups out of order (default stream on top)
		if rng.chance(1, 8) && (kind == "mem" || kind == "pmtiles" || kind == "tar") {
			kind += "^";
		} else
		// every 6th source sits behind a TilesConvertReader (flip / swap), so that pipelines are stacked on converters
		if rng.chance(1, 6) {
			kind += *rng.pick(&["~10", "~01", "~11", "~00"]);
		}
		let p = rng.range(3, 9);
		let drop_level = if levels.len() > 1 && rng.chance(1, 3) { Some(*rng.pick(&levels)) } else { None };
		let mut coords: Vec<Key> = pool.iter().filter(|k| Some(k.0) != drop_level && rng.chance(p, 10)).copied().collect();
		if coords.is_empty() {
			coords.push(pool[0]);
		}
		// a private tile next to the pool
		if rng.chance(1, 2) {
			let (z, x, y) = *rng.pick(&pool);
			let max = ((1u64 << z) - 1) as u32;
			coords.push((z, (x + 1).min(max), y));
		}
		let style = pick_style_vt(rng);
		let mut spec = SrcSpec { fmt: 1, comp, kind, tiles: assign_ids_style(rng, &coords, next, style), fail: vec![] };
		// a large, highly repetitive tile (brotli ratio far above 1032:1) – mostly in brotli sources
		if (comp == 2 && rng.chance(2, 3)) || rng.chance(1, 12) {
			let k = *rng.pick(&spec.tiles.keys().copied().collect::<Vec<_>>());
			spec.tiles.insert(k, next_id_where(next, repetitive));
		}
		if base_kind(&spec.kind) == "mbtiles" {
			// the mbtiles reader cannot open zoom gaps (separate defect, not C02's): keep one level
			let z0 = spec.tiles.keys().next().unwrap().0;
			spec.tiles.retain(|k, _| k.0 == z0);
		}
		v.push(spec);
	}
	v
}

/// 3-5 sources whose coverages inside ONE 32x32 sub-box (an 8x8 region at zoom 5) are rectangles, L-shapes, frames,
/// checkerboards, nested boxes, single rows / columns – overlapping in part
pub fn shape_sources(rng: &mut Rng, next: &mut u64) -> Vec<SrcSpec> {
	let k = rng.range(3, 5) as usize;
	let (ox, oy) = (8u32 * rng.below(4) as u32, 8u32 * rng.below(4) as u32);
	let mut v = vec![];
	for i in 0..k {
		let shape = rng.below(7);
		let (a, b) = (rng.range(1, 6) as u32, rng.range(1, 6) as u32);
		let mut coords: Vec<Key> = vec![];
		for y in 0..8u32 {
			for x in 0..8u32 {
				let inside = match shape {
					0 => x < a + 2 && y < b + 2,                                                  // rectangle at the corner
					1 => (x < a && y < 8) || (y < b && x < 8),                                     // L-shape
					2 => x == 0 || y == 0 || x == 7 || y == 7,                                     // frame
					3 => (x + y) % 2 == (i as u32) % 2,                                            // checkerboard
					4 => x >= a.min(3) && x <= 7 - a.min(3) && y >= b.min(3) && y <= 7 - b.min(3), // nested box
					5 => y == b,                                                                   // one row
					_ => x == a || (x > a && y > b),                                               // column plus far corner
				};
				if inside {
					coords.push((5u8, ox + x, oy + y));
				}
			}
		}
		if coords.is_empty() {
			coords.push((5, ox, oy));
		}
		let kind = *rng.pick(&["mem", "mem", "versatiles", "pmtiles", "mem^"]);
		v.push(SrcSpec { fmt: 1, comp: rng.below(3) as u32, kind: kind.to_string(), tiles: assign_ids_style(rng, &coords, next, 0), fail: vec![] });
	}
	v
}

/// the region boxes for `shape_sources`
pub fn shape_boxes(specs: &[SrcSpec]) -> Vec<TileBBox> {
	let xs: Vec<u32> = specs.iter().flat_map(|s| s.tiles.keys().map(|k| k.1)).collect();
	let ys: Vec<u32> = specs.iter().flat_map(|s| s.tiles.keys().map(|k| k.2)).collect();
	let (x0, y0) = ((*xs.iter().min().unwrap() / 8) * 8, (*ys.iter().min().unwrap() / 8) * 8);
	vec![
		TileBBox::new(5, x0, y0, x0 + 7, y0 + 7).unwrap(),
		TileBBox::new(5, 0, 0, 31, 31).unwrap(),
		TileBBox::new(5, x0 + 1, y0, x0 + 7, y0 + 6).unwrap(),
		TileBBox::new(5, x0, y0 + 2, x0 + 5, y0 + 7).unwrap(),
		TileBBox::new(5, x0 + 3, y0 + 3, x0 + 4, y0 + 4).unwrap(),
	]
}

/// every rotation and a few random permutations of `0..k` as overlay orders
pub fn overlay_orders(rng: &mut Rng, k: usize, extra: usize) -> Vec<Vec<usize>> {
	let mut v: Vec<Vec<usize>> = (0..k).map(|r| (0..k).map(|i| (i + r) % k).collect()).collect();
	v.push((0..k).rev().collect());
	for _ in 0..extra {
		let mut p: Vec<usize> = (0..k).collect();
		for i in (1..k).rev() {
			let j = rng.below(i as u64 + 1) as usize;
			p.swap(i, j);
		}
		v.push(p);
	}
	v.sort();
	v.dedup();
	v
}

pub fn coords_arg(rng: &mut Rng, specs: &[SrcSpec], extra: usize) -> String {
	let mut v: Vec<(u32, u32, u8)> = vec![];
	for s in specs {
		for (z, x, y) in s.tiles.keys() {
			v.push((*x, *y, *z));
			if rng.chance(1, 3) {
				let max = ((1u64 << z) - 1) as u32;
				v.push(((*x + 1).min(max), *y, *z));
			}
		}
	}
	for _ in 0..extra {
		let z = rng.range(0, 31) as u8;
		let size = 1u64 << z;
		v.push((rng.below(size) as u32, rng.below(size) as u32, z));
	}
	v.sort();
	v.dedup();
	v.iter().map(|(x, y, z)| format!("{x},{y},{z}")).collect::<Vec<_>>().join(";")
}


/// from_vectortiles_merged over sources whose tiles carry DIFFERENT layer names: repeated lookups
/// and the stream must deliver identical bytes (merge_tiles collects the layers in a HashMap).
fn probe_merge_layers(rt: &tokio::runtime::Runtime, out: &mut Out, rng: &mut Rng) {
	use crate::memsrc::MemSource;
	use futures::future::BoxFuture;
	use std::sync::Arc;
	use versatiles_core::types::*;
	use versatiles_pipeline::PipelineFactory;
	let n_layers = rng.range(2, 5) as usize;
	let c = TileCoord3::new(1, 1, 2).unwrap();
	let srcs: Vec<MemSource> = (0..n_layers)
		.map(|i| MemSource::new(&format!("s{i}"), TileFormat::PBF, TileCompression::Uncompressed, vec![(c, make_vt(&[i as u64 + 1], &format!("layer{i}")))]))
		.collect();
	let srcs = Arc::new(srcs);
	let s2 = srcs.clone();
	let cb = Box::new(move |filename: String| -> BoxFuture<'static, anyhow::Result<Box<dyn TilesReaderTrait>>> {
		let s2 = s2.clone();
		Box::pin(async move {
			let base = std::path::Path::new(&filename).file_name().unwrap().to_str().unwrap().to_string();
			let i: usize = base.trim_start_matches('s').parse()?;
			Ok(Box::new(s2[i].clone()) as Box<dyn TilesReaderTrait>)
		})
	});
	let f = PipelineFactory::default(std::path::Path::new(""), cb);
	let vpl = format!("from_vectortiles_merged [ {} ]", (0..n_layers).map(|i| format!("from_container filename=\"s{i}\"")).collect::<Vec<_>>().join(", "));
	let r = catch(|| {
		rt.block_on(async {
			let op = f.operation_from_vpl(&vpl).await?;
			let mut blobs: Vec<Vec<u8>> = vec![];
			for _ in 0..6 {
				blobs.push(op.get_tile_data(&c).await?.map(|b| b.into_vec()).unwrap_or_default());
			}
			let st = op.get_tile_stream(TileBBox::new(2, 0, 0, 3, 3)?).await.collect().await;
			for (_, b) in st {
				blobs.push(b.into_vec());
			}
			Ok::<Vec<Vec<u8>>, anyhow::Error>(blobs)
		})
	});
	out.eval(&format!("merge-layers {n_layers} {}", rng.next()), true);
	out.count("probe_merge_layers");
	match r {
		Ok(Ok(blobs)) => {
			let same = blobs.iter().all(|b| *b == blobs[0]) && blobs.len() == 7;
			out.oracle(
				same,
				"C02 merged tile with several layer names: repeated lookups / the stream deliver different bytes for the same tile",
				serde_json::json!({"kind": "merge_layer_order_nondeterministic"}),
				serde_json::json!({"vpl": vpl, "layers": n_layers, "case": "probe"}),
			);
		}
		_ => out.oracle(false, "C02 merged multi-layer probe failed to run", serde_json::json!({"kind": "probe_failed"}), serde_json::json!({"vpl": vpl})),
	}
}

pub fn run(args: &Args) {
	quiet_panics();
	let rt = runtime();
	let mut out = Out::new(&args.out);
	let mut id = Ident::new();
	let scratch = args.out.join("scratch");
	std::fs::create_dir_all(&scratch).unwrap();
	out.rule = RULE.to_string();
	if let Some(f) = &args.replay {
		for line in std::fs::read_to_string(f).unwrap().lines() {
			let line = line.trim();
			if !line.is_empty() && !line.starts_with('#') {
				run_line(&rt, &mut out, &mut id, &scratch, line);
			}
		}
		let _ = std::fs::remove_dir_all(&scratch);
		out.finish();
		return;
	}
	let mut rng = Rng::new(args.seed);
	let mut next: u64 = 0;

	// ---------------- Part A: container readers and converter wrappers
	let n_a = args.n(11, 36);
	for wi in 0..n_a {
		let dense = wi == 0;
		// world 1: "ocean" – every tile of levels 0..3 present, all byte-identical (< 1000 bytes)
		let ocean = wi == 1;
		// world 2: 4x4 tiles of ~60 KB (incompressible enough to stay > 32 KiB under gzip) in one block:
		// sub-boxes that skip tiles make gaps > 32 KiB between consecutive requested tiles → chunk splits.
		// thorough, world 6: 70 tiles of 1 MiB in one block (> 64 MiB → split by size)
		let big = wi == 2;
		let huge = args.thorough() && wi == 11;
		// world 10: a tall and a wide sparse strip at zoom 10 with tiles 0 / 255 / 256 / 257 / 511 / 512 rows (columns) apart,
		// also aligned to multiples of 256 in TMS (flipped) numbering; boxes 255 / 256 / 257 / 513 / 600 high (wide) that end
		// 256k-1, 256k, 256k+1 rows below a tile: band / block / page boundaries of every reader's stream path
		let tall = wi == 10;
		// world 6: empty (0 bytes) payloads, stored uncompressed (PNG so that mbtiles takes part); world 7: fault injection
		let empties = wi == 6;
		let faulty = wi == 7 || (wi > 11 && wi % 4 == 1);
		// world 8: 2x2 clusters whose skipped tile is exactly 32767 / 32768 / 32769 bytes (chunk gap threshold),
		// stored uncompressed; world 9: extreme coordinates (levels 0, 30, 31; x, y in {0, 2^z-1})
		let gaps = wi == 8;
		let extreme = wi == 9;
		let coords: Vec<Key> = if tall {
			let mut v = vec![];
			let (x0, y0) = (100u32, 130u32);
			for d in [0u32, 1, 255, 256, 257, 511, 512, 513, 700] {
				v.push((10u8, x0, y0 + d));
				v.push((10u8, x0 + d, y0));
			}
			// rows whose TMS number (1023 - y) is a multiple of 256, and their neighbours
			for y in [1023 - 256u32, 1023 - 257, 1023 - 255, 1023 - 512, 1023 - 768] {
				v.push((10u8, x0 + 1, y));
			}
			v.sort();
			v.dedup();
			v
		} else if gaps {
			let mut v = vec![];
			for (z, x0, y0) in [(3u8, 1u32, 2u32), (4, 9, 3), (5, 20, 17)] {
				for (dx, dy) in [(0, 0), (1, 0), (0, 1), (1, 1)] {
					v.push((z, x0 + dx, y0 + dy));
				}
			}
			v
		} else if extreme {
			let mut v = vec![(0u8, 0u32, 0u32)];
			for z in [30u8, 31] {
				let m = ((1u64 << z) - 1) as u32;
				for (x, y) in [(0, 0), (m, 0), (0, m), (m, m), (m - 1, m), (1, 0), (255, 256), (256, 255), (m - 255, m - 256)] {
					v.push((z, x, y));
				}
			}
			v
		} else if big {
			let mut v = vec![];
			for y in 5..9u32 {
				for x in 3..7u32 {
					v.push((4u8, x, y));
				}
			}
			v
		} else if huge {
			let mut v = vec![];
			for y in 10..17u32 {
				for x in 20..30u32 {
					v.push((6u8, x, y));
				}
			}
			v
		} else if ocean {
			let mut v = vec![];
			for z in 0..=3u8 {
				for y in 0..(1u32 << z) {
					for x in 0..(1u32 << z) {
						v.push((z, x, y));
					}
				}
			}
			v
		} else if dense {
			let mut v = vec![];
			for z in 0..=3u8 {
				let s = 1u32 << z;
				for y in 0..s {
					for x in 0..s {
						if rng.chance(1, 2) {
							v.push((z, x, y));
						}
					}
				}
			}
			v
		} else {
			{
				let gaps = rng.chance(2, 3);
				gen_coords(&mut rng, 90, gaps)
			}
		};
		let (fmt, comp) = if tall { (1, 1) } else if gaps { (1, 0) } else if dense || big { (1, 1) } else if ocean || huge { (1, 0) } else if empties { (2, 0) } else { pick_fmt_comp(&mut rng) };
		// payload identity pattern: see `assign_ids_style`
		let style = if dense || big || huge || gaps || tall { 0 } else if ocean { 1 } else if empties { 6 } else if wi < 6 { [0, 1, 0, 4, 2, 5][wi] } else { [0, 0, 0, 1, 2, 2, 3, 4, 4, 5, 6][rng.below(11) as usize] };
		out.count(&format!("A_payload_style_{style}"));
		let tiles = if gaps {
			// per cluster: A (0,0), P (1,0) = the skipped tile of exact size, B (0,1), Q (1,1)
			let mut t = BTreeMap::new();
			for (ci, chunk) in coords.chunks(4).enumerate() {
				let want = [1u64, 2, 3][ci % 3];
				let pid = next_id_where(&mut next, match want { 1 => |i| size_target(i) == Some(32767), 2 => |i| size_target(i) == Some(32768), _ => |i| size_target(i) == Some(32769) });
				next += 1;
				t.insert(chunk[0], next);
				t.insert(chunk[1], pid);
				next += 1;
				t.insert(chunk[2], next);
				next += 1;
				t.insert(chunk[3], next);
			}
			out.count("A_world_gap_threshold_32767_32768_32769");
			t
		} else if big || huge {
			// distinct large payloads: ids that are multiples of 37 (60 KB) resp. 1009 (1 MiB)
			let m = if huge { 1009 } else { 37 };
			coords.iter().enumerate().map(|(i, k)| (*k, m * (1 + i as u64) * if huge { 1 } else { 1010 })).collect()
		} else {
			assign_ids_style(&mut rng, &coords, &mut next, style)
		};
		count_dups(&mut out, &tiles);
		if big {
			out.count("A_world_big_60KB_tiles");
		}
		if huge {
			out.count("A_world_huge_70x1MiB");
		}
		let mut kinds = vec!["mem", "versatiles", "vtx", "pmtiles", "tar", "dir"];
		if mbtiles_ok(fmt, comp) {
			kinds.push("mbtiles");
		}
		// lookups that answer out of order (default stream on top): in memory and over a real pmtiles file
		if !big && !gaps && !extreme && !tall {
			kinds.push("mem^");
			kinds.push("pmtiles^");
		}
		if huge {
			kinds = vec!["versatiles"];
		}
		if gaps {
			kinds = vec!["versatiles", "mem"];
		}
		for kind in kinds {
			// fault injection: the lookup fails for 1-4 coordinates that have a tile and one that has none
			let mut fail: Vec<Key> = vec![];
			if faulty {
				let keys: Vec<Key> = tiles.keys().copied().collect();
				for _ in 0..rng.range(1, 4) {
					fail.push(*rng.pick(&keys));
				}
				let k = *rng.pick(&keys);
				let max = ((1u64 << k.0) - 1) as u32;
				fail.push((k.0, (k.1 + 1).min(max), k.2));
				fail.sort();
				fail.dedup();
				out.count("A_world_faulty");
			}
			let mut tiles_k = tiles.clone();
			if extreme && kind != "mem" {
				// the writers walk the 256-blocks of the advertised level boxes: a source with tiles in all four corners
				// of level 30/31 makes VersaTilesWriter collect 2^44 block boxes (observed: > 60 GB, killed) – an
				// observation about the writers, outside C02; containers get one corner per level
				tiles_k.retain(|k, _| (k.0 == 30 && k.1 <= 256 && k.2 <= 256) || (k.0 == 31 && k.1 > (1 << 30) && k.2 > (1 << 30)) || k.0 == 0);
			}
			let spec = SrcSpec { fmt, comp, kind: kind.to_string(), tiles: tiles_k, fail };
			let specs = vec![spec];
			let w = World::build(&rt, &scratch, &specs);
			out.count(&format!("A_world_{kind}"));
			if std::env::var("VTH_TRACE").is_ok() { eprintln!("A world {wi} {kind}"); }
			if !w.usable() {
				out.count(&format!("A_world_{kind}_unusable"));
				out.notes.push(format!("world {wi} kind {kind}: {}", trunc(w.open_errors[0].as_deref().unwrap_or(""), 200)));
				w.cleanup();
				continue;
			}
			let levels = ask_levels(&mut rng, &specs);
			if tall {
				let (x0, y0) = (100u32, 130u32);
				let mut boxes = vec![];
				let ys: Vec<u32> = tiles.keys().filter(|k| k.1 <= x0 + 1).map(|k| k.2).collect();
				let xs: Vec<u32> = tiles.keys().filter(|k| k.2 == y0).map(|k| k.1).collect();
				for (i, t) in ys.iter().enumerate() {
					for k in [1u32, 2] {
						for d in [-1i64, 0, 1] {
							let h = [255u32, 256, 257, 513, 600][(i + k as usize + (d + 1) as usize) % 5];
							let ymax = (*t as i64 + 256 * k as i64 + d).clamp(0, 1023) as u32;
							let ymin = ymax.saturating_sub(h - 1);
							boxes.push(TileBBox::new(10, x0.saturating_sub(1), ymin, x0 + 1, ymax).unwrap());
						}
					}
				}
				for (i, t) in xs.iter().enumerate() {
					for k in [1u32, 2] {
						let w_ = [256u32, 257, 513][(i + k as usize) % 3];
						let xmax = (*t + 256 * k).min(1023);
						let xmin = xmax.saturating_sub(w_ - 1);
						boxes.push(TileBBox::new(10, xmin, y0.saturating_sub(1), xmax, y0 + 1).unwrap());
					}
				}
				boxes.truncate(args.n(48, 120));
				out.count("A_world_tall_band_boundaries");
				run_in_world(&rt, &mut out, &mut id, &w, "C02", "S", "L0", &boxes_arg(&boxes));
				if kind == "versatiles" || kind == "vtx" {
					reader_line(&rt, &mut out, &mut id, &w, "C02v", "S", &boxes_arg(&boxes));
				} else if kind == "mbtiles" {
					reader_line(&rt, &mut out, &mut id, &w, "C02m", "S", &boxes_arg(&boxes));
				}
			}
			if gaps {
				let mut boxes = vec![];
				for chunk in coords.chunks(4) {
					let (z, x, y) = chunk[0];
					for (a, b, c, d) in [(x, y, x, y + 1), (x + 1, y, x + 1, y + 1), (x, y, x + 1, y + 1), (x, y, x + 1, y), (x, y + 1, x + 1, y + 1), (x, y, x, y)] {
						boxes.push(TileBBox::new(z, a, b, c, d).unwrap());
					}
				}
				run_in_world(&rt, &mut out, &mut id, &w, "C02", "S", "L0", &boxes_arg(&boxes));
				if kind == "versatiles" {
					reader_line(&rt, &mut out, &mut id, &w, "C02v", "S", &boxes_arg(&boxes));
				}
			}
			if big || huge {
				// every sub-box of the tile region (big) / the full box, single columns and rows, cut boxes (huge)
				let (z, x0, y0, x1, y1) = if big { (4u8, 3u32, 5u32, 6u32, 8u32) } else { (6u8, 20, 10, 29, 16) };
				let mut boxes = vec![];
				if big {
					for a in x0..=x1 {
						for b in a..=x1 {
							for c in y0..=y1 {
								for d in c..=y1 {
									boxes.push(TileBBox::new(z, a, c, b, d).unwrap());
								}
							}
						}
					}
					boxes.push(TileBBox::new(z, 0, 0, 15, 15).unwrap());
				} else {
					boxes.push(TileBBox::new(z, 0, 0, 63, 63).unwrap());
					boxes.push(TileBBox::new(z, 22, 10, 22, 16).unwrap());
					boxes.push(TileBBox::new(z, 20, 12, 29, 12).unwrap());
					boxes.push(TileBBox::new(z, 21, 11, 27, 15).unwrap());
				}
				run_in_world(&rt, &mut out, &mut id, &w, "C02", "S", "L0", &boxes_arg(&boxes));
				if (kind == "versatiles" || kind == "vtx") && big {
					reader_line(&rt, &mut out, &mut id, &w, "C02v", "S", &boxes_arg(&boxes));
				}
				if kind == "versatiles" && huge {
					// the model materialises the chunk blobs as lists (64 MiB for the full box): thorough tier only
					reader_line(&rt, &mut out, &mut id, &w, "C02v", "S", &boxes_arg(&boxes));
				}
				if huge {
					w.cleanup();
					continue;
				}
			}
			for (z, present) in levels.iter() {
				let boxes = gen_boxes(&mut rng, *z, present, if dense || ocean { 3 } else { 2 }, args.n(16, 60));
				run_in_world(&rt, &mut out, &mut id, &w, "C02", "S", "L0", &boxes_arg(&boxes));
				// the reader models on the real file's index / table
				if kind == "versatiles" || kind == "vtx" {
					reader_line(&rt, &mut out, &mut id, &w, "C02v", "S", &boxes_arg(&boxes));
				} else if kind == "mbtiles" {
					reader_line(&rt, &mut out, &mut id, &w, "C02m", "S", &boxes_arg(&boxes));
				}
			}
			if kind == "versatiles" || kind == "vtx" || kind == "mbtiles" {
				let cs = coords_arg(&mut rng, &specs, 4);
				reader_line(&rt, &mut out, &mut id, &w, if kind == "mbtiles" { "C02m" } else { "C02v" }, "G", &cs);
			}
			if faulty {
				// the default stream under filters: errors stay dropped, nothing else is lost
				for (z, present) in levels.iter().take(3) {
					let boxes = gen_boxes(&mut rng, *z, present, 1, args.n(10, 20));
					let zf = zoom_arg(&mut rng, &levels);
					run_in_world(&rt, &mut out, &mut id, &w, "C02", "S", &format!("L0,{zf}"), &boxes_arg(&boxes));
					run_in_world(&rt, &mut out, &mut id, &w, "C02", "S", "L0,Zn:n", &boxes_arg(&boxes));
				}
				run_in_world(&rt, &mut out, &mut id, &w, "C02", "G", "L0", &coords_arg(&mut rng, &specs, 2));
			}
			// readers whose stream is the trait default: a stream while four tasks hammer lookups on the same reader object
			if !faulty && (kind == "pmtiles" || kind == "tar" || kind == "dir" || kind == "mem") && !huge {
				if let Some((z, present)) = levels.iter().find(|(_, v)| v.len() >= 3) {
					let probes: Vec<versatiles_core::types::TileCoord3> = present.iter().map(|(x, y)| versatiles_core::types::TileCoord3::new(*x, *y, *z).unwrap()).collect();
					let (x0, x1) = (present.iter().map(|p| p.0).min().unwrap(), present.iter().map(|p| p.0).max().unwrap());
					let (y0, y1) = (present.iter().map(|p| p.1).min().unwrap(), present.iter().map(|p| p.1).max().unwrap());
					if (x1 - x0) as u64 * (y1 - y0) as u64 <= 4096 {
						let b = TileBBox::new(*z, x0, y0, x1, y1).unwrap();
						if let Ok(Ok(rd)) = catch(|| rt.block_on(async { w.reader(0).await })) {
							stream_under_lookup_load(&rt, &mut out, rd, &b, probes, "C02", &format!("C02 S L0 {} {}", w.env_string(), show_box(&b)));
						}
					}
				}
			}
			if !faulty && kind != "mem" {
				// the same through the real PipelineReader (a .vpl file next to the container)
				for (z, present) in levels.iter().take(2) {
					let boxes = gen_boxes(&mut rng, *z, present, 1, 6);
					run_in_world(&rt, &mut out, &mut id, &w, "C02", "V", &format!("L0,{}", zoom_arg(&mut rng, &levels)), &boxes_arg(&boxes));
				}
			}
			// converter wrappers: all four flag pairs
			for flags in ["00", "10", "01", "11", "00r", "11r"] {
				for (z, present) in levels.iter().take(3) {
					let boxes = gen_boxes(&mut rng, *z, present, 1, args.n(8, 20));
					run_in_world(&rt, &mut out, &mut id, &w, "C02", "X", flags, &boxes_arg(&boxes));
				}
			}
			w.cleanup();
		}
	}

	// ---------------- Part A2: mbtiles files with SQLite storage-class / schema freedoms (oracle only)
	for v in 0..args.n(8, 40) as u64 {
		let coords = gen_coords(&mut rng, 40, true);
		let (fmt, comp) = if rng.chance(1, 2) { (1, 1) } else { (2, 0) };
		let tiles = assign_ids_style(&mut rng, &coords, &mut next, 0);
		let specs = vec![SrcSpec { fmt, comp, kind: format!("mbx{}", if v % 2 == 0 { v } else { v + 100 }), tiles, fail: vec![] }];
		let w = World::build(&rt, &scratch, &specs);
		out.count("A2_world_mbx");
		if !w.usable() {
			out.count("A2_world_mbx_open_failed");
			out.notes.push(format!("mbx variant {v}: {}", trunc(w.open_errors[0].as_deref().unwrap_or(""), 160)));
			w.cleanup();
			continue;
		}
		let levels = ask_levels(&mut rng, &specs);
		for (z, present) in levels.iter() {
			let boxes = gen_boxes(&mut rng, *z, present, 1, args.n(10, 24));
			run_in_world(&rt, &mut out, &mut id, &w, "C02", "Y", "-", &boxes_arg(&boxes));
		}
		w.cleanup();
	}

	// ---------------- Part B: generated pipelines
	let n_b = args.n(10, 80);
	let max_depth = args.n(3, 5) as u32;
	for _ in 0..n_b {
		let specs = gen_sources(&mut rng, &mut next, 2, 4, 50);
		let w = World::build(&rt, &scratch, &specs);
		out.count("B_world");
		if !w.usable() {
			out.count("B_world_unusable");
			out.notes.push(format!("pipeline world unusable: {:?}", w.open_errors.iter().flatten().map(|e| trunc(e, 120)).collect::<Vec<_>>()));
			w.cleanup();
			continue;
		}
		let levels = ask_levels(&mut rng, &specs);
		for _ in 0..args.n(3, 4) {
			let depth = rng.range(1, max_depth as u64) as u32;
			let rpn = gen_pipe(&mut rng, depth, specs.len(), &levels);
			out.count(&format!("B_pipe_depth_{depth}"));
			for h in ["Z", "B", "O", "M", "U", "D"] {
				if rpn.split(',').any(|t| t.starts_with(h)) {
					out.count(&format!("B_pipe_has_{h}"));
				}
			}
			run_in_world(&rt, &mut out, &mut id, &w, "C02", "P", &rpn, "");
			run_in_world(&rt, &mut out, &mut id, &w, "C02", "G", &rpn, &coords_arg(&mut rng, &specs, 4));
			if let Some((z, present)) = levels.iter().next() {
				let boxes = gen_boxes(&mut rng, *z, present, 0, 5);
				run_in_world(&rt, &mut out, &mut id, &w, "C02", "V", &rpn, &boxes_arg(&boxes));
			}
			for (z, present) in levels.iter() {
				let boxes = gen_boxes(&mut rng, *z, present, 1, args.n(14, 30));
				run_in_world(&rt, &mut out, &mut id, &w, "C02", "S", &rpn, &boxes_arg(&boxes));
			}
		}
		w.cleanup();
	}
	// ---------------- Part C: every operation x every operation, nested two (quick) and three (thorough) deep, over a
	// world whose tiles are spread over several 32x32 sub-boxes and a 256-block border; boxes of width / height
	// 31, 32, 33, 63, 64, 65 at offsets = 0, 1, 31 (mod 32)
	{
		let mut specs = vec![];
		let kinds = ["mem", "versatiles", "vtx~11", "pmtiles"];
		for (i, kind) in kinds.iter().enumerate() {
			let mut coords: Vec<Key> = vec![];
			for _ in 0..45 {
				coords.push((9u8, 200 + rng.below(100) as u32, 210 + rng.below(100) as u32));
			}
			for _ in 0..6 {
				coords.push((2u8, rng.below(4) as u32, rng.below(4) as u32));
			}
			coords.sort();
			coords.dedup();
			let style = [0u64, 2, 0, 3][i];
			specs.push(SrcSpec { fmt: 1, comp: [0u32, 1, 2, 1][i], kind: kind.to_string(), tiles: assign_ids_style(&mut rng, &coords, &mut next, style), fail: vec![] });
		}
		let w = World::build(&rt, &scratch, &specs);
		out.count("C_world");
		if w.usable() {
			let levels = levels_of(&specs);
			let mut grid_boxes = vec![];
			for (off, len) in [(224u32, 31u32), (224, 32), (224, 33), (225, 32), (225, 63), (255, 32), (255, 33), (224, 64), (224, 65), (225, 64), (255, 65), (256, 31)] {
				grid_boxes.push(TileBBox::new(9, off, off + 1, off + len - 1, off + len).unwrap());
				grid_boxes.push(TileBBox::new(9, off, 230, off + len - 1, 232).unwrap());
			}
			let small = vec![TileBBox::new(2, 0, 0, 3, 3).unwrap(), TileBBox::new(2, 1, 1, 2, 3).unwrap(), TileBBox::new(9, 250, 250, 262, 262).unwrap()];
			let unary: Vec<String> = vec!["Z2:9".into(), "Z9:2".into(), "Zn:5".into(), geo_arg(&mut rng, &levels), format!("B{}:{}:{}:{}", (-180.0f64).to_bits(), (-90.0f64).to_bits(), 180.0f64.to_bits(), 90.0f64.to_bits()), "U".into()];
			let bases: Vec<String> = vec!["L0".into(), "L2".into(), "D1".into(), "L0,L1,O2".into(), "L1,L2,L3,O3".into(), "L0,L3,M2".into(), "L2,D1,O2".into(), "L0,L0,O2".into(), "L1,L1,M2".into()];
			let mut pipes: Vec<String> = vec![];
			for b in bases.iter() {
				pipes.push(b.clone());
				for u in unary.iter() {
					pipes.push(format!("{b},{u}"));
					if args.thorough() {
						for u2 in unary.iter() {
							pipes.push(format!("{b},{u},{u2}"));
						}
					}
				}
			}
			for u in unary.iter() {
				for t in ["O2", "M2"] {
					pipes.push(format!("L0,{u},L1,{t}"));
					pipes.push(format!("L0,{u},L2,{u},{t},{u}"));
					pipes.push(format!("L0,L1,{t},{u},L3,O2"));
				}
			}
			for t in ["O2", "M2"] {
				for t2 in ["O2", "M2"] {
					pipes.push(format!("L0,L1,{t},L2,L3,{t},{t2}"));
				}
			}
			let cs = coords_arg(&mut rng, &specs, 2);
			for (pi, rpn) in pipes.iter().enumerate() {
				out.count("C_pipe_systematic");
				run_in_world(&rt, &mut out, &mut id, &w, "C02", "P", rpn, "");
				run_in_world(&rt, &mut out, &mut id, &w, "C02", "S", rpn, &boxes_arg(&small));
				if pi % 4 == 0 {
					run_in_world(&rt, &mut out, &mut id, &w, "C02", "G", rpn, &cs);
				}
			}
			for rpn in ["L0,L1,O2", "L1,L2,L3,O3", "L0,L3,M2", "L0,L1,L2,L3,O4", "L1", "L2"] {
				out.count("C_pipe_grid_boxes");
				run_in_world(&rt, &mut out, &mut id, &w, "C02", "S", rpn, &boxes_arg(&grid_boxes));
			}
			// image formats of from_debug (PNG/JPG/WEBP encoders): a few tiles only
			for d in ["D2", "D2f", "D3", "D4"] {
				run_in_world(&rt, &mut out, &mut id, &w, "C02", "S", d, "1:0,0,1,0;31:5,5,5,5;3:1,1,0,0");
				run_in_world(&rt, &mut out, &mut id, &w, "C02", "P", d, "");
			}
			// bulk requests on the image sources: boxes just above 1024 tiles (33x32, 32x33) and, thorough, above 4096, alone
			// and below a filter (a bulk path that switches encoder settings by box size changes bytes, not coordinates; seed C02-13)
			for d in ["D2", "D2,Z2:9"] {
				out.count("C_debug_image_bulk_boxes");
				run_in_world(&rt, &mut out, &mut id, &w, "C02", "S", d, if args.thorough() { "6:0,0,32,31;7:3,5,34,37;7:0,0,64,63" } else { "6:0,0,32,31" });
			}
			if args.thorough() {
				for d in ["D2f", "D3", "D4"] {
					run_in_world(&rt, &mut out, &mut id, &w, "C02", "S", d, "6:0,0,32,31;7:3,5,34,37");
				}
			}
		} else {
			out.notes.push(format!("part C world unusable: {:?}", w.open_errors));
		}
		w.cleanup();
	}
	// ---------------- Part D: overlays / merges of 3-5 sources with L-shaped, framed, checkerboard, nested coverages inside one
	// 32x32 sub-box, in every rotation and some random orders
	for _ in 0..args.n(4, 16) {
		let specs = shape_sources(&mut rng, &mut next);
		let w = World::build(&rt, &scratch, &specs);
		out.count("D_world_shapes");
		if w.usable() {
			let boxes = shape_boxes(&specs);
			for ord in overlay_orders(&mut rng, specs.len(), args.n(2, 6)) {
				let leaves = ord.iter().map(|i| format!("L{i}")).collect::<Vec<_>>().join(",");
				for t in ["O", "M"] {
					if t == "M" && ord[0] != 0 {
						continue;
					}
					let rpn = format!("{leaves},{t}{}", ord.len());
					out.count("D_pipe_shapes");
					run_in_world(&rt, &mut out, &mut id, &w, "C02", "S", &rpn, &boxes_arg(&boxes));
				}
			}
		}
		w.cleanup();
	}
	out.notes.push("checklist: (2) undecodable payloads and files truncated/replaced after open are outside C02's statement (it quantifies over working sources); lookup errors after open are covered by FaultySource. A faulty leaf under from_overlayed / from_vectortiles_merged makes the lookup Err while the stream falls through to / merges the other sources: an observation, not a finding (lookups there do not return a tile). (6) concurrency 1 vs > window of the parallel stream stages is C14's subject (num_cpus); here: several streams at once on one source object, boxes larger than the window, straggler sources. (7) HTTP: n.a. (9) containers written by the independent versatiles encoder (kind vtx: blob order row-major / random / reverse / column-major, shared offsets of any size, gaps up to 40 KB, padded ranges, empty blocks) take part in parts A, B, C; independent pmtiles/mbtiles encoders are C16's.".to_string());
	for _ in 0..args.n(6, 30) {
		probe_merge_layers(&rt, &mut out, &mut rng);
	}
	let _ = std::fs::remove_dir_all(&scratch);
	out.finish();
}
