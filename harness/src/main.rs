#![allow(dead_code)]
//! `vth <property> [--tier quick|thorough] [--seed N] --out DIR [--replay FILE] [extra…]`
//! Drives the real versatiles-rs crates; writes cases.txt / impl.txt / stats.json into DIR.
mod common;
mod c04;
mod c20;
mod memsrc;

use common::Args;
use std::path::PathBuf;

fn main() {
	let mut argv = std::env::args().skip(1);
	let prop = argv.next().expect("property id");
	let mut args = Args { tier: "quick".into(), seed: 1, out: PathBuf::from("."), replay: None, extra: vec![] };
	while let Some(a) = argv.next() {
		match a.as_str() {
			"--tier" => args.tier = argv.next().unwrap(),
			"--seed" => args.seed = argv.next().unwrap().parse().unwrap(),
			"--out" => args.out = PathBuf::from(argv.next().unwrap()),
			"--replay" => args.replay = Some(PathBuf::from(argv.next().unwrap())),
			_ => args.extra.push(a),
		}
	}
	match prop.as_str() {
		"C04" => c04::run(&args),
		"C20" => c20::run(&args),
		_ => {
			eprintln!("unknown property {prop}");
			std::process::exit(2);
		}
	}
}
