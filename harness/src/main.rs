#![allow(dead_code)]
//! `vth <property> [--tier quick|thorough] [--seed N] --out DIR [--replay FILE] [extra…]`
//! Drives the real versatiles-rs crates; writes cases.txt / impl.txt / stats.json into DIR.
mod common;
mod alloc_count;
mod c01_extra;
mod c01_sparse;
mod c19;
mod c19_gen;
mod indep_mvt;
mod c04;
mod c05;
mod c07;
mod c14;
mod c10;
mod c11;
mod c11csv;
mod c11g;
mod c15;
mod c17;
mod c18;
mod c18x;
mod c12;
mod c13;
mod c20;
mod c06;
mod c03;
mod memsrc;
mod tsrc;
mod c02;
mod c08;
mod c09;
mod indep_formats;
mod c16;
mod c01;
mod c01_getters;
mod boundary;

use common::Args;

#[global_allocator]
static GLOBAL: alloc_count::Counting = alloc_count::Counting;
use std::path::PathBuf;

fn main() {
	let mut argv = std::env::args().skip(1);
	let prop = argv.next().expect("property id");
	let mut args = Args { tier: "quick".into(), seed: 1, out: PathBuf::from("."), replay: None, extra: vec![] };
	while let Some(a) = argv.next() {
		match a.as_str() {
			"--tier" => args.tier = argv.next().unwrap(),
			"--seed" => args.seed = argv.next().unwrap().parse().unwrap(),
			"--out" => args.out = PathBuf::from(argv.next().unwrap()),
			"--replay" => args.replay = Some(PathBuf::from(argv.next().unwrap())),
			_ => args.extra.push(a),
		}
	}
	match prop.as_str() {
		"C10" => c10::run(&args),
		"C11" => c11::run(&args),
		"C15" => c15::run(&args),
		"C17" => c17::run(&args),
		"C04" => c04::run(&args),
		"C05" => c05::run(&args),
		"C18" => c18::run(&args),
		"C07" => c07::run(&args),
		"C14" => c14::run(&args),
		"C12" => c12::run(&args),
		"C13" => c13::run(&args),
		"C20" => c20::run(&args),
		"C06" => c06::run(&args),
		"C03" => c03::run(&args),
		"C16" => c16::run(&args),
		"C01" => c01::run(&args),
		"C02" => c02::run(&args),
		"C08" => c08::run(&args),
		"C09" => c09::run(&args),
		"C19" => c19::run(&args),
		"C19child" => c19::child(&args),
		"C01child" => c01_sparse::child(&args),
		_ => {
			eprintln!("unknown property {prop}");
			std::process::exit(2);
		}
	}
}
